(* C11 - visible_line_to_row_col, the two remaining clauses of "the rows shown
   are consecutive document lines in order":
   (A) every character registered in rowcol_to_yx on screen row y belongs to
       the document line recorded for y in visible_line_to_row_col - for ALL
       character widths, prefixes, both modes, every scroll state;
   (B) the column recorded for a wrapped row is larger than the column recorded
       for the row before it (same line) - whenever every character fits the
       body (dw c <= width: the window can hold the widest character). *)
From Coq Require Import ZArith List Bool Lia.
From PTK Require Import Lib.Sx Lib.Py Model.C11_Scroll Model.C11_CopyBody Proofs.C11_RowsFacts.
Import ListNotations.
Open Scope Z_scope.

(* keys of a chain are at most the newest key *)
Lemma chain_get_le : forall L y0 v y e, chain ((y0, v) :: L) ->
  zlist_get ((y0, v) :: L) y = Some e -> y <= y0.
Proof.
  intros L y0 v y e H Hg. cbn [zlist_get] in Hg. destruct (y0 =? y) eqn:E; [lia|].
  destruct (Z_le_gt_dec y y0) as [Hle | Hgt]; [exact Hle|].
  rewrite (chain_keys_below L y0 v H y) in Hg; [discriminate | lia].
Qed.

Lemma get_push_fresh {V} : forall (L : list (Z * V)) k v y e,
  zlist_get L y = Some e -> y <> k -> zlist_get ((k, v) :: L) y = Some e.
Proof. intros L k v y e H Hne. cbn [zlist_get]. destruct (k =? y) eqn:E; [lia | exact H]. Qed.

(* ---------------------------------------------------------------------- *)
(* (A) registered characters sit on a row recorded for their line *)
Section RegRows.
  Variables (sw dw : Z -> Z) (disp : Z -> str).
  Variables (wrap haspfx : bool) (pfx : Z -> Z -> str).
  Variables (width height xpos ypos : Z).

  Local Notation put' := (put sw dw disp width xpos ypos).
  Local Notation copy_plain' := (copy_plain sw dw disp wrap width height xpos ypos).
  Local Notation copy_input' := (copy_input sw dw disp wrap haspfx pfx width height xpos ypos).
  Local Notation copy_line' := (copy_line sw dw disp wrap haspfx pfx width height xpos ypos).
  Local Notation copy_lines' := (copy_lines sw dw disp wrap haspfx pfx width height xpos ypos).

  Definition regs_ok (s : cst) : Prop :=
    forall k p, In (k, p) (cr2 s) -> exists c0, zlist_get (cvl s) (fst p - ypos) = Some (fst k, c0).

  Definition vlr (lineno : Z) (s : cst) : Prop := vl_ok lineno s /\ regs_ok s.

  Lemma put_vlr : forall isin kc c s lineno, vlr lineno s -> vlr lineno (put' isin lineno kc c s).
  Proof.
    intros isin kc c s lineno [H1 H2]. split; [now apply put_ok|].
    destruct (put_rows sw dw disp width xpos ypos isin lineno kc c s) as [_ B].
    unfold regs_ok. rewrite B. intros k p Hin.
    unfold put in Hin. destruct (_ && _) in Hin; cbn [cr2] in Hin; [|now apply H2].
    destruct isin; [|now apply H2].
    destruct Hin as [Heq | Hin]; [|now apply H2].
    inversion Heq; subst k p. cbn [fst]. replace (cy s + ypos - ypos) with (cy s) by lia.
    destruct H1 as [_ Hh]. destruct (cvl s) as [|[y [l c1]] r]; [contradiction|].
    destruct Hh as [-> ->]. exists c1. cbn [zlist_get]. now rewrite Z.eqb_refl.
  Qed.

  Lemma wrap_row_vlr : forall lineno s, vlr lineno s -> vlr lineno (wrap_row lineno s).
  Proof.
    intros lineno s [H1 H2]. split; [now apply wrap_row_ok|].
    unfold regs_ok, wrap_row. cbn [cvl cr2 cy]. intros k p Hin.
    destruct (H2 k p Hin) as [c0 Hc0]. exists c0. apply get_push_fresh; [exact Hc0|].
    destruct H1 as [Hch Hh]. destruct (cvl s) as [|[y [l c1]] r] eqn:E; [contradiction|].
    destruct Hh as [Hy _]. pose proof (chain_get_le r y (l, c1) _ _ Hch Hc0). lia.
  Qed.

  Lemma copy_plain_vlr : forall cs lineno s, vlr lineno s -> vlr lineno (copy_plain' cs lineno s).
  Proof.
    induction cs as [|c r IH]; intros lineno s H; cbn [copy_plain]; [exact H|].
    destruct (wrap && _).
    - destruct (height <=? _); [now apply wrap_row_vlr|].
      apply IH. apply put_vlr. now apply wrap_row_vlr.
    - apply IH. now apply put_vlr.
  Qed.

  Lemma copy_input_vlr : forall cs lineno col sk wc s,
    vlr lineno s -> vlr lineno (copy_input' cs lineno col sk wc s).
  Proof.
    induction cs as [|c r IH]; intros lineno col sk wc s H; cbn [copy_input]; [exact H|].
    destruct (wrap && _).
    - assert (H2 : vlr lineno (if haspfx then copy_plain' (pfx lineno (wc + 1)) lineno (wrap_row lineno s)
                               else wrap_row lineno s)).
      { destruct haspfx; [apply copy_plain_vlr|]; now apply wrap_row_vlr. }
      destruct (height <=? _); [exact H2|]. apply IH. now apply put_vlr.
    - apply IH. now apply put_vlr.
  Qed.

  Lemma copy_line_vlr : forall h line lineno s, vlr lineno s -> vlr lineno (copy_line' h line lineno s).
  Proof.
    intros h line lineno s H. unfold copy_line.
    assert (H1 : vlr lineno (if haspfx then copy_plain' (pfx lineno 0) lineno s else s)).
    { destruct haspfx; [now apply copy_plain_vlr | exact H]. }
    destruct (h =? 0); [now apply copy_input_vlr|].
    destruct (skip_loop sw line h 0) as [[line' h'] sk]. apply copy_input_vlr.
    destruct H1 as [[A B] C]. split; [split; [exact A | exact B] | exact C].
  Qed.

  Definition between_r (lineno : Z) (s : cst) : Prop := between lineno s /\ regs_ok s.

  Lemma copy_lines_regs : forall h rest lineno s,
    between_r lineno s -> regs_ok (copy_lines' h rest lineno s).
  Proof.
    induction rest as [|line r IH]; intros lineno s [[H1 H2] H3]; cbn [copy_lines]; [exact H3|].
    destruct (cy s <? height); [|exact H3].
    apply IH.
    set (s0 := mkcst 0 (cy s) (cscr s) (cr2 s) ((cy s, (lineno, h)) :: cvl s)).
    assert (H0 : vlr lineno s0).
    { split.
      - unfold vl_ok, s0. cbn [cvl cy]. split; [|split; reflexivity].
        destruct (cvl s) as [|[y [l c]] r'] eqn:E; [exact I|]. destruct H2 as [<- <-].
        cbn [chain]. repeat split; [now right | exact H1].
      - unfold regs_ok, s0. cbn [cvl cr2]. intros k p Hin.
        destruct (H3 k p Hin) as [c0 Hc0]. exists c0. apply get_push_fresh; [exact Hc0|].
        destruct (cvl s) as [|[y [l c1]] r'] eqn:E; [discriminate|].
        destruct H2 as [Hy _]. pose proof (chain_get_le r' y (l, c1) _ _ H1 Hc0). lia. }
    destruct (copy_line_vlr h line lineno s0 H0) as [[A B] C].
    split; [|exact C].
    unfold between. cbn [cvl cy]. split; [exact A|].
    destruct (cvl (copy_line' h line lineno s0)) as [|[y [l c]] r']; [exact I|].
    destruct B as [-> ->]. split; reflexivity.
  Qed.
End RegRows.

Lemma alist_get_in {V} : forall (l : list ((Z * Z) * V)) k v, alist_get l k = Some v ->
  exists k', In (k', v) l /\ fst k' = fst k /\ snd k' = snd k.
Proof.
  induction l as [|[k0 v0] r IH]; intros k v H; [discriminate|].
  cbn [alist_get] in H. destruct (pos_eqb k0 k) eqn:E.
  - inversion H; subst v0. exists k0. split; [now left|].
    unfold pos_eqb in E. apply andb_prop in E. destruct E as [E1 E2]. split; lia.
  - destruct (IH k v H) as (k' & Hin & Hk). exists k'. split; [now right | exact Hk].
Qed.

(* every character registered on a screen row belongs to the line recorded for that row *)
Lemma registered_row_line : forall sw dw disp wrap haspfx pfx width height xpos ypos lines st,
  let out := copy_body sw dw disp wrap haspfx pfx width height xpos ypos lines st in
  forall l c y x, alist_get (cr2 out) (l, c) = Some (y, x) ->
    exists c0, zlist_get (cvl out) (y - ypos) = Some (l, c0).
Proof.
  intros sw dw disp wrap haspfx pfx width height xpos ypos lines st out l c y x Hg.
  destruct (alist_get_in _ _ _ Hg) as (k' & Hin & Hk1 & _). cbn [fst] in Hk1.
  assert (R : regs_ok ypos out).
  { unfold out, copy_body. apply copy_lines_regs. split.
    - unfold between. cbn [cvl chain]. split; exact I.
    - unfold regs_ok. cbn [cr2]. intros k p [] . }
  destruct (R k' (y, x) Hin) as [c0 Hc0]. cbn [fst] in Hc0. rewrite Hk1 in Hc0. now exists c0.
Qed.

(* ---------------------------------------------------------------------- *)
(* (B) the recorded column increases along the rows of one line *)
Fixpoint chain2 (l : list (Z * (Z * Z))) : Prop :=
  match l with
  | (y', (l', c')) :: (((y, (l0, c0)) :: _) as r) =>
      y' = y + 1 /\ ((l' = l0 /\ c0 < c') \/ l' = l0 + 1) /\ chain2 r
  | _ => True
  end.

Lemma chain2_chain : forall L, chain2 L -> chain L.
Proof.
  induction L as [|[y' [l' c']] r IH]; intros H; [exact I|].
  destruct r as [|[y [l0 c0]] r']; [exact I|].
  cbn [chain2] in H. destruct H as (E & Hl & Hr). cbn [chain]. split; [exact E|]. split; [tauto|]. now apply IH.
Qed.

Lemma chain2_tail : forall e L, chain2 (e :: L) -> chain2 L.
Proof. intros [y [l c]] L H. destruct L as [|[y1 [l1 c1]] r]; [exact I|]. cbn [chain2] in H. tauto. Qed.

Lemma chain2_lookup : forall L y l c l' c', chain2 L ->
  zlist_get L y = Some (l, c) -> zlist_get L (y + 1) = Some (l', c') ->
  (l' = l /\ c < c') \/ l' = l + 1.
Proof.
  induction L as [|[y0 [l0 c0]] r IH]; intros y l c l' c' H Hy Hy1; [discriminate|].
  cbn [zlist_get] in Hy, Hy1.
  destruct (y0 =? y + 1) eqn:E1.
  - inversion Hy1; subst l' c'; clear Hy1.
    destruct (y0 =? y) eqn:E0; [lia|].
    destruct r as [|[y1 [l1 c1]] r']; [discriminate|].
    cbn [chain2] in H. destruct H as (E & Hl & _).
    cbn [zlist_get] in Hy. destruct (y1 =? y) eqn:E2; [|lia].
    inversion Hy; subst. exact Hl.
  - destruct (y0 =? y) eqn:E0.
    + exfalso. rewrite (chain_keys_below r y0 (l0, c0) (chain2_chain _ H) (y + 1)) in Hy1; [discriminate | lia].
    + apply (IH y l c l' c'); try assumption. exact (chain2_tail _ _ H).
Qed.

Definition vl_ok2 (lineno : Z) (s : cst) : Prop :=
  chain2 (cvl s) /\
  match cvl s with [] => False | (y, (l, _)) :: _ => y = cy s /\ l = lineno end.

Section Columns.
  Variables (sw dw : Z -> Z) (disp : Z -> str).
  Variables (wrap haspfx : bool) (pfx : Z -> Z -> str).
  Variables (width height xpos ypos : Z).
  (* every character that is drawn fits the window body *)
  Hypothesis Hdw : forall c, dw c <= width.

  Local Notation put' := (put sw dw disp width xpos ypos).
  Local Notation copy_plain' := (copy_plain sw dw disp wrap width height xpos ypos).
  Local Notation copy_input' := (copy_input sw dw disp wrap haspfx pfx width height xpos ypos).
  Local Notation copy_line' := (copy_line sw dw disp wrap haspfx pfx width height xpos ypos).
  Local Notation copy_lines' := (copy_lines sw dw disp wrap haspfx pfx width height xpos ypos).

  Lemma put_ok2 : forall isin l kc c s lineno, vl_ok2 lineno s -> vl_ok2 lineno (put' isin l kc c s).
  Proof.
    intros isin l kc c s lineno [H1 H2]. destruct (put_rows sw dw disp width xpos ypos isin l kc c s) as [A B].
    unfold vl_ok2. rewrite A, B. split; assumption.
  Qed.

  (* a row is only wrapped when something has been drawn on it: 0 < x *)
  Lemma wrap_row_ok2 : forall lineno s, 0 < cx s -> vl_ok2 lineno s -> vl_ok2 lineno (wrap_row lineno s).
  Proof.
    intros lineno s Hx [H1 H2]. unfold vl_ok2, wrap_row. cbn [cvl cy].
    destruct (cvl s) as [|[y [l c]] r] eqn:E; [contradiction|]. destruct H2 as [-> ->].
    split; [|split; reflexivity]. cbn [zlist_get]. rewrite Z.eqb_refl. cbn [snd chain2].
    split; [reflexivity|]. split; [left; split; [reflexivity | lia] | exact H1].
  Qed.

  Lemma wrap_cond_pos : forall c s, wrap && (width <? cx s + dw c) = true -> 0 < cx s.
  Proof.
    intros c s H. apply andb_prop in H. destruct H as [_ H]. pose proof (Hdw c). lia.
  Qed.

  Lemma copy_plain_ok2 : forall cs lineno s, vl_ok2 lineno s -> vl_ok2 lineno (copy_plain' cs lineno s).
  Proof.
    induction cs as [|c r IH]; intros lineno s H; cbn [copy_plain]; [exact H|].
    destruct (wrap && _) eqn:Ew.
    - pose proof (wrap_cond_pos c s Ew) as Hx.
      destruct (height <=? _); [now apply wrap_row_ok2|].
      apply IH. apply put_ok2. now apply wrap_row_ok2.
    - apply IH. now apply put_ok2.
  Qed.

  Lemma copy_input_ok2 : forall cs lineno col sk wc s,
    vl_ok2 lineno s -> vl_ok2 lineno (copy_input' cs lineno col sk wc s).
  Proof.
    induction cs as [|c r IH]; intros lineno col sk wc s H; cbn [copy_input]; [exact H|].
    destruct (wrap && _) eqn:Ew.
    - pose proof (wrap_cond_pos c s Ew) as Hx.
      assert (H2 : vl_ok2 lineno (if haspfx then copy_plain' (pfx lineno (wc + 1)) lineno (wrap_row lineno s)
                                  else wrap_row lineno s)).
      { destruct haspfx; [apply copy_plain_ok2|]; now apply wrap_row_ok2. }
      destruct (height <=? _); [exact H2|]. apply IH. now apply put_ok2.
    - apply IH. now apply put_ok2.
  Qed.

  Lemma copy_line_ok2 : forall h line lineno s, vl_ok2 lineno s -> vl_ok2 lineno (copy_line' h line lineno s).
  Proof.
    intros h line lineno s H. unfold copy_line.
    assert (H1 : vl_ok2 lineno (if haspfx then copy_plain' (pfx lineno 0) lineno s else s)).
    { destruct haspfx; [now apply copy_plain_ok2 | exact H]. }
    destruct (h =? 0); [now apply copy_input_ok2|].
    destruct (skip_loop sw line h 0) as [[line' h'] sk]. apply copy_input_ok2.
    destruct H1 as [A B]. split; exact A || exact B.
  Qed.

  Definition between2 (lineno : Z) (s : cst) : Prop :=
    chain2 (cvl s) /\
    match cvl s with [] => True | (y, (l, _)) :: _ => y + 1 = cy s /\ l + 1 = lineno end.

  Lemma copy_lines_chain2 : forall h rest lineno s,
    between2 lineno s -> chain2 (cvl (copy_lines' h rest lineno s)).
  Proof.
    induction rest as [|line r IH]; intros lineno s [H1 H2]; cbn [copy_lines]; [exact H1|].
    destruct (cy s <? height); [|exact H1].
    apply IH.
    set (s0 := mkcst 0 (cy s) (cscr s) (cr2 s) ((cy s, (lineno, h)) :: cvl s)).
    assert (H0 : vl_ok2 lineno s0).
    { unfold vl_ok2, s0. cbn [cvl cy]. split; [|split; reflexivity].
      destruct (cvl s) as [|[y [l c]] r'] eqn:E; [exact I|]. destruct H2 as [<- <-].
      cbn [chain2]. repeat split; [now right | exact H1]. }
    destruct (copy_line_ok2 h line lineno s0 H0) as [A B].
    unfold between2. cbn [cvl cy]. split; [exact A|].
    destruct (cvl (copy_line' h line lineno s0)) as [|[y [l c]] r']; [exact I|].
    destruct B as [-> ->]. split; reflexivity.
  Qed.
End Columns.

(* two successive rows: the next document line, or the same line further right *)
Lemma rows_columns_increase : forall sw dw disp wrap haspfx pfx width height xpos ypos lines st,
  (forall c, dw c <= width) ->
  let out := copy_body sw dw disp wrap haspfx pfx width height xpos ypos lines st in
  forall y l c l' c',
    zlist_get (cvl out) y = Some (l, c) -> zlist_get (cvl out) (y + 1) = Some (l', c') ->
    (l' = l /\ c < c') \/ l' = l + 1.
Proof.
  intros sw dw disp wrap haspfx pfx width height xpos ypos lines st Hdw out y l c l' c'.
  apply chain2_lookup. unfold out, copy_body. apply copy_lines_chain2; [exact Hdw|].
  unfold between2. cbn [cvl chain2]. split; exact I.
Qed.

(* the hypothesis is needed: a 2-cell character in a 1-cell body wraps an EMPTY
   row, and the same column is recorded twice *)
Lemma rows_columns_wide_in_narrow_window :
  let out := copy_body (fun _ => 2) (fun _ => 2) (fun c => [c]) true false (fun _ _ => []) 1 3 0 0
               [[30028; 32]] (mkss 0 0 0) in
  zlist_get (cvl out) 0 = Some (0, 0) /\ zlist_get (cvl out) 1 = Some (0, 0).
Proof. vm_compute. split; reflexivity. Qed.
