(* The lock-free-read repair of C13-F2: exactly-once for EVERY schedule. *)
From Coq Require Import ZArith List Bool Lia.
From PTK Require Import Lib.Sx Lib.Py Model.C13_Threaded Model.C13_ThreadedF3 Proofs.C13_ThreadedFacts.
Import ListNotations.
Open Scope Z_scope.

(* one locked read, abstractly *)
Lemma read_core (ls T base V0 V1 out cstart : list str) (iy np p0 : nat) (loaded : bool) :
  ls = rev (V0 ++ V1) ++ T -> pre T (rev base) -> (loaded = true -> T = rev base) ->
  cstart = base ++ V0 -> np = (p0 + length V1)%nat ->
  pre out (rev cstart) -> length out = iy ->
  let new := skipn ((np - p0) + iy) ls in
  (loaded = true -> out ++ new = rev cstart) /\
  (loaded = false -> pre (out ++ new) (rev cstart) /\ length (out ++ new) = (iy + length new)%nat).
Proof.
  intros HL HT HD E2 E3 Hpre Hlen new.
  assert (Hview : new = skipn iy (rev V0 ++ T)).
  { unfold new. rewrite skipn_add. f_equal.
    replace (np - p0)%nat with (length V1) by lia.
    rewrite HL, rev_app_distr, <- app_assoc. apply skipn_rev_app. }
  assert (Hvpre : pre (rev V0 ++ T) (rev cstart)).
  { rewrite E2, rev_app_distr. now apply pre_app_l. }
  rewrite Hview. split.
  - intros El. rewrite (HD El) in *. rewrite <- Hlen. rewrite (pre_join _ _ _ Hpre Hvpre).
    + rewrite E2, rev_app_distr. reflexivity.
    + apply pre_length. rewrite E2, rev_app_distr in Hpre. exact Hpre.
  - intros _. destruct (Nat.le_gt_cases (length out) (length (rev V0 ++ T))) as [H|H].
    + rewrite <- Hlen. rewrite (pre_join _ _ _ Hpre Hvpre H). split; [exact Hvpre|].
      rewrite skipn_length. lia.
    + rewrite skipn_all2 by lia. rewrite app_nil_r. cbn [length]. split; [exact Hpre|lia].
Qed.

Definition core (st : tstate3) (A T : list str) : Prop :=
  s_store st = s_base st ++ A /\ s_ls st = rev (A ++ s_later st) ++ T /\
  pre T (rev (s_base st)) /\ (s_loaded st = true -> T = rev (s_base st)).

Definition phinv3 (st : tstate3) : Prop :=
  match s_ph st with
  | Q0 => s_cons st = [] /\ s_loaded st = false /\ s_later st = []
  | Q2 => core st [] [] /\ s_loaded st = false
  | Q2b p => core st [] [] /\ p = rev (s_base st) /\ s_loaded st = false
  | Q3 p => exists A T, core st A T /\ T ++ p = rev (s_base st) /\ s_later st = [] /\ s_loaded st = false
  | Q4 => exists A, core st A (rev (s_base st)) /\ s_later st = [] /\ s_loaded st = true
  end.

Definition cinv3 (st : tstate3) (c : consumer) : Prop :=
  if c_fin c then c_out c = rev (c_start c)
  else match s_ph st with
       | Q0 => False
       | _ => exists V0 V1,
                s_store st ++ s_later st = s_base st ++ V0 ++ V1 /\
                c_start c = s_base st ++ V0 /\
                s_np st = (c_p0 c + length V1)%nat /\
                pre (c_out c) (rev (c_start c)) /\ length (c_out c) = c_iy c
       end.

Definition Inv3 (st : tstate3) : Prop := phinv3 st /\ Forall (cinv3 st) (s_cons st).

Lemma core_of st : phinv3 st -> s_ph st <> Q0 -> exists A T, core st A T.
Proof.
  unfold phinv3. destruct (s_ph st); intros H Hn; try congruence.
  - destruct H as (H & _). eauto.
  - destruct H as (H & _). eauto.
  - destruct H as (A & T & H & _). eauto.
  - destruct H as (A & H & _). eauto.
Qed.

Lemma cinv3_set_ev st c : cinv3 st c -> cinv3 st (set_ev c).
Proof. unfold cinv3, set_ev. destruct (c_fin c) eqn:E; [now rewrite E|]. cbn. auto. Qed.

Lemma cinv3_ext st st' c :
  (s_ph st = Q0 <-> s_ph st' = Q0) -> s_store st' ++ s_later st' = s_store st ++ s_later st ->
  s_base st' = s_base st -> s_np st' = s_np st -> cinv3 st c -> cinv3 st' c.
Proof.
  unfold cinv3. intros Hq Hs Hb Hn. destruct (c_fin c); [auto|].
  destruct (s_ph st) eqn:E1; destruct (s_ph st') eqn:E2; try tauto;
    try (exfalso; destruct Hq as [H1 H2]; (discriminate (H1 eq_refl) || discriminate (H2 eq_refl)));
    rewrite Hs, Hb, Hn; auto.
Qed.

Lemma cinv3_read st c : phinv3 st -> cinv3 st c -> cinv3 st (read3 st c).
Proof.
  intros Hp Hc. unfold read3. destruct (c_fin c) eqn:Ef; [exact Hc|].
  unfold cinv3 in *. rewrite Ef in Hc. cbn [c_fin c_out c_iy c_start c_p0].
  destruct (s_ph st) eqn:Eph; [contradiction| | | |];
    (destruct (core_of st Hp) as (A & T & HS & HL & HT & HD); [rewrite Eph; discriminate|];
     destruct Hc as (V0 & V1 & E1 & E2 & E3 & Hpre & Hlen);
     assert (EA : A ++ s_later st = V0 ++ V1)
       by (rewrite HS in E1; rewrite <- app_assoc in E1; now apply app_inv_head in E1);
     rewrite EA in HL;
     destruct (read_core _ _ _ _ _ _ _ (c_iy c) (s_np st) (c_p0 c) (s_loaded st) HL HT HD E2 E3 Hpre Hlen) as [R1 R2];
     destruct (s_loaded st) eqn:El;
     [exact (R1 eq_refl)|
      exists V0, V1; destruct (R2 eq_refl) as [R3 R4]; repeat split; auto]).
Qed.

Lemma Forall_upd_nth' {T} (P : T -> Prop) (f : T -> T) l i :
  (forall x, P x -> P (f x)) -> Forall P l -> Forall P (upd_nth l i f).
Proof. apply Forall_upd_nth. Qed.

Lemma step4_inv st l : Inv3 st -> Inv3 (tstep4 st l).
Proof.
  intros [Hp Hc]. destruct l as [| |i|s].
  - (* loader *)
    unfold tstep4. unfold phinv3 in Hp. destruct (s_ph st) as [| |p|[|x r]|] eqn:Eph.
    + split; [unfold phinv3; now rewrite Eph|exact Hc].
    + destruct Hp as ((HS & HL & HT & HD) & Hl). split.
      * unfold phinv3, core. cbn.
        split; [split; [exact HS|split; [exact HL|split; [exact HT|exact HD]]]|].
        split; [rewrite HS, app_nil_r; reflexivity|exact Hl].
      * eapply Forall_impl; [|exact Hc]. intros c. apply cinv3_ext; cbn; try reflexivity.
        rewrite Eph. split; discriminate.
    + destruct Hp as ((HS & HL & HT & HD) & Hpb & Hl). split.
      * rewrite app_nil_r in HS. cbn [app] in HL. rewrite app_nil_r in HL.
        unfold phinv3, core. cbn. exists (s_later st), [].
        split; [split; [rewrite HS; reflexivity|split; [rewrite !app_nil_r; exact HL|split; [exact HT|exact HD]]]|].
        split; [exact Hpb|split; [reflexivity|exact Hl]].
      * eapply Forall_impl; [|exact Hc]. intros c. apply cinv3_ext; cbn; try reflexivity.
        -- rewrite Eph. split; discriminate.
        -- now rewrite app_nil_r.
    + destruct Hp as (A & T & (HS & HL & HT & HD) & H3 & Hla & Hl). rewrite app_nil_r in H3. split.
      * unfold phinv3, core. cbn. exists A. subst T. repeat split; auto using pre_refl.
      * apply Forall_map. eapply Forall_impl; [|exact Hc]. intros c Hci. apply cinv3_set_ev.
        revert Hci. apply cinv3_ext; cbn; try reflexivity. rewrite Eph. split; discriminate.
    + destruct Hp as (A & T & (HS & HL & HT & HD) & H3 & Hla & Hl). split.
      * unfold phinv3, core. cbn. exists A, (T ++ [x]). rewrite HL, <- !app_assoc. cbn [app].
        repeat split; auto.
        -- exists r. rewrite <- H3, <- app_assoc. reflexivity.
        -- congruence.
      * apply Forall_map. eapply Forall_impl; [|exact Hc]. intros c Hci. apply cinv3_set_ev.
        revert Hci. apply cinv3_ext; cbn; try reflexivity. rewrite Eph. split; discriminate.
    + split; [unfold phinv3; now rewrite Eph|exact Hc].
  - (* load() *)
    unfold tstep4. pose proof Hp as Hp'. unfold phinv3 in Hp. destruct (s_ph st) as [| |p|p|] eqn:Eph.
    + destruct Hp as (Hcons & Hl & Hla). split.
      * unfold phinv3, core. cbn. rewrite Hla. cbn. rewrite app_nil_r. repeat split; auto.
        -- apply pre_nil.
        -- congruence.
      * rewrite Hcons. cbn [app]. constructor; [|constructor].
        unfold cinv3, new_cons3. cbn. exists [], []. rewrite Hla, !app_nil_r. cbn.
        repeat split; auto. apply pre_nil.
    + split; [unfold phinv3; cbn; exact Hp|]. apply Forall_app. split.
      * eapply Forall_impl; [|exact Hc]. intros c. apply cinv3_ext; cbn; try reflexivity. rewrite Eph. tauto.
      * constructor; [|constructor]. destruct Hp as ((HS & _) & _).
        unfold cinv3, new_cons3. cbn. exists (s_later st), []. rewrite HS, !app_nil_r. cbn.
        repeat split; auto. apply pre_nil.
    + split; [unfold phinv3; cbn; exact Hp|]. apply Forall_app. split.
      * eapply Forall_impl; [|exact Hc]. intros c. apply cinv3_ext; cbn; try reflexivity. rewrite Eph. tauto.
      * constructor; [|constructor]. destruct Hp as ((HS & _) & _).
        unfold cinv3, new_cons3. cbn. exists (s_later st), []. rewrite HS, !app_nil_r. cbn.
        repeat split; auto. apply pre_nil.
    + split; [unfold phinv3; cbn; exact Hp|]. apply Forall_app. split.
      * eapply Forall_impl; [|exact Hc]. intros c. apply cinv3_ext; cbn; try reflexivity. rewrite Eph. tauto.
      * constructor; [|constructor]. destruct Hp as (A & T & (HS & _) & _).
        unfold cinv3, new_cons3. cbn. exists (A ++ s_later st), []. rewrite HS, !app_nil_r, <- !app_assoc. cbn.
        repeat split; auto. apply pre_nil.
    + split; [unfold phinv3; cbn; exact Hp|]. apply Forall_app. split.
      * eapply Forall_impl; [|exact Hc]. intros c. apply cinv3_ext; cbn; try reflexivity. rewrite Eph. tauto.
      * constructor; [|constructor]. destruct Hp as (A & (HS & _) & _).
        unfold cinv3, new_cons3. cbn. exists (A ++ s_later st), []. rewrite HS, !app_nil_r, <- !app_assoc. cbn.
        repeat split; auto. apply pre_nil.
  - (* read *)
    unfold tstep4. split.
    + unfold phinv3, core in *. cbn. destruct (s_ph st); try exact Hp.
      destruct Hp as (E & H). rewrite E. cbn. auto.
    + cbn [s_cons]. apply Forall_upd_nth'; [|exact Hc]. intros c Hci.
      eapply cinv3_ext; [..|apply (cinv3_read st c Hp Hci)]; cbn; try reflexivity; try tauto.
  - (* append_string *)
    unfold tstep4. pose proof Hp as Hp'. unfold phinv3 in Hp. destruct (s_ph st) as [| |p|p|] eqn:Eph; cbn [in_window].
    + destruct Hp as (Hcons & Hl & Hla). split.
      * unfold phinv3. cbn. rewrite ?Eph. auto.
      * cbn [s_cons]. rewrite Hcons. constructor.
    + destruct Hp as ((HS & HL & HT & HD) & Hl). split.
      * unfold phinv3, core. cbn. rewrite ?Eph. cbn [app] in *. rewrite HL, rev_app_distr. cbn. repeat split; auto.
      * eapply Forall_impl; [|exact Hc]. intros c Hci. unfold cinv3 in *. cbn. rewrite ?Eph in *.
        destruct (c_fin c); [exact Hci|]. destruct Hci as (V0 & V1 & E1 & E2 & E3 & E4 & E5).
        exists V0, (V1 ++ [s]). rewrite app_assoc, E1, app_length, <- !app_assoc. cbn. repeat split; auto. lia.
    + destruct Hp as ((HS & HL & HT & HD) & Hpb & Hl). split.
      * unfold phinv3, core. cbn. rewrite ?Eph. cbn [app] in *. rewrite HL, rev_app_distr. cbn. repeat split; auto.
      * eapply Forall_impl; [|exact Hc]. intros c Hci. unfold cinv3 in *. cbn. rewrite ?Eph in *.
        destruct (c_fin c); [exact Hci|]. destruct Hci as (V0 & V1 & E1 & E2 & E3 & E4 & E5).
        exists V0, (V1 ++ [s]). rewrite app_assoc, E1, app_length, <- !app_assoc. cbn. repeat split; auto. lia.
    + destruct Hp as (A & T & (HS & HL & HT & HD) & H3 & Hla & Hl). split.
      * unfold phinv3, core. cbn. rewrite ?Eph. exists (A ++ [s]), T. rewrite Hla, app_nil_r in *.
        rewrite HS, HL, rev_app_distr, <- app_assoc. cbn. repeat split; auto.
      * eapply Forall_impl; [|exact Hc]. intros c Hci. unfold cinv3 in *. cbn. rewrite ?Eph in *.
        destruct (c_fin c); [exact Hci|]. destruct Hci as (V0 & V1 & E1 & E2 & E3 & E4 & E5).
        exists V0, (V1 ++ [s]). rewrite Hla, app_nil_r in *. rewrite E1, app_length, <- !app_assoc. cbn.
        repeat split; auto. lia.
    + destruct Hp as (A & (HS & HL & HT & HD) & Hla & Hl). split.
      * unfold phinv3, core. cbn. rewrite ?Eph. exists (A ++ [s]). rewrite Hla, app_nil_r in *.
        rewrite HS, HL, rev_app_distr, <- app_assoc. cbn. repeat split; auto.
      * eapply Forall_impl; [|exact Hc]. intros c Hci. unfold cinv3 in *. cbn. rewrite ?Eph in *.
        destruct (c_fin c); [exact Hci|]. destruct Hci as (V0 & V1 & E1 & E2 & E3 & E4 & E5).
        exists V0, (V1 ++ [s]). rewrite Hla, app_nil_r in *. rewrite E1, app_length, <- !app_assoc. cbn.
        repeat split; auto. lia.
Qed.

Lemma sched4_inv sched : forall st, Inv3 st -> Inv3 (trun4 st sched).
Proof.
  induction sched as [|l r IH]; intros st Hi; [exact Hi|].
  unfold trun4. cbn [fold_left]. apply IH. now apply step4_inv.
Qed.

Lemma init_inv3 S0 : Inv3 (tinit3 S0).
Proof. unfold Inv3, tinit3, phinv3. cbn. repeat split; auto. Qed.

(* EVERY schedule, no exclusion, the slow read outside the lock. *)
Theorem threaded_exactly_once_f3 S0 sched c :
  let st := trun4 (tinit3 S0) sched in
  In c (s_cons st) ->
  (c_fin c = true -> c_out c = rev (c_start c)) /\
  (c_fin c = false -> pre (c_out c) (rev (c_start c))) /\
  (s_loaded st = true -> s_ls st = rev (s_store st) /\ s_later st = []).
Proof.
  intros st Hin. destruct (sched4_inv sched _ (init_inv3 S0)) as (Hp & Hc).
  fold st in Hp, Hc. rewrite Forall_forall in Hc. specialize (Hc c Hin). unfold cinv3 in Hc.
  split; [|split].
  - intros E. now rewrite E in Hc.
  - intros E. rewrite E in Hc. destruct (s_ph st); [contradiction| | | |];
      destruct Hc as (V0 & V1 & _ & _ & _ & H & _); exact H.
  - intros El. unfold phinv3 in Hp. destruct (s_ph st).
    + destruct Hp as (_ & H & _). congruence.
    + destruct Hp as (_ & H). congruence.
    + destruct Hp as (_ & _ & H). congruence.
    + destruct Hp as (A & T & _ & _ & _ & H). congruence.
    + destruct Hp as (A & (HS & HL & _) & Hla & _). split; [|exact Hla].
      rewrite HL, HS, Hla, app_nil_r. rewrite (rev_app_distr (s_base st)). reflexivity.
Qed.

(* the C13-F2 window under this repair: two appends between the first load()
   and the snapshot, a second load() after them *)
Definition window_sched4 : list label4 :=
  [CStart4; Append4 snew; Append4 sc; CStart4; LStep4; LStep4; LStep4; LStep4; LStep4; CRead4 0; CRead4 1].

Lemma window_fixed_f3 :
  let st := trun4 (tinit3 [sa; sb]) window_sched4 in
  s_store st = [sa; sb; snew; sc] /\ s_ls st = [sc; snew; sb; sa] /\
  map c_out (s_cons st) = [[sb; sa]; [sc; snew; sb; sa]] /\ map c_fin (s_cons st) = [true; true].
Proof. vm_compute. auto. Qed.
