(* C08 - the range of a LINEWISE object, from C02's coordinate lemmas: for
   ends inside the text, operator_range expands [lo, hi] to the start of lo's
   line and the end of hi's line, inside the text and in order.  This removes
   the in-bounds / ordered hypothesis of the linewise delete theorem. *)
From Coq Require Import ZArith List Bool Lia.
From PTK Require Import Lib.Sx Lib.Py Model.Document Model.BufferEdit Model.C02_DocQueries
  Model.C08_ViOps Proofs.C02_Coords Proofs.C08_ViFacts Proofs.C08_Lines.
Import ListNotations.
Open Scope Z_scope.

Lemma c08_firstn_plus {T} (s : list T) : forall i k,
  firstn (i + k) s = firstn i s ++ firstn k (skipn i s).
Proof.
  induction s as [|x s IH]; intros i k.
  - rewrite !firstn_nil, skipn_nil, firstn_nil. reflexivity.
  - destruct i as [|i]; [reflexivity|]. cbn [Nat.add firstn skipn app]. rewrite IH. reflexivity.
Qed.

Lemma count_char_firstn_mono c (s : str) (i j : nat) :
  (i <= j)%nat -> count_char c (firstn i s) <= count_char c (firstn j s).
Proof.
  intros H. replace j with (i + (j - i))%nat by lia.
  rewrite c08_firstn_plus, c02_count_char_app.
  pose proof (c02_count_char_nonneg c (firstn (j - i) (skipn i s))). lia.
Qed.

Lemma starts_mono ls pos (a b : nat) :
  (a <= b < length ls)%nat -> nth a (starts ls pos) 0 <= nth b (starts ls pos) 0.
Proof.
  intros [Hab Hb]. destruct (Nat.eq_dec a b) as [->|Hne]; [lia|].
  pose proof (C02c_starts_sorted ls pos a b ltac:(lia)). lia.
Qed.

Lemma operator_range_linewise d o :
  ttype o = LINEW ->
  let lo := dcur d + Z.min (tstart o) (tend o) in
  let hi := dcur d + Z.max (tstart o) (tend o) in
  0 <= lo -> hi <= len (dtext d) ->
  let f := dcur d + fst (operator_range d o) in
  let t := dcur d + snd (operator_range d o) in
  0 <= f /\ f <= lo /\ hi <= t /\ t <= len (dtext d).
Proof.
  intros Ht lo hi Hlo Hhi.
  assert (Hlh : lo <= hi) by (unfold lo, hi; lia).
  unfold operator_range, to_sorted.
  set (s := Z.min (tstart o) (tend o)) in *. set (e := Z.max (tstart o) (tend o)) in *.
  assert (Hse : (if tstart o <? tend o then (tstart o, tend o) else (tend o, tstart o)) = (s, e)).
  { unfold s, e. destruct (tstart o <? tend o) eqn:E; f_equal; lia. }
  rewrite Hse, Ht. cbn [is_excl is_incl is_linew andb fst snd].
  replace (s + dcur d) with lo by (unfold lo; lia).
  replace (e + dcur d) with hi by (unfold hi; lia).
  destruct (translate_index_to_position d lo) as [r1 c1] eqn:E1.
  destruct (translate_index_to_position d hi) as [r2 c2] eqn:E2.
  cbn [fst snd].
  destruct (C02c_index_to_position_spec d lo r1 c1 ltac:(lia) E1)
    as (R1 & C1 & _ & _ & V1 & L1 & _).
  destruct (C02c_index_to_position_spec d hi r2 c2 ltac:(lia) E2)
    as (R2 & C2 & _ & _ & V2 & L2 & _).
  assert (Hr : r1 <= r2).
  { rewrite R1, R2. apply count_char_firstn_mono. lia. }
  (* lo and hi through the round trip *)
  pose proof (C02c_index_roundtrip d lo ltac:(lia)) as RT1. rewrite E1 in RT1. cbn [fst snd] in RT1.
  pose proof (C02c_index_roundtrip d hi ltac:(lia)) as RT2. rewrite E2 in RT2. cbn [fst snd] in RT2.
  rewrite C02c_row_col_to_index_valid in RT1 by (try assumption; lia).
  rewrite C02c_row_col_to_index_valid in RT2 by (try assumption; lia).
  (* the line of row r2 *)
  unfold line_at. unfold line_count in V2.
  rewrite (c02_index_nth (lines d) r2 []) by exact V2.
  pose proof (len_nonneg (nth (Z.to_nat r2) (lines d) [])) as Hl2.
  rewrite (C02c_row_col_to_index_valid d r1 0) by (try assumption; lia).
  pose proof (C02c_row_col_to_index_bounds d r2 (len (nth (Z.to_nat r2) (lines d) []))) as B2.
  rewrite (C02c_row_col_to_index_valid d r2) in * by (try (unfold line_count; assumption); lia).
  assert (Hs : nth (Z.to_nat r1) (starts (lines d) 0) 0 <= nth (Z.to_nat r2) (starts (lines d) 0) 0).
  { apply starts_mono. unfold len in V2. lia. }
  pose proof (C02c_row_col_to_index_bounds d r1 0) as B1.
  rewrite (C02c_row_col_to_index_valid d r1 0) in B1 by (try assumption; lia).
  lia.
Qed.

(* linewise delete / change without any hypothesis on the range: only that
   both ends of the object are inside the text *)
Lemma op_delete_linewise_inbounds delete_only st o ev :
  ttype o = LINEW ->
  let b := vbuf st in
  let lo := bcur b + Z.min (tstart o) (tend o) in
  let hi := bcur b + Z.max (tstart o) (tend o) in
  0 <= lo -> hi <= len (btext b) ->
  let a := line_lo (btext b) (bcur b + fst (operator_range (bdoc b) o)) in
  let e := line_hi (btext b) (bcur b + snd (operator_range (bdoc b) o)) in
  let removed := firstn (Z.to_nat (e - a)) (skipn (Z.to_nat a) (btext b)) in
  0 <= a <= lo /\ hi <= e <= len (btext b) /\
  vbuf (snd (op_delete delete_only false st o ev)) =
    mkbuf (firstn (Z.to_nat a) (btext b) ++ skipn (Z.to_nat e) (btext b)) a /\
  fst (op_delete delete_only false st o ev) = 0 /\
  vclip (snd (op_delete delete_only false st o ev)) =
    (if nonempty (strip_final_nl removed) then Some (mkcd (strip_final_nl removed) 1) else vclip st) /\
  vreg (snd (op_delete delete_only false st o ev)) = vreg st.
Proof.
  intros Ht b lo hi Hlo Hhi a e removed.
  destruct (operator_range_linewise (bdoc b) o Ht Hlo Hhi) as (H0 & H1 & H2 & H3).
  cbn [bdoc dcur dtext] in H0, H1, H2, H3. fold b in H0, H1, H2, H3. fold lo hi in H1, H2.
  assert (Hlh : lo <= hi) by (unfold lo, hi; lia).
  assert (Hft : bcur b + fst (operator_range (bdoc b) o) <= bcur b + snd (operator_range (bdoc b) o)) by lia.
  destruct (op_delete_linewise delete_only st o ev Ht H0 Hft H3) as (Ba & Be & Hrest).
  fold b in Ba, Be, Hrest. fold a e in Ba, Be, Hrest. fold removed in Hrest.
  split; [lia|]. split; [lia|]. exact Hrest.
Qed.
