(* C18 - facts about _ExplodedList (Model/C18_Exploded.v). *)
From Coq Require Import ZArith List Bool Lia.
From PTK Require Import Lib.Sx Lib.Py Model.C18_Fragments Model.C18_Ansi Model.C18_Exploded
  Proofs.C18_FragmentsFacts.
Import ListNotations.
Open Scope Z_scope.

(* the invariant of an exploded list *)
Definition all_single (l : list frag) : Prop := Forall (fun f => exists c, ftext f = [c]) l.

Lemma explode_all_single vs : all_single (explode vs).
Proof. apply Forall_forall. intros f Hf. exact (explode_single_chars vs f Hf). Qed.

Lemma all_single_app a b : all_single a -> all_single b -> all_single (a ++ b).
Proof. intros Ha Hb. apply Forall_app. now split. Qed.

Lemma in_firstn {T} (x : T) n l : In x (firstn n l) -> In x l.
Proof.
  revert l. induction n as [|n IH]; intros l H; [destruct H|].
  destruct l; [exact H|]. destruct H as [H|H]; [now left | right; now apply IH].
Qed.

Lemma all_single_firstn n l : all_single l -> all_single (firstn n l).
Proof.
  intros H. apply Forall_forall. intros f Hf. unfold all_single in H. rewrite Forall_forall in H.
  apply H. eapply in_firstn; eauto.
Qed.

Lemma in_skipn {T} (x : T) n l : In x (skipn n l) -> In x l.
Proof.
  revert l. induction n as [|n IH]; intros l H; [exact H|].
  destruct l; [exact H|]. right. now apply IH.
Qed.

Lemma all_single_skipn n l : all_single l -> all_single (skipn n l).
Proof.
  intros H. apply Forall_forall. intros f Hf. unfold all_single in H. rewrite Forall_forall in H.
  apply H. eapply in_skipn; eauto.
Qed.

Lemma set_slice_single l lo hi vs :
  all_single l -> all_single vs -> all_single (list_set_slice l lo hi vs).
Proof.
  intros Hl Hv. unfold list_set_slice.
  apply all_single_app; [now apply all_single_firstn|]. apply all_single_app; [assumption | now apply all_single_skipn].
Qed.

(* __setitem__, append and extend keep every element a single character,
   whatever the index or slice *)
Theorem el_invariant l o :
  all_single l -> (forall vs, o <> EIadd vs) -> all_single (el_step l o).
Proof.
  intros Hl Hn. destruct o as [i v|lo hi vs|v|vs|vs]; cbn [el_step].
  - apply set_slice_single; [assumption | apply explode_all_single].
  - apply set_slice_single; [assumption | apply explode_all_single].
  - apply all_single_app; [assumption | apply explode_all_single].
  - apply all_single_app; [assumption | apply explode_all_single].
  - exfalso. now apply (Hn vs).
Qed.

(* lst[i] = v replaces exactly element i by the exploded v, for 0 <= i < len
   and for -len <= i < -1 *)
Theorem setitem_int_replaces l i v :
  0 <= i < len l ->
  setitem_int l i v = firstn (Z.to_nat i) l ++ explode [v] ++ skipn (Z.to_nat (i + 1)) l.
Proof.
  intros H. unfold setitem_int, list_set_slice, adj_index.
  destruct (i <? 0) eqn:E1; [lia|]. destruct (i + 1 <? 0) eqn:E2; [lia|].
  rewrite (Z.min_l i) by lia. rewrite (Z.min_l (i + 1)) by lia. rewrite (Z.max_r i) by lia. reflexivity.
Qed.

Theorem setitem_int_replaces_negative l i v :
  - len l <= i < -1 ->
  setitem_int l i v = firstn (Z.to_nat (i + len l)) l ++ explode [v] ++ skipn (Z.to_nat (i + len l + 1)) l.
Proof.
  intros H. unfold setitem_int, list_set_slice, adj_index.
  destruct (i <? 0) eqn:E1; [|lia]. destruct (i + 1 <? 0) eqn:E2; [|lia].
  rewrite (Z.max_r 0 (i + len l)) by lia. rewrite (Z.max_r 0 (i + 1 + len l)) by lia.
  rewrite (Z.max_r (i + len l)) by lia. now replace (i + 1 + len l) with (i + len l + 1) by lia.
Qed.

(* ... but lst[-1] = v INSERTS before the last element instead of replacing it *)
Theorem setitem_int_minus_one_refuted :
  exists l v, all_single l /\
    setitem_int l (-1) v <> firstn (Z.to_nat (len l - 1)) l ++ explode [v] /\
    setitem_int l (-1) v = firstn (Z.to_nat (len l - 1)) l ++ explode [v] ++ skipn (Z.to_nat (len l - 1)) l.
Proof.
  exists [mkfrag [97] [120] []; mkfrag [98] [122] []], (mkfrag [99] [81] []).
  split; [repeat constructor; eexists; reflexivity|]. split; [vm_compute; discriminate | vm_compute; reflexivity].
Qed.

(* `lst += values` leaves values unexploded in a list that still claims to be
   exploded: explode_text_fragments then returns multi-character fragments *)
Theorem iadd_invariant_refuted :
  exists l vs, all_single l /\ ~ all_single (explode_exploded (el_iadd l vs)).
Proof.
  exists [mkfrag [] [120] []], [mkfrag [] [117; 118] []]. split; [repeat constructor; eexists; reflexivity|].
  intros H. inversion H as [|? ? _ H2]; subst. inversion H2 as [|? ? [c Hc] _]; subst. discriminate.
Qed.

(* plain-list semantics, characterised *)
Theorem setitem_int_listsem_spec l i v :
  let j := if i <? 0 then i + len l else i in
  setitem_int_listsem l i v =
  if (j <? 0) || (len l <=? j) then None
  else Some (firstn (Z.to_nat j) l ++ explode [v] ++ skipn (Z.to_nat (j + 1)) l).
Proof.
  cbn zeta. unfold setitem_int_listsem.
  set (j := if i <? 0 then i + len l else i).
  destruct ((j <? 0) || (len l <=? j)) eqn:E; [reflexivity|].
  apply orb_false_iff in E. destruct E as [E1 E2].
  f_equal. apply (setitem_int_replaces l j v). lia.
Qed.

Theorem iadd_listsem_invariant l vs : all_single l -> all_single (el_iadd_listsem l vs).
Proof. intros H. apply all_single_app; [assumption | apply explode_all_single]. Qed.

(* lst[i] = v for EVERY int index (round 6): what `slice(i, i + 1)` makes of it.
   i >= len appends, 0 <= i < len replaces, i = -1 inserts before the last item,
   -len <= i < -1 replaces, i < -len prepends - no index ever raises. *)
Lemma firstn_len {T} (l : list T) : firstn (Z.to_nat (len l)) l = l.
Proof. unfold len. rewrite Nat2Z.id. apply firstn_all. Qed.

Lemma skipn_len {T} (l : list T) : skipn (Z.to_nat (len l)) l = [].
Proof. unfold len. rewrite Nat2Z.id. apply skipn_all. Qed.

Lemma len_nonneg {T} (l : list T) : 0 <= len l.
Proof. unfold len. lia. Qed.

Theorem setitem_int_total l i v :
  setitem_int l i v =
  if len l <=? i then l ++ explode [v]
  else if 0 <=? i then firstn (Z.to_nat i) l ++ explode [v] ++ skipn (Z.to_nat (i + 1)) l
  else if i =? -1 then firstn (Z.to_nat (len l - 1)) l ++ explode [v] ++ skipn (Z.to_nat (len l - 1)) l
  else if - len l <=? i then
    firstn (Z.to_nat (i + len l)) l ++ explode [v] ++ skipn (Z.to_nat (i + len l + 1)) l
  else explode [v] ++ l.
Proof.
  pose proof (len_nonneg l) as Hn.
  destruct (len l <=? i) eqn:E1.
  { apply Z.leb_le in E1. unfold setitem_int, list_set_slice, adj_index.
    destruct (i <? 0) eqn:A; [lia|]. destruct (i + 1 <? 0) eqn:B; [lia|].
    rewrite (Z.min_r i) by lia. rewrite (Z.min_r (i + 1)) by lia. rewrite Z.max_id.
    now rewrite firstn_len, skipn_len, app_nil_r. }
  apply Z.leb_gt in E1.
  destruct (0 <=? i) eqn:E2.
  { apply Z.leb_le in E2. apply setitem_int_replaces. lia. }
  apply Z.leb_gt in E2.
  destruct (i =? -1) eqn:E3.
  { apply Z.eqb_eq in E3. subst i. unfold setitem_int, list_set_slice, adj_index.
    change (-1 <? 0) with true. change (-1 + 1) with 0. change (0 <? 0) with false. cbn iota.
    rewrite (Z.min_l 0) by lia. rewrite (Z.max_l (Z.max 0 (-1 + len l)) 0) by lia.
    replace (Z.to_nat (Z.max 0 (-1 + len l))) with (Z.to_nat (len l - 1)) by lia. reflexivity. }
  apply Z.eqb_neq in E3.
  destruct (- len l <=? i) eqn:E4.
  { apply Z.leb_le in E4. apply setitem_int_replaces_negative. lia. }
  apply Z.leb_gt in E4. unfold setitem_int, list_set_slice, adj_index.
  destruct (i <? 0) eqn:A; [|lia]. destruct (i + 1 <? 0) eqn:B; [|lia].
  rewrite (Z.max_l 0 (i + len l)) by lia. rewrite (Z.max_l 0 (i + 1 + len l)) by lia.
  reflexivity.
Qed.

(* so the code agrees with plain-list semantics exactly on -len <= i < len, i <> -1 *)
Corollary setitem_int_vs_list l i v r :
  setitem_int_listsem l i v = Some r -> i <> -1 -> setitem_int l i v = r.
Proof.
  intros H Hi. pose proof (setitem_int_listsem_spec l i v) as Hs. cbn zeta in Hs. rewrite Hs in H. clear Hs.
  pose proof (len_nonneg l) as Hn. rewrite setitem_int_total.
  destruct (i <? 0) eqn:A.
  - apply Z.ltb_lt in A.
    destruct ((i + len l <? 0) || (len l <=? i + len l)) eqn:B; [discriminate|]. injection H as <-.
    apply orb_false_iff in B. destruct B as [B1 B2]. apply Z.ltb_ge in B1.
    destruct (len l <=? i) eqn:C; [apply Z.leb_le in C; lia|].
    destruct (0 <=? i) eqn:D; [apply Z.leb_le in D; lia|].
    destruct (i =? -1) eqn:F; [apply Z.eqb_eq in F; lia|].
    destruct (- len l <=? i) eqn:G; [reflexivity | apply Z.leb_gt in G; lia].
  - apply Z.ltb_ge in A.
    destruct ((i <? 0) || (len l <=? i)) eqn:B; [discriminate|]. injection H as <-.
    apply orb_false_iff in B. destruct B as [B1 B2]. rewrite B2.
    destruct (0 <=? i) eqn:D; [reflexivity | apply Z.leb_gt in D; lia].
Qed.

(* the text of the list after extend/append is the old text plus the new text *)
Theorem el_extend_text l vs :
  fragment_list_to_text (el_extend l vs) = fragment_list_to_text l ++ fragment_list_to_text vs.
Proof.
  unfold el_extend. induction l as [|f r IH]; [cbn [app]; apply explode_text|].
  cbn [app fragment_list_to_text]. now rewrite IH, app_assoc.
Qed.
