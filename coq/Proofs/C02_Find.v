(* C02 - find / find_backwards / find_all: the reported match occurs at the
   target, target and match stay inside the text (and on the current line
   for in_current_line). *)
From Coq Require Import ZArith List Bool Lia.
From PTK Require Import Lib.Sx Lib.Py Gen.Whitespace Model.Document Model.C02_DocQueries Proofs.C02_Base.
Import ListNotations.
Open Scope Z_scope.

(* the needle occurs in s at offset k, character-wise under ceq *)
Definition occurs_at (ceq : Z -> Z -> bool) (s : str) (k : Z) (sub : str) : Prop :=
  0 <= k /\ startswith_by ceq (skipn (Z.to_nat k) s) sub = true.

Section Find.
Variable ceq : Z -> Z -> bool.

Lemma startswith_by_len s : forall p, startswith_by ceq s p = true -> len p <= len s.
Proof.
  induction s as [|x s IH]; intros [|y p]; cbn [startswith_by]; intros H;
    rewrite ?len_nil, ?len_cons; try lia; try discriminate.
  - pose proof (len_nonneg s). lia.
  - apply andb_prop in H as [_ H]. specialize (IH _ H). lia.
Qed.

Lemma startswith_by_app s q : forall p,
  startswith_by ceq s p = true -> startswith_by ceq (s ++ q) p = true.
Proof.
  induction s as [|x s IH]; intros [|y p]; cbn [startswith_by app]; intros H;
    try reflexivity; try discriminate.
  - destruct q; reflexivity.
  - apply andb_prop in H as [H1 H2]. rewrite H1, (IH _ H2). reflexivity.
Qed.

Lemma startswith_by_nil s : startswith_by ceq s [] = true.
Proof. destruct s; reflexivity. Qed.

Lemma lit_matches_spec sub s : forall i skip p,
  In p (lit_matches ceq sub s i skip) ->
  i <= p /\ startswith_by ceq (skipn (Z.to_nat (p - i)) s) sub = true /\ p - i + len sub <= len s.
Proof.
  induction s as [|x s IH]; intros i skip p; cbn [lit_matches].
  - destruct skip; [|intros []].
    destruct (startswith_by ceq [] sub) eqn:E; [|intros []].
    intros [<-|[]]. rewrite Z.sub_diag. cbn [Z.to_nat skipn].
    split; [lia|]. split; [exact E|]. apply startswith_by_len in E. lia.
  - assert (Hrec : forall k, In p (lit_matches ceq sub s (i + 1) k) ->
              i <= p /\ startswith_by ceq (skipn (Z.to_nat (p - i)) (x :: s)) sub = true /\
              p - i + len sub <= len (x :: s)).
    { intros k Hin. destruct (IH _ _ _ Hin) as [H1 [H2 H3]].
      split; [lia|]. rewrite len_cons.
      replace (Z.to_nat (p - i)) with (S (Z.to_nat (p - (i + 1)))) by lia.
      cbn [skipn]. split; [exact H2|lia]. }
    destruct skip as [|k]; [|apply Hrec].
    destruct (startswith_by ceq (x :: s) sub) eqn:E; [|apply Hrec].
    intros [<-|Hin]; [|now apply Hrec in Hin].
    rewrite Z.sub_diag. cbn [Z.to_nat skipn]. split; [lia|]. split; [exact E|].
    apply startswith_by_len in E. lia.
Qed.

Lemma find_iter_spec sub s p :
  In p (find_iter ceq sub s) -> occurs_at ceq s p sub /\ p + len sub <= len s.
Proof.
  unfold find_iter. intros H. apply lit_matches_spec in H as [H1 [H2 H3]].
  rewrite Z.sub_0_r in *. repeat split; assumption.
Qed.

Lemma nth_match_in {T} (ms : list T) count x : nth_match ms count = Some x -> In x ms.
Proof.
  unfold nth_match. destruct (count <? 1); [discriminate|]. apply nth_error_In.
Qed.

Lemma slice_from_1 {T} (s : list T) : slice_from s 1 = skipn 1 s.
Proof.
  destruct s as [|x s]; [reflexivity|].
  change 1%nat with (Z.to_nat 1). apply slice_from_in_range; [lia|].
  rewrite len_cons. pose proof (len_nonneg s). lia.
Qed.

Lemma skipn_skipn_nat {T} (s : list T) : forall a b, skipn b (skipn a s) = skipn (a + b) s.
Proof.
  induction s as [|x s IH]; intros a b.
  - now rewrite !skipn_nil.
  - destruct a as [|a]; [reflexivity|]. cbn [skipn Nat.add]. apply IH.
Qed.

Lemma skipn_skipn_Z {T} (s : list T) a b :
  0 <= a -> 0 <= b -> skipn (Z.to_nat b) (skipn (Z.to_nat a) s) = skipn (Z.to_nat (a + b)) s.
Proof.
  intros Ha Hb. rewrite skipn_skipn_nat. f_equal. lia.
Qed.

(* an occurrence in a prefix-extended / suffix-shifted string *)
Lemma occurs_at_app s q k sub :
  occurs_at ceq s k sub -> k <= len s -> occurs_at ceq (s ++ q) k sub.
Proof.
  intros [H0 H] Hk. split; [exact H0|].
  rewrite skipn_app.
  apply startswith_by_app. exact H.
Qed.

Lemma occurs_at_skipn s a k sub :
  0 <= a -> occurs_at ceq (skipn (Z.to_nat a) s) k sub -> occurs_at ceq s (a + k) sub.
Proof.
  intros Ha [H0 H]. split; [lia|]. rewrite <- skipn_skipn_Z by lia. exact H.
Qed.

(* The match chosen by find, in the text that was scanned *)
Lemma dfind_scanned d sub il ic count r :
  dfind ceq d sub il ic count = Some r ->
  let text := if il then current_line_after_cursor d else text_after_cursor d in
  0 <= r /\ (ic = false -> 1 <= r) /\ occurs_at ceq text r sub /\ r + len sub <= len text.
Proof.
  unfold dfind. cbv zeta.
  set (text := if il then current_line_after_cursor d else text_after_cursor d).
  destruct (negb ic && (len text =? 0)) eqn:E0; [discriminate|].
  destruct (nth_match (find_iter ceq sub (if ic then text else slice_from text 1)) count) as [p|] eqn:En;
    [|discriminate].
  intros H; injection H as <-.
  apply nth_match_in in En. apply find_iter_spec in En as [[Hp0 Hocc] Hlen].
  destruct ic.
  - repeat split; try assumption; try lia.
  - rewrite slice_from_1 in *.
    assert (Hne : 1 <= len text).
    { cbn [negb andb] in E0. pose proof (len_nonneg text). destruct (len text =? 0) eqn:E; [discriminate|lia]. }
    rewrite len_skipn in Hlen.
    split; [lia|]. split; [lia|]. split; [|lia].
    rewrite Z.add_comm. apply (occurs_at_skipn text 1 p sub); [lia|].
    split; assumption.
Qed.

Lemma find_in_bounds d sub il ic count r :
  valid d -> dfind ceq d sub il ic count = Some r ->
  0 <= r /\ (ic = false -> 1 <= r) /\ dcur d + r + len sub <= len (dtext d).
Proof.
  intros Hv H. apply dfind_scanned in H. cbv zeta in H.
  destruct H as [H0 [H1 [_ H3]]]. split; [exact H0|]. split; [exact H1|].
  pose proof (len_ta d Hv) as Hta. pose proof (len_cla_le d Hv) as Hcla.
  destruct il; lia.
Qed.

Lemma find_lands d sub il ic count r :
  valid d -> dfind ceq d sub il ic count = Some r -> occurs_at ceq (dtext d) (dcur d + r) sub.
Proof.
  intros Hv H. apply dfind_scanned in H. cbv zeta in H.
  destruct H as [H0 [_ [Hocc Hlen]]].
  assert (Hta : occurs_at ceq (text_after_cursor d) r sub).
  { destruct il; [|exact Hocc].
    destruct (cla_split d) as [q [Hq _]]. rewrite Hq. apply occurs_at_app; [exact Hocc|].
    pose proof (len_nonneg sub). lia. }
  rewrite (ta_skipn d Hv) in Hta. apply occurs_at_skipn; [destruct Hv; lia|exact Hta].
Qed.

Lemma find_same_line d sub ic count r :
  valid d -> dfind ceq d sub true ic count = Some r ->
  0 <= r /\ r + len sub <= len (current_line_after_cursor d).
Proof.
  intros Hv H. apply dfind_scanned in H. cbv zeta in H. destruct H as [H0 [_ [_ H3]]]. lia.
Qed.

Lemma find_all_lands d sub p :
  In p (dfind_all ceq d sub) -> occurs_at ceq (dtext d) p sub /\ p + len sub <= len (dtext d).
Proof. apply find_iter_spec. Qed.

(* ---------------------------------------------------------------------- *)
(* find_backwards: a match of the reversed needle in the reversed prefix *)

Definition ceqv (m p : str) : Prop := Forall2 (fun x y => ceq x y = true) m p.

Lemma startswith_by_iff s p :
  startswith_by ceq s p = true <-> exists m q, s = m ++ q /\ ceqv m p.
Proof.
  revert s; induction p as [|y p IH]; intros s.
  - rewrite startswith_by_nil. split; [|reflexivity]. intros _. exists [], s. split; [reflexivity|constructor].
  - destruct s as [|x s]; cbn [startswith_by].
    + split; [discriminate|]. intros [m [q [He Hf]]]. inversion Hf; subst. discriminate.
    + rewrite andb_true_iff, IH. split.
      * intros [Hc [m [q [-> Hf]]]]. exists (x :: m), q. split; [reflexivity|]. now constructor.
      * intros [m [q [He Hf]]]. inversion Hf as [|x' y' m' p' Hc Hf']; subst.
        cbn [app] in He. injection He as -> ->. split; [exact Hc|]. now exists m', q.
Qed.

Lemma ceqv_rev m p : ceqv m p -> ceqv (rev m) (rev p).
Proof.
  induction 1 as [|x y m p Hc Hf IH]; cbn [rev]; [constructor|].
  apply Forall2_app; [exact IH|]. constructor; [exact Hc|constructor].
Qed.

Lemma ceqv_length m p : ceqv m p -> length m = length p.
Proof. induction 1; cbn [length]; congruence. Qed.

Lemma occurs_at_decomp s k sub :
  k <= len s -> occurs_at ceq s k sub -> exists a m b, s = a ++ m ++ b /\ len a = k /\ ceqv m sub.
Proof.
  intros Hle [H0 H]. apply startswith_by_iff in H as [m [q [He Hf]]].
  exists (firstn (Z.to_nat k) s), m, q. split.
  - rewrite <- He. symmetry. apply firstn_skipn.
  - split; [|exact Hf]. rewrite len_firstn. lia.
Qed.

Lemma occurs_at_comp a m b sub : ceqv m sub -> occurs_at ceq (a ++ m ++ b) (len a) sub.
Proof.
  intros Hf. split; [apply len_nonneg|]. rewrite Z2N_len.
  rewrite skipn_app, skipn_all, Nat.sub_diag. cbn [app skipn].
  apply startswith_by_iff. now exists m, b.
Qed.

Lemma occurs_at_rev s p sub :
  occurs_at ceq (rev s) p (rev sub) -> p + len sub <= len s ->
  occurs_at ceq s (len s - p - len sub) sub.
Proof.
  intros Hocc Hle.
  apply occurs_at_decomp in Hocc; [|rewrite len_rev; pose proof (len_nonneg sub); lia].
  destruct Hocc as [a [m [b [He [Ha Hf]]]]].
  apply (f_equal (@rev Z)) in He. rewrite rev_involutive, !rev_app_distr in He.
  rewrite <- app_assoc in He.
  apply ceqv_rev in Hf. rewrite rev_involutive in Hf.
  pose proof (ceqv_length _ _ Hf) as Hl.
  assert (Hlen : len s - p - len sub = len (rev b)).
  { rewrite He. rewrite !len_app. unfold len in *. rewrite !rev_length in *. lia. }
  rewrite Hlen, He. now apply occurs_at_comp.
Qed.

Lemma back_core (before sub : str) count r :
  match nth_match (find_iter ceq (rev sub) (rev before)) count with
  | Some p => Some (- p - len sub)
  | None => None
  end = Some r ->
  r <= 0 /\ 0 <= len before + r /\ len before + r + len sub <= len before /\
  occurs_at ceq before (len before + r) sub.
Proof.
  destruct (nth_match (find_iter ceq (rev sub) (rev before)) count) as [p|] eqn:En; [|discriminate].
  intros H; injection H as <-.
  apply nth_match_in in En. apply find_iter_spec in En as [Hocc Hlen].
  rewrite !len_rev in Hlen. pose proof (len_nonneg sub) as Hs. destruct Hocc as [Hp0 Hsw].
  split; [lia|]. split; [lia|]. split; [lia|].
  replace (len before + (- p - len sub)) with (len before - p - len sub) by lia.
  apply occurs_at_rev; [split; assumption|lia].
Qed.

Lemma dfind_backwards_scanned d sub il count r :
  dfind_backwards ceq d sub il count = Some r ->
  let before := if il then current_line_before_cursor d else text_before_cursor d in
  r <= 0 /\ 0 <= len before + r /\ len before + r + len sub <= len before /\
  occurs_at ceq before (len before + r) sub.
Proof.
  unfold dfind_backwards. cbv zeta. destruct il; apply back_core.
Qed.

Lemma find_backwards_in_bounds d sub il count r :
  valid d -> dfind_backwards ceq d sub il count = Some r ->
  r <= 0 /\ 0 <= dcur d + r /\ r + len sub <= 0.
Proof.
  intros Hv H. apply dfind_backwards_scanned in H. cbv zeta in H.
  destruct H as [H0 [H1 [H2 _]]].
  pose proof (len_tb d Hv) as Htb. pose proof (len_clb_le d Hv) as Hclb.
  destruct il; lia.
Qed.

Lemma find_backwards_same_line d sub count r :
  valid d -> dfind_backwards ceq d sub true count = Some r ->
  - len (current_line_before_cursor d) <= r /\ r <= 0.
Proof.
  intros Hv H. apply dfind_backwards_scanned in H. cbv zeta in H. lia.
Qed.

Lemma occurs_at_prefix_shift p s k sub :
  occurs_at ceq s k sub -> occurs_at ceq (p ++ s) (len p + k) sub.
Proof.
  intros [H0 H]. split; [pose proof (len_nonneg p); lia|].
  rewrite skipn_app. pose proof (len_nonneg p) as Hp.
  replace (Z.to_nat (len p + k)) with (length p + Z.to_nat k)%nat by (unfold len in *; lia).
  rewrite skipn_all2 by lia. cbn [app].
  replace (length p + Z.to_nat k - length p)%nat with (Z.to_nat k) by lia. exact H.
Qed.

Lemma find_backwards_lands d sub il count r :
  valid d -> dfind_backwards ceq d sub il count = Some r ->
  occurs_at ceq (dtext d) (dcur d + r) sub.
Proof.
  intros Hv H. apply dfind_backwards_scanned in H. cbv zeta in H.
  destruct H as [H0 [H1 [H2 Hocc]]].
  assert (Htb : occurs_at ceq (text_before_cursor d) (dcur d + r) sub).
  { destruct il.
    - destruct (clb_split d) as [p [Hp _]].
      pose proof (len_tb d Hv) as Hl. rewrite Hp in Hl. rewrite len_app in Hl.
      rewrite Hp.
      replace (dcur d + r) with (len p + (len (current_line_before_cursor d) + r)) by lia.
      now apply occurs_at_prefix_shift.
    - rewrite (len_tb d Hv) in Hocc. exact Hocc. }
  rewrite <- (tb_ta d Hv). apply occurs_at_app; [exact Htb|].
  rewrite (len_tb d Hv). lia.
Qed.

End Find.
