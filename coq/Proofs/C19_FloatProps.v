(* C19 - statements about the float kernels of styles/style_transformation.py
   computed on Coq's PRIMITIVE binary64 floats (Model/C19_Float.v).  Statements
   only, in the style of Props/C19.v; kept out of Props/C19.v because the
   thorough tier runs coqchk over the closure of that file and coqchk has no
   VM: the exhaustive vm_compute sweeps below (2^24 colours) take ~1 minute in
   coqc's kernel and ~40 minutes in coqchk.  harness/c19.py builds this file
   with the same machinery (build_proofs + proof_gate) on every run.

   `Print Assumptions` lists the kernel primitives used (float, add, mul, ...:
   declared with `Primitive`, they have computation rules in the kernel and are
   not logical axioms; no FloatAxioms / specification axiom is used). *)
From Coq Require Import ZArith List Bool.
From PTK Require Import Lib.Sx Lib.Py Lib.C19_Str Gen.C19_Palette
     Model.C19_Palette Model.C19_Style Model.C19_Sgr Model.C19_Transform Model.C19_Float
     Proofs.C19_StrFacts Proofs.C19_StyleFacts Proofs.C19_SgrFacts Proofs.C19_StyleStringFacts Proofs.C19_ResolvedFacts
     Proofs.C19_TransformFacts Proofs.C19_FloatChk Proofs.C19_FloatFacts.
Import ListNotations.
Open Scope Z_scope.

(* get_opposite_color's colorsys arithmetic on EVERY one of the 2^24 colours
   (evaluated by vm_compute, Proofs/C19_FloatSweep0-3.v): a value, six
   hexadecimal digits. *)
Theorem C19_opposite_all_colours : forall r g b, 0 <= r <= 255 -> 0 <= g <= 255 -> 0 <= b <= 255 ->
  exists v, opp_bytes r g b = Some v /\ hex6_b v = true.
Proof. exact opp_bytes_ok. Qed.
Print Assumptions C19_opposite_all_colours.

(* ... so the real kernel satisfies the hypotheses the transformation theorems
   make about [opp], for every colour string of six hexadecimal digits in
   either case *)
Theorem C19_opposite_kernel_ok : kernel_ok opp_real /\ kernel_total_hex opp_real.
Proof. exact (conj opp_real_kernel_ok opp_real_total_hex). Qed.
Print Assumptions C19_opposite_kernel_ok.

(* the 24-bit round trip through any transformation tree without an
   AdjustBrightness node, on the REAL arithmetic, with no kernel hypothesis;
   and such a tree never fails on in-domain (e.g. resolved) attributes *)
Theorem C19_sgr_roundtrip_swap_real : forall rules s d a t a',
  no_adjust t = true -> rt_dom d ->
  style_get rules s d = Ok a -> transform_real t a = Ok a' ->
  concrete a' /\ decode_seq (escape_code 24 a') = Ok (canon a').
Proof. exact sgr_roundtrip_swap_real. Qed.
Print Assumptions C19_sgr_roundtrip_swap_real.

Theorem C19_transform_real_total : forall t a,
  no_adjust t = true -> well_formed t = true -> rt_dom a -> exists a', transform_real t a = Ok a'.
Proof. exact transform_real_total. Qed.
Print Assumptions C19_transform_real_total.

(* AdjustBrightness on the real arithmetic: PARTIAL.  Proved: for the 17 ANSI
   colour names (the colours _color_to_rgb looks up) and every pair of bounds
   on the lattice 0, 0.004, ..., 1.0 (251 x 251 pairs; mn, mx in thousandths)
   the new colour exists and is six hexadecimal digits (1.07 M evaluations on
   the kernel's floats).
   MISSING for `forall mn mx, kernel_ok (adj_real mn mx)` (the hypothesis the
   general transformation theorems keep):
     (a) the other 2^24 - 17 colours (six hex digits) for each bound pair -
         2^24 evaluations (~50 s of vm_compute) PER pair;
     (b) the bound pairs off the lattice - in the cases bounds are the floats
         n / 1000.0, i.e. 1001 x 1001 pairs; arbitrary Python floats in [0, 1]
         are a continuum;
     (c) hence all of it needs a rounding-error analysis of
         rgb_to_hls -> min + (max - min) * l -> hls_to_rgb -> int(c * 255)
         showing 0 <= c * 255 < 256 (a float specification such as
         FloatAxioms/Flocq, excluded here), or 2^24 x 10^6 evaluations.
   The real code is checked on (a) for one pair per red plane (thorough op 22,
   every colour, bit-exact with this model) and on a 9 M lattice (sweep_kernels). *)
Theorem C19_adjust_kernel_ansi_partial : forall name r g b mn mx,
  assoc name ansi_colors_to_rgb = Some (r, g, b) -> In mn lattice -> In mx lattice ->
  exists v, adj_real mn mx name = Some v /\ hex6_b v = true.
Proof. exact adjust_kernel_ansi_partial. Qed.
Print Assumptions C19_adjust_kernel_ansi_partial.
