(* C03 - facts about the regenerated table, by computation over the whole
   (finite) table, re-proved whenever Gen/C03_AnsiSequences.v changes; and the
   concrete counterexample to "flush empties the buffer". *)
From Coq Require Import ZArith List Bool Lia.
From PTK Require Import Lib.Sx Lib.Py Lib.C03_Str Gen.C03_AnsiSequences Model.C03_Vt100Parser.
Import ListNotations.
Open Scope Z_scope.

Definition key_eqb (a b : key) : bool :=
  match a, b with
  | KKey x, KKey y => x =? y
  | KChar x, KChar y => x =? y
  | _, _ => false
  end.
Definition event_eqb (a b : event) : bool := key_eqb (fst a) (fst b) && str_eqb (snd a) (snd b).
Fixpoint events_eqb (a b : list event) : bool :=
  match a, b with
  | [], [] => true
  | x :: a', y :: b' => event_eqb x y && events_eqb a' b'
  | _, _ => false
  end.

Lemma key_eqb_eq a b : key_eqb a b = true -> a = b.
Proof. destruct a, b; cbn; intros H; try discriminate; apply Z.eqb_eq in H; now subst. Qed.
Lemma event_eqb_eq a b : event_eqb a b = true -> a = b.
Proof.
  destruct a as [k d], b as [k' d']. unfold event_eqb. cbn [fst snd]. intros H.
  apply andb_true_iff in H. destruct H as [H1 H2].
  apply key_eqb_eq in H1. apply str_eqb_eq in H2. now subst.
Qed.
Lemma events_eqb_eq a b : events_eqb a b = true -> a = b.
Proof.
  revert b. induction a as [|x a IH]; intros [|y b] H; cbn [events_eqb] in H; try discriminate; [reflexivity|].
  apply andb_true_iff in H. destruct H as [H1 H2]. apply event_eqb_eq in H1. subst. f_equal. now apply IH.
Qed.

(* what feeding the sequence [k] of a table entry (k, ks) must emit: the keys
   in order, the whole sequence as data of the first *)
Definition expected_events (k : str) (ks : list Z) : list event :=
  match ks with
  | [] => []
  | k1 :: r => (KKey k1, k) :: map (fun x => (KKey x, [])) r
  end.

Definition nilb {T} (l : list T) : bool := match l with [] => true | _ => false end.
Lemma nilb_nil {T} (l : list T) : nilb l = true -> l = [].
Proof. destruct l; [reflexivity|discriminate]. Qed.

Definition entry_ok (kv : str * list Z) : bool :=
  let st := flush (feed (fst kv) init) in
  if mem_Z key_BracketedPaste (snd kv) then
    str_eqb (fst kv) start_mark && str_eqb (snd kv) [key_BracketedPaste]
    && nilb (prefix st) && in_paste st && nilb (paste_buf st) && nilb (rout st) && negb (oof st)
  else
    events_eqb (out st) (expected_events (fst kv) (snd kv))
    && nilb (prefix st) && negb (in_paste st) && nilb (paste_buf st) && negb (oof st).

Lemma table_all_ok : forallb entry_ok ansi_table = true.
Proof. vm_compute. reflexivity. Qed.

Lemma table_decodes : forall k ks,
  In (k, ks) ansi_table -> mem_Z key_BracketedPaste ks = false ->
  let st := flush (feed k init) in
  out st = expected_events k ks /\ prefix st = [] /\ in_paste st = false /\ paste_buf st = [] /\ oof st = false.
Proof.
  intros k ks HIn HBP.
  pose proof (proj1 (forallb_forall _ _) table_all_ok _ HIn) as H.
  unfold entry_ok in H. cbn [fst snd] in H. rewrite HBP in H.
  repeat (apply andb_true_iff in H; destruct H as [H ?]).
  cbv zeta. repeat split.
  - now apply events_eqb_eq.
  - now apply nilb_nil.
  - now apply negb_true_iff.
  - now apply nilb_nil.
  - now apply negb_true_iff.
Qed.

Lemma table_paste_start : forall k ks,
  In (k, ks) ansi_table -> mem_Z key_BracketedPaste ks = true ->
  k = start_mark /\ ks = [key_BracketedPaste] /\
  flush (feed k init) = mkst [] true [] [] false.
Proof.
  intros k ks HIn HBP.
  pose proof (proj1 (forallb_forall _ _) table_all_ok _ HIn) as H.
  unfold entry_ok in H. cbn [fst snd] in H. rewrite HBP in H.
  apply andb_true_iff in H; destruct H as [H H7].
  apply andb_true_iff in H; destruct H as [H H6].
  apply andb_true_iff in H; destruct H as [H H5].
  apply andb_true_iff in H; destruct H as [H H4].
  apply andb_true_iff in H; destruct H as [H H3].
  apply andb_true_iff in H; destruct H as [H1 H2].
  apply str_eqb_eq in H1. apply str_eqb_eq in H2.
  repeat split; [assumption|assumption|].
  destruct (flush (feed k init)) as [p ip pb ro oo]. cbn [prefix in_paste paste_buf rout oof] in *.
  apply nilb_nil in H3, H5, H6. apply negb_true_iff in H7. subst. reflexivity.
Qed.

(* F2 at the pinned commit: after feed("\x1b[M\x1b"); flush() a character was
   still buffered although no paste was open.  Keys emitted: Escape, '[', 'M'. *)
Lemma flush_pinned_leaves_prefix :
  let st := flush_pinned (feed [27; 91; 77; 27] init) in
  prefix st = [27] /\ in_paste st = false /\ oof st = false /\
  out st = [(KKey key_Escape, [27]); (KChar 91, [91]); (KChar 77, [77])].
Proof. vm_compute. repeat split. Qed.

(* ... while the repaired loop decodes the same input fully. *)
Lemma flush_witness :
  let st := flush (feed [27; 91; 77; 27] init) in
  prefix st = [] /\ out st = [(KKey key_Escape, [27]); (KChar 91, [91]); (KChar 77, [77]); (KKey key_Escape, [27])].
Proof. vm_compute. repeat split. Qed.
