(* C20 - the patch_stdout() context manager: threads print through sys.stdout
   (LPW / LPFlush reach the proxy only while sys.stdout is the proxy); leaving
   the block restores the streams (LRestore) and THEN closes the proxy
   (LClose).  Under this discipline nothing is ever queued behind the _Done
   sentinel - for every interleaving with any number of printing threads. *)
From Coq Require Import ZArith List Bool Lia.
From PTK Require Import Lib.Sx Model.C20_StdoutProxy.
Import ListNotations.

Definition notdone (i : item) : bool := match i with IDone => false | ITxt _ => true end.
Definition isdone (i : item) : bool := negb (notdone i).
(* after the first _Done there are only _Done items *)
Fixpoint clean (q : list item) : bool :=
  match q with
  | [] => true
  | IDone :: r => forallb isdone r
  | ITxt _ :: r => clean r
  end.

(* what patch_stdout() allows: prints go through sys.stdout, close() is called
   after the streams were restored *)
Definition label_ok (s : st) (l : label) : bool :=
  match l with
  | LW _ _ | LFlush _ => false
  | LClose => negb (patched (en s))
  | _ => true
  end.
Fixpoint disciplined (s : st) (ls : list label) : bool :=
  match ls with [] => true | l :: r => label_ok s l && disciplined (step s l) r end.

Definition J (s : st) : Prop :=
  (patched (en s) = true -> forallb notdone (queue (px s)) = true) /\ clean (queue (px s)) = true.

Lemma alldone_clean : forall q, forallb isdone q = true -> clean q = true.
Proof.
  induction q as [|[t|] q IH]; cbn; intros H; try reflexivity; try discriminate. exact H.
Qed.

Lemma clean_tail : forall x q, clean (x :: q) = true -> clean q = true.
Proof. intros [t|] q H; cbn in H; [exact H|now apply alldone_clean]. Qed.

Lemma notdone_clean : forall q, forallb notdone q = true -> clean q = true.
Proof.
  induction q as [|[t|] q IH]; cbn; intros H; try reflexivity; try discriminate. now apply IH.
Qed.

Lemma clean_app_done : forall q, clean q = true -> clean (q ++ [IDone]) = true.
Proof.
  induction q as [|[t|] q IH]; cbn; intros H; try reflexivity.
  - now apply IH.
  - rewrite forallb_app, H. reflexivity.
Qed.

Lemma J_append_txt : forall b q f h e c o lo k t,
  J (mkst (mkpx b q f h) e c o lo k) -> patched e = true ->
  forall b', J (mkst (mkpx b' (q ++ [ITxt t]) f h) e c o lo k).
Proof.
  intros b q f h e c o lo k t [A B] P b'. cbn in *. specialize (A P).
  assert (N : forallb notdone (q ++ [ITxt t]) = true) by (rewrite forallb_app, A; reflexivity).
  split; [intros _; exact N|now apply notdone_clean].
Qed.

Lemma J_pop : forall b x q f h e c o lo k b' f' h',
  J (mkst (mkpx b (x :: q) f h) e c o lo k) -> J (mkst (mkpx b' q f' h') e c o lo k).
Proof.
  intros b x q f h e c o lo k b' f' h' [A B]. cbn in *. split.
  - intros P. specialize (A P). apply andb_true_iff in A. apply A.
  - now apply (clean_tail x).
Qed.

Lemma J_step : forall s l, J s -> label_ok s l = true -> J (step s l).
Proof.
  intros s l Hj Ok. destruct s as [[b q f h] e c o lo k].
  destruct l; try discriminate Ok; cbn [step px en ch out lost cp];
    try (solve [repeat (match goal with
      | |- context [if ?g then _ else _] => destruct g
      | |- context [match ?x with _ => _ end] => destruct x
      | |- context [let (_, _) := ?x in _] => destruct x
      end); exact Hj]).
  all: try (solve [cbn in Ok; apply negb_true_iff in Ok; destruct Hj as [A B]; cbn in *; split;
                   [intros P; cbn in P; congruence|unfold do_close; cbn; now apply clean_app_done]]).
  all: try (solve [unfold do_fget; cbn [fth queue buf handed]; destruct f; try exact Hj;
                   destruct q as [|[t|] q]; try exact Hj; [destruct t|]; eapply J_pop; exact Hj]).
  all: try (solve [unfold do_fnowait; cbn [fth queue buf handed]; destruct f; try exact Hj;
                   destruct q as [|[t|] q]; try exact Hj; eapply J_pop; exact Hj]).
  all: try (solve [unfold do_fchoose; cbn [fth queue buf handed]; destruct f; exact Hj]).
  all: try (solve [cbn [fth]; destruct f as [| | |a dd [lk|]| |]; try exact Hj;
                   [destruct (Nat.eqb lk (lid e) && negb (lclosed e))|]; exact Hj]).
  all: try (solve [unfold loop_step; cbn [px en ch out lost cp];
                   destruct (lclosed e); [exact Hj|]; destruct (loopq e); [exact Hj|];
                   destruct (get_app_or_none _ _ && _); [destruct (submit _ _ _ _ _)|]; exact Hj]).
  all: try (solve [destruct (patched e) eqn:P; [|exact Hj]; unfold do_write; cbn [buf queue fth handed];
                   destruct (split_last d) as [[bf af]|];
                   [eapply J_append_txt; [exact Hj|exact P]|destruct Hj as [A B]; split; [exact A|exact B]]]).
  all: try (solve [destruct (patched e) eqn:P; [|exact Hj]; unfold do_flush; cbn [buf queue fth handed];
                   eapply J_append_txt; [exact Hj|exact P]]).
  all: try (solve [destruct Hj as [A B]; cbn in *; split; [discriminate|exact B]]).
Qed.

Lemma J_run : forall ls s, J s -> disciplined s ls = true -> J (run s ls).
Proof.
  induction ls as [|l ls IH]; intros s Hj D; [exact Hj|].
  cbn [disciplined] in D. apply andb_true_iff in D. destruct D as [D1 D2].
  change (run s (l :: ls)) with (run (step s l) ls). apply IH; [now apply J_step|exact D2].
Qed.

Lemma patch_clean : forall c r ls, disciplined (init2 c r) ls = true ->
  clean (queue (px (run (init2 c r) ls))) = true.
Proof.
  intros c r ls D. apply (J_run ls (init2 c r)); [|exact D]. split; reflexivity.
Qed.

(* the other order (close, then restore) lets a print land behind the sentinel *)
Lemma close_before_restore : exists ls,
  all_enabled (init true) ls = true /\ disciplined (init true) ls = false /\
  clean (queue (px (run (init true) ls))) = false.
Proof. exists [LClose; LPW 1 [97; 10]; LRestore]. vm_compute. repeat split. Qed.
