(* C17 - invariants of the whole transition system that need no hypothesis on
   the binding set: conservation of key presses, no report in the type-ahead
   store, fuel. *)
From Coq Require Import ZArith List Bool Lia.
From PTK Require Import Lib.Py Model.C03_Vt100Parser Model.C17_Typeahead Proofs.C17_Core.
Import ListNotations.

Section P.
Variables E bid res PS : Type.
Variable lookup : E -> list kp -> option bid.
Variable lookup_scan : E -> list kp -> option bid.
Variable waits : E -> list kp -> bool.
Variable eff : bid -> list kp -> E -> E * option res.
Variable is_cprh : bid -> bool.
Variable cpr_lookup : E -> option bid.
Variable feeds : bid -> list kp -> E -> list kp.
Variable restart : E -> E.
Variable pfeed : str -> PS -> PS * list kp.
Variable pflush : PS -> PS * list kp.
Variable res_eof : res.

Notation core := (core E bid res).
Notation sys := (sys E bid res PS).
Notation process_q := (process_q lookup lookup_scan waits eff is_cprh cpr_lookup feeds).
Notation pk := (@pk E bid res PS lookup lookup_scan waits eff is_cprh cpr_lookup feeds).
Notation feed_keys := (@feed_keys E bid res PS lookup lookup_scan waits eff is_cprh cpr_lookup feeds).
Notation do_read := (@do_read E bid res PS lookup lookup_scan waits eff is_cprh cpr_lookup feeds pfeed res_eof).
Notation step := (@step E bid res PS lookup lookup_scan waits eff is_cprh cpr_lookup feeds restart pfeed pflush res_eof).
Notation run := (@run E bid res PS lookup lookup_scan waits eff is_cprh cpr_lookup feeds restart pfeed pflush res_eof).

(* the binding set's handlers feed nothing (C17_Script covers feeding handlers) *)
Hypothesis Hnf : forall b ks e, feeds b ks e = [].

Definition Inv (s : sys) : Prop :=
  nc (acc (co s)) ++ nc (ikeys (store s)) ++ nc (ikeys (queue s)) = nc (decoded s)
  /\ (at_ s = Detached -> queue s = [])
  /\ (at_ s <> Detached -> store s = [])
  /\ Forall (fun i => item_is_cpr i = false) (store s)
  /\ pb (co s) = [].

Lemma nc_ikeys_filter q :
  nc (ikeys (filter (fun i => negb (item_is_cpr i)) q)) = nc (ikeys q).
Proof.
  induction q as [|[k|] q IH]; cbn [filter ikeys item_is_cpr negb]; [reflexivity| |exact IH].
  destruct (is_cpr k) eqn:CK; cbn [negb ikeys].
  - change (k :: ikeys q) with ([k] ++ ikeys q). rewrite nc_app, (nc_cpr k CK). exact IH.
  - change (k :: ikeys (filter (fun i => negb (item_is_cpr i)) q)) with ([k] ++ ikeys (filter (fun i => negb (item_is_cpr i)) q)).
    change (k :: ikeys q) with ([k] ++ ikeys q). rewrite !nc_app, IH. reflexivity.
Qed.

Lemma filter_no_cpr q : Forall (fun i => item_is_cpr i = false) (filter (fun i => negb (item_is_cpr i)) q).
Proof.
  apply Forall_forall. intros i Hi. apply filter_In in Hi. destruct Hi as [_ Hi].
  destruct (item_is_cpr i); [discriminate|reflexivity].
Qed.

(* process_keys() while attached *)
Lemma inv_pk (s : sys) : at_ s <> Detached -> Inv s -> Inv (pk s).
Proof.
  intros A (H1 & H2 & H3 & H4 & H5). unfold C17_Typeahead.pk.
  unfold Inv, with_co, with_queue; cbn [co store queue decoded at_].
  rewrite (H3 A) in *. cbn [ikeys nc filter app] in *.
  rewrite (@process_q_acc E bid res lookup lookup_scan waits eff is_cprh cpr_lookup feeds Hnf (queue s) (co s) H5).
  split; [exact H1|]. split; [intros D; contradiction|]. split; [auto|]. split; [auto|].
  apply process_q_pb. exact H5.
Qed.

Lemma inv_feed_keys p ks (s : sys) : at_ s <> Detached -> Inv s -> Inv (feed_keys p ks s).
Proof.
  intros A (H1 & H2 & H3 & H4 & H5). unfold C17_Typeahead.feed_keys. apply inv_pk; [exact A|].
  unfold Inv; cbn [co store queue decoded at_]. rewrite (H3 A) in *. cbn [ikeys nc filter app] in *.
  rewrite ikeys_app, ikeys_map, !nc_app, app_assoc, H1.
  split; [reflexivity|]. split; [intros D; contradiction|]. auto.
Qed.

Lemma inv_finish r (s : sys) : Inv s -> Inv (finish r s).
Proof.
  intros (H1 & H2 & H3 & H4 & H5). unfold C17_Typeahead.finish, Inv; cbn [co store queue decoded at_].
  rewrite ikeys_app, nc_app, nc_ikeys_filter. cbn [ikeys nc filter]. rewrite app_nil_r.
  split; [exact H1|]. split; [auto|]. split; [intros D; congruence|]. split; [|exact H5].
  apply Forall_app; split; [exact H4|apply filter_no_cpr].
Qed.

Lemma inv_core_eq (c' : core) (s : sys) :
  acc c' = acc (co s) -> pb c' = pb (co s) -> Inv s -> Inv (with_co c' s).
Proof.
  intros A P (H1 & H2 & H3 & H4 & H5). unfold Inv, with_co; cbn [co store queue decoded at_]. rewrite A, P. auto.
Qed.

Lemma inv_do_read n (s : sys) : at_ s <> Detached -> Inv s -> Inv (do_read n s).
Proof.
  intros A H. unfold C17_Typeahead.do_read. cbv zeta.
  destruct (pipe s) eqn:P.
  - pose proof (inv_pk s A H) as H'.
    destruct (wclosed s); [|exact H'].
    destruct (cph (co (pk s))); [|exact H'|exact H'].
    apply inv_core_eq; [reflexivity|reflexivity|exact H'].
  - apply inv_feed_keys; [exact A|]. exact H.
Qed.

Lemma inv_step (s : sys) l : Inv s -> Inv (step s l).
Proof.
  intros H. pose proof H as (H1 & H2 & H3 & H4 & H5).
  unfold C17_Typeahead.step.
  destruct (cph (co s)) eqn:PH; destruct l; try exact H.
  all: try (destruct (wclosed s); [exact H|]; unfold Inv; cbn [co store queue decoded at_]; auto; fail).
  all: try (unfold Inv; cbn [co store queue decoded at_]; auto; fail).
  all: try (destruct (at_ s) eqn:A; try exact H;
            try (apply inv_do_read; [congruence|exact H]);
            try (destruct (wcpr (co s)); [exact H|apply inv_do_read; [congruence|exact H]]);
            try (apply inv_feed_keys; [congruence|exact H]);
            try (apply inv_core_eq; [reflexivity|reflexivity|exact H]); fail).
  (* LStart, twice *)
  all: try (destruct (at_ s) eqn:A; try exact H;
            apply inv_pk; [cbn [at_]; congruence|];
            unfold Inv; cbn [co store queue decoded at_ est kbuf rlog pb];
            rewrite (H2 eq_refl) in *; cbn [ikeys nc filter app] in *; rewrite app_nil_r in *;
            (split; [|split; [congruence|split; [auto|split; [constructor|exact H5]]]]);
            unfold acc in *; cbn [kbuf pb rlog]; rewrite H5 in *; rewrite ?app_nil_r in *;
            destruct (kbuf (co s)) eqn:KB; unfold logged in *; cbn [rlog rev map concat ev_keys app ikeys] in *;
            rewrite ?map_app, ?concat_app; cbn [map concat ev_keys app ikeys];
            rewrite ?app_nil_r in *; rewrite ?H1; reflexivity).
  all: try (destruct (at_ s) eqn:A; try exact H;
            try (destruct (wcpr (co s)); [apply inv_finish; exact H|exact H]);
            try (apply inv_finish; apply inv_core_eq; [reflexivity|reflexivity|exact H]); fail).
  - (* LFlushKeys *)
    destruct (at_ s) eqn:A; [exact H| |]; (destruct (kbuf (co s)); [exact H|]);
      (apply inv_pk; [cbn [at_ with_queue]; congruence|]);
      (assert (S0 : store s = []) by (apply H3; congruence));
      unfold Inv, with_queue; cbn [co store queue decoded at_]; rewrite S0 in *; cbn [ikeys nc filter app] in *;
      rewrite ikeys_app; cbn [ikeys]; rewrite app_nil_r; repeat split; auto; congruence.
  - destruct (at_ s) eqn:A; [exact H| |]; (destruct (kbuf (co s)); [exact H|]);
      (apply inv_pk; [cbn [at_ with_queue]; congruence|]);
      (assert (S0 : store s = []) by (apply H3; congruence));
      unfold Inv, with_queue; cbn [co store queue decoded at_]; rewrite S0 in *; cbn [ikeys nc filter app] in *;
      rewrite ikeys_app; cbn [ikeys]; rewrite app_nil_r; repeat split; auto; congruence.
  - (* LExit *)
    destruct (at_ s) eqn:A; [exact H| |exact H].
    destruct (rcpr s && negb (Nat.eqb (wcpr (co s)) 0)); [|apply inv_finish; exact H].
    unfold Inv; cbn [co store queue decoded at_]. repeat split; auto.
    + congruence.
    + intros _. apply H3. congruence.
Qed.

Lemma inv_init e p r : Inv (@init E bid res PS e p r).
Proof.
  unfold Inv, init; cbn. repeat split; auto; intros X; congruence.
Qed.

Lemma inv_run ls : forall s : sys, Inv s -> Inv (run ls s).
Proof.
  induction ls as [|l ls IH]; intros s H; [exact H|]. cbn [C17_Typeahead.run fold_left].
  apply IH. apply inv_step. exact H.
Qed.

(* ---------------------------------------------------------------------- *)
(* fuel *)

Lemma pk_oof (s : sys) : oof (co (pk s)) = oof (co s).
Proof. unfold C17_Typeahead.pk; cbn [co with_co]. apply process_q_oof. Qed.

Lemma do_read_oof n (s : sys) : oof (co (do_read n s)) = oof (co s).
Proof.
  unfold C17_Typeahead.do_read. cbv zeta. destruct (pipe s).
  - destruct (wclosed s); [|apply pk_oof].
    destruct (cph (co (pk s))); [|apply pk_oof|apply pk_oof]. cbn [co with_co set_cph oof]. apply pk_oof.
  - unfold C17_Typeahead.feed_keys. rewrite pk_oof. reflexivity.
Qed.

Lemma step_oof (s : sys) l : oof (co (step s l)) = oof (co s).
Proof.
  unfold C17_Typeahead.step.
  destruct (cph (co s)) eqn:PH; destruct l; try reflexivity.
  all: try (destruct (wclosed s); reflexivity).
  all: try (destruct (at_ s); try reflexivity; try apply do_read_oof;
            try (destruct (wcpr (co s)); [reflexivity|apply do_read_oof]);
            try (unfold C17_Typeahead.feed_keys; rewrite pk_oof; reflexivity);
            try (destruct (kbuf (co s)); [reflexivity|rewrite pk_oof; reflexivity]);
            try (rewrite pk_oof; reflexivity);
            try (destruct (rcpr s && negb (Nat.eqb (wcpr (co s)) 0)); reflexivity);
            try (destruct (wcpr (co s)); reflexivity); fail).
Qed.

Lemma run_oof ls : forall s : sys, oof (co (run ls s)) = oof (co s).
Proof.
  induction ls as [|l ls IH]; intros s; [reflexivity|]. cbn [C17_Typeahead.run fold_left].
  change (oof (co (run ls (step s l))) = oof (co s)). rewrite IH. apply step_oof.
Qed.

End P.
