(* C08 - TextObject.cut for LINEWISE objects: the cut span is
   [line_lo, line_hi) computed by the rfind/find of Document.selection_ranges,
   it contains the object's range, and text', cursor and register are exactly
   that span removed / stored (without one final newline). *)
From Coq Require Import ZArith List Bool Lia.
From PTK Require Import Lib.Sx Lib.Py Model.Document Model.BufferEdit Model.C02_DocQueries
  Model.C08_ViOps Proofs.C08_ViFacts.
Import ListNotations.
Open Scope Z_scope.

Lemma find_char_from_range c s : forall i,
  0 <= i -> find_char_from c s i = -1 \/ i <= find_char_from c s i < i + len s.
Proof.
  induction s as [|x s IH]; intros i Hi; cbn [find_char_from]; [left; reflexivity|].
  rewrite len_cons. pose proof (len_nonneg s).
  destruct (x =? c); [right; lia|].
  destruct (IH (i + 1) ltac:(lia)) as [H1|H1]; [left; exact H1|right; lia].
Qed.

Lemma find_char_range c s : find_char c s = -1 \/ 0 <= find_char c s < len s.
Proof. unfold find_char. apply (find_char_from_range c s 0). lia. Qed.

(* start of the line containing lo, as selection_ranges computes it *)
Definition line_lo (text : str) (lo : Z) : Z := Z.max 0 (rfind_char_to NL text lo + 1).
(* one past the line ending of the line containing hi (or len text) *)
Definition line_hi (text : str) (hi : Z) : Z :=
  (let p := find_char_at NL text hi in if 0 <=? p then p else len text - 1) + 1.

Lemma line_lo_bounds text lo : 0 <= lo <= len text -> 0 <= line_lo text lo <= lo.
Proof.
  intros H. unfold line_lo, rfind_char_to.
  rewrite slice_to_in_range by lia.
  assert (Hl : len (firstn (Z.to_nat lo) text) = lo) by (apply c08_len_firstn_le; lia).
  rewrite Hl.
  set (q := find_char NL (rev (firstn (Z.to_nat lo) text))).
  assert (Hq : q = -1 \/ 0 <= q < lo).
  { destruct (find_char_range NL (rev (firstn (Z.to_nat lo) text))) as [E|E]; [left; exact E|right].
    rewrite len_rev, Hl in E. exact E. }
  destruct (q <? 0) eqn:E2; lia.
Qed.

Lemma line_hi_bounds text hi : 0 <= hi <= len text -> hi <= line_hi text hi <= len text.
Proof.
  intros H. unfold line_hi, find_char_at.
  rewrite slice_from_in_range by lia.
  assert (Hl : len (skipn (Z.to_nat hi) text) = len text - hi) by (rewrite len_skipn; lia).
  unfold adj_index. destruct (hi <? 0) eqn:E0; [lia|]. rewrite Z.min_l by lia.
  set (q := find_char NL (skipn (Z.to_nat hi) text)).
  assert (Hq : q = -1 \/ 0 <= q < len text - hi).
  { destruct (find_char_range NL (skipn (Z.to_nat hi) text)) as [E|E]; [left; exact E|right].
    rewrite Hl in E. exact E. }
  destruct (q <? 0) eqn:E2; cbv iota.
  - change (0 <=? -1) with false. cbv iota. lia.
  - destruct (0 <=? hi + q) eqn:E3; lia.
Qed.

Definition strip_final_nl (s : str) : str := if endswith_nl s then slice_to s (-1) else s.

Lemma cut_selection_lines text c o :
  0 <= Z.min c o -> Z.max c o <= len text ->
  let a := line_lo text (Z.min c o) in
  let b := line_hi text (Z.max c o) in
  cut_selection text c o 1 =
  Some (firstn (Z.to_nat a) text ++ skipn (Z.to_nat b) text, a,
        mkcd (strip_final_nl (firstn (Z.to_nat (b - a)) (skipn (Z.to_nat a) text))) 1)
  /\ 0 <= a <= Z.min c o /\ Z.max c o <= b <= len text.
Proof.
  intros Hlo Hhi a b.
  assert (Hmm : Z.min c o <= Z.max c o) by lia.
  assert (Ba : 0 <= a <= Z.min c o) by (apply line_lo_bounds; lia).
  assert (Bb : Z.max c o <= b <= len text) by (apply line_hi_bounds; lia).
  split; [|split; assumption].
  unfold cut_selection, selection_ranges.
  change (1 =? 2) with false. change (1 =? 1) with true. cbn [andb].
  fold (line_lo text (Z.min c o)). fold a.
  change ((if 0 <=? find_char_at NL text (Z.max c o) then find_char_at NL text (Z.max c o)
           else len text - 1) + 1)
    with (line_hi text (Z.max c o)). fold b.
  cbn [fold_left cut_step]. change (0 =? 0) with true. cbn [app join].
  rewrite slice2_in_range by lia. rewrite slice2_in_range by lia.
  rewrite slice_from_in_range by lia.
  rewrite Z.sub_0_r. change (Z.to_nat 0) with O. cbn [skipn].
  assert (Hl : len (firstn (Z.to_nat a) text ++ skipn (Z.to_nat b) text) = a + (len text - b)).
  { rewrite len_app, len_firstn, len_skipn. lia. }
  rewrite Hl. destruct (a + (len text - b) <? a) eqn:E; [lia|].
  unfold strip_final_nl. reflexivity.
Qed.

(* TextObject.cut for a linewise object whose absolute operator range
   [f, t] lies in the text *)
Lemma to_cut_linewise b o :
  ttype o = LINEW ->
  let f := bcur b + fst (operator_range (bdoc b) o) in
  let t := bcur b + snd (operator_range (bdoc b) o) in
  0 <= f -> f <= t -> t <= len (btext b) ->
  let a := line_lo (btext b) f in
  let e := line_hi (btext b) t in
  to_cut b o =
  Some (firstn (Z.to_nat a) (btext b) ++ skipn (Z.to_nat e) (btext b), a,
        mkcd (strip_final_nl (firstn (Z.to_nat (e - a)) (skipn (Z.to_nat a) (btext b)))) 1)
  /\ 0 <= a <= f /\ t <= e <= len (btext b).
Proof.
  intros Ht f t Hf Hft Htl a e. unfold to_cut.
  destruct (operator_range (bdoc b) o) as [s x] eqn:Er. cbn [fst snd] in *.
  rewrite Ht. cbn [is_linew is_block selection_type negb andb orb].
  replace (x + bcur b) with t by (unfold t; lia).
  replace (s + bcur b) with f by (unfold f; lia).
  destruct (len (btext b) <? t) eqn:E; [lia|].
  pose proof (cut_selection_lines (btext b) t f) as H.
  rewrite Z.min_r in H by lia. rewrite Z.max_l in H by lia.
  apply H; lia.
Qed.

Lemma op_delete_linewise delete_only st o ev :
  ttype o = LINEW ->
  let b := vbuf st in
  let f := bcur b + fst (operator_range (bdoc b) o) in
  let t := bcur b + snd (operator_range (bdoc b) o) in
  0 <= f -> f <= t -> t <= len (btext b) ->
  let a := line_lo (btext b) f in
  let e := line_hi (btext b) t in
  let removed := firstn (Z.to_nat (e - a)) (skipn (Z.to_nat a) (btext b)) in
  0 <= a <= f /\ t <= e <= len (btext b) /\
  vbuf (snd (op_delete delete_only false st o ev)) =
    mkbuf (firstn (Z.to_nat a) (btext b) ++ skipn (Z.to_nat e) (btext b)) a /\
  fst (op_delete delete_only false st o ev) = 0 /\
  vclip (snd (op_delete delete_only false st o ev)) =
    (if nonempty (strip_final_nl removed) then Some (mkcd (strip_final_nl removed) 1) else vclip st) /\
  vreg (snd (op_delete delete_only false st o ev)) = vreg st.
Proof.
  intros Ht b f t Hf Hft Htl a e removed.
  destruct (to_cut_linewise b o Ht Hf Hft Htl) as (Hc & Ba & Be). fold f t a e in Hc, Ba, Be.
  split; [exact Ba|]. split; [exact Be|].
  unfold op_delete. fold b. rewrite Hc. fold removed. cbn [ctext].
  unfold set_doc. rewrite Z.max_r by lia.
  destruct (nonempty (strip_final_nl removed)); destruct delete_only;
    cbn [fst snd vbuf vclip vreg vins]; repeat split; reflexivity.
Qed.
