(* C02 - up / down / column / document start+end / last_non_blank /
   paragraphs / current word boundaries: in bounds, same line, lands. *)
From Coq Require Import ZArith List Bool Lia.
From PTK Require Import Lib.Sx Lib.Py Gen.Whitespace Model.Document Model.C02_DocQueries
  Proofs.C02_Base Proofs.C02_Coords.
Import ListNotations.
Open Scope Z_scope.

(* ---------------------------------------------------------------------- *)
(* (row, col) of the cursor *)

Lemma cursor_position_pair d :
  translate_index_to_position d (dcur d) = (cursor_position_row d, cursor_position_col d).
Proof.
  unfold translate_index_to_position, cursor_position_row, cursor_position_col.
  destruct (find_line_start_index d (dcur d)) as [r s]. reflexivity.
Qed.

Lemma cursor_row_bounds d : valid d -> 0 <= cursor_position_row d < line_count d.
Proof.
  intros Hv.
  destruct (C02c_index_to_position_spec d (dcur d) _ _ Hv (cursor_position_pair d))
    as (_ & _ & _ & _ & H & _). exact H.
Qed.

(* where translate_row_col_to_index lands, for any row >= 0 and any column *)
Lemma row_col_to_index_position d row col :
  0 <= row ->
  let row' := Z.min row (line_count d - 1) in
  translate_index_to_position d (translate_row_col_to_index d row col) =
  (row', Z.max 0 (Z.min col (len (nth (Z.to_nat row') (lines d) [])))).
Proof.
  intros Hr. cbv zeta. rewrite C02c_row_col_to_index_clamp by exact Hr.
  pose proof (line_count_pos d) as Hlc.
  apply C02c_pos_roundtrip; [lia|].
  apply c02_clamp. apply len_nonneg.
Qed.

(* ---------------------------------------------------------------------- *)
(* up / down *)

Definition wanted_column (d : doc) (pc : option Z) : Z :=
  match pc with None => cursor_position_col d | Some c => c end.

Lemma up_pos_in_bounds d count pc : 0 <= dcur d + up_pos d count pc <= len (dtext d).
Proof.
  unfold up_pos.
  match goal with |- context [translate_row_col_to_index d ?a ?b] =>
    pose proof (C02c_row_col_to_index_bounds d a b) end. lia.
Qed.

Lemma down_pos_in_bounds d count pc : 0 <= dcur d + down_pos d count pc <= len (dtext d).
Proof.
  unfold down_pos.
  match goal with |- context [translate_row_col_to_index d ?a ?b] =>
    pose proof (C02c_row_col_to_index_bounds d a b) end. lia.
Qed.

(* no assertion is left: every count has an answer; a negative count is the
   opposite motion *)
Lemma up_down_total d count pc :
  (exists r, get_cursor_up_position d count pc = Some r) /\
  (exists r, get_cursor_down_position d count pc = Some r).
Proof.
  unfold get_cursor_up_position, get_cursor_down_position.
  destruct (count <? 0); split; eexists; reflexivity.
Qed.

Lemma up_down_negative d count pc :
  count < 0 ->
  get_cursor_up_position d count pc = get_cursor_down_position d (- count) pc /\
  get_cursor_down_position d count pc = get_cursor_up_position d (- count) pc.
Proof.
  intros Hc. unfold get_cursor_up_position, get_cursor_down_position.
  destruct (count <? 0) eqn:E1; [|lia]. destruct (- count <? 0) eqn:E2; [lia|]. split; reflexivity.
Qed.

Lemma up_in_bounds d count pc r :
  get_cursor_up_position d count pc = Some r -> 0 <= dcur d + r <= len (dtext d).
Proof.
  unfold get_cursor_up_position. destruct (count <? 0); intros H; injection H as <-;
    [apply down_pos_in_bounds|apply up_pos_in_bounds].
Qed.

Lemma down_in_bounds d count pc r :
  get_cursor_down_position d count pc = Some r -> 0 <= dcur d + r <= len (dtext d).
Proof.
  unfold get_cursor_down_position. destruct (count <? 0); intros H; injection H as <-;
    [apply up_pos_in_bounds|apply down_pos_in_bounds].
Qed.

Lemma up_pos_lands d count pc :
  valid d -> 0 <= count ->
  let row' := Z.max 0 (cursor_position_row d - count) in
  translate_index_to_position d (dcur d + up_pos d count pc) =
  (row', Z.max 0 (Z.min (wanted_column d pc) (len (nth (Z.to_nat row') (lines d) [])))).
Proof.
  intros Hv Hc. unfold up_pos. cbv zeta.
  pose proof (cursor_row_bounds d Hv) as Hrow.
  replace (dcur d + (translate_row_col_to_index d (Z.max 0 (cursor_position_row d - count))
                       (match pc with None => cursor_position_col d | Some c => c end) - dcur d))
    with (translate_row_col_to_index d (Z.max 0 (cursor_position_row d - count)) (wanted_column d pc))
    by (unfold wanted_column; lia).
  pose proof (row_col_to_index_position d (Z.max 0 (cursor_position_row d - count)) (wanted_column d pc)) as P.
  cbv zeta in P. rewrite P by lia.
  replace (Z.min (Z.max 0 (cursor_position_row d - count)) (line_count d - 1))
    with (Z.max 0 (cursor_position_row d - count)) by lia.
  reflexivity.
Qed.

Lemma down_pos_lands d count pc :
  valid d -> 0 <= count ->
  let row' := Z.min (cursor_position_row d + count) (line_count d - 1) in
  translate_index_to_position d (dcur d + down_pos d count pc) =
  (row', Z.max 0 (Z.min (wanted_column d pc) (len (nth (Z.to_nat row') (lines d) [])))).
Proof.
  intros Hv Hc. unfold down_pos. cbv zeta.
  pose proof (cursor_row_bounds d Hv) as Hrow.
  replace (dcur d + (translate_row_col_to_index d (cursor_position_row d + count)
                       (match pc with None => cursor_position_col d | Some c => c end) - dcur d))
    with (translate_row_col_to_index d (cursor_position_row d + count) (wanted_column d pc))
    by (unfold wanted_column; lia).
  pose proof (row_col_to_index_position d (cursor_position_row d + count) (wanted_column d pc)) as P.
  cbv zeta in P. rewrite P by lia. reflexivity.
Qed.

(* the target is (row - min(count, row), min(preferred, len of that line)) *)
Lemma up_lands d count pc r :
  valid d -> 0 <= count -> get_cursor_up_position d count pc = Some r ->
  let row' := Z.max 0 (cursor_position_row d - count) in
  translate_index_to_position d (dcur d + r) =
  (row', Z.max 0 (Z.min (wanted_column d pc) (len (nth (Z.to_nat row') (lines d) [])))).
Proof.
  intros Hv Hc. unfold get_cursor_up_position. destruct (count <? 0) eqn:E; [lia|].
  intros H; injection H as <-. now apply up_pos_lands.
Qed.

Lemma down_lands d count pc r :
  valid d -> 0 <= count -> get_cursor_down_position d count pc = Some r ->
  let row' := Z.min (cursor_position_row d + count) (line_count d - 1) in
  translate_index_to_position d (dcur d + r) =
  (row', Z.max 0 (Z.min (wanted_column d pc) (len (nth (Z.to_nat row') (lines d) [])))).
Proof.
  intros Hv Hc. unfold get_cursor_down_position. destruct (count <? 0) eqn:E; [lia|].
  intros H; injection H as <-. now apply down_pos_lands.
Qed.

(* ---------------------------------------------------------------------- *)
(* column, start / end of document *)

Lemma column_same_line d column :
  valid d ->
  - len (current_line_before_cursor d) <= get_column_cursor_position d column
    <= len (current_line_after_cursor d).
Proof.
  intros Hv. unfold get_column_cursor_position.
  destruct (cursor_nums d Hv) as (Hc & Hb & Ha). rewrite Hc, len_current_line. lia.
Qed.

Lemma column_in_bounds d column :
  valid d -> 0 <= dcur d + get_column_cursor_position d column <= len (dtext d).
Proof.
  intros Hv. pose proof (column_same_line d column Hv).
  destruct (cursor_nums d Hv) as (Hc & Hb & Ha). lia.
Qed.

Lemma column_lands d column :
  cursor_position_col d + get_column_cursor_position d column =
  Z.max 0 (Z.min (len (current_line d)) column).
Proof. unfold get_column_cursor_position. lia. Qed.

Lemma start_of_document_lands d : dcur d + get_start_of_document_position d = 0.
Proof. unfold get_start_of_document_position. lia. Qed.

Lemma end_of_document_lands d : dcur d + get_end_of_document_position d = len (dtext d).
Proof. unfold get_end_of_document_position. lia. Qed.

(* ---------------------------------------------------------------------- *)
(* last_non_blank_of_current_line_position *)

Lemma len_rstrip_by p s : 0 <= len (rstrip_by p s) <= len s.
Proof.
  unfold rstrip_by. rewrite len_rev. pose proof (c02_len_lstrip_by p (rev s)) as H.
  rewrite len_rev in H. exact H.
Qed.

(* after fix 1019c4b: always on the current line and inside the text; strictly
   before the end of the line when the line has a non-blank character *)
Lemma last_non_blank_same_line d :
  valid d ->
  - len (current_line_before_cursor d) <= last_non_blank_of_current_line_position d
    <= len (current_line_after_cursor d) /\
  0 <= dcur d + last_non_blank_of_current_line_position d <= len (dtext d) /\
  (rstrip_by is_space (current_line d) <> [] ->
   last_non_blank_of_current_line_position d < len (current_line_after_cursor d)) /\
  (rstrip_by is_space (current_line d) = [] ->
   last_non_blank_of_current_line_position d = - len (current_line_before_cursor d)).
Proof.
  intros Hv. unfold last_non_blank_of_current_line_position.
  destruct (cursor_nums d Hv) as (Hc & Hb & Ha).
  pose proof (len_rstrip_by is_space (current_line d)) as Hl. rewrite len_current_line in Hl.
  rewrite Hc. split; [lia|]. split; [lia|]. split.
  - intros Hne.
    assert (1 <= len (rstrip_by is_space (current_line d))).
    { destruct (rstrip_by is_space (current_line d)) as [|x l]; [congruence|].
      rewrite len_cons. pose proof (len_nonneg l). lia. }
    lia.
  - intros ->. change (len (@nil Z)) with 0. lia.
Qed.

(* the function as it stood before the fix left the text / the line on a
   blank line: finding C02-F1 (DESIGN F9) *)
Lemma last_non_blank_pinned_in_bounds_refuted :
  exists d, valid d /\
    ~ (0 <= dcur d + last_non_blank_of_current_line_position_pinned d <= len (dtext d)).
Proof.
  exists (mkdoc [] 0). split; [unfold valid; cbn; lia|].
  vm_compute. intros [H _]. apply H. reflexivity.
Qed.

Lemma last_non_blank_pinned_same_line_refuted :
  exists d, valid d /\
    0 <= dcur d + last_non_blank_of_current_line_position_pinned d <= len (dtext d) /\
    ~ (- len (current_line_before_cursor d) <= last_non_blank_of_current_line_position_pinned d).
Proof.
  exists (mkdoc [97; 98; 10; 10; 99; 100] 3).
  split; [unfold valid; cbn; lia|]. split; [vm_compute; split; discriminate|].
  vm_compute. intros H. apply H. reflexivity.
Qed.

(* ---------------------------------------------------------------------- *)
(* paragraphs *)

Lemma start_of_paragraph_in_bounds d count before r :
  valid d -> start_of_paragraph d count before = Some r ->
  0 <= dcur d + r <= len (dtext d) /\ r <= 0.
Proof.
  intros Hv. unfold start_of_paragraph.
  destruct (find_previous_matching_line d count) as [li|].
  - destruct (li =? 0).
    + intros H; injection H as <-. destruct Hv. lia.
    + destruct (get_cursor_up_position d (- li) None) as [u|] eqn:Eu; [|discriminate].
      intros H; injection H as <-. apply up_in_bounds in Eu.
      destruct Hv. destruct before; cbv iota; lia.
  - intros H; injection H as <-. destruct Hv. lia.
Qed.

Lemma end_of_paragraph_in_bounds d count after r :
  valid d -> end_of_paragraph d count after = Some r ->
  0 <= dcur d + r <= len (dtext d) /\ 0 <= r.
Proof.
  intros Hv. unfold end_of_paragraph. pose proof (len_ta d Hv) as Hta.
  destruct (find_next_matching_line d count) as [li|].
  - destruct (li =? 0).
    + intros H; injection H as <-. destruct Hv. lia.
    + destruct (get_cursor_down_position d li None) as [u|] eqn:Eu; [|discriminate].
      intros H; injection H as <-. apply down_in_bounds in Eu.
      destruct Hv. destruct after; cbv iota; lia.
  - intros H; injection H as <-. destruct Hv. lia.
Qed.

Lemma paragraph_total d count flag :
  (exists r, start_of_paragraph d count flag = Some r) /\
  (exists r, end_of_paragraph d count flag = Some r).
Proof.
  unfold start_of_paragraph, end_of_paragraph. split.
  - destruct (find_previous_matching_line d count) as [li|]; [|eexists; reflexivity].
    destruct (li =? 0); [eexists; reflexivity|].
    destruct (proj1 (up_down_total d (- li) None)) as [u ->]. eexists; reflexivity.
  - destruct (find_next_matching_line d count) as [li|]; [|eexists; reflexivity].
    destruct (li =? 0); [eexists; reflexivity|].
    destruct (proj2 (up_down_total d li None)) as [u ->]. eexists; reflexivity.
Qed.

(* ---------------------------------------------------------------------- *)
(* find_boundaries_of_current_word: both ends stay on the current line *)

Lemma span_len_bounds p s : 0 <= span_len p s <= len s.
Proof.
  induction s as [|x s IH]; cbn [span_len].
  - change (len (@nil Z)) with 0. lia.
  - rewrite len_cons. destruct (p x); lia.
Qed.

Lemma span_len_two p q s :
  span_len p s + span_len q (skipn (Z.to_nat (span_len p s)) s) <= len s.
Proof.
  pose proof (span_len_bounds p s) as H1.
  pose proof (span_len_bounds q (skipn (Z.to_nat (span_len p s)) s)) as H2.
  rewrite len_skipn in H2. lia.
Qed.

Lemma some_inj {T} (a b : T) : Some a = Some b -> a = b.
Proof. intros H; injection H as H; exact H. Qed.

Lemma cwe_generic (p : Z -> bool) (ws : bool) (s : str) :
  0 <= (if ws then span_len p s + span_len re_space (skipn (Z.to_nat (span_len p s)) s) else span_len p s)
    <= len s.
Proof.
  pose proof (span_len_bounds p s) as H1.
  pose proof (span_len_two p re_space s) as H2.
  pose proof (span_len_bounds re_space (skipn (Z.to_nat (span_len p s)) s)) as H3.
  destruct ws; lia.
Qed.

Lemma cur_word_end_bounds WORD ws s e : cur_word_end WORD ws s = Some e -> 0 <= e <= len s.
Proof.
  unfold cur_word_end. destruct s as [|c s']; [discriminate|]. cbv zeta.
  destruct (word_cls WORD c =? 0); [discriminate|].
  intros H. apply some_inj in H. rewrite <- H.
  apply (cwe_generic (fun x => word_cls WORD x =? word_cls WORD c) ws (c :: s')).
Qed.

Lemma boundaries_same_line d WORD lead trail s e :
  find_boundaries_of_current_word d WORD lead trail = (s, e) ->
  - len (current_line_before_cursor d) <= s <= 0 /\ 0 <= e <= len (current_line_after_cursor d).
Proof.
  unfold find_boundaries_of_current_word. cbv zeta.
  destruct (cur_word_end WORD lead (rev (current_line_before_cursor d))) as [eb|] eqn:Eb;
  destruct (cur_word_end WORD trail (current_line_after_cursor d)) as [ea|] eqn:Ea.
  all: try (apply cur_word_end_bounds in Eb; rewrite len_rev in Eb).
  all: try (apply cur_word_end_bounds in Ea).
  all: pose proof (len_nonneg (current_line_before_cursor d)) as Hb;
       pose proof (len_nonneg (current_line_after_cursor d)) as Ha.
  - destruct WORD.
    + intros H; injection H as <- <-. lia.
    + destruct (index (dtext d) (dcur d - 1)) as [c1|]; [destruct (index (dtext d) (dcur d)) as [c2|]|].
      * destruct (xorb (is_wordch c1) (is_wordch c2)); intros H; injection H as <- <-; lia.
      * intros H; injection H as <- <-; lia.
      * intros H; injection H as <- <-; lia.
  - intros H; injection H as <- <-. lia.
  - intros H; injection H as <- <-. lia.
  - intros H; injection H as <- <-. lia.
Qed.

Lemma boundaries_in_bounds d WORD lead trail s e :
  valid d -> find_boundaries_of_current_word d WORD lead trail = (s, e) ->
  0 <= dcur d + s <= dcur d /\ dcur d <= dcur d + e <= len (dtext d).
Proof.
  intros Hv H. apply boundaries_same_line in H.
  pose proof (len_clb_le d Hv). pose proof (len_cla_le d Hv). lia.
Qed.
