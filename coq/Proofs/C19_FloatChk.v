(* C19 - the float kernels (Model/C19_Float.v): a pure-float range test of one
   channel and its soundness for int(): when [chan_ok x] evaluates to true,
   int(x) succeeds with a value in 0..255.  The test is what the exhaustive
   sweeps (Proofs/C19_FloatSweep*.v) evaluate with vm_compute on the kernel's
   binary64 primitives.  No float axiom is used: the float comparisons are
   treated as opaque booleans, only the integer side of the bit search is
   reasoned about. *)
From Coq Require Import ZArith List Bool Lia PrimFloat.
From PTK Require Import Lib.Py Lib.C19_Str Gen.C19_Palette Model.C19_Palette Model.C19_Style
     Model.C19_Transform Model.C19_Float Proofs.C19_StrFacts.
Import ListNotations.
Open Scope Z_scope.

Definition F256 : float := 256%float.

Definition chan_ok (x : float) : bool :=
  negb (PrimFloat.is_nan x || PrimFloat.is_infinity x)
  && PrimFloat.ltb (PrimFloat.abs x) F2p53
  && PrimFloat.ltb (PrimFloat.abs x) F512
  && negb (PrimFloat.ltb x F0)
  && negb (PrimFloat.leb (PrimFloat.add F0 F256) (PrimFloat.abs x)).

Lemma BITS9_eq : BITS9 = [(F256, 256); (128%float, 128); (64%float, 64); (32%float, 32); (16%float, 16);
                          (8%float, 8); (4%float, 4); (2%float, 2); (1%float, 1)].
Proof. vm_compute. reflexivity. Qed.

Definition bit_step (a : float) (st : float * Z) (b : float * Z) : float * Z :=
  let s := PrimFloat.add (fst st) (fst b) in
  if PrimFloat.leb s a then (s, snd st + snd b) else st.

Lemma trunc_bits_fold : forall bits a, trunc_bits bits a = snd (fold_left (bit_step a) bits (F0, 0)).
Proof. reflexivity. Qed.

Fixpoint sumZ (l : list Z) : Z := match l with [] => 0 | x :: r => x + sumZ r end.

Lemma fold_bits_bound : forall a bits st,
  (forall b, In b bits -> 0 <= snd b) ->
  snd st <= snd (fold_left (bit_step a) bits st) <= snd st + sumZ (map snd bits).
Proof.
  intros a bits. induction bits as [|b r IH]; intros st Hb.
  - cbn. lia.
  - cbn [fold_left map sumZ].
    assert (Hb0 : 0 <= snd b) by (apply Hb; left; reflexivity).
    assert (Hr : forall b', In b' r -> 0 <= snd b') by (intros b' Hin; apply Hb; right; exact Hin).
    specialize (IH (bit_step a st b) Hr).
    assert (Hs : snd st <= snd (bit_step a st b) <= snd st + snd b).
    { unfold bit_step. destruct (PrimFloat.leb (PrimFloat.add (fst st) (fst b)) a); cbn [snd]; lia. }
    lia.
Qed.

Lemma chan_ok_trunc : forall x, chan_ok x = true -> exists t, f_trunc x = Some t /\ 0 <= t <= 255.
Proof.
  intros x H. unfold chan_ok in H.
  apply andb_prop in H. destruct H as [H H256].
  apply andb_prop in H. destruct H as [H Hneg].
  apply andb_prop in H. destruct H as [H H512].
  apply andb_prop in H. destruct H as [Hnan H53].
  apply negb_true_iff in Hnan, Hneg, H256.
  unfold f_trunc. rewrite Hnan, H53, H512, Hneg.
  eexists. split; [reflexivity|].
  rewrite trunc_bits_fold, BITS9_eq.
  match goal with |- context [fold_left ?f (?b0 :: ?rest) ?st] =>
    change (fold_left f (b0 :: rest) st) with (fold_left f rest (f st b0));
    assert (E0 : f st b0 = st) by (unfold bit_step; cbn [fst snd]; rewrite H256; reflexivity);
    rewrite E0;
    pose proof (fold_bits_bound (PrimFloat.abs x) rest st) as B
  end.
  cbn [snd map sumZ] in B. apply B. intros b Hin. cbn [In] in Hin.
  repeat (destruct Hin as [Hin | Hin]; [subst b; cbn; lia|]). contradiction.
Qed.

(* both kernels end with trunc_rgb of an hls_to_rgb triple *)
Definition chan3_ok (c : float * float * float) : bool :=
  let '(p, q, w) := c in
  chan_ok (PrimFloat.mul p F255) && chan_ok (PrimFloat.mul q F255) && chan_ok (PrimFloat.mul w F255).

Definition is_byte (n : Z) : Prop := 0 <= n <= 255.

Lemma chan3_trunc : forall c, chan3_ok c = true ->
  exists x y z, trunc_rgb c = Some (x, y, z) /\ is_byte x /\ is_byte y /\ is_byte z.
Proof.
  intros [[p q] w] H. unfold chan3_ok in H.
  apply andb_prop in H. destruct H as [H Hw]. apply andb_prop in H. destruct H as [Hp Hq].
  destruct (chan_ok_trunc _ Hp) as (x & Ex & Bx).
  destruct (chan_ok_trunc _ Hq) as (y & Ey & By).
  destruct (chan_ok_trunc _ Hw) as (z & Ez & Bz).
  exists x, y, z. unfold trunc_rgb. rewrite Ex, Ey, Ez. unfold is_byte. repeat split; lia.
Qed.

(* get_opposite_color on channel bytes: the test the sweep evaluates *)
Definition opp_chk (r g b : Z) : bool :=
  match units_of_bytes (r, g, b) with
  | Some (x, y, z) =>
      match rgb_to_hls x y z with
      | Some (h, l, s) => chan3_ok (hls_to_rgb h (PrimFloat.sub F1 l) s)
      | None => false
      end
  | None => false
  end.

Lemma opp_chk_sound : forall r g b, opp_chk r g b = true ->
  exists x y z, opp_bytes_n r g b = Some (x, y, z) /\ is_byte x /\ is_byte y /\ is_byte z.
Proof.
  intros r g b H. unfold opp_chk in H. unfold opp_bytes_n.
  destruct (units_of_bytes (r, g, b)) as [[[x y] z]|]; [|discriminate].
  unfold opp_units_n. destruct (rgb_to_hls x y z) as [[[h l] s]|]; [|discriminate].
  exact (chan3_trunc _ H).
Qed.

(* AdjustBrightness(mn / 1000.0, mx / 1000.0) on channel bytes *)
Definition adj_chk (mn mx r g b : Z) : bool :=
  match units_of_bytes (r, g, b) with
  | Some (x, y, z) =>
      match rgb_to_hls x y z with
      | Some (h, l, s) =>
          chan3_ok (hls_to_rgb h (PrimFloat.add (bound_of mn) (PrimFloat.mul (PrimFloat.sub (bound_of mx) (bound_of mn)) l)) s)
      | None => false
      end
  | None => false
  end.

Lemma adj_chk_sound : forall mn mx r g b, adj_chk mn mx r g b = true ->
  exists x y z, adj_bytes_n mn mx r g b = Some (x, y, z) /\ is_byte x /\ is_byte y /\ is_byte z.
Proof.
  intros mn mx r g b H. unfold adj_chk in H. unfold adj_bytes_n.
  destruct (units_of_bytes (r, g, b)) as [[[x y] z]|]; [|discriminate].
  unfold adj_units_n. destruct (rgb_to_hls x y z) as [[[h l] s]|]; [|discriminate].
  exact (chan3_trunc _ H).
Qed.

(* the sweep over red values lo .. lo+n-1, all green and blue values *)
Definition bytes256 : list Z := zrange 256.
Definition opp_plane_ok (r : Z) : bool :=
  forallb (fun g => forallb (fun b => opp_chk r g b) bytes256) bytes256.
Definition opp_planes_ok (lo : Z) (n : nat) : bool :=
  forallb opp_plane_ok (map (fun k => lo + Z.of_nat k) (seq 0 n)).

Lemma opp_planes_sound : forall lo n, opp_planes_ok lo n = true ->
  forall r g b, lo <= r < lo + Z.of_nat n -> 0 <= g <= 255 -> 0 <= b <= 255 -> opp_chk r g b = true.
Proof.
  intros lo n H r g b Hr Hg Hb. unfold opp_planes_ok in H.
  assert (Hin : In r (map (fun k => lo + Z.of_nat k) (seq 0 n))).
  { apply in_map_iff. exists (Z.to_nat (r - lo)). split; [lia|]. apply in_seq. lia. }
  pose proof (proj1 (forallb_forall _ _) H r Hin) as Hp. unfold opp_plane_ok in Hp.
  pose proof (proj1 (forallb_forall _ _) Hp g (In_zrange 256 g ltac:(lia))) as Hrow. cbv beta in Hrow.
  exact (proj1 (forallb_forall _ _) Hrow b (In_zrange 256 b ltac:(lia))).
Qed.
