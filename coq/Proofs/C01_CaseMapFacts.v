(* Finite facts about the regenerated case tables Gen/C01_CaseMap.v and the
   model Model/C01_CaseMap.v of str.upper / lower / title: all by computation
   over the tables.  They are re-proved whenever the tables are regenerated. *)
From Coq Require Import ZArith List Bool Lia.
From PTK Require Import Lib.Py Gen.C01_CaseMap Model.C01_CaseMap.
Import ListNotations.
Open Scope Z_scope.

(* ---------------------------------------------------------------------- *)
(* (a) the keys of the table are strictly increasing: the lookup is
   unambiguous and its early exit is sound *)

Fixpoint strictly_increasing (l : list Z) : bool :=
  match l with
  | x :: ((y :: _) as r) => (x <? y) && strictly_increasing r
  | _ => true
  end.

Lemma case_table_sorted : strictly_increasing (map fst c01_case_table) = true.
Proof. vm_compute. reflexivity. Qed.

Lemma case_table_keys_in_code_space :
  forall e, In e c01_case_table -> 0 <= fst e < 1114112.
Proof.
  assert (H : forallb (fun e : Z * case_images => (0 <=? fst e) && (fst e <? 1114112))
                      c01_case_table = true) by (vm_compute; reflexivity).
  intros e He. rewrite forallb_forall in H. specialize (H e He).
  apply andb_true_iff in H. destruct H as [H1 H2].
  apply Z.leb_le in H1. apply Z.ltb_lt in H2. split; assumption.
Qed.

Lemma strictly_increasing_head_lt (x : Z) (l : list Z) :
  strictly_increasing (x :: l) = true -> forall y, In y l -> x < y.
Proof.
  revert x. induction l as [|z l IH]; intros x H y Hy; [destruct Hy|].
  cbn [strictly_increasing] in H. apply andb_true_iff in H. destruct H as [Hxz Hr].
  apply Z.ltb_lt in Hxz. destruct Hy as [->|Hy]; [assumption|].
  specialize (IH z Hr y Hy). lia.
Qed.

Lemma strictly_increasing_tail (x : Z) (l : list Z) :
  strictly_increasing (x :: l) = true -> strictly_increasing l = true.
Proof.
  destruct l as [|y l]; [reflexivity|]. cbn [strictly_increasing].
  intros H. apply andb_true_iff in H. apply H.
Qed.

(* soundness of the lookup needs nothing *)
Lemma case_lookup_in_sound (t : list (Z * case_images)) (c : Z) (v : case_images) :
  case_lookup_in t c = Some v -> In (c, v) t.
Proof.
  induction t as [|[k w] t IH]; cbn [case_lookup_in]; [discriminate|].
  destruct (k =? c) eqn:E.
  - apply Z.eqb_eq in E. subst. intros H. injection H as ->. left; reflexivity.
  - destruct (c <? k); [discriminate|]. intros H. right. apply IH, H.
Qed.

(* completeness needs the order *)
Lemma case_lookup_in_complete (t : list (Z * case_images)) (c : Z) (v : case_images) :
  strictly_increasing (map fst t) = true ->
  In (c, v) t -> case_lookup_in t c = Some v.
Proof.
  induction t as [|[k w] t IH]; intros Hs Hin; [destruct Hin|].
  cbn [case_lookup_in]. cbn [map fst] in Hs.
  destruct Hin as [Heq|Hin].
  - injection Heq as -> ->. rewrite Z.eqb_refl. reflexivity.
  - assert (Hlt : k < c).
    { apply (strictly_increasing_head_lt k (map fst t) Hs).
      change c with (fst (c, v)). apply in_map, Hin. }
    destruct (k =? c) eqn:E; [apply Z.eqb_eq in E; lia|].
    destruct (c <? k) eqn:E2; [apply Z.ltb_lt in E2; lia|].
    apply IH; [eapply strictly_increasing_tail, Hs | exact Hin].
Qed.

Lemma case_lookup_iff (c : Z) (v : case_images) :
  case_lookup c = Some v <-> In (c, v) c01_case_table.
Proof.
  split; [apply case_lookup_in_sound|].
  apply case_lookup_in_complete, case_table_sorted.
Qed.

Lemma case_lookup_none_iff (c : Z) :
  case_lookup c = None <-> ~ In c (map fst c01_case_table).
Proof.
  split.
  - intros H Hin. apply in_map_iff in Hin. destruct Hin as [[k v] [Hk Hin]].
    cbn in Hk. subst k. apply case_lookup_iff in Hin. congruence.
  - intros H. destruct (case_lookup c) as [v|] eqn:E; [|reflexivity].
    exfalso. apply H. apply case_lookup_iff in E.
    change c with (fst (c, v)). apply in_map, E.
Qed.

(* ---------------------------------------------------------------------- *)
(* (b) every image has 1 to 3 code points (Py_UCS4 mapped[3]), all in the
   code space *)

Definition image_ok (s : list Z) : bool :=
  (1 <=? len s) && (len s <=? 3) && forallb (fun c => (0 <=? c) && (c <? 1114112)) s.

Definition entry_ok (e : Z * case_images) : bool :=
  let '(_, (u, (l, t))) := e in image_ok u && image_ok l && image_ok t.

Lemma case_table_images_ok : forallb entry_ok c01_case_table = true.
Proof. vm_compute. reflexivity. Qed.

Lemma case_table_image_lengths :
  forall c u l t, In (c, (u, (l, t))) c01_case_table ->
    1 <= len u <= 3 /\ 1 <= len l <= 3 /\ 1 <= len t <= 3.
Proof.
  intros c u l t Hin.
  pose proof case_table_images_ok as H. rewrite forallb_forall in H.
  specialize (H _ Hin). cbn [entry_ok] in H. unfold image_ok in H.
  repeat (apply andb_true_iff in H; destruct H as [H ?]).
  repeat match goal with
         | X : (_ <=? _) = true |- _ => apply Z.leb_le in X
         end.
  lia.
Qed.

Lemma to_upper_full_len (c : Z) : 1 <= len (to_upper_full c) <= 3.
Proof.
  unfold to_upper_full. destruct (case_lookup c) as [[u [l t]]|] eqn:E.
  - apply case_lookup_iff in E. apply case_table_image_lengths in E. lia.
  - cbv. split; discriminate.
Qed.

Lemma to_lower_full_len (c : Z) : 1 <= len (to_lower_full c) <= 3.
Proof.
  unfold to_lower_full. destruct (case_lookup c) as [[u [l t]]|] eqn:E.
  - apply case_lookup_iff in E. apply case_table_image_lengths in E. lia.
  - cbv. split; discriminate.
Qed.

Lemma to_title_full_len (c : Z) : 1 <= len (to_title_full c) <= 3.
Proof.
  unfold to_title_full. destruct (case_lookup c) as [[u [l t]]|] eqn:E.
  - apply case_lookup_iff in E. apply case_table_image_lengths in E. lia.
  - cbv. split; discriminate.
Qed.

(* no entry is the identity on all three maps (the table lists only the code
   points that change) and no surrogate is in the table *)
Lemma case_table_entries_change :
  forallb (fun e : Z * case_images =>
             let '(c, (u, (l, t))) := e in
             negb (str_eqb u [c] && str_eqb l [c] && str_eqb t [c]))
          c01_case_table = true.
Proof. vm_compute. reflexivity. Qed.

Lemma case_table_no_surrogate :
  forallb (fun e : Z * case_images => (fst e <? 55296) || (57343 <? fst e))
          c01_case_table = true.
Proof. vm_compute. reflexivity. Qed.

(* ---------------------------------------------------------------------- *)
(* (c) ASCII: a-z go to c-32 under upper/title and to themselves under lower;
   A-Z go to c+32 under lower and to themselves under upper/title; no other
   ASCII code point is in the table, cased, or (bar ' . : ^ `) ignorable *)

Definition ascii : list Z := map Z.of_nat (seq 0 128).

Definition ascii_case_ok (c : Z) : bool :=
  if (97 <=? c) && (c <=? 122) then
    str_eqb (to_upper_full c) [c - 32] && str_eqb (to_title_full c) [c - 32]
    && str_eqb (to_lower_full c) [c] && is_cased c && negb (is_case_ignorable c)
  else if (65 <=? c) && (c <=? 90) then
    str_eqb (to_upper_full c) [c] && str_eqb (to_title_full c) [c]
    && str_eqb (to_lower_full c) [c + 32] && is_cased c && negb (is_case_ignorable c)
  else
    match case_lookup c with
    | Some _ => false
    | None => negb (is_cased c)
              && Bool.eqb (is_case_ignorable c) (mem_Z c [39; 46; 58; 94; 96])
    end.

Lemma ascii_case_table : forallb ascii_case_ok ascii = true.
Proof. vm_compute. reflexivity. Qed.

Lemma ascii_case (c : Z) : 0 <= c < 128 -> ascii_case_ok c = true.
Proof.
  intros Hc. pose proof ascii_case_table as H. rewrite forallb_forall in H.
  apply H. unfold ascii. replace c with (Z.of_nat (Z.to_nat c)) by lia.
  apply in_map, in_seq. lia.
Qed.

Lemma str_eqb_single (a : str) (b : Z) : str_eqb a [b] = true -> a = [b].
Proof.
  destruct a as [|x [|y a]]; cbn [str_eqb]; try discriminate.
  - rewrite andb_true_r. intros X; apply Z.eqb_eq in X; now subst.
  - rewrite andb_false_r. discriminate.
Qed.

Lemma ascii_lower_letter (c : Z) : 97 <= c <= 122 ->
  to_upper_full c = [c - 32] /\ to_title_full c = [c - 32] /\ to_lower_full c = [c]
  /\ is_cased c = true.
Proof.
  intros Hc. assert (H : 0 <= c < 128) by lia. apply ascii_case in H.
  unfold ascii_case_ok in H.
  replace ((97 <=? c) && (c <=? 122)) with true in H
    by (symmetry; apply andb_true_iff; split; apply Z.leb_le; lia).
  repeat (apply andb_true_iff in H; destruct H as [H ?]).
  repeat split; try apply str_eqb_single; assumption.
Qed.

Lemma ascii_upper_letter (c : Z) : 65 <= c <= 90 ->
  to_upper_full c = [c] /\ to_title_full c = [c] /\ to_lower_full c = [c + 32]
  /\ is_cased c = true.
Proof.
  intros Hc. assert (H : 0 <= c < 128) by lia. apply ascii_case in H.
  unfold ascii_case_ok in H.
  replace ((97 <=? c) && (c <=? 122)) with false in H
    by (symmetry; apply andb_false_iff; left; apply Z.leb_gt; lia).
  replace ((65 <=? c) && (c <=? 90)) with true in H
    by (symmetry; apply andb_true_iff; split; apply Z.leb_le; lia).
  repeat (apply andb_true_iff in H; destruct H as [H ?]).
  repeat split; try apply str_eqb_single; assumption.
Qed.

Lemma ascii_non_letter (c : Z) :
  0 <= c < 128 -> ~ (65 <= c <= 90) -> ~ (97 <= c <= 122) ->
  case_lookup c = None /\ is_cased c = false.
Proof.
  intros Hc Hu Hl. apply ascii_case in Hc. unfold ascii_case_ok in Hc.
  replace ((97 <=? c) && (c <=? 122)) with false in Hc
    by (symmetry; apply andb_false_iff;
        destruct (Z_le_gt_dec 97 c); [right|left]; apply Z.leb_gt; lia).
  replace ((65 <=? c) && (c <=? 90)) with false in Hc
    by (symmetry; apply andb_false_iff;
        destruct (Z_le_gt_dec 65 c); [right|left]; apply Z.leb_gt; lia).
  destruct (case_lookup c); [discriminate|].
  apply andb_true_iff in Hc. destruct Hc as [Hc _].
  split; [reflexivity|]. now apply negb_true_iff.
Qed.

(* ---------------------------------------------------------------------- *)
(* (d) the ranges are well-formed, sorted, disjoint (and maximal: never
   adjacent), inside the code space *)

Fixpoint ranges_ok (lo : Z) (rs : list (Z * Z)) : bool :=
  match rs with
  | [] => true
  | (a, b) :: r => (lo <? a) && (a <=? b) && (b <? 1114112) && ranges_ok (b + 1) r
  end.

Lemma cased_ranges_sorted : ranges_ok (-1) c01_cased_ranges = true.
Proof. vm_compute. reflexivity. Qed.

Lemma case_ignorable_ranges_sorted : ranges_ok (-1) c01_case_ignorable_ranges = true.
Proof. vm_compute. reflexivity. Qed.

(* with the order, the early-exit membership test is plain membership *)
Lemma in_ranges_spec (rs : list (Z * Z)) (lo c : Z) :
  ranges_ok lo rs = true ->
  (in_ranges rs c = true <-> exists a b, In (a, b) rs /\ a <= c <= b).
Proof.
  revert lo. induction rs as [|[a b] rs IH]; intros lo H.
  - cbn. split; [discriminate|]. intros (a & b & [] & _).
  - cbn [ranges_ok] in H.
    repeat (apply andb_true_iff in H; destruct H as [H ?]).
    apply Z.ltb_lt in H. apply Z.leb_le in H2.
    cbn [in_ranges].
    destruct (c <? a) eqn:E1.
    + apply Z.ltb_lt in E1. split; [discriminate|].
      intros (a' & b' & [Heq|Hin] & Hc).
      * injection Heq as <- <-. lia.
      * exfalso.
        assert (G : forall lo' rs', ranges_ok lo' rs' = true ->
                      forall x y, In (x, y) rs' -> lo' < x).
        { clear. intros lo' rs'. revert lo'.
          induction rs' as [|[p q] rs' IH']; intros lo' Hr x y Hin; [destruct Hin|].
          cbn [ranges_ok] in Hr.
          repeat (apply andb_true_iff in Hr; destruct Hr as [Hr ?]).
          apply Z.ltb_lt in Hr. apply Z.leb_le in H1.
          destruct Hin as [Heq|Hin]; [injection Heq as <- <-; assumption|].
          specialize (IH' _ H _ _ Hin). lia. }
        specialize (G _ _ H0 _ _ Hin). lia.
    + apply Z.ltb_ge in E1. destruct (c <=? b) eqn:E2.
      * apply Z.leb_le in E2. split; [|reflexivity].
        intros _. exists a, b. split; [left; reflexivity|lia].
      * apply Z.leb_gt in E2. rewrite (IH _ H0). split.
        -- intros (a' & b' & Hin & Hc). exists a', b'. split; [right|]; assumption.
        -- intros (a' & b' & [Heq|Hin] & Hc).
           ++ injection Heq as <- <-. lia.
           ++ exists a', b'. split; assumption.
Qed.

Lemma is_cased_spec (c : Z) :
  is_cased c = true <-> exists a b, In (a, b) c01_cased_ranges /\ a <= c <= b.
Proof. apply (in_ranges_spec _ (-1)), cased_ranges_sorted. Qed.

Lemma is_case_ignorable_spec (c : Z) :
  is_case_ignorable c = true <->
  exists a b, In (a, b) c01_case_ignorable_ranges /\ a <= c <= b.
Proof. apply (in_ranges_spec _ (-1)), case_ignorable_ranges_sorted. Qed.

(* every code point with a case mapping other than the identity is cased or
   case-ignorable?  No: that is not a CPython invariant and is not claimed.
   What does hold, and what do_title relies on implicitly, is only checked
   on the sigmas: *)
Example sigmas_cased :
  is_cased CAPITAL_SIGMA = true /\ is_cased SMALL_SIGMA = true /\ is_cased FINAL_SIGMA = true
  /\ is_case_ignorable CAPITAL_SIGMA = false.
Proof. vm_compute. repeat split. Qed.

Example sigma_one_char_lower : to_lower_full CAPITAL_SIGMA = [SMALL_SIGMA].
Proof. vm_compute. reflexivity. Qed.

(* ---------------------------------------------------------------------- *)
(* (e) examples, expected values computed with /venv/bin/python (3.12.1) *)

(* 'ß'.upper() == 'SS' *)
Example upper_sharp_s : py_upper [223] = [83; 83].
Proof. vm_compute. reflexivity. Qed.

(* 'ß'.title() == 'Ss', 'ß'.lower() == 'ß' *)
Example title_sharp_s : py_title [223] = [83; 115] /\ py_lower [223] = [223].
Proof. vm_compute. split; reflexivity. Qed.

(* 'İ'.lower() == 'i̇' (two code points) *)
Example lower_dotted_I : py_lower [304] = [105; 775].
Proof. vm_compute. reflexivity. Qed.

(* 'ΑΣ'.lower() == 'ας': final sigma *)
Example lower_final_sigma : py_lower [913; 931] = [945; 962].
Proof. vm_compute. reflexivity. Qed.

(* 'ΑΣΑ'.lower() == 'ασα': a cased character follows *)
Example lower_medial_sigma : py_lower [913; 931; 913] = [945; 963; 945].
Proof. vm_compute. reflexivity. Qed.

(* 'ΑΣ'.title() == 'Ας', 'ΑΣΑ'.title() == 'Ασα' *)
Example title_sigma :
  py_title [913; 931] = [913; 962] /\ py_title [913; 931; 913] = [913; 963; 945].
Proof. vm_compute. split; reflexivity. Qed.

(* "aΣ.́ x": case-ignorable characters are skipped forwards, then a
   non-cased one (space) is reached: final *)
Example lower_sigma_ignorable_after :
  py_lower [97; 931; 46; 769; 32; 120] = [97; 962; 46; 769; 32; 120]
  /\ py_title [97; 931; 46; 769; 32; 120] = [65; 962; 46; 769; 32; 88].
Proof. vm_compute. split; reflexivity. Qed.

(* 'ʰΣ'.lower() == 'ʰσ': U+02B0 is cased AND case-ignorable; the backward
   scan skips it and runs off the start of the string: not final *)
Example lower_sigma_after_cased_ignorable : py_lower [688; 931] = [688; 963].
Proof. vm_compute. reflexivity. Qed.

(* 'ŉΣ\xad': upper 'ʼNΣ\xad', lower 'ŉς\xad', title 'ʼNς\xad' *)
Example case_n_apostrophe :
  py_upper [329; 931; 173] = [700; 78; 931; 173]
  /\ py_lower [329; 931; 173] = [329; 962; 173]
  /\ py_title [329; 931; 173] = [700; 78; 962; 173].
Proof. vm_compute. repeat split. Qed.

(* 'ǆx ßa': upper 'ǄX SSA', lower unchanged, title 'ǅx Ssa' *)
Example case_dz_digraph :
  py_upper [454; 120; 32; 223; 97] = [452; 88; 32; 83; 83; 65]
  /\ py_lower [454; 120; 32; 223; 97] = [454; 120; 32; 223; 97]
  /\ py_title [454; 120; 32; 223; 97] = [453; 120; 32; 83; 115; 97].
Proof. vm_compute. repeat split. Qed.

Example case_F'_kinds :
  case_F' 0 [223] = [83; 83] /\ case_F' 1 [913; 931] = [945; 962]
  /\ case_F' 2 [223] = [83; 115] /\ case_F' (-1) [223] = [83; 115].
Proof. vm_compute. repeat split. Qed.
