(* C19 - style transformations keep attributes concrete and inside the
   24-bit round-trip domain (for kernels that return 6 hexadecimal digits), so
   the round trip extends through any transformation. *)
From Coq Require Import ZArith List Bool Lia String.
From PTK Require Import Lib.Py Lib.C19_Str Gen.Whitespace Gen.C19_Palette
     Model.C19_Palette Model.C19_Style Model.C19_Sgr Model.C19_Transform
     Proofs.C19_PaletteFacts Proofs.C19_StrFacts Proofs.C19_StyleFacts Proofs.C19_SgrFacts
     Proofs.C19_StyleStringFacts Proofs.C19_ResolvedFacts.
Import ListNotations.
Open Scope Z_scope.

Definition kernel_ok (k : kernel) : Prop := forall c v, k c = Some v -> hex6_b v = true.
(* the colours a kernel is ever asked about: six hexadecimal digits
   (get_opposite_color, AdjustBrightness) or an ANSI colour name with an RGB
   value (AdjustBrightness) - the set the thorough sweep covers on the real code *)
Definition kernel_dom (c : str) : bool :=
  hex6_b c || match assoc c ansi_colors_to_rgb with Some _ => true | None => false end.
Definition kernel_total (k : kernel) : Prop := forall c, kernel_dom c = true -> exists v, k c = Some v.
(* get_opposite_color asks its kernel about six hexadecimal digits only *)
Definition kernel_total_hex (k : kernel) : Prop := forall c, hex6_b c = true -> exists v, k c = Some v.

Lemma opposite_names_table :
  forallb (fun kv : str * str => mem_str (snd kv) ansi_color_names) opposite_ansi_names = true.
Proof. vm_compute. reflexivity. Qed.

Lemma hex_ok : forall v, hex6_b v = true -> color_ok (Some v) = true.
Proof. intros v H. cbn [color_ok]. rewrite H. rewrite !orb_true_r. reflexivity. Qed.

Lemma opposite_ok : forall opp c c', kernel_ok opp ->
  color_ok c = true -> get_opposite_color opp c = Ok c' -> color_ok c' = true.
Proof.
  intros opp c c' Hk Hc H. unfold get_opposite_color in H. destruct c as [s|]; [|inversion H; reflexivity].
  destruct (is_nil s || str_eqb s s_default) eqn:E; [inversion H; subst; exact Hc|].
  destruct (assoc s opposite_ansi_names) as [n|] eqn:E2.
  - inversion H; subst. destruct (assoc_In _ _ _ E2) as [k' Hin].
    pose proof (proj1 (forallb_forall _ _) opposite_names_table _ Hin) as Hm. cbn [snd] in Hm.
    apply name_ok. exact Hm.
  - destruct (hex6_b s); [|discriminate]. destruct (opp s) as [v|] eqn:E3; [|discriminate].
    inversion H; subst. apply hex_ok. eapply Hk; eauto.
Qed.

Lemma set_default_ok : forall fg bg a a', rt_dom a -> set_default_color fg bg a = Ok a' -> rt_dom a'.
Proof.
  intros fg bg a a' [Hc Hb] H. unfold set_default_color in H.
  destruct (is_empty_or_default (a_bgcolor a)).
  - destruct (parse_color bg) as [c|] eqn:E; [|discriminate].
    pose proof (parse_color_in_domain _ _ E) as Hcb.
    cbn [a_color set_bgcolor] in H. destruct (is_empty_or_default (a_color a)).
    + destruct (parse_color fg) as [c2|] eqn:E2; [|discriminate]. inversion H; subst.
      split; cbn; [eapply parse_color_in_domain; eauto | exact Hcb].
    + inversion H; subst. split; cbn; assumption.
  - destruct (is_empty_or_default (a_color a)).
    + destruct (parse_color fg) as [c2|] eqn:E2; [|discriminate]. inversion H; subst.
      split; cbn; [eapply parse_color_in_domain; eauto | exact Hb].
    + inversion H; subst. split; assumption.
Qed.

Lemma adjust_ok : forall adj valid identity a a', kernel_ok adj -> rt_dom a ->
  adjust_brightness adj valid identity a = Ok a' -> rt_dom a'.
Proof.
  intros adj valid identity a a' Hk [Hc Hb] H. unfold adjust_brightness in H.
  destruct (negb valid); [discriminate|]. destruct identity; [inversion H; subst; split; assumption|].
  match type of H with (if ?c then _ else _) = _ => destruct c end; [|inversion H; subst; split; assumption].
  match type of H with context [assoc ?k ansi_colors_to_rgb] => destruct (assoc k ansi_colors_to_rgb) end.
  - match type of H with context [adj ?k] => destruct (adj k) as [v|] eqn:E end; [|discriminate].
    inversion H; subst. split; cbn; [apply hex_ok; eapply Hk; eauto | exact Hb].
  - match type of H with context [hex6_b ?k] => destruct (hex6_b k) end; [|discriminate].
    match type of H with context [adj ?k] => destruct (adj k) as [v|] eqn:E end; [|discriminate].
    inversion H; subst. split; cbn; [apply hex_ok; eapply Hk; eauto | exact Hb].
Qed.

Theorem transform_in_domain : forall opp adj, kernel_ok opp -> (forall mn mx, kernel_ok (adj mn mx)) ->
  forall t a a', rt_dom a -> transform opp adj t a = Ok a' -> rt_dom a'.
Proof.
  intros opp adj Ho Ha.
  fix IH 1. intros t a a' Hd H. destruct t as [| |fg bg|valid identity mn mx| |f t'|l|o]; cbn [transform] in H.
  - destruct Hd as [Hc Hb].
    destruct (get_opposite_color opp (a_color a)) as [c|] eqn:E1; [|discriminate].
    cbn [a_bgcolor set_color] in H.
    destruct (get_opposite_color opp (a_bgcolor a)) as [b|] eqn:E2; [|discriminate].
    inversion H; subst. split; cbn.
    + exact (opposite_ok opp _ _ Ho Hc E1).
    + exact (opposite_ok opp _ _ Ho Hb E2).
  - inversion H; subst. exact Hd.
  - eapply set_default_ok; eauto.
  - eapply adjust_ok; [apply Ha | exact Hd | exact H].
  - inversion H; subst. exact Hd.
  - destruct f; [eapply IH; eauto | inversion H; subst; exact Hd].
  - revert a Hd H. induction l as [|t' r IHl]; intros a Hd H.
    + inversion H; subst. exact Hd.
    + destruct (transform opp adj t' a) as [a1|] eqn:E; [|discriminate].
      apply (IHl a1); [eapply IH; eauto | exact H].
  - destruct o as [t'|]; [eapply IH; eauto | inversion H; subst; exact Hd].
Qed.

(* concreteness of the flags is kept; colours stay concrete when they were
   (get_opposite_color maps None to None and nothing else to None) *)
Lemma opposite_some : forall opp c c', get_opposite_color opp c = Ok c' -> c <> None -> c' <> None.
Proof.
  intros opp c c' H Hn. unfold get_opposite_color in H. destruct c as [s|]; [|contradiction].
  destruct (is_nil s || str_eqb s s_default); [inversion H; discriminate|].
  destruct (assoc s opposite_ansi_names); [inversion H; discriminate|].
  destruct (hex6_b s); [|discriminate]. destruct (opp s); [inversion H; discriminate | discriminate].
Qed.

Theorem transform_concrete : forall opp adj t a a',
  concrete a -> transform opp adj t a = Ok a' -> concrete a'.
Proof.
  intros opp adj. fix IH 1. intros t a a' Hd H.
  destruct t as [| |fg bg|valid identity mn mx| |f t'|l|o]; cbn [transform] in H.
  - destruct Hd as (C1 & C2 & C3).
    destruct (get_opposite_color opp (a_color a)) as [c|] eqn:E1; [|discriminate].
    cbn [a_bgcolor set_color] in H.
    destruct (get_opposite_color opp (a_bgcolor a)) as [b|] eqn:E2; [|discriminate].
    inversion H; subst. unfold concrete. cbn.
    split; [eapply opposite_some; eauto|]. split; [eapply opposite_some; eauto | exact C3].
  - inversion H; subst. unfold concrete in *. cbn. intuition discriminate.
  - unfold set_default_color in H. unfold concrete in *.
    destruct (is_empty_or_default (a_bgcolor a)).
    + destruct (parse_color bg); [|discriminate]. cbn [a_color set_bgcolor] in H.
      destruct (is_empty_or_default (a_color a)).
      * destruct (parse_color fg); [|discriminate]. inversion H; subst. cbn. intuition discriminate.
      * inversion H; subst. cbn. intuition discriminate.
    + destruct (is_empty_or_default (a_color a)).
      * destruct (parse_color fg); [|discriminate]. inversion H; subst. cbn. intuition discriminate.
      * inversion H; subst. exact Hd.
  - unfold adjust_brightness in H. destruct (negb valid); [discriminate|].
    destruct identity; [inversion H; subst; exact Hd|].
    match type of H with (if ?c then _ else _) = _ => destruct c end; [|inversion H; subst; exact Hd].
    unfold concrete in *.
    match type of H with context [assoc ?k ansi_colors_to_rgb] => destruct (assoc k ansi_colors_to_rgb) end.
    + match type of H with context [adj ?k] => destruct (adj k) end; [|discriminate].
      inversion H; subst. cbn. intuition discriminate.
    + match type of H with context [hex6_b ?k] => destruct (hex6_b k) end; [|discriminate].
      match type of H with context [adj ?k] => destruct (adj k) end; [|discriminate].
      inversion H; subst. cbn. intuition discriminate.
  - inversion H; subst. exact Hd.
  - destruct f; [eapply IH; eauto | inversion H; subst; exact Hd].
  - revert a Hd H. induction l as [|t' r IHl]; intros a Hd H.
    + inversion H; subst. exact Hd.
    + destruct (transform opp adj t' a) as [a1|] eqn:E; [|discriminate].
      apply (IHl a1); [eapply IH; eauto | exact H].
  - destruct o as [t'|]; [eapply IH; eauto | inversion H; subst; exact Hd].
Qed.

(* the round trip extends through transformations *)
Theorem sgr_roundtrip_transformed : forall opp adj rules s d a t a',
  kernel_ok opp -> (forall mn mx, kernel_ok (adj mn mx)) -> rt_dom d ->
  style_get rules s d = Ok a -> transform opp adj t a = Ok a' ->
  concrete a' /\ decode_seq (escape_code 24 a') = Ok (canon a').
Proof.
  intros opp adj rules s d a t a' Ho Ha Hd Hs Ht. split.
  - eapply transform_concrete; [|exact Ht]. unfold style_get in Hs.
    destruct (mk_style rules); [|discriminate]. eapply get_attrs_concrete; eauto.
  - apply sgr_roundtrip_24_attrs.
    apply (transform_in_domain opp adj Ho Ha t a a'); [exact (resolved_in_domain rules s d a Hd Hs) | exact Ht].
Qed.

(* before the fix 65ab1ba totality did not hold: the resolved colour "default"
   (style "fg:default") crashed AdjustBrightnessStyleTransformation with
   ValueError (int("ul", 16)); the current function leaves it alone *)
Definition const_kernel : kernel := fun _ => Some [48; 48; 48; 48; 48; 48].
Theorem adjust_pinned_refuted :
  exists rules s a,
    style_get rules s DEFAULT_ATTRS = Ok a /\
    kernel_ok const_kernel /\ kernel_total const_kernel /\
    adjust_brightness_pinned const_kernel true false a = Err 1 /\
    adjust_brightness const_kernel true false a = Ok a.
Proof.
  exists [], [102; 103; 58; 100; 101; 102; 97; 117; 108; 116]. eexists.
  split; [vm_compute; reflexivity|]. split.
  - intros c v H. inversion H. reflexivity.
  - split; [intros c _; eexists; reflexivity|]. split; vm_compute; reflexivity.
Qed.

(* with valid brightness bounds and well-formed default colours every
   transformation of an in-domain Attrs succeeds *)
Fixpoint well_formed (t : transf) : bool :=
  match t with
  | TSetDefault fg bg =>
      match parse_color fg, parse_color bg with Some _, Some _ => true | _, _ => false end
  | TAdjust valid _ _ _ => valid
  | TCond _ t' => well_formed t'
  | TMerged l => (fix all (l : list transf) : bool :=
                    match l with [] => true | t' :: r => well_formed t' && all r end) l
  | TDynamic (Some t') => well_formed t'
  | _ => true
  end.

Lemma opposite_total : forall opp c, kernel_total_hex opp -> color_ok c = true ->
  exists c', get_opposite_color opp c = Ok c'.
Proof.
  intros opp c Ht Hc. unfold get_opposite_color. destruct c as [s|]; [|eauto].
  cbn [color_ok] in Hc. destruct (is_nil s || str_eqb s s_default) eqn:E; [eauto|].
  destruct (assoc s opposite_ansi_names) eqn:E2; [eauto|].
  cbn [orb] in Hc. destruct (mem_str s ansi_color_names) eqn:E3.
  - exfalso. assert (X : forallb (fun n => match assoc n opposite_ansi_names with Some _ => true | None => false end) ansi_color_names = true) by (vm_compute; reflexivity).
    apply mem_str_In in E3. pose proof (proj1 (forallb_forall _ _) X _ E3) as Y. cbv beta in Y. rewrite E2 in Y. discriminate.
  - cbn [orb] in Hc. rewrite Hc.
    destruct (Ht s Hc) as [v Hv]. rewrite Hv. eauto.
Qed.

Lemma names_have_rgb :
  forallb (fun n => match assoc n ansi_colors_to_rgb with Some _ => true | None => false end) ansi_color_names = true.
Proof. vm_compute. reflexivity. Qed.

Lemma adjust_total : forall adj identity a, kernel_total adj -> rt_dom a ->
  exists a', adjust_brightness adj true identity a = Ok a'.
Proof.
  intros adj identity a Ht [Hc _]. unfold adjust_brightness. cbn [negb].
  destruct identity; [eauto|].
  match goal with |- context [if ?c then _ else _] => destruct c eqn:Econd end; [|eauto].
  apply andb_prop in Econd. destruct Econd as [Hfg _].
  destruct (a_color a) as [s|] eqn:Ea; [|discriminate].
  apply andb_prop in Hfg. destruct Hfg as [Hfg Hnd]. apply andb_prop in Hfg. destruct Hfg as [Hnn Hna].
  apply negb_true_iff in Hnn, Hnd.
  destruct (assoc s ansi_colors_to_rgb) eqn:E1.
  - destruct (Ht s ltac:(unfold kernel_dom; rewrite E1; apply orb_true_r)) as [v Hv]. rewrite Hv. eauto.
  - cbn [color_ok] in Hc. rewrite Hnn, Hnd in Hc. cbn [orb] in Hc.
    destruct (mem_str s ansi_color_names) eqn:Em.
    + exfalso. apply mem_str_In in Em.
      pose proof (proj1 (forallb_forall _ _) names_have_rgb _ Em) as Y. cbv beta in Y.
      rewrite E1 in Y. discriminate.
    + cbn [orb] in Hc. rewrite Hc.
      destruct (Ht s ltac:(unfold kernel_dom; rewrite Hc; reflexivity)) as [v Hv]. rewrite Hv. eauto.
Qed.

Theorem transform_total : forall opp adj, kernel_ok opp -> kernel_total_hex opp ->
  (forall mn mx, kernel_ok (adj mn mx)) -> (forall mn mx, kernel_total (adj mn mx)) ->
  forall t a, well_formed t = true -> rt_dom a -> exists a', transform opp adj t a = Ok a'.
Proof.
  intros opp adj Hk Ht Hka Hta. fix IH 1. intros t a Hw Hd.
  destruct t as [| |fg bg|valid identity mn mx| |f t'|l|o]; cbn [transform]; cbn [well_formed] in Hw.
  - destruct Hd as [Hc Hb]. destruct (opposite_total opp _ Ht Hc) as [c E1]. rewrite E1.
    cbn [a_bgcolor set_color]. destruct (opposite_total opp _ Ht Hb) as [b E2]. rewrite E2. eauto.
  - eauto.
  - unfold set_default_color. destruct (parse_color fg); [|discriminate]. destruct (parse_color bg); [|discriminate].
    destruct (is_empty_or_default (a_bgcolor a)); cbn [a_color set_bgcolor];
      destruct (is_empty_or_default (a_color a)); eauto.
  - subst valid. apply adjust_total; [apply Hta | assumption].
  - eauto.
  - destruct f; [apply IH; assumption | eauto].
  - revert a Hd. induction l as [|t' r IHl]; intros a Hd; [eauto|].
    apply andb_prop in Hw. destruct Hw as [Hw1 Hw2].
    destruct (IH t' a Hw1 Hd) as [a1 E]. rewrite E.
    apply (IHl Hw2 a1).
    exact (transform_in_domain opp adj Hk Hka t' a a1 Hd E).
  - destruct o as [t'|]; [apply IH; assumption | eauto].
Qed.
