(* C08 - the text-object functions return the intended span (core subset),
   from C02's proved query theorems (Proofs/C02_Coords, C02_WordsExact,
   C02_FindExact).  [valid d] is 0 <= cursor <= len text. *)
From Coq Require Import ZArith List Bool Lia.
From PTK Require Import Lib.Sx Lib.Py Model.Document Model.BufferEdit Model.C02_DocQueries
  Model.C08_ViOps Model.C08_TextObjects
  Proofs.C02_Base Proofs.C02_Coords Proofs.C02_WordsExact Proofs.C02_FindExact.
Import ListNotations.
Open Scope Z_scope.

(* h: exactly min(count, column) characters to the left, never across the line start *)
Lemma span_h d n hc :
  valid d -> 0 <= n ->
  let k := Z.min (len (current_line_before_cursor d)) n in
  text_object T_h d n hc = TO (mk1 (- k)) (k =? 0).
Proof.
  intros Hv Hn k. cbn [text_object]. unfold excl0. rewrite C02c_left_lands by assumption.
  fold k. f_equal. destruct (k =? 0) eqn:E; lia.
Qed.

(* l: exactly min(count, rest of the line) characters to the right, never across the line ending *)
Lemma span_l d n hc :
  valid d -> 0 <= n ->
  let k := Z.min n (len (current_line_after_cursor d)) in
  text_object T_l d n hc = TO (mk1 k) (k =? 0).
Proof.
  intros Hv Hn k. cbn [text_object]. unfold excl0. rewrite C02c_right_lands by assumption. reflexivity.
Qed.

(* 0: back to the first column of the cursor line *)
Lemma span_zero d n hc :
  valid d ->
  let k := len (current_line_before_cursor d) in
  text_object T_zero d n hc = TO (mk1 (- k)) (k =? 0) /\
  mem_Z NL (current_line_before_cursor d) = false.
Proof.
  intros Hv k. split.
  - cbn [text_object]. unfold excl0. rewrite C02c_start_of_line_lands by assumption.
    fold k. f_equal. destruct (k =? 0) eqn:E; lia.
  - apply C02c_line_parts. exact Hv.
Qed.

(* $: up to (not including) the line ending of the cursor line, or the end of the text *)
Lemma span_dollar d n hc :
  valid d ->
  let k := len (current_line_after_cursor d) in
  text_object T_dollar d n hc = TO (mk1 k) (k =? 0) /\
  mem_Z NL (current_line_after_cursor d) = false /\
  (dcur d + k = len (dtext d) \/ nth_error (dtext d) (Z.to_nat (dcur d + k)) = Some NL).
Proof.
  intros Hv k. split; [reflexivity|]. split; [apply C02c_line_parts; exact Hv|].
  exact (C02c_end_of_line_lands d Hv).
Qed.

(* ^ stays on the cursor line *)
Lemma span_caret d n hc :
  valid d ->
  exists v, text_object T_caret d n hc = TO (mk1 v) (v =? 0) /\
            - len (current_line_before_cursor d) <= v <= len (current_line_after_cursor d).
Proof.
  intros Hv. eexists. split; [reflexivity|].
  apply C02c_get_start_of_line_position_same_line. exact Hv.
Qed.

(* w / W: to the count-th word start after the cursor; to the end of the
   text when there are fewer *)
Lemma span_w d n hc W l :
  valid d -> 1 <= n ->
  enumerates (fun j => dcur d < j /\ word_start (word_cls W) (dtext d) j) l ->
  text_object (T_w W) d n hc =
  match pick l n with
  | Some j => TO (mk1 (j - dcur d)) false
  | None => TO (mk1 (len (dtext d) - dcur d)) (len (dtext d) - dcur d =? 0)
  end.
Proof.
  intros Hv Hn Hl. cbn [text_object].
  rewrite (C02x_next_word_beginning_exact d n W Hv Hn l Hl).
  destruct (pick l n) as [j|] eqn:Ep; cbn [option_map orz].
  - assert (Hin : In j l).
    { unfold pick in Ep. destruct (n <? 1); [discriminate|]. eapply nth_error_In; exact Ep. }
    apply (proj2 Hl) in Hin. destruct Hin as [Hj _].
    destruct (j - dcur d =? 0) eqn:E; [lia|]. unfold excl0. rewrite E. reflexivity.
  - change (0 =? 0) with true. cbv iota. reflexivity.
Qed.

(* b / B: back to the count-th word start before the cursor (nearest first);
   fails when there are fewer *)
Lemma span_b d n hc W l :
  valid d -> 1 <= n ->
  enumerates (fun j => j < dcur d /\ word_start (word_cls W) (dtext d) j) l ->
  text_object (T_b W) d n hc =
  match pick (rev l) n with
  | Some j => TO (mk1 (j - dcur d)) false
  | None => TO (mk1 0) true
  end.
Proof.
  intros Hv Hn Hl. cbn [text_object].
  rewrite (C02x_start_of_previous_word_exact d n W Hv Hn l Hl).
  destruct (pick (rev l) n) as [j|] eqn:Ep; cbn [option_map orz].
  - assert (Hin : In j l).
    { apply in_rev. unfold pick in Ep. destruct (n <? 1); [discriminate|]. eapply nth_error_In; exact Ep. }
    apply (proj2 Hl) in Hin. destruct Hin as [Hj _].
    unfold excl0. destruct (j - dcur d =? 0) eqn:E; [lia|]. reflexivity.
  - reflexivity.
Qed.

(* e / E: inclusive, up to the last character of the count-th word that ends
   after the character under the cursor; fails when there are fewer *)
Lemma span_e d n hc W l :
  valid d -> 1 <= n ->
  enumerates (fun j => dcur d + 1 < j /\ word_end (word_cls W) (dtext d) j) l ->
  text_object (T_e W) d n hc =
  match pick l n with
  | Some j => TO (mkto (j - 1 - dcur d) 0 INCL) false
  | None => TO (mkto 0 0 INCL) true
  end.
Proof.
  intros Hv Hn Hl. cbn [text_object].
  rewrite (C02x_next_word_ending_exact d false n W Hv Hn l Hl).
  destruct (pick l n) as [j|] eqn:Ep; cbn [option_map]; [|reflexivity].
  assert (Hin : In j l).
  { unfold pick in Ep. destruct (n <? 1); [discriminate|]. eapply nth_error_In; exact Ep. }
  apply (proj2 Hl) in Hin. destruct Hin as [Hj _].
  destruct (j - dcur d =? 0) eqn:E; [lia|]. do 2 f_equal. lia.
Qed.

(* f c / t c: to (inclusive) / up to the count-th occurrence of c in the rest
   of the cursor line, after the character under the cursor; F c: back to the
   count-th occurrence before the cursor on the cursor line *)
Lemma span_f d n hc ch l :
  greedy (occ ceq_exact [ch] (find_scanned d true false)) (fstep [ch]) 0 l ->
  text_object (T_f ch) d n hc =
  if len (current_line_after_cursor d) =? 0 then TO (mk1 0) true
  else match nth_match l n with
       | Some p => if p + 1 =? 0 then TO (mk1 0) true else TO (mkto (p + 1) 0 INCL) false
       | None => TO (mk1 0) true
       end.
Proof.
  intros G. cbn [text_object]. rewrite (find_exact ceq_exact d [ch] true false n l G).
  cbn [negb andb]. destruct (len (current_line_after_cursor d) =? 0); [reflexivity|].
  destruct (nth_match l n); reflexivity.
Qed.

Lemma span_t d n hc ch l :
  greedy (occ ceq_exact [ch] (find_scanned d true false)) (fstep [ch]) 0 l ->
  text_object (T_t ch) d n hc =
  if len (current_line_after_cursor d) =? 0 then TO (mk1 0) true
  else match nth_match l n with
       | Some p => if p + 1 =? 0 then TO (mk1 0) true else TO (mkto (p + 1 - 1) 0 INCL) false
       | None => TO (mk1 0) true
       end.
Proof.
  intros G. cbn [text_object]. rewrite (find_exact ceq_exact d [ch] true false n l G).
  cbn [negb andb]. destruct (len (current_line_after_cursor d) =? 0); [reflexivity|].
  destruct (nth_match l n); reflexivity.
Qed.

Lemma span_F d n hc ch l :
  greedy (occ ceq_exact (rev [ch]) (rev (current_line_before_cursor d))) (fstep [ch]) 0 l ->
  text_object (T_F ch) d n hc =
  match nth_match l n with
  | Some p => excl0 (- p - 1)
  | None => TO (mk1 0) true
  end.
Proof.
  intros G. cbn [text_object].
  rewrite (find_backwards_exact ceq_exact d [ch] true n l G).
  destruct (nth_match l n); reflexivity.
Qed.

(* T c: back to just after the count-th occurrence before the cursor on the cursor line *)
Lemma span_T d n hc ch l :
  greedy (occ ceq_exact (rev [ch]) (rev (current_line_before_cursor d))) (fstep [ch]) 0 l ->
  text_object (T_T ch) d n hc =
  match nth_match l n with
  | Some p => if - p - 1 =? 0 then TO (mk1 0) true else excl0 (- p - 1 + 1)
  | None => TO (mk1 0) true
  end.
Proof.
  intros G. cbn [text_object].
  rewrite (find_backwards_exact ceq_exact d [ch] true n l G).
  destruct (nth_match l n); reflexivity.
Qed.

(* ; and , : the last f/F/t/T search repeated, in its own or the opposite
   direction; they ARE f (inclusive) resp. F (exclusive) on the stored character *)
Lemma span_repeat_forward d n hc reverse ch backwards :
  xorb backwards reverse = false ->
  text_object (T_repeat reverse true ch backwards) d n hc = text_object (T_f ch) d n hc.
Proof. intros H. cbn [text_object]. rewrite H. reflexivity. Qed.

Lemma span_repeat_backward d n hc reverse ch backwards :
  xorb backwards reverse = true ->
  text_object (T_repeat reverse true ch backwards) d n hc =
  if_match (dfind_backwards ceq_exact d [ch] true n) (fun v => v) EXCL.
Proof. intros H. cbn [text_object]. rewrite H. reflexivity. Qed.

Lemma span_repeat_none d n hc reverse ch backwards :
  text_object (T_repeat reverse false ch backwards) d n hc = TO (mk1 0) true.
Proof. reflexivity. Qed.
