(* C06 - the final render on the bounded terminal, when it scrolls (the output
   fills all H rows): the NEW last row is blank in the default attributes, so
   the bounded terminal ends as the unbounded one shifted up one line on ALL
   its rows (the first output line went to the scrollback). *)
From Coq Require Import ZArith List Bool Lia.
From PTK Require Import Lib.Sx Lib.Py Model.C06_Terminal Model.C06_Renderer
  Proofs.C06_TermFacts Proofs.C06_RowFacts Proofs.C06_DiffFacts Proofs.C06_SyncFacts Proofs.C06_ScrollFacts
  Proofs.C06_DoneScroll.
Import ListNotations.
Open Scope Z_scope.

(* tokens that change neither the grid nor the cursor position *)
Definition quiet (k : tok) : Prop :=
  match k with TSGR _ | TAW _ | TCV _ | TRaw _ => True | _ => False end.

Lemma quiet_plain : forall k, quiet k -> plain k.
Proof. intros k Q. destruct k; cbn in *; auto. Qed.

Lemma quiet_step : forall W t k, quiet k ->
  tgrid (tstep W t k) = tgrid t /\ cx (tstep W t k) = cx t /\ cy (tstep W t k) = cy t.
Proof. intros W t k Q. destruct k; cbn [quiet] in Q; try contradiction; cbn; auto. Qed.

Lemma quiet_run : forall W ks t, Forall quiet ks ->
  tgrid (trun W t ks) = tgrid t /\ cx (trun W t ks) = cx t /\ cy (trun W t ks) = cy t.
Proof.
  induction ks as [|k ks IH]; intros t F; cbn [trun fold_left]; [auto|].
  inversion F as [|? ? Q F']; subst. destruct (quiet_step W t k Q) as (A & B & C).
  destruct (IH (tstep W t k) F') as (A' & B' & C'). change (fold_left (tstep W) ks (tstep W t k)) with (trun W (tstep W t k) ks). repeat split; congruence.
Qed.

Lemma quiet_runB : forall B W ks t n, Forall quiet ks -> trunB B W (t, n) ks = (trun W t ks, n).
Proof.
  induction ks as [|k ks IH]; intros t n F; cbn [trunB trun fold_left]; [reflexivity|].
  inversion F as [|? ? Q F']; subst.
  rewrite (tstepB_plain B W t n k (quiet_plain k Q)) by (intros ->; contradiction).
  apply IH. exact F'.
Qed.

Lemma run_scroll_once_ed : forall B W pre post t n b2,
  Forall plain pre -> Forall quiet post -> okrun B b2 W t (pre ++ TED :: post) ->
  trunB B W (t, n) (pre ++ TED :: post) = (trun W t (pre ++ TED :: post), n) \/
  exists tb', trunB B W (t, n) (pre ++ TED :: post) = (tb', n + 1) /\
    shifted B (trun W t (pre ++ TED :: post)) tb' /\
    (cy (trun W t (pre ++ TED :: post)) = B ->
     forall x, cx (trun W t (pre ++ TED :: post)) <= x ->
       tgrid tb' (B - 1) x = tgrid (trun W t (pre ++ TED :: post)) B x).
Proof.
  intros B W pre post t n b2 Fp Fq O.
  apply okrun_app in O. destruct O as (O1 & O2).
  rewrite trunB_app, trun_app.
  set (tu1 := trun W t pre) in *.
  assert (TAIL : forall tb m, trunB B W (tb, m) (TED :: post) = (trun W tb (TED :: post), m)).
  { intros tb m. cbn [trunB trun fold_left].
    rewrite (tstepB_plain B W tb m TED I) by discriminate. apply quiet_runB. exact Fq. }
  destruct (run_scroll_once B W pre t n b2 Fp O1) as [E|(tb1 & E & S)]; rewrite E.
  - left. apply TAIL.
  - right. exists (trun W tb1 (TED :: post)). split; [apply TAIL|].
    assert (S2 : shifted B (tstep W tu1 TED) (tstep W tb1 TED)).
    { apply step_shifted; [exact S|exact I|discriminate]. }
    cbn [okrun] in O2. destruct O2 as (_ & _ & O3).
    destruct (run_shifted B W post (tstep W tu1 TED) (tstep W tb1 TED) (n + 1) b2 S2
                (Forall_impl plain quiet_plain Fq) O3) as (tb' & T & S').
    rewrite quiet_runB in T by exact Fq. inversion T; subst tb'.
    split; [rewrite trun_cons; exact S'|].
    rewrite !trun_cons.
    destruct (quiet_run W post (tstep W tu1 TED) Fq) as (Gu & Xu & Yu).
    destruct (quiet_run W post (tstep W tb1 TED) Fq) as (Gb & Xb & Yb).
    rewrite Gu, Xu, Yu, Gb. cbn [tstep tgrid cx cy].
    intros CY x Hx. destruct S as (X & Y & N & _). fold tu1 in X, Y, N.
    unfold erase_down, erase_line. rewrite X, Y, N, CY.
    replace (B - 1 <? B - 1) with false by (symmetry; apply Z.ltb_ge; lia).
    replace (B <? B) with false by (symmetry; apply Z.ltb_ge; lia).
    rewrite !Z.eqb_refl. cbn [andb].
    destruct (cx tu1 <=? x) eqn:L; [reflexivity|apply Z.leb_gt in L; lia].
Qed.

(* the final render's tokens: ... erase_down, then only mode / attribute tokens *)
Lemma diff_body_done_split : forall tb W H fs scr prev pos ls cv,
  exists pre post, snd (diff_body tb W H fs true scr prev pos ls cv) = pre ++ TED :: post /\ Forall quiet post.
Proof.
  intros. unfold diff_body.
  destruct (rows_loop _ tb W 0 scr prev pos ls) as [[p1 l1] t1].
  destruct (if sh prev <? Z.min (sh scr) H
            then let '(l, t) := move_cursor W p1 l1 (0, Z.min (sh scr) H - 1) in ((0, Z.min (sh scr) H - 1), l, t)
            else (p1, l1, [])) as [[p2 l2] t2].
  destruct (move_cursor W p2 l2 (0, Z.min (sh scr) H)) as [l3 t3].
  destruct (if sshow scr then show_cursor cv else (cv, [])) as [cv' t5] eqn:E5.
  cbn [snd orb].
  exists (t1 ++ t2 ++ t3), ([TAW true] ++ [TSGR 0] ++ t5). split.
  - rewrite <- !app_assoc. reflexivity.
  - repeat constructor. destruct (sshow scr).
    + unfold show_cursor in E5. destruct cv as [[|]|]; inversion E5; subst; repeat constructor.
    + inversion E5; subst. constructor.
Qed.

Lemma reset_quiet : forall r, Forall quiet (snd (r_reset r)).
Proof.
  intros r. unfold r_reset. destruct (show_cursor (rcv r)) as [cv k3] eqn:E. cbn [snd].
  apply Forall_app. split; [destruct (ralt r); repeat constructor|].
  apply Forall_app. split; [destruct (rbp r); repeat constructor|].
  unfold show_cursor in E. destruct (rcv r) as [[|]|]; inversion E; subst; repeat constructor.
Qed.

Lemma screen_diff_done_split : forall tb W H fs scr prev pos ls prevW cv,
  exists pre post, snd (screen_diff tb W H fs true scr prev pos ls prevW cv) = pre ++ TED :: post /\ Forall quiet post.
Proof.
  intros. unfold screen_diff.
  destruct (hide_cursor cv) as [cv1 t0].
  destruct (if is_none prev then (None, [TSGR 0]) else (ls, [])) as [ls1 t1].
  cbn [orb].
  destruct (move_cursor W pos ls1 (0, 0)) as [lx t3].
  destruct (diff_body_done_split tb W H fs scr empty_screen (0, 0) None cv1) as (pre & post & E & Q).
  destruct (diff_body tb W H fs true scr empty_screen (0, 0) None cv1) as [[p3 c3] k4]. cbn [snd] in *.
  subst k4. exists (t0 ++ t1 ++ (if is_none prev || negb fs then [TAW false] else []) ++ (t3 ++ [TSGR 0; TED]) ++ pre), post.
  split; [rewrite <- !app_assoc; reflexivity|exact Q].
Qed.

Section LastRow.
Variable W H : Z.
Variable fs : bool.
Variable tbs : Z -> tabs.
Variable pvis : Z -> Z.
Variable wof : list Z -> Z.
Hypothesis HW : 1 <= W.
Hypothesis HH : 0 <= H.
Hypothesis Hpv : forall c a, ahs (tbs c) a = false -> pvis (apen (tbs c) a) = pvis 0.
Hypothesis Hw32 : wof [32] = 1.

Theorem render_done_scroll_full : forall r t cfg scr r' ks n,
  Sync W H fs tbs pvis wof r t -> wf_screen W wof H scr -> 1 <= H ->
  r_render tbs fs r cfg true W H scr = (r', ks) ->
  trunB H W (t, n) ks = (trun W t ks, n) \/
  exists tb', trunB H W (t, n) ks = (tb', n + 1) /\ shifted H (trun W t ks) tb' /\
    H <= sh scr /\ (forall x, 0 <= x -> tgrid tb' (H - 1) x = blank 0) /\
    (forall y x, y <= H - 1 -> 0 <= x -> tgrid tb' y x = tgrid (trun W t ks) (y + 1) x).
Proof.
  intros r t cfg scr r' ks n S Ws H1 R.
  destruct (Z_le_gt_dec (Z.min (sh scr) H) (H - 1)) as [Small|Full].
  { left. exact (render_done_bounded W H fs tbs pvis wof HW HH Hpv Hw32 r t cfg scr r' ks n S Ws H1 Small R). }
  pose proof (render_done_rows W H fs tbs pvis wof HW HH Hpv Hw32 r t cfg scr r' ks S Ws H1 R) as OK.
  destruct (render_done W H fs tbs pvis wof HW HH Hpv Hw32 r t cfg scr r' ks S Ws R) as (DS & _).
  rewrite (r_render_unfold W H fs tbs) in R.
  pose proof (plain_screen_diff (tbs cfg) W H fs true scr (last2_of W H r cfg) (rpos r) None
                (match rsize r with Some (w, _) => w | None => 0 end) (rcv r)) as PD.
  destruct (screen_diff_done_split (tbs cfg) W H fs scr (last2_of W H r cfg) (rpos r) None
                (match rsize r with Some (w, _) => w | None => 0 end) (rcv r)) as (pre & post & E & Q).
  destruct (screen_diff _ _ _ _ _ _ _ _ _ _ _) as [[pos cv] td] eqn:D. cbn [snd] in PD, E.
  cbv zeta in R.
  match type of R with context [r_reset ?x] =>
    pose proof (reset_quiet x) as PR; destruct (r_reset x) as [r2 te] eqn:RS end.
  cbn [snd] in PR. inversion R; subst r' ks; clear R.
  apply okrun_app in OK. destruct OK as (OK1 & OK2).
  assert (CY : cy t <= H - 1) by (destruct S as (_ & Cy & _ & Cyr & _); lia).
  assert (OKP : okrun (H - 1) 0 W t (prologue fs r)).
  { apply okrun_nondesc; [|exact CY|lia].
    unfold prologue. apply Forall_app. split; [destruct (fs && negb (ralt r)); repeat constructor|].
    apply Forall_app. split; [destruct (rbp r); repeat constructor|destruct (rckm r); repeat constructor]. }
  assert (EQ : td ++ te = pre ++ TED :: (post ++ te)) by (rewrite E, <- app_assoc; reflexivity).
  assert (Fpre : Forall plain pre) by (rewrite E in PD; apply Forall_app in PD; tauto).
  assert (Fq : Forall quiet (post ++ te)) by (apply Forall_app; split; assumption).
  rewrite trunB_app, (trunB_eq H W 0 (prologue fs r) t n CY OKP).
  destruct DS as (X & Y & N & _ & _ & _ & _ & _ & BL). cbv zeta in Y, BL.
  rewrite trun_app in X, Y, BL |- *.
  set (tp := trun W t (prologue fs r)) in *.
  rewrite EQ in *.
  destruct (run_scroll_once_ed H W pre (post ++ te) tp n (Z.min (Z.max (sh scr) (prevh r)) H - 1) Fpre Fq)
    as [L|(tb' & T & SH & LR)].
  - eapply okrun_mono; [| |exact OK2]; lia.
  - left. exact L.
  - right. exists tb'. split; [exact T|]. split; [exact SH|]. split; [lia|].
    assert (LAST : forall x, 0 <= x -> tgrid tb' (H - 1) x = blank 0).
    { intros x Hx. rewrite LR by lia. apply BL; lia. }
    split; [exact LAST|].
    intros y x Hy Hx. destruct (Z.eq_dec y (H - 1)) as [->|Ne].
    + rewrite LAST by exact Hx. replace (H - 1 + 1) with H by lia. symmetry. apply BL; lia.
    + destruct SH as (_ & _ & _ & _ & _ & _ & _ & G). apply G. lia.
Qed.

End LastRow.
