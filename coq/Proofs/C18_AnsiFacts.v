(* C18 - facts about the ANSI machine (Model/C18_Ansi.v). *)
From Coq Require Import ZArith List Bool Lia.
From PTK Require Import Lib.Sx Lib.Py Gen.C18_Tables Model.C18_Fragments Model.C18_Ansi
  Proofs.C18_FragmentsFacts.
Import ListNotations.
Open Scope Z_scope.

(* ---------------------------------------------------------------------- *)
(* vocabulary *)

(* the characters that take the machine out of its ground state *)
Definition is_intro (c : Z) : bool := (c =? ESC) || (c =? CSI8) || (c =? SOH).
Definition no_intro (s : str) : bool := forallb (fun c => negb (is_intro c)) s.

(* the control characters the repaired ansi_escape turns into '?' *)
Definition is_ctl (c : Z) : bool := (c =? ESC) || (c =? BS) || (c =? CSI8) || (c =? SOH) || (c =? STX).
Definition neutralise (c : Z) : Z := if is_ctl c then QM else c.

(* what a ground-state machine with style [sty] emits for inert text *)
Definition as_text (sty : str) (w : str) : list frag := map (fun c => mkfrag sty [c] []) w.

(* ---------------------------------------------------------------------- *)
(* run *)

Lemma run_app k : forall a st b,
  run k st (a ++ b) =
  match run k st a with
  | Err e => Err e
  | Ok (st', o) =>
      match run k st' b with
      | Err e => Err e
      | Ok (st'', o') => Ok (st'', o ++ o')
      end
  end.
Proof.
  induction a as [|c r IH]; intros st b.
  - cbn [app run]. destruct (run k st b) as [[st' o]|e]; reflexivity.
  - cbn [app run]. destruct (step k st c) as [[st1 o1]|e]; [|reflexivity].
    rewrite IH. destruct (run k st1 r) as [[st2 o2]|e]; [|reflexivity].
    destruct (run k st2 b) as [[st3 o3]|e]; [|reflexivity].
    now rewrite app_assoc.
Qed.

Lemma with_mode_same st : with_mode st (p_mode st) = st.
Proof. destruct st; reflexivity. Qed.

Lemma step_ground_inert k st c :
  p_mode st = Ground -> is_intro c = false ->
  step k st c = Ok (st, [mkfrag (p_style st) [c] []]).
Proof.
  intros Hm Hi. unfold is_intro in Hi. rewrite !orb_false_iff in Hi. destruct Hi as [[H1 H2] H3].
  unfold step. rewrite Hm, H3. unfold dispatch. rewrite H1, H2.
  rewrite <- Hm at 1. now rewrite with_mode_same.
Qed.

(* A machine in its ground state fed text without introducers emits it,
   character by character, with the style in effect, and is left exactly
   where it was: same mode, same style string, same SGR flags. *)
Theorem run_inert k : forall w st,
  p_mode st = Ground -> no_intro w = true ->
  run k st w = Ok (st, as_text (p_style st) w).
Proof.
  induction w as [|c r IH]; intros st Hm Hn.
  - reflexivity.
  - cbn [no_intro forallb] in Hn. apply andb_true_iff in Hn. destruct Hn as [Hc Hr].
    apply negb_true_iff in Hc. cbn [run]. rewrite (step_ground_inert k st c Hm Hc).
    fold (no_intro r) in Hr. rewrite (IH st Hm Hr). reflexivity.
Qed.

Lemma not_zwe_nil : is_zwe [] = false.
Proof. reflexivity. Qed.

Lemma to_text_as_text sty w : is_zwe sty = false -> fragment_list_to_text (as_text sty w) = w.
Proof.
  intros Hz. induction w as [|c r IH]; [reflexivity|].
  cbn [as_text map fragment_list_to_text fstyle ftext]. rewrite Hz.
  fold (as_text sty r). now rewrite IH.
Qed.

(* plain text comes back as itself, unstyled *)
Theorem ansi_plain k s :
  no_intro s = true ->
  ansi_parse k s = Ok (as_text [] s) /\ fragment_list_to_text (as_text [] s) = s.
Proof.
  intros Hn. split.
  - unfold ansi_parse. now rewrite (run_inert k s pst0 eq_refl Hn).
  - apply to_text_as_text. reflexivity.
Qed.

(* ---------------------------------------------------------------------- *)
(* totality *)

Lemma step_total_repaired k st c :
  cfg_ascii_digits k = true -> exists r, step k st c = Ok r.
Proof.
  intros Hk. unfold step. destruct (p_mode st) as [|esc| | |cur params].
  - destruct (c =? SOH); eauto.
  - destruct (c =? STX); eauto.
  - eauto.
  - destruct (c =? 91); eauto.
  - destruct (csi_isdigit k c); [eauto|].
    unfold csi_int. rewrite Hk.
    destruct (c =? 59); [eauto|]. destruct (c =? 109); [eauto|]. destruct (c =? 67); eauto.
Qed.

Theorem run_total_repaired k : cfg_ascii_digits k = true -> forall s st, exists r, run k st s = Ok r.
Proof.
  intros Hk. induction s as [|c r IH]; intros st.
  - cbn. eauto.
  - cbn [run]. destruct (step_total_repaired k st c Hk) as [[st1 o1] ->].
    destruct (IH st1) as [[st2 o2] ->]. eauto.
Qed.

Theorem ansi_total_repaired k s : cfg_ascii_digits k = true -> exists o, ansi_parse k s = Ok o.
Proof.
  intros Hk. unfold ansi_parse. destruct (run_total_repaired k Hk s pst0) as [[st o] ->]. eauto.
Qed.

(* the code as it stands: ESC [ superscript-two m *)
Theorem ansi_total_refuted : exists s, ansi_parse cfg_pinned s = Err 1.
Proof. exists [27; 91; 178; 109]. vm_compute. reflexivity. Qed.

(* ... and ESC [ 1 1 1 ... m with one digit more than int() converts *)
Theorem ansi_total_digit_limit_refuted :
  (0 <? c18_int_max_str_digits) = true ->
  ansi_parse cfg_pinned
    (27 :: 91 :: repeat 49 (Z.to_nat (c18_int_max_str_digits + 1)) ++ [109]) = Err 1.
Proof.
  intros H. first [ now vm_compute | (vm_compute in H; discriminate) ].
Qed.

(* ---------------------------------------------------------------------- *)
(* ansi_escape *)

Lemma replace_char_map c r s : replace_char c r s = map (fun x => if x =? c then r else x) s.
Proof. reflexivity. Qed.

Theorem ansi_escape_spec_repaired k v :
  cfg_esc_c1 k = true -> ansi_escape k v = map neutralise v.
Proof.
  intros Hk. unfold ansi_escape. rewrite Hk. unfold replace_char. rewrite !map_map.
  apply map_ext. intros c. unfold neutralise, is_ctl, ESC, BS, CSI8, SOH, STX, QM.
  destruct (c =? 27) eqn:E1; [reflexivity|].
  destruct (c =? 8) eqn:E2; [reflexivity|].
  destruct (c =? 155) eqn:E3; [reflexivity|].
  destruct (c =? 1) eqn:E4; [reflexivity|].
  destruct (c =? 2) eqn:E5; reflexivity.
Qed.

Lemma neutralise_no_intro c : is_intro (neutralise c) = false.
Proof.
  unfold neutralise, is_ctl, is_intro, ESC, BS, CSI8, SOH, STX, QM.
  destruct (c =? 27) eqn:E1; [reflexivity|].
  destruct (c =? 8) eqn:E2; [reflexivity|].
  destruct (c =? 155) eqn:E3; [reflexivity|].
  destruct (c =? 1) eqn:E4; [reflexivity|].
  destruct (c =? 2) eqn:E5; [reflexivity|].
  cbn [orb]. rewrite E1, E3, E4. reflexivity.
Qed.

Lemma neutralise_not_ctl c : is_ctl (neutralise c) = false.
Proof.
  unfold neutralise. destruct (is_ctl c) eqn:E; [reflexivity | exact E].
Qed.

(* the repaired ansi_escape: same length, only the five control characters
   change (into '?'), and none of them is left *)
Theorem ansi_escape_safe_repaired k v :
  cfg_esc_c1 k = true ->
  length (ansi_escape k v) = length v /\
  forallb (fun c => negb (is_ctl c)) (ansi_escape k v) = true /\
  no_intro (ansi_escape k v) = true.
Proof.
  intros Hk. rewrite (ansi_escape_spec_repaired k v Hk). split; [apply map_length|].
  split.
  - apply forallb_forall. intros c Hc. apply in_map_iff in Hc. destruct Hc as (x & <- & _).
    now rewrite neutralise_not_ctl.
  - apply forallb_forall. intros c Hc. apply in_map_iff in Hc. destruct Hc as (x & <- & _).
    now rewrite neutralise_no_intro.
Qed.

Theorem ansi_escape_safe_repaired_full k v :
  cfg_esc_c1 k = true ->
  ansi_escape k v = map neutralise v /\
  length (ansi_escape k v) = length v /\
  forallb (fun c => negb (is_ctl c)) (ansi_escape k v) = true /\
  no_intro (ansi_escape k v) = true.
Proof.
  intros H. split; [exact (ansi_escape_spec_repaired k v H) | exact (ansi_escape_safe_repaired k v H)].
Qed.

(* the code as it stands leaves the 8-bit CSI and the zero-width marker *)
Theorem ansi_escape_safe_refuted : exists v, no_intro (ansi_escape cfg_pinned v) = false.
Proof. exists [155]. reflexivity. Qed.

Theorem ansi_escape_safe_refuted_zw : no_intro (ansi_escape cfg_pinned [1]) = false.
Proof. reflexivity. Qed.

(* ---------------------------------------------------------------------- *)
(* interpolation *)

(* An escaped value met in the ground state comes out as text with the style
   in effect and leaves the machine where it was. *)
Theorem ansi_value_inert_repaired k st v :
  cfg_esc_c1 k = true -> p_mode st = Ground ->
  run k st (ansi_escape k v) = Ok (st, as_text (p_style st) (ansi_escape k v)).
Proof.
  intros Hk Hm. apply run_inert; [assumption|].
  now destruct (ansi_escape_safe_repaired k v Hk) as (_ & _ & H).
Qed.

(* Template level: if the template text before the field leaves the machine
   in its ground state, then the text after the field is parsed from exactly
   that state, whatever the value: the value contributes its own characters,
   styled as the surrounding text, and nothing else. *)
Theorem ansi_template_inert_repaired k st0 pre v post st o1 :
  cfg_esc_c1 k = true ->
  run k st0 pre = Ok (st, o1) -> p_mode st = Ground ->
  run k st0 (pre ++ ansi_escape k v ++ post) =
  match run k st post with
  | Err e => Err e
  | Ok (st2, o2) => Ok (st2, o1 ++ as_text (p_style st) (ansi_escape k v) ++ o2)
  end.
Proof.
  intros Hk Hpre Hm. rewrite run_app, Hpre, run_app.
  rewrite (ansi_value_inert_repaired k st v Hk Hm).
  destruct (run k st post) as [[st2 o2]|e]; reflexivity.
Qed.

(* the code as it stands: 'a%sb' % '\x9b31m' *)
Theorem ansi_template_inert_refuted :
  exists pre v post st o1,
    run cfg_pinned pst0 pre = Ok (st, o1) /\ p_mode st = Ground /\
    run cfg_pinned pst0 (pre ++ ansi_escape cfg_pinned v ++ post) <>
    match run cfg_pinned st post with
    | Err e => Err e
    | Ok (st2, o2) => Ok (st2, o1 ++ as_text (p_style st) (ansi_escape cfg_pinned v) ++ o2)
    end.
Proof.
  exists [97], [155; 51; 49; 109], [98], pst0, [mkfrag [] [97] []].
  split; [reflexivity|]. split; [reflexivity|]. vm_compute. discriminate.
Qed.

(* ---------------------------------------------------------------------- *)
(* zero-width regions *)

Lemma run_zw k st : forall body acc,
  mem_Z STX body = false ->
  run k (with_mode st (Zw acc)) (body ++ [STX]) =
  Ok (with_mode st (if cfg_zw_loop k then Ground else ZwEnd), [mkfrag ZWE (acc ++ body) []]).
Proof.
  induction body as [|c r IH]; intros acc Hb.
  - cbn. now rewrite app_nil_r.
  - apply mem_Z_false_cons in Hb. destruct Hb as [Hc Hr].
    cbn [app run]. unfold step at 1. cbn [p_mode with_mode]. rewrite Hc.
    change (with_mode (with_mode st (Zw acc)) (Zw (acc ++ [c]))) with (with_mode st (Zw (acc ++ [c]))).
    rewrite (IH (acc ++ [c]) Hr). rewrite <- app_assoc. reflexivity.
Qed.

(* repaired: \001 body \002 met in the ground state yields one zero-width
   fragment carrying the body and leaves the machine where it was *)
Theorem ansi_zero_width_region_repaired k st body :
  cfg_zw_loop k = true -> p_mode st = Ground -> mem_Z STX body = false ->
  run k st (SOH :: body ++ [STX]) = Ok (st, [mkfrag ZWE body []]).
Proof.
  intros Hk Hm Hb. cbn [run]. unfold step at 1. rewrite Hm. cbn.
  rewrite (run_zw k st body [] Hb). rewrite Hk. cbn [app].
  rewrite <- Hm. now rewrite with_mode_same.
Qed.

(* the code as it stands: the second of two adjacent regions is shown *)
Theorem ansi_zero_width_adjacent_refuted :
  exists s o, ansi_parse cfg_pinned s = Ok o /\ fragment_list_to_text o = [1; 98; 2; 99].
Proof.
  exists [1; 97; 2; 1; 98; 2; 99]. eexists. split; [vm_compute; reflexivity|]. reflexivity.
Qed.

Example ansi_zero_width_adjacent_repaired_example :
  exists o, ansi_parse cfg_now [1; 97; 2; 1; 98; 2; 99] = Ok o /\ fragment_list_to_text o = [99].
Proof. eexists. split; [vm_compute; reflexivity|]. reflexivity. Qed.

(* hypotheses are satisfiable *)
Example run_inert_example :
  exists st o, run cfg_pinned pst0 [27; 91; 51; 49; 109] = Ok (st, o) /\ p_mode st = Ground /\
               p_style st = [97; 110; 115; 105; 114; 101; 100].
Proof. eexists. eexists. split; [vm_compute; reflexivity|]. split; reflexivity. Qed.

(* ---------------------------------------------------------------------- *)
(* The code that is in /repo now (cfg_now): the statements above without
   their repair hypotheses. *)

Theorem ansi_total_now s : exists o, ansi_parse cfg_now s = Ok o.
Proof. exact (ansi_total_repaired cfg_now s eq_refl). Qed.

Theorem ansi_escape_safe_now v :
  ansi_escape cfg_now v = map neutralise v /\
  length (ansi_escape cfg_now v) = length v /\
  forallb (fun c => negb (is_ctl c)) (ansi_escape cfg_now v) = true /\
  no_intro (ansi_escape cfg_now v) = true.
Proof. exact (ansi_escape_safe_repaired_full cfg_now v eq_refl). Qed.

Theorem ansi_template_inert_now st0 pre v post st o1 :
  run cfg_now st0 pre = Ok (st, o1) -> p_mode st = Ground ->
  run cfg_now st0 (pre ++ ansi_escape cfg_now v ++ post) =
  match run cfg_now st post with
  | Err e => Err e
  | Ok (st2, o2) => Ok (st2, o1 ++ as_text (p_style st) (ansi_escape cfg_now v) ++ o2)
  end.
Proof. exact (ansi_template_inert_repaired cfg_now st0 pre v post st o1 eq_refl). Qed.

Theorem ansi_zero_width_region_now st body :
  p_mode st = Ground -> mem_Z STX body = false ->
  run cfg_now st (SOH :: body ++ [STX]) = Ok (st, [mkfrag ZWE body []]).
Proof. exact (ansi_zero_width_region_repaired cfg_now st body eq_refl). Qed.

(* two adjacent regions: two zero-width fragments, nothing visible, state restored *)
Theorem ansi_zero_width_adjacent_now st b1 b2 :
  p_mode st = Ground -> mem_Z STX b1 = false -> mem_Z STX b2 = false ->
  run cfg_now st ((SOH :: b1 ++ [STX]) ++ (SOH :: b2 ++ [STX])) =
  Ok (st, [mkfrag ZWE b1 []; mkfrag ZWE b2 []]).
Proof.
  intros Hm H1 H2. rewrite run_app.
  rewrite (ansi_zero_width_region_now st b1 Hm H1), (ansi_zero_width_region_now st b2 Hm H2).
  reflexivity.
Qed.
