(* C02 - basic facts about the cursor views of Model/Document.v shared by the
   other C02 proof files. *)
From Coq Require Import ZArith List Bool Lia.
From PTK Require Import Lib.Sx Lib.Py Gen.Whitespace Model.Document.
Import ListNotations.
Open Scope Z_scope.

Definition valid (d : doc) : Prop := 0 <= dcur d <= len (dtext d).

Lemma Z2N_len {T} (s : list T) : Z.to_nat (len s) = length s.
Proof. unfold len. apply Nat2Z.id. Qed.

Lemma tb_firstn d : valid d -> text_before_cursor d = firstn (Z.to_nat (dcur d)) (dtext d).
Proof. intros [H0 H1]. unfold text_before_cursor. now apply slice_to_in_range. Qed.

Lemma ta_skipn d : valid d -> text_after_cursor d = skipn (Z.to_nat (dcur d)) (dtext d).
Proof. intros [H0 H1]. unfold text_after_cursor. now apply slice_from_in_range. Qed.

Lemma tb_ta d : valid d -> text_before_cursor d ++ text_after_cursor d = dtext d.
Proof. intros H. rewrite tb_firstn, ta_skipn by exact H. apply firstn_skipn. Qed.

Lemma len_tb d : valid d -> len (text_before_cursor d) = dcur d.
Proof. intros H. rewrite tb_firstn by exact H. rewrite len_firstn. destruct H. lia. Qed.

Lemma len_ta d : valid d -> len (text_after_cursor d) = len (dtext d) - dcur d.
Proof. intros H. rewrite ta_skipn by exact H. rewrite len_skipn. destruct H. lia. Qed.

(* s.partition(c)[0] *)
Lemma before_first_split c s :
  exists q, s = before_first c s ++ q /\ (q = [] \/ exists q', q = c :: q').
Proof.
  induction s as [|x s IH]; cbn [before_first].
  - exists []. split; [reflexivity|now left].
  - destruct (x =? c) eqn:E.
    + apply Z.eqb_eq in E. subst x. exists (c :: s). split; [reflexivity|]. right. now exists s.
    + destruct IH as [q [Hq Hd]]. exists q. split; [|exact Hd].
      cbn [app]. now rewrite <- Hq.
Qed.

Lemma before_first_no c s : mem_Z c (before_first c s) = false.
Proof.
  induction s as [|x s IH]; cbn [before_first mem_Z]; [reflexivity|].
  destruct (x =? c) eqn:E; cbn [mem_Z]; [reflexivity|]. now rewrite E, IH.
Qed.

Lemma mem_Z_app c a b : mem_Z c (a ++ b) = mem_Z c a || mem_Z c b.
Proof.
  induction a as [|x a IH]; cbn [app mem_Z]; [reflexivity|]. rewrite IH. now rewrite orb_assoc.
Qed.

Lemma mem_Z_rev c s : mem_Z c (rev s) = mem_Z c s.
Proof.
  induction s as [|x s IH]; cbn [rev mem_Z]; [reflexivity|].
  rewrite mem_Z_app, IH. cbn [mem_Z]. rewrite orb_false_r. apply orb_comm.
Qed.

(* s.rpartition(c)[2] *)
Lemma after_last_split c s :
  exists p, s = p ++ after_last c s /\ (p = [] \/ exists p', p = p' ++ [c]).
Proof.
  unfold after_last. destruct (before_first_split c (rev s)) as [q [Hq Hd]].
  exists (rev q). split.
  - rewrite <- rev_app_distr, <- Hq. now rewrite rev_involutive.
  - destruct Hd as [->|[q' ->]]; [now left|]. right. exists (rev q'). reflexivity.
Qed.

Lemma after_last_no c s : mem_Z c (after_last c s) = false.
Proof. unfold after_last. rewrite mem_Z_rev. apply before_first_no. Qed.

Lemma cla_split d :
  exists q, text_after_cursor d = current_line_after_cursor d ++ q /\ (q = [] \/ exists q', q = NL :: q').
Proof. apply before_first_split. Qed.

Lemma clb_split d :
  exists p, text_before_cursor d = p ++ current_line_before_cursor d /\ (p = [] \/ exists p', p = p' ++ [NL]).
Proof. apply after_last_split. Qed.

Lemma cla_no_nl d : mem_Z NL (current_line_after_cursor d) = false.
Proof. apply before_first_no. Qed.

Lemma clb_no_nl d : mem_Z NL (current_line_before_cursor d) = false.
Proof. apply after_last_no. Qed.

Lemma len_cla_le d : valid d -> 0 <= len (current_line_after_cursor d) <= len (dtext d) - dcur d.
Proof.
  intros H. rewrite <- (len_ta d H). destruct (cla_split d) as [q [Hq _]].
  pose proof (f_equal (@len Z) Hq) as HL. rewrite len_app in HL. pose proof (len_nonneg q).
  pose proof (len_nonneg (current_line_after_cursor d)). lia.
Qed.

Lemma len_clb_le d : valid d -> 0 <= len (current_line_before_cursor d) <= dcur d.
Proof.
  intros H. rewrite <- (len_tb d H). destruct (clb_split d) as [p [Hp _]].
  pose proof (f_equal (@len Z) Hp) as HL. rewrite len_app in HL. pose proof (len_nonneg p).
  pose proof (len_nonneg (current_line_before_cursor d)). lia.
Qed.

Lemma len_current_line d :
  len (current_line d) = len (current_line_before_cursor d) + len (current_line_after_cursor d).
Proof. unfold current_line. apply len_app. Qed.

(* nth_match picks a member *)
Lemma nth_error_some_in {T} (l : list T) n x : nth_error l n = Some x -> In x l.
Proof. apply nth_error_In. Qed.
