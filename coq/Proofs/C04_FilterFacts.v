(* C04 - the memoised filter algebra never changes meaning. *)
From Coq Require Import ZArith List Bool Lia Arith.PeanoNat.
From PTK Require Import Lib.Sx Model.C04_KeyProc Model.C04_Filters.
Import ListNotations.

(* ---------------------------------------------------------------- evaluation *)
Definition estep (e : env) (vals : list bool) (n : fnode) : list bool := vals ++ [eval_node vals e n].
Definition ev (e : env) (acc : list bool) (ns : list fnode) : list bool := fold_left (estep e) ns acc.

Lemma eval_nodes_ev ns e : eval_nodes ns e = ev e [] ns.
Proof. reflexivity. Qed.

Lemma ev_prefix e ns : forall acc, exists tl, ev e acc ns = acc ++ tl /\ length tl = length ns.
Proof.
  induction ns as [|n ns IH]; intros acc; cbn.
  - exists []. rewrite app_nil_r. split; reflexivity.
  - destruct (IH (estep e acc n)) as [tl [H1 H2]]. unfold ev in H1. rewrite H1. unfold estep.
    exists (eval_node acc e n :: tl). rewrite <- app_assoc. cbn. split; [reflexivity|lia].
Qed.

Lemma ev_length e ns acc : length (ev e acc ns) = (length acc + length ns)%nat.
Proof. destruct (ev_prefix e ns acc) as [tl [-> H]]. rewrite app_length. lia. Qed.

Lemma ev_app e a b acc : ev e acc (a ++ b) = ev e (ev e acc a) b.
Proof. unfold ev. apply fold_left_app. Qed.

Lemma ev_nth_acc e ns acc i : (i < length acc)%nat -> nth i (ev e acc ns) false = nth i acc false.
Proof. intros H. destruct (ev_prefix e ns acc) as [tl [-> _]]. apply app_nth1. exact H. Qed.

(* references of a node *)
Definition refs (n : fnode) : list nat :=
  match n with NAnd l | NOr l => l | NNot f => [f] | _ => [] end.

Lemma forallb_ext_in {T} (P Q : T -> bool) l : (forall x, In x l -> P x = Q x) -> forallb P l = forallb Q l.
Proof.
  induction l as [|a l IH]; intros H; [reflexivity|]. cbn. rewrite (H a (or_introl eq_refl)), IH; [reflexivity|].
  intros x Hx. apply H. right. exact Hx.
Qed.
Lemma existsb_ext_in {T} (P Q : T -> bool) l : (forall x, In x l -> P x = Q x) -> existsb P l = existsb Q l.
Proof.
  induction l as [|a l IH]; intros H; [reflexivity|]. cbn. rewrite (H a (or_introl eq_refl)), IH; [reflexivity|].
  intros x Hx. apply H. right. exact Hx.
Qed.

Lemma eval_node_ext v1 v2 e n :
  (forall j, In j (refs n) -> nth j v1 false = nth j v2 false) -> eval_node v1 e n = eval_node v2 e n.
Proof.
  destruct n; cbn [eval_node refs]; intros H; try reflexivity.
  - apply forallb_ext_in. exact H.
  - apply existsb_ext_in. exact H.
  - rewrite (H f (or_introl eq_refl)). reflexivity.
Qed.

Definition back_refs (ns : list fnode) : Prop :=
  forall i n, nth_error ns i = Some n -> forall j, In j (refs n) -> (j < i)%nat.

(* the value of object i is its node evaluated over the values of all objects *)
Lemma value_unfold ns e i n :
  back_refs ns -> nth_error ns i = Some n ->
  nth i (eval_nodes ns e) false = eval_node (eval_nodes ns e) e n.
Proof.
  intros BR Hn. destruct (nth_error_split _ _ Hn) as [pre [post [E L]]].
  rewrite eval_nodes_ev. rewrite E. rewrite ev_app. set (V := ev e [] pre).
  assert (LV : length V = i) by (unfold V; rewrite ev_length; cbn; lia).
  cbn [ev fold_left]. fold (ev e (estep e V n) post). unfold estep.
  rewrite ev_nth_acc by (rewrite app_length; cbn; lia).
  rewrite app_nth2 by lia. rewrite LV, Nat.sub_diag. cbn [nth].
  apply eval_node_ext. intros j Hj. pose proof (BR i n Hn j Hj) as Hlt.
  rewrite ev_nth_acc by (rewrite app_length; cbn; lia). rewrite app_nth1 by lia. reflexivity.
Qed.

Lemma value_alloc_old ns n e i : (i < length ns)%nat ->
  nth i (eval_nodes (ns ++ [n]) e) false = nth i (eval_nodes ns e) false.
Proof.
  intros H. rewrite !eval_nodes_ev, ev_app. apply ev_nth_acc. rewrite ev_length. cbn. lia.
Qed.

Lemma value_alloc_new ns n e :
  nth (length ns) (eval_nodes (ns ++ [n]) e) false = eval_node (eval_nodes ns e) e n.
Proof.
  rewrite !eval_nodes_ev, ev_app. cbn [ev fold_left]. unfold estep.
  rewrite app_nth2; rewrite ev_length; cbn; [|lia]. rewrite Nat.sub_diag. reflexivity.
Qed.

(* ------------------------------------------------------------------ dedupe *)
Lemma mem_nat_in x l : mem_nat x l = true <-> In x l.
Proof.
  induction l as [|y l IH]; cbn; [split; [discriminate|tauto]|].
  rewrite orb_true_iff, Nat.eqb_eq, IH. split; intros [H|H]; auto.
Qed.

Lemma dedupe_acc_in acc l x : In x (dedupe_acc acc l) <-> In x acc \/ In x l.
Proof.
  revert acc. induction l as [|y l IH]; intros acc; cbn [dedupe_acc In]; [tauto|].
  destruct (mem_nat y acc) eqn:E; rewrite IH.
  - apply mem_nat_in in E. split; [tauto|]. intros [H|[<-|H]]; tauto.
  - rewrite in_app_iff. cbn. tauto.
Qed.

Lemma dedupe_in l x : In x (dedupe l) <-> In x l.
Proof. unfold dedupe. rewrite dedupe_acc_in. cbn. tauto. Qed.

Lemma forallb_same_set {T} (P : T -> bool) l1 l2 : (forall x, In x l1 <-> In x l2) -> forallb P l1 = forallb P l2.
Proof.
  intros H. destruct (forallb P l1) eqn:E1; destruct (forallb P l2) eqn:E2; try reflexivity.
  - rewrite forallb_forall in E1. assert (forallb P l2 = true) by (apply forallb_forall; intros x Hx; apply E1, H, Hx). congruence.
  - rewrite forallb_forall in E2. assert (forallb P l1 = true) by (apply forallb_forall; intros x Hx; apply E2, H, Hx). congruence.
Qed.

Lemma existsb_same_set {T} (P : T -> bool) l1 l2 : (forall x, In x l1 <-> In x l2) -> existsb P l1 = existsb P l2.
Proof.
  intros H. destruct (existsb P l1) eqn:E1; destruct (existsb P l2) eqn:E2; try reflexivity.
  - apply existsb_exists in E1. destruct E1 as [x [Hx Px]].
    assert (existsb P l2 = true) by (apply existsb_exists; exists x; split; [apply H, Hx|exact Px]). congruence.
  - apply existsb_exists in E2. destruct E2 as [x [Hx Px]].
    assert (existsb P l1 = true) by (apply existsb_exists; exists x; split; [apply H, Hx|exact Px]). congruence.
Qed.

(* ------------------------------------------------------------- the invariant *)
Definition len (h : heap) : nat := length (nodes h).

Record wf (h : heap) : Prop := mkwf {
  wf_back : back_refs (nodes h);
  wf_and : forall f g r, In (f, g, r) (andc h) ->
           (f < len h /\ g < len h /\ r < len h)%nat /\ forall e, value h e r = value h e f && value h e g;
  wf_or : forall f g r, In (f, g, r) (orc h) ->
           (f < len h /\ g < len h /\ r < len h)%nat /\ forall e, value h e r = value h e f || value h e g;
  wf_inv : forall f r, In (f, r) (invc h) ->
           (f < len h /\ r < len h)%nat /\ forall e, value h e r = negb (value h e f)
}.

Lemma lookup2_in f g c r : lookup2 f g c = Some r -> In (f, g, r) c.
Proof.
  induction c as [|[[f' g'] r'] c IH]; cbn; [discriminate|].
  destruct (Nat.eqb f f' && Nat.eqb g g') eqn:E.
  - apply andb_prop in E. destruct E as [E1 E2]. apply Nat.eqb_eq in E1, E2. subst. intros [= ->]. left; reflexivity.
  - intros H. right. exact (IH H).
Qed.

Lemma lookup1_in f c r : lookup1 f c = Some r -> In (f, r) c.
Proof.
  induction c as [|[f' r'] c IH]; cbn; [discriminate|].
  destruct (Nat.eqb f f') eqn:E.
  - apply Nat.eqb_eq in E. subst. intros [= ->]. left; reflexivity.
  - intros H. right. exact (IH H).
Qed.

Lemma node_nth_error h i : (i < len h)%nat -> nth_error (nodes h) i = Some (node h i).
Proof. intros H. unfold node. apply nth_error_nth'. exact H. Qed.

(* what an extension by one object preserves *)
Definition ext (h h' : heap) : Prop :=
  (len h <= len h')%nat /\ forall i e, (i < len h)%nat -> value h' e i = value h e i.

Lemma ext_refl h : ext h h.
Proof. split; [lia|reflexivity]. Qed.

Lemma wf_alloc h n :
  wf h -> (forall j, In j (refs n) -> (j < len h)%nat) ->
  wf (fst (alloc h n)) /\ ext h (fst (alloc h n)) /\ snd (alloc h n) = len h /\
  len (fst (alloc h n)) = S (len h) /\
  forall e, value (fst (alloc h n)) e (len h) = eval_node (eval_nodes (nodes h) e) e n.
Proof.
  intros W R. unfold alloc. cbn [fst snd].
  assert (OLD : forall i e, (i < len h)%nat ->
            value (mkheap (nodes h ++ [n]) (andc h) (orc h) (invc h)) e i = value h e i).
  { intros i e Hi. unfold value. cbn [nodes]. apply value_alloc_old. exact Hi. }
  assert (LEN : len (mkheap (nodes h ++ [n]) (andc h) (orc h) (invc h)) = S (len h)).
  { unfold len. cbn [nodes]. rewrite app_length. cbn. lia. }
  split; [|split; [split; [lia|exact OLD]|split; [reflexivity|split; [exact LEN|]]]].
  - constructor; cbn [nodes andc orc invc].
    + intros i m Hm j Hj. destruct (Nat.lt_ge_cases i (length (nodes h))) as [Hi|Hi].
      * rewrite nth_error_app1 in Hm by exact Hi. exact (wf_back h W i m Hm j Hj).
      * rewrite nth_error_app2 in Hm by exact Hi.
        destruct (i - length (nodes h))%nat eqn:E; cbn in Hm; [|destruct n0; discriminate].
        injection Hm as <-. specialize (R j Hj). unfold len in R. lia.
    + intros f g r H. destruct (wf_and h W f g r H) as [[H1 [H2 H3]] H4]. rewrite LEN.
      split; [lia|]. intros e. rewrite !OLD by assumption. apply H4.
    + intros f g r H. destruct (wf_or h W f g r H) as [[H1 [H2 H3]] H4]. rewrite LEN.
      split; [lia|]. intros e. rewrite !OLD by assumption. apply H4.
    + intros f r H. destruct (wf_inv h W f r H) as [[H1 H2] H4]. rewrite LEN.
      split; [lia|]. intros e. rewrite !OLD by assumption. apply H4.
  - intros e. unfold value, len. cbn [nodes]. apply value_alloc_new.
Qed.

(* flattening *)
Lemma flat_and_spec h f : wf h -> (f < len h)%nat ->
  (forall j, In j (flat_and h f) -> (j < len h)%nat) /\
  forall e, forallb (value h e) (flat_and h f) = value h e f.
Proof.
  intros W Hf. unfold flat_and. pose proof (node_nth_error h f Hf) as Hn.
  destruct (node h f) eqn:E; try (split; [intros j [<-|[]]; exact Hf|intros e; cbn; apply andb_true_r]).
  split.
  - intros j Hj. pose proof (wf_back h W f _ Hn j Hj). lia.
  - intros e. unfold value at 2. rewrite (value_unfold _ e f _ (wf_back h W) Hn). reflexivity.
Qed.

Lemma flat_or_spec h f : wf h -> (f < len h)%nat ->
  (forall j, In j (flat_or h f) -> (j < len h)%nat) /\
  forall e, existsb (value h e) (flat_or h f) = value h e f.
Proof.
  intros W Hf. unfold flat_or. pose proof (node_nth_error h f Hf) as Hn.
  destruct (node h f) eqn:E; try (split; [intros j [<-|[]]; exact Hf|intros e; cbn; apply orb_false_r]).
  split.
  - intros j Hj. pose proof (wf_back h W f _ Hn j Hj). lia.
  - intros e. unfold value at 2. rewrite (value_unfold _ e f _ (wf_back h W) Hn). reflexivity.
Qed.

Lemma value_const h i : wf h -> (i < len h)%nat ->
  (node h i = NAlways -> forall e, value h e i = true) /\ (node h i = NNever -> forall e, value h e i = false).
Proof.
  intros W Hi. pose proof (node_nth_error h i Hi) as Hn.
  split; intros E e; unfold value; rewrite (value_unfold _ e i _ (wf_back h W) Hn), E; reflexivity.
Qed.

(* adding a cache entry *)
Lemma wf_cache_and h f g r :
  wf h -> (f < len h /\ g < len h /\ r < len h)%nat -> (forall e, value h e r = value h e f && value h e g) ->
  wf (mkheap (nodes h) ((f, g, r) :: andc h) (orc h) (invc h)).
Proof.
  intros W HL HV. constructor; cbn [nodes andc orc invc]; try apply W.
  intros f' g' r' [[= <- <- <-]|H]; [split; [exact HL|exact HV]|]. exact (wf_and h W _ _ _ H).
Qed.

Lemma wf_cache_or h f g r :
  wf h -> (f < len h /\ g < len h /\ r < len h)%nat -> (forall e, value h e r = value h e f || value h e g) ->
  wf (mkheap (nodes h) (andc h) ((f, g, r) :: orc h) (invc h)).
Proof.
  intros W HL HV. constructor; cbn [nodes andc orc invc]; try apply W.
  intros f' g' r' [[= <- <- <-]|H]; [split; [exact HL|exact HV]|]. exact (wf_or h W _ _ _ H).
Qed.

Lemma wf_cache_inv h f r :
  wf h -> (f < len h /\ r < len h)%nat -> (forall e, value h e r = negb (value h e f)) ->
  wf (mkheap (nodes h) (andc h) (orc h) ((f, r) :: invc h)).
Proof.
  intros W HL HV. constructor; cbn [nodes andc orc invc]; try apply W.
  intros f' r' [[= <- <-]|H]; [split; [exact HL|exact HV]|]. exact (wf_inv h W _ _ H).
Qed.

(* the result of an operation: a sound extension *)
Definition sound (h : heap) (res : heap * nat) (spec : env -> bool) : Prop :=
  wf (fst res) /\ ext h (fst res) /\ (snd res < len (fst res))%nat /\ forall e, value (fst res) e (snd res) = spec e.

Lemma create_and_sound h f g : wf h -> (f < len h)%nat -> (g < len h)%nat ->
  sound h (create_and h f g) (fun e => value h e f && value h e g).
Proof.
  intros W Hf Hg. unfold create_and.
  destruct (flat_and_spec h f W Hf) as [Rf Vf]. destruct (flat_and_spec h g W Hg) as [Rg Vg].
  set (l := dedupe (flat_and h f ++ flat_and h g)).
  assert (Rl : forall j, In j l -> (j < len h)%nat).
  { intros j Hj. apply dedupe_in, in_app_iff in Hj. destruct Hj; auto. }
  assert (Vl : forall e, forallb (value h e) l = value h e f && value h e g).
  { intros e. unfold l. rewrite (forallb_same_set _ _ (flat_and h f ++ flat_and h g) (dedupe_in _)).
    rewrite forallb_app, Vf, Vg. reflexivity. }
  assert (GEN : forall h1 r, wf h1 -> ext h h1 -> (r < len h1)%nat -> (forall e, value h1 e r = forallb (value h e) l) ->
            sound h (mkheap (nodes h1) ((f, g, r) :: andc h1) (orc h1) (invc h1), r) (fun e => value h e f && value h e g)).
  { intros h1 r W1 [E1 E2] Hr HV. unfold sound. cbn [fst snd].
    assert (HV' : forall e, value h1 e r = value h1 e f && value h1 e g).
    { intros e. rewrite HV, Vl, !E2 by assumption. reflexivity. }
    split; [apply wf_cache_and; [exact W1|lia|exact HV']|].
    split; [split; [exact E1|exact E2]|]. split; [exact Hr|].
    intros e. change (value h1 e r = value h e f && value h e g). rewrite HV. apply Vl. }
  destruct l as [|x [|y l']] eqn:EL.
  - assert (R0 : forall j, In j (refs (NAnd [])) -> (j < len h)%nat) by (intros j []).
    destruct (wf_alloc h (NAnd []) W R0) as [W1 [X1 [X2 [X3 X4]]]].
    destruct (alloc h (NAnd [])) as [h1 r]. cbn [fst snd] in *. subst r. apply GEN; [exact W1|exact X1|lia|].
    intros e. rewrite X4. reflexivity.
  - apply GEN; [exact W|apply ext_refl|apply Rl; left; reflexivity|]. intros e. cbn. rewrite andb_true_r. reflexivity.
  - rewrite <- EL in *. destruct (wf_alloc h (NAnd l) W Rl) as [W1 [X1 [X2 [X3 X4]]]].
    destruct (alloc h (NAnd l)) as [h1 r]. cbn [fst snd] in *. subst r. apply GEN; [exact W1|exact X1|lia|].
    intros e. rewrite X4. cbn [eval_node]. reflexivity.
Qed.

Lemma create_or_sound h f g : wf h -> (f < len h)%nat -> (g < len h)%nat ->
  sound h (create_or h f g) (fun e => value h e f || value h e g).
Proof.
  intros W Hf Hg. unfold create_or.
  destruct (flat_or_spec h f W Hf) as [Rf Vf]. destruct (flat_or_spec h g W Hg) as [Rg Vg].
  set (l := dedupe (flat_or h f ++ flat_or h g)).
  assert (Rl : forall j, In j l -> (j < len h)%nat).
  { intros j Hj. apply dedupe_in, in_app_iff in Hj. destruct Hj; auto. }
  assert (Vl : forall e, existsb (value h e) l = value h e f || value h e g).
  { intros e. unfold l. rewrite (existsb_same_set _ _ (flat_or h f ++ flat_or h g) (dedupe_in _)).
    rewrite existsb_app, Vf, Vg. reflexivity. }
  assert (GEN : forall h1 r, wf h1 -> ext h h1 -> (r < len h1)%nat -> (forall e, value h1 e r = existsb (value h e) l) ->
            sound h (mkheap (nodes h1) (andc h1) ((f, g, r) :: orc h1) (invc h1), r) (fun e => value h e f || value h e g)).
  { intros h1 r W1 [E1 E2] Hr HV. unfold sound. cbn [fst snd].
    assert (HV' : forall e, value h1 e r = value h1 e f || value h1 e g).
    { intros e. rewrite HV, Vl, !E2 by assumption. reflexivity. }
    split; [apply wf_cache_or; [exact W1|lia|exact HV']|].
    split; [split; [exact E1|exact E2]|]. split; [exact Hr|].
    intros e. change (value h1 e r = value h e f || value h e g). rewrite HV. apply Vl. }
  destruct l as [|x [|y l']] eqn:EL.
  - assert (R0 : forall j, In j (refs (NOr [])) -> (j < len h)%nat) by (intros j []).
    destruct (wf_alloc h (NOr []) W R0) as [W1 [X1 [X2 [X3 X4]]]].
    destruct (alloc h (NOr [])) as [h1 r]. cbn [fst snd] in *. subst r. apply GEN; [exact W1|exact X1|lia|].
    intros e. rewrite X4. reflexivity.
  - apply GEN; [exact W|apply ext_refl|apply Rl; left; reflexivity|]. intros e. cbn. rewrite orb_false_r. reflexivity.
  - rewrite <- EL in *. destruct (wf_alloc h (NOr l) W Rl) as [W1 [X1 [X2 [X3 X4]]]].
    destruct (alloc h (NOr l)) as [h1 r]. cbn [fst snd] in *. subst r. apply GEN; [exact W1|exact X1|lia|].
    intros e. rewrite X4. cbn [eval_node]. reflexivity.
Qed.

Lemma sound_same h r spec : wf h -> (r < len h)%nat -> (forall e, value h e r = spec e) -> sound h (h, r) spec.
Proof. intros W Hr HV. split; [exact W|]. split; [apply ext_refl|]. split; [exact Hr|exact HV]. Qed.

Theorem mk_and_sound h f g : wf h -> (f < len h)%nat -> (g < len h)%nat ->
  sound h (mk_and h f g) (fun e => value h e f && value h e g).
Proof.
  intros W Hf Hg. unfold mk_and.
  destruct (value_const h f W Hf) as [FA FN]. destruct (value_const h g W Hg) as [GA GN].
  assert (MAIN : sound h (match node h g with
                          | NAlways => (h, f) | NNever => (h, g)
                          | _ => match lookup2 f g (andc h) with Some r => (h, r) | None => create_and h f g end
                          end) (fun e => value h e f && value h e g)).
  { assert (CACHE : sound h (match lookup2 f g (andc h) with Some r => (h, r) | None => create_and h f g end)
                      (fun e => value h e f && value h e g)).
    { destruct (lookup2 f g (andc h)) as [r|] eqn:EL; [|apply create_and_sound; assumption].
      apply lookup2_in in EL. destruct (wf_and h W _ _ _ EL) as [[_ [_ Hr]] HV]. apply sound_same; assumption. }
    destruct (node h g) eqn:EG; try exact CACHE.
    - apply sound_same; auto. intros e. rewrite (GA eq_refl e), andb_true_r. reflexivity.
    - apply sound_same; auto. intros e. rewrite (GN eq_refl e), andb_false_r. reflexivity. }
  destruct (node h f) eqn:EF; try exact MAIN.
  - apply sound_same; auto. intros e. rewrite (FA eq_refl e). reflexivity.
  - apply sound_same; auto. intros e. rewrite (FN eq_refl e). reflexivity.
Qed.

Theorem mk_or_sound h f g : wf h -> (f < len h)%nat -> (g < len h)%nat ->
  sound h (mk_or h f g) (fun e => value h e f || value h e g).
Proof.
  intros W Hf Hg. unfold mk_or.
  destruct (value_const h f W Hf) as [FA FN]. destruct (value_const h g W Hg) as [GA GN].
  assert (MAIN : sound h (match node h g with
                          | NAlways => (h, g) | NNever => (h, f)
                          | _ => match lookup2 f g (orc h) with Some r => (h, r) | None => create_or h f g end
                          end) (fun e => value h e f || value h e g)).
  { assert (CACHE : sound h (match lookup2 f g (orc h) with Some r => (h, r) | None => create_or h f g end)
                      (fun e => value h e f || value h e g)).
    { destruct (lookup2 f g (orc h)) as [r|] eqn:EL; [|apply create_or_sound; assumption].
      apply lookup2_in in EL. destruct (wf_or h W _ _ _ EL) as [[_ [_ Hr]] HV]. apply sound_same; assumption. }
    destruct (node h g) eqn:EG; try exact CACHE.
    - apply sound_same; auto. intros e. rewrite (GA eq_refl e), orb_true_r. reflexivity.
    - apply sound_same; auto. intros e. rewrite (GN eq_refl e), orb_false_r. reflexivity. }
  destruct (node h f) eqn:EF; try exact MAIN.
  - apply sound_same; auto. intros e. rewrite (FA eq_refl e). reflexivity.
  - apply sound_same; auto. intros e. rewrite (FN eq_refl e). reflexivity.
Qed.

Lemma alloc_sound h n spec : wf h -> (forall j, In j (refs n) -> (j < len h)%nat) ->
  (forall e, eval_node (eval_nodes (nodes h) e) e n = spec e) -> sound h (alloc h n) spec.
Proof.
  intros W R HS. destruct (wf_alloc h n W R) as [W1 [X1 [X2 [X3 X4]]]].
  split; [exact W1|]. split; [exact X1|]. rewrite X2. split; [lia|]. intros e. rewrite X4. apply HS.
Qed.

Theorem mk_not_sound h f : wf h -> (f < len h)%nat ->
  sound h (mk_not h f) (fun e => negb (value h e f)).
Proof.
  intros W Hf. unfold mk_not. destruct (value_const h f W Hf) as [FA FN].
  assert (MAIN : sound h (match lookup1 f (invc h) with
                          | Some r => (h, r)
                          | None => let '(h1, r) := alloc h (NNot f) in
                                    (mkheap (nodes h1) (andc h1) (orc h1) ((f, r) :: invc h1), r)
                          end) (fun e => negb (value h e f))).
  { destruct (lookup1 f (invc h)) as [r|] eqn:EL.
    - apply lookup1_in in EL. destruct (wf_inv h W _ _ EL) as [[_ Hr] HV]. apply sound_same; assumption.
    - assert (R0 : forall j, In j (refs (NNot f)) -> (j < len h)%nat) by (intros j [<-|[]]; exact Hf).
      destruct (wf_alloc h (NNot f) W R0) as [W1 [[X0 X1] [X2 [X3 X4]]]].
      destruct (alloc h (NNot f)) as [h1 r]. cbn [fst snd] in *. subst r.
      assert (HV : forall e, value h1 e (len h) = negb (value h1 e f)).
      { intros e. rewrite X4, X1 by exact Hf. reflexivity. }
      split; [apply wf_cache_inv; [exact W1|lia|exact HV]|]. cbn [fst snd].
      split; [split; [exact X0|exact X1]|]. split; [unfold len in *; cbn [nodes]; lia|].
      intros e. change (value h1 e (len h) = negb (value h e f)). rewrite X4. reflexivity. }
  destruct (node h f) eqn:EF; try exact MAIN.
  - apply alloc_sound; [exact W|intros j []|]. intros e. rewrite (FA eq_refl e). reflexivity.
  - apply alloc_sound; [exact W|intros j []|]. intros e. rewrite (FN eq_refl e). reflexivity.
Qed.

(* ------------------------------------------------- any construction history *)
Lemma wf_heap0 : wf heap0.
Proof.
  constructor; cbn; try (intros; contradiction).
  intros i n H j Hj. destruct i as [|[|i]]; cbn in H; [injection H as <-; destruct Hj|injection H as <-; destruct Hj|destruct i; discriminate].
Qed.

Definition op_spec (h : heap) (o : fop) (e : env) : bool :=
  match o with
  | OCond c => nth c e false
  | OAlways => true
  | ONever => false
  | OAnd f g => value h e f && value h e g
  | OOr f g => value h e f || value h e g
  | ONot f => negb (value h e f)
  end.

Theorem fstep_sound h o : wf h -> valid_op h o = true -> sound h (fstep h o) (op_spec h o).
Proof.
  intros W V. destruct o; cbn [fstep op_spec valid_op] in *.
  - apply alloc_sound; [exact W|intros j []|reflexivity].
  - apply alloc_sound; [exact W|intros j []|reflexivity].
  - apply alloc_sound; [exact W|intros j []|reflexivity].
  - apply andb_prop in V. destruct V as [V1 V2]. apply Nat.ltb_lt in V1, V2. apply mk_and_sound; assumption.
  - apply andb_prop in V. destruct V as [V1 V2]. apply Nat.ltb_lt in V1, V2. apply mk_or_sound; assumption.
  - apply Nat.ltb_lt in V. apply mk_not_sound; assumption.
Qed.

(* run a history; invalid operations are skipped *)
Definition fstep' (h : heap) (o : fop) : heap := if valid_op h o then fst (fstep h o) else h.

Theorem history_wf ops : forall h, wf h -> wf (fold_left fstep' ops h).
Proof.
  induction ops as [|o ops IH]; intros h W; [exact W|]. cbn [fold_left]. apply IH.
  unfold fstep'. destruct (valid_op h o) eqn:V; [|exact W]. exact (proj1 (fstep_sound h o W V)).
Qed.
