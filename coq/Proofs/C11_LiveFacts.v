(* C11 - liveness for width-1 characters under wrapping: where copy_line puts
   each character (arithmetic position), the rows a line uses, and that
   get_height_for_line is exact. *)
From Coq Require Import ZArith List Bool Lia.
From PTK Require Import Lib.Sx Lib.Py Model.C11_Scroll Model.C11_CopyBody
     Proofs.C11_ScrollFacts Proofs.C11_CopyFacts.
Import ListNotations.
Open Scope Z_scope.

Lemma divmod_lin : forall w a b, 1 <= w -> 0 <= b < w ->
  (a * w + b) / w = a /\ (a * w + b) mod w = b.
Proof.
  intros w a b Hw Hb. split.
  - symmetry. apply (Z.div_unique _ _ a b); lia.
  - symmetry. apply (Z.mod_unique _ _ a b); lia.
Qed.

Lemma div_ge_lin : forall w a b n, 1 <= w -> 0 <= b -> a * w + b <= n -> a <= n / w.
Proof.
  intros w a b n Hw Hb Hle.
  pose proof (Z.div_le_mono (a * w) n w ltac:(lia) ltac:(lia)) as H.
  rewrite Z.div_mul in H by lia. exact H.
Qed.

(* rows a narrow text of n cells needs when every row holds w cells *)
Definition rowsZ (w n : Z) : Z := if n <=? 0 then 1 else (n - 1) / w + 1.

Lemma rowsZ_pos : forall w n, 1 <= w -> 1 <= rowsZ w n.
Proof.
  intros w n Hw. unfold rowsZ. destruct (n <=? 0) eqn:E; [lia|].
  pose proof (Z.div_pos (n - 1) w ltac:(lia) ltac:(lia)). lia.
Qed.

Section Live.
  Variables (sw dw : Z -> Z) (disp : Z -> str).
  Variables (haspfx : bool) (pfx : Z -> Z -> str).
  Variables (width height xpos ypos p : Z).
  Hypothesis Hdw : forall c, dw c = 1.
  Hypothesis Hp : haspfx = true -> forall l k, len (pfx l k) = p.
  Hypothesis Hnp : haspfx = false -> p = 0.
  Hypothesis Hp0 : 0 <= p.
  Hypothesis Hw : 1 <= width - p.

  Local Notation w' := (width - p).
  Local Notation put' := (put sw dw disp width xpos ypos).
  Local Notation copy_plain' := (copy_plain sw dw disp true width height xpos ypos).
  Local Notation copy_input' := (copy_input sw dw disp true haspfx pfx width height xpos ypos).
  Local Notation copy_line' := (copy_line sw dw disp true haspfx pfx width height xpos ypos).
  Local Notation copy_lines' := (copy_lines sw dw disp true haspfx pfx width height xpos ypos).

  (* state after "wrap + continuation prefix" *)
  Definition after_wrap (l wc : Z) (s : cst) : cst :=
    if haspfx then copy_plain' (pfx l wc) l (wrap_row l s) else wrap_row l s.

  Lemma after_wrap_state : forall l wc s,
    cx (after_wrap l wc s) = p /\ cy (after_wrap l wc s) = cy s + 1 /\
    cr2 (after_wrap l wc s) = cr2 s.
  Proof.
    intros l wc s. unfold after_wrap. destruct haspfx eqn:E.
    - destruct (copy_plain_cy sw dw disp true width height xpos ypos Hdw (pfx l wc) l (wrap_row l s)) as (A & B & _).
      { right. cbn [wrap_row cx]. rewrite Hp by reflexivity. lia. }
      destruct (copy_plain_adv sw dw disp true width height xpos ypos Hdw (pfx l wc) l (wrap_row l s)) as (_ & _ & C).
      rewrite A, B, C. cbn [wrap_row cx cy cr2]. rewrite Hp by reflexivity. repeat split; lia.
    - cbn [wrap_row cx cy cr2]. rewrite Hnp by reflexivity. repeat split; lia.
  Qed.

  Lemma put_cr2_other : forall isin l kc c s key,
    isin = false \/ key <> (l, kc) ->
    alist_get (cr2 (put' isin l kc c s)) key = alist_get (cr2 s) key.
  Proof.
    intros isin l kc c s key H. rewrite (put_narrow sw dw disp width xpos ypos Hdw).
    destruct (_ && _); cbn [cr2]; [|reflexivity].
    destruct isin; [|reflexivity]. destruct H as [H | H]; [discriminate|].
    cbn [alist_get]. destruct (pos_eqb (l, kc) key) eqn:E; [|reflexivity].
    apply pos_eqb_eq in E. congruence.
  Qed.

  (* keys of other lines, and of earlier columns, are left alone *)
  Lemma copy_input_keys : forall cs l col wc s key,
    fst key <> l \/ snd key < col ->
    alist_get (cr2 (copy_input' cs l col 0 wc s)) key = alist_get (cr2 s) key.
  Proof.
    induction cs as [|c r IH]; intros l col wc s key Hk; cbn [copy_input]; [reflexivity|].
    assert (Hne : key <> (l, col + 0)).
    { intros ->. cbn [fst snd] in Hk. lia. }
    destruct (true && _).
    - fold (after_wrap l (wc + 1) s).
      destruct (after_wrap_state l (wc + 1) s) as (_ & _ & C).
      destruct (height <=? _); [now rewrite C|].
      rewrite IH by (destruct Hk; [now left | right; lia]).
      rewrite put_cr2_other by (now right). now rewrite C.
    - rewrite IH by (destruct Hk; [now left | right; lia]).
      now rewrite put_cr2_other by (now right).
  Qed.

  (* where each character of the line is registered *)
  Lemma copy_input_reg : forall cs l col wc s y0,
    p <= cx s <= width -> col = (cy s - y0) * w' + (cx s - p) -> cy s < height ->
    forall i c, nth_error cs i = Some c ->
      let ci := col + Z.of_nat i in
      0 <= y0 + ci / w' < height ->
      alist_get (cr2 (copy_input' cs l col 0 wc s)) (l, ci)
      = Some (y0 + ci / w' + ypos, p + ci mod w' + xpos).
  Proof.
    induction cs as [|c0 r IH]; intros l col wc s y0 Hx Hlin Hy i c Hn ci Hrow; [destruct i; discriminate|].
    cbn [copy_input]. rewrite Hdw.
    destruct (true && (width <? cx s + 1)) eqn:Ew; cbn [andb] in Ew.
    - (* wrap *)
      assert (Hxw : cx s = width) by lia.
      fold (after_wrap l (wc + 1) s).
      destruct (after_wrap_state l (wc + 1) s) as (A & B & C).
      assert (Hcol : col = (cy s + 1 - y0) * w' + 0) by lia.
      destruct (divmod_lin w' (cy s + 1 - y0) 0 Hw ltac:(lia)) as [Hd Hm]. rewrite <- Hcol in Hd, Hm.
      assert (Hge : cy s + 1 - y0 <= ci / w').
      { apply (div_ge_lin w' _ 0); [lia | lia | unfold ci; lia]. }
      destruct (height <=? cy (after_wrap l (wc + 1) s)) eqn:Eh; [lia|].
      destruct i as [|i'].
      + inversion Hn; subst c0; clear Hn. unfold ci in *. cbn [Z.of_nat] in *. rewrite Z.add_0_r in *.
        rewrite copy_input_keys by (right; cbn [snd]; lia).
        rewrite (put_narrow sw dw disp width xpos ypos Hdw). rewrite A, B.
        destruct ((0 <=? p) && (0 <=? cy s + 1) && (p <? width)) eqn:Ec; [|lia].
        cbn [cr2 alist_get]. rewrite pos_eqb_refl. rewrite Hd, Hm. do 2 f_equal; lia.
      + cbn [nth_error] in Hn.
        replace ci with (col + 1 + Z.of_nat i') in * by (unfold ci; lia).
        apply IH with (c := c); try assumption.
        * rewrite (put_cx sw dw disp width xpos ypos Hdw). lia.
        * rewrite (put_cx sw dw disp width xpos ypos Hdw), (put_cy sw dw disp width xpos ypos Hdw). lia.
        * rewrite (put_cy sw dw disp width xpos ypos Hdw). lia.
    - (* same row *)
      assert (Hxw : cx s < width) by lia.
      destruct (divmod_lin w' (cy s - y0) (cx s - p) Hw ltac:(lia)) as [Hd Hm]. rewrite <- Hlin in Hd, Hm.
      destruct i as [|i'].
      + inversion Hn; subst c0; clear Hn. unfold ci in *. cbn [Z.of_nat] in *. rewrite Z.add_0_r in *.
        rewrite copy_input_keys by (right; cbn [snd]; lia).
        rewrite (put_narrow sw dw disp width xpos ypos Hdw).
        destruct ((0 <=? cx s) && (0 <=? cy s) && (cx s <? width)) eqn:Ec; [|lia].
        cbn [cr2 alist_get]. rewrite pos_eqb_refl. rewrite Hd, Hm. do 2 f_equal; lia.
      + cbn [nth_error] in Hn.
        replace ci with (col + 1 + Z.of_nat i') in * by (unfold ci; lia).
        apply IH with (c := c); try assumption.
        * rewrite (put_cx sw dw disp width xpos ypos Hdw). lia.
        * rewrite (put_cx sw dw disp width xpos ypos Hdw), (put_cy sw dw disp width xpos ypos Hdw). lia.
        * rewrite (put_cy sw dw disp width xpos ypos Hdw). lia.
  Qed.

  (* a line that fits is copied to its end: the state afterwards *)
  Lemma copy_input_end : forall cs l col wc s y0,
    p <= cx s <= width -> col = (cy s - y0) * w' + (cx s - p) -> cy s < height ->
    (cs <> [] -> y0 + (col + len cs - 1) / w' < height) ->
    let s' := copy_input' cs l col 0 wc s in
    p <= cx s' <= width /\ col + len cs = (cy s' - y0) * w' + (cx s' - p) /\ cy s' < height /\
    (cs <> [] -> p < cx s').
  Proof.
    induction cs as [|c0 r IH]; intros l col wc s y0 Hx Hlin Hy Hfit.
    - cbn [copy_input]. rewrite len_nil. repeat split; try lia. intros H; now elim H.
    - specialize (Hfit ltac:(discriminate)). rewrite len_cons in *. pose proof (len_nonneg r) as Hr.
      cbn [copy_input]. rewrite Hdw.
      assert (Hrfit : forall col', col' = col + 1 -> r <> [] -> y0 + (col' + len r - 1) / w' < height).
      { intros col' -> _. replace (col + 1 + len r - 1) with (col + (1 + len r) - 1) by lia. exact Hfit. }
      destruct (true && (width <? cx s + 1)) eqn:Ew; cbn [andb] in Ew.
      + fold (after_wrap l (wc + 1) s).
        destruct (after_wrap_state l (wc + 1) s) as (A & B & C).
        assert (Hge : cy s + 1 - y0 <= (col + (1 + len r) - 1) / w').
        { apply (div_ge_lin w' _ 0); lia. }
        destruct (height <=? cy (after_wrap l (wc + 1) s)) eqn:Eh; [lia|].
        destruct (IH l (col + 1) (wc + 1) (put' true l (col + 0) c0 (after_wrap l (wc + 1) s)) y0) as (I1 & I2 & I3 & I4).
        * rewrite (put_cx sw dw disp width xpos ypos Hdw). lia.
        * rewrite (put_cx sw dw disp width xpos ypos Hdw), (put_cy sw dw disp width xpos ypos Hdw). lia.
        * rewrite (put_cy sw dw disp width xpos ypos Hdw). lia.
        * now apply Hrfit.
        * cbv zeta. repeat split; try lia. intros _.
          destruct r as [|c1 r']; [|apply I4; discriminate].
          cbn [copy_input]. rewrite (put_cx sw dw disp width xpos ypos Hdw). lia.
      + destruct (IH l (col + 1) wc (put' true l (col + 0) c0 s) y0) as (I1 & I2 & I3 & I4).
        * rewrite (put_cx sw dw disp width xpos ypos Hdw). lia.
        * rewrite (put_cx sw dw disp width xpos ypos Hdw), (put_cy sw dw disp width xpos ypos Hdw). lia.
        * rewrite (put_cy sw dw disp width xpos ypos Hdw). lia.
        * now apply Hrfit.
        * cbv zeta. repeat split; try lia. intros _.
          destruct r as [|c1 r']; [|apply I4; discriminate].
          cbn [copy_input]. rewrite (put_cx sw dw disp width xpos ypos Hdw). lia.
  Qed.

  (* ------------------------------------------------------------------ *)
  (* one content line (horizontal scroll 0) *)
  Definition line_start (l : Z) (s : cst) : cst :=
    if haspfx then copy_plain' (pfx l 0) l s else s.

  Lemma line_start_state : forall l s, cx s = 0 ->
    cx (line_start l s) = p /\ cy (line_start l s) = cy s /\ cr2 (line_start l s) = cr2 s.
  Proof.
    intros l s Hx. unfold line_start. destruct haspfx eqn:E.
    - destruct (copy_plain_cy sw dw disp true width height xpos ypos Hdw (pfx l 0) l s) as (A & B & _).
      { right. rewrite Hp by reflexivity. lia. }
      destruct (copy_plain_adv sw dw disp true width height xpos ypos Hdw (pfx l 0) l s) as (_ & _ & C).
      rewrite A, B, C. rewrite Hp by reflexivity. repeat split; lia.
    - rewrite Hnp by reflexivity. repeat split; lia.
  Qed.

  Lemma copy_line_unfold : forall line l s,
    copy_line' 0 line l s = copy_input' line l 0 0 0 (line_start l s).
  Proof. intros. unfold copy_line, line_start. reflexivity. Qed.

  Lemma copy_line_reg : forall line l s i c,
    cx s = 0 -> cy s < height -> nth_error line i = Some c ->
    0 <= cy s + Z.of_nat i / w' < height ->
    alist_get (cr2 (copy_line' 0 line l s)) (l, Z.of_nat i)
    = Some (cy s + Z.of_nat i / w' + ypos, p + Z.of_nat i mod w' + xpos).
  Proof.
    intros line l s i c Hx Hy Hn Hrow. rewrite copy_line_unfold.
    destruct (line_start_state l s Hx) as (A & B & C).
    assert (H1 : p <= cx (line_start l s) <= width) by (rewrite A; lia).
    assert (H2 : 0 = (cy (line_start l s) - cy s) * w' + (cx (line_start l s) - p)) by (rewrite A, B; lia).
    assert (H3 : cy (line_start l s) < height) by (rewrite B; lia).
    pose proof (copy_input_reg line l 0 0 (line_start l s) (cy s) H1 H2 H3 i c Hn) as H.
    cbv zeta in H. rewrite Z.add_0_l in H. apply H. exact Hrow.
  Qed.

  Lemma copy_line_keys : forall line l s key, cx s = 0 -> fst key <> l ->
    alist_get (cr2 (copy_line' 0 line l s)) key = alist_get (cr2 s) key.
  Proof.
    intros line l s key Hx Hk. rewrite copy_line_unfold.
    rewrite copy_input_keys by (now left).
    destruct (line_start_state l s Hx) as (_ & _ & C). now rewrite C.
  Qed.

  Lemma copy_line_end : forall line l s,
    cx s = 0 -> cy s < height -> 1 <= len line -> cy s + (len line - 1) / w' < height ->
    cy (copy_line' 0 line l s) = cy s + (len line - 1) / w'.
  Proof.
    intros line l s Hx Hy Hlen Hfit. rewrite copy_line_unfold.
    destruct (line_start_state l s Hx) as (A & B & C).
    assert (Hne : line <> []) by (intros ->; rewrite len_nil in Hlen; lia).
    assert (H1 : p <= cx (line_start l s) <= width) by (rewrite A; lia).
    assert (H2 : 0 = (cy (line_start l s) - cy s) * w' + (cx (line_start l s) - p)) by (rewrite A, B; lia).
    assert (H3 : cy (line_start l s) < height) by (rewrite B; lia).
    assert (H4 : line <> [] -> cy s + (0 + len line - 1) / w' < height) by (intros _; rewrite Z.add_0_l; exact Hfit).
    destruct (copy_input_end line l 0 0 (line_start l s) (cy s) H1 H2 H3 H4) as (I1 & I2 & I3 & I4).
    specialize (I4 Hne). cbv zeta in *.
    set (s' := copy_input' line l 0 0 0 (line_start l s)) in *.
    destruct (divmod_lin w' (cy s' - cy s) (cx s' - p - 1) Hw ltac:(lia)) as [Hd _].
    replace ((cy s' - cy s) * w' + (cx s' - p - 1)) with (len line - 1) in Hd by lia. lia.
  Qed.

  (* ------------------------------------------------------------------ *)
  (* copy(): all lines from the scroll position on *)
  Lemma copy_lines_keys : forall rest lineno s key, fst key < lineno ->
    alist_get (cr2 (copy_lines' 0 rest lineno s)) key = alist_get (cr2 s) key.
  Proof.
    induction rest as [|ln r IH]; intros lineno s key Hk; cbn [copy_lines]; [reflexivity|].
    destruct (cy s <? height); [|reflexivity].
    rewrite IH by lia. cbn [cr2]. rewrite copy_line_keys; [reflexivity | reflexivity | lia].
  Qed.

  Lemma copy_lines_reg : forall (R : Z -> Z), (forall l, 0 <= R l) ->
    forall rest lineno s j line i c,
    0 <= lineno ->
    (forall k ln, nth_error rest k = Some ln ->
        1 <= len ln /\ R (lineno + Z.of_nat k) = (len ln - 1) / w' + 1) ->
    nth_error rest j = Some line -> nth_error line i = Some c ->
    0 <= cy s + sumH R lineno (Z.to_nat (lineno + Z.of_nat j)) + Z.of_nat i / w' < height ->
    alist_get (cr2 (copy_lines' 0 rest lineno s)) (lineno + Z.of_nat j, Z.of_nat i)
    = Some (cy s + sumH R lineno (Z.to_nat (lineno + Z.of_nat j)) + Z.of_nat i / w' + ypos,
            p + Z.of_nat i mod w' + xpos).
  Proof.
    intros R HR. induction rest as [|ln0 r IH]; intros lineno s j line i c Hl HRr Hj Hi Hrow;
      [destruct j; discriminate|].
    assert (Hdiv : 0 <= Z.of_nat i / w') by (apply Z.div_pos; lia).
    destruct j as [|j'].
    - cbn [nth_error] in Hj. inversion Hj; subst ln0; clear Hj.
      cbn [Z.of_nat] in *. rewrite Z.add_0_r in *.
      rewrite sumH_empty in * by lia. rewrite Z.add_0_r in *.
      cbn [copy_lines]. destruct (cy s <? height) eqn:Ey; [|lia].
      rewrite copy_lines_keys by (cbn [fst]; lia). cbn [cr2].
      rewrite (copy_line_reg line lineno _ i c); cbn [cx cy]; try reflexivity; try assumption; lia.
    - cbn [nth_error] in Hj.
      destruct (HRr O ln0 eq_refl) as [Hlen0 HR0]. cbn [Z.of_nat] in HR0. rewrite Z.add_0_r in HR0.
      assert (Hstep : sumH R lineno (Z.to_nat (lineno + Z.of_nat (S j')))
                      = R lineno + sumH R (lineno + 1) (Z.to_nat (lineno + 1 + Z.of_nat j'))).
      { rewrite sumH_step by lia. f_equal. f_equal. lia. }
      rewrite Hstep in *.
      pose proof (sumH_nonneg R (lineno + 1) (Z.to_nat (lineno + 1 + Z.of_nat j')) HR) as Hnn.
      pose proof (Z.div_pos (len ln0 - 1) w' ltac:(lia) ltac:(lia)) as Hd0.
      cbn [copy_lines]. destruct (cy s <? height) eqn:Ey; [|lia].
      set (s0 := mkcst 0 (cy s) (cscr s) (cr2 s) ((cy s, (lineno, 0)) :: cvl s)).
      assert (Hend : cy (copy_line' 0 ln0 lineno s0) = cy s + (len ln0 - 1) / w').
      { apply (copy_line_end ln0 lineno s0); unfold s0; cbn [cx cy]; lia. }
      replace (lineno + Z.of_nat (S j')) with (lineno + 1 + Z.of_nat j') by lia.
      rewrite (IH (lineno + 1) _ j' line i c); cbn [cy]; try rewrite Hend; try assumption; try lia.
      + do 2 f_equal. lia.
      + intros k ln Hk. specialize (HRr (S k) ln Hk).
        replace (lineno + 1 + Z.of_nat k) with (lineno + Z.of_nat (S k)) by lia. exact HRr.
  Qed.
End Live.
