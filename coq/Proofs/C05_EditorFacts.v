(* C05 lemmas about Model/C05_Editor.v: buffer-layer invariant (L1), the Vi
   cursor fix (L2), totality of the modelled handlers (L4). *)
From Coq Require Import ZArith List Bool Lia.
From PTK Require Import Lib.Sx Lib.Py Model.Document Model.C05_Editor.
Import ListNotations.
Open Scope Z_scope.

(* cursor within the text; selection anchor within the text *)
Definition CInv (s : est) : Prop := 0 <= ec s <= len (et s).
Definition SInv (s : est) : Prop := forall a t, esel s = Some (a, t) -> 0 <= a <= len (et s).
Definition EInv (s : est) : Prop := CInv s /\ SInv s.
(* multiple cursors within the text (maintained by the insert-multiple handlers only) *)
Definition MInv (s : est) : Prop := forall p, In p (emc s) -> 0 <= p <= len (et s).

Lemma str_eqb_eq a : forall b, str_eqb a b = true -> a = b.
Proof.
  induction a as [|x a IH]; intros [|y b]; cbn [str_eqb]; try discriminate; [reflexivity|].
  intros H. apply andb_true_iff in H as [H1 H2]. apply Z.eqb_eq in H1. subst.
  f_equal. now apply IH.
Qed.

(* ---------------------------------------------------------------------- *)
(* primitives *)

Lemma set_cursor_text s v : et (set_cursor s v) = et s.
Proof. unfold set_cursor. destruct (_ =? ec s); reflexivity. Qed.
Lemma set_cursor_sel s v : esel (set_cursor s v) = esel s.
Proof. unfold set_cursor. destruct (_ =? ec s); reflexivity. Qed.
Lemma set_cursor_ro s v : ero (set_cursor s v) = ero s.
Proof. unfold set_cursor. destruct (_ =? ec s); reflexivity. Qed.

Lemma set_cursor_range s v : 0 <= ec (set_cursor s v) <= len (et s).
Proof.
  unfold set_cursor. pose proof (len_nonneg (et s)) as Hl.
  set (v1 := if len (et s) <? v then len (et s) else v).
  set (v2 := if v1 <? 0 then 0 else v1).
  assert (H2 : 0 <= Z.max 0 v2 <= len (et s)).
  { unfold v2, v1. destruct (len (et s) <? v) eqn:E1.
    - destruct (len (et s) <? 0) eqn:E2; lia.
    - destruct (v <? 0) eqn:E2; lia. }
  destruct (Z.max 0 v2 =? ec s) eqn:E; [apply Z.eqb_eq in E; lia|cbn [ec with_tc]; lia].
Qed.

Lemma set_cursor_le s v : ec (set_cursor s v) <= Z.max 0 v.
Proof.
  unfold set_cursor. pose proof (len_nonneg (et s)) as Hl.
  set (v1 := if len (et s) <? v then len (et s) else v).
  set (v2 := if v1 <? 0 then 0 else v1).
  assert (H2 : Z.max 0 v2 <= Z.max 0 v).
  { unfold v2, v1. destruct (len (et s) <? v) eqn:E1.
    - destruct (len (et s) <? 0) eqn:E2; lia.
    - destruct (v <? 0) eqn:E2; lia. }
  destruct (Z.max 0 v2 =? ec s) eqn:E; [apply Z.eqb_eq in E; lia|cbn [ec with_tc]; lia].
Qed.

Lemma set_cursor_inv s v : SInv s -> EInv (set_cursor s v).
Proof.
  intros HS. split.
  - unfold CInv. rewrite set_cursor_text. apply set_cursor_range.
  - unfold SInv. rewrite set_cursor_text, set_cursor_sel. exact HS.
Qed.

Lemma with_pref_inv s p : EInv s -> EInv (with_pref s p).
Proof. intros H; exact H. Qed.

Lemma set_text_inv s v : EInv s -> EInv (eres_st (set_text s v)).
Proof.
  intros [HC HS]. unfold set_text.
  set (s1 := if len v <? ec s then set_cursor s (len v) else s).
  assert (H1 : EInv s1 /\ ec s1 <= len v /\ et s1 = et s).
  { unfold s1. destruct (len v <? ec s) eqn:E.
    - split; [now apply set_cursor_inv|]. split; [|apply set_cursor_text].
      pose proof (set_cursor_le s (len v)). pose proof (len_nonneg v). lia.
    - split; [split; assumption|]. split; [lia|reflexivity]. }
  destruct H1 as [[HC1 HS1] [Hle Ht]].
  destruct (ero s1); cbn [eres_st]; [split; assumption|].
  destruct (str_eqb v (et s1)); cbn [eres_st]; [split; assumption|].
  split.
  - unfold CInv in *; cbn [ec et with_tc]. lia.
  - unfold SInv; cbn [esel with_tc]. discriminate.
Qed.

Lemma set_text_err s v c s' : set_text s v = EErr c s' -> c = E_READONLY.
Proof.
  unfold set_text. destruct (ero _); [intros H; now injection H as <- _|].
  destruct (str_eqb _ _); discriminate.
Qed.

Lemma set_document_inv s t c b : EInv s -> EInv (eres_st (set_document s t c b)).
Proof.
  intros [HC HS]. unfold set_document.
  destruct (len t <? c) eqn:E1; cbn [eres_st]; [split; assumption|].
  destruct (negb b && ero s); cbn [eres_st]; [split; assumption|].
  pose proof (len_nonneg t) as Hl. split.
  - unfold CInv; cbn [ec et with_tc]. lia.
  - unfold SInv; cbn [esel et with_tc]. intros a ty.
    destruct (str_eqb t (et s)) eqn:E2; cbn [negb]; [|discriminate].
    apply str_eqb_eq in E2. subst t. apply HS.
Qed.

Lemma set_document_ok s t c b :
  c <= len t -> (b = true \/ ero s = false) -> exists s', set_document s t c b = EOk s'.
Proof.
  intros Hc Hb. unfold set_document. destruct (len t <? c) eqn:E; [lia|].
  destruct Hb as [-> | ->]; cbn [negb andb]; [eexists; reflexivity|].
  rewrite andb_false_r. eexists; reflexivity.
Qed.

Lemma set_document_err s t c b code s' :
  set_document s t c b = EErr code s' ->
  (code = E_ASSERT /\ len t < c) \/ (code = E_READONLY /\ ero s = true /\ c <= len t).
Proof.
  unfold set_document. destruct (len t <? c) eqn:E.
  - intros H; injection H as <- _. left; split; [reflexivity|lia].
  - destruct (negb b && ero s) eqn:E2; [|discriminate].
    intros H; injection H as <- _. right. apply andb_true_iff in E2 as [_ E2].
    repeat split; [exact E2|lia].
Qed.

Lemma ebind_inv r k :
  EInv (eres_st r) -> (forall s, EInv s -> EInv (eres_st (k s))) -> EInv (eres_st (ebind r k)).
Proof. destruct r as [s|c s]; cbn [ebind eres_st]; auto. Qed.

(* ---------------------------------------------------------------------- *)
(* compound mutators: invariant *)

Lemma insert_text_inv s d ow mv : EInv s -> EInv (eres_st (insert_text s d ow mv)).
Proof. intros H; unfold insert_text; now apply set_document_inv. Qed.

Lemma delete_before_cursor_inv s n : EInv s -> EInv (eres_st (delete_before_cursor s n)).
Proof.
  intros H; unfold delete_before_cursor. destruct (n <? 0); [exact H|].
  destruct (0 <? ec s); [|exact H]. now apply set_document_inv.
Qed.

Lemma delete_inv s n : EInv s -> EInv (eres_st (delete s n)).
Proof.
  intros H; unfold delete. destruct (ec s <? len (et s)); [|exact H]. now apply set_text_inv.
Qed.

Lemma cursor_up_inv s n : EInv s -> EInv (eres_st (cursor_up s n)).
Proof. intros H; unfold cursor_up; cbn [eres_st]. apply with_pref_inv, set_cursor_inv, H. Qed.
Lemma cursor_down_inv s n : EInv s -> EInv (eres_st (cursor_down s n)).
Proof. intros H; unfold cursor_down; cbn [eres_st]. apply with_pref_inv, set_cursor_inv, H. Qed.

Lemma set_working_index_inv s i : EInv s -> EInv (set_working_index s i).
Proof.
  intros H; unfold set_working_index. destruct (i =? ewi s); [exact H|].
  split.
  - unfold CInv; cbn [ec et with_tc]. split; [lia|apply len_nonneg].
  - unfold SInv; cbn [esel with_tc]. discriminate.
Qed.

Lemma go_to_history_inv s i : EInv s -> EInv (eres_st (go_to_history s i)).
Proof.
  intros H; unfold go_to_history. destruct (_ && _); cbn [eres_st]; [|exact H].
  apply set_cursor_inv, (set_working_index_inv s i H).
Qed.
Lemma history_backward_pos_inv s n : EInv s -> EInv (eres_st (history_backward_pos s n)).
Proof.
  intros H; unfold history_backward_pos. destruct (0 <? ewi s); cbn [eres_st]; [|exact H].
  apply set_cursor_inv. now apply set_working_index_inv.
Qed.
Lemma history_forward_pos_inv s n : EInv s -> EInv (eres_st (history_forward_pos s n)).
Proof.
  intros H; unfold history_forward_pos. destruct (_ <? _); cbn [eres_st]; [|exact H].
  apply set_cursor_inv, set_cursor_inv. now apply set_working_index_inv.
Qed.
Lemma history_backward_inv s n : EInv s -> EInv (eres_st (history_backward s n)).
Proof.
  intros H; unfold history_backward. destruct (n =? 0); [exact H|].
  destruct (n <? 0); [now apply history_forward_pos_inv|now apply history_backward_pos_inv].
Qed.
Lemma history_forward_inv s n : EInv s -> EInv (eres_st (history_forward s n)).
Proof.
  intros H; unfold history_forward. destruct (n =? 0); [exact H|].
  destruct (n <? 0); [now apply history_backward_pos_inv|now apply history_forward_pos_inv].
Qed.
Lemma history_backward_ok s n : exists s', history_backward s n = EOk s'.
Proof.
  unfold history_backward, history_forward_pos, history_backward_pos.
  destruct (n =? 0); [eexists; reflexivity|]. destruct (n <? 0);
    match goal with |- context [if ?c then _ else _] => destruct c end; eexists; reflexivity.
Qed.
Lemma history_forward_ok s n : exists s', history_forward s n = EOk s'.
Proof.
  unfold history_forward, history_forward_pos, history_backward_pos.
  destruct (n =? 0); [eexists; reflexivity|]. destruct (n <? 0);
    match goal with |- context [if ?c then _ else _] => destruct c end; eexists; reflexivity.
Qed.

Lemma auto_up_inv s n g : EInv s -> EInv (eres_st (auto_up s n g)).
Proof.
  intros H; unfold auto_up. destruct (0 <? _); [now apply cursor_up_inv|].
  destruct (esel s); [exact H|]. apply ebind_inv; [now apply history_backward_inv|].
  intros s1 H1. destruct g; cbn [eres_st]; [apply set_cursor_inv, H1|exact H1].
Qed.
Lemma auto_down_inv s n g : EInv s -> EInv (eres_st (auto_down s n g)).
Proof.
  intros H; unfold auto_down. destruct (_ <? _); [now apply cursor_down_inv|].
  destruct (esel s); [exact H|]. apply ebind_inv; [now apply history_forward_inv|].
  intros s1 H1. destruct g; cbn [eres_st]; [apply set_cursor_inv, H1|exact H1].
Qed.

Lemma paste_inv s d ty m c : EInv s -> EInv (eres_st (paste s d ty m c)).
Proof.
  intros H; unfold paste. destruct (c <? 1); [now apply set_document_inv|].
  destruct (ty =? 0); [now apply set_document_inv|].
  destruct (ty =? 1); [|exact H]. destruct (m =? 1); now apply set_document_inv.
Qed.

Lemma start_selection_inv s ty : EInv s -> EInv (eres_st (start_selection s ty)).
Proof.
  intros [HC HS]; cbn [start_selection eres_st]. split; [exact HC|].
  unfold SInv; cbn [esel et with_sel with_tc]. intros a t E. injection E as <- _. exact HC.
Qed.

Lemma bstep_inv s o : EInv s -> EInv (eres_st (bstep s o)).
Proof.
  intros H; destruct o; cbn [bstep].
  - now apply set_text_inv.
  - cbn [eres_st]; apply set_cursor_inv, H.
  - now apply set_document_inv.
  - now apply insert_text_inv.
  - now apply delete_before_cursor_inv.
  - now apply delete_inv.
  - cbn [cursor_left eres_st]; apply set_cursor_inv, H.
  - cbn [cursor_right eres_st]; apply set_cursor_inv, H.
  - now apply cursor_up_inv.
  - now apply cursor_down_inv.
  - now apply start_selection_inv.
  - cbn [exit_selection eres_st]. destruct H as [HC HS]. split; [exact HC|].
    unfold SInv; cbn [esel with_sel with_tc]; discriminate.
  - now apply go_to_history_inv.
  - now apply history_backward_inv.
  - now apply history_forward_inv.
  - now apply auto_up_inv.
  - now apply auto_down_inv.
  - now apply paste_inv.
Qed.

Definition bsteps (s : est) (ops : list bop) : est :=
  fold_left (fun s o => eres_st (bstep s o)) ops s.

Lemma bsteps_inv ops : forall s, EInv s -> EInv (bsteps s ops).
Proof.
  induction ops as [|o ops IH]; intros s H; cbn [bsteps fold_left]; [exact H|].
  apply IH, bstep_inv, H.
Qed.

(* ---------------------------------------------------------------------- *)
(* exact Ok-conditions of the mutators handlers rely on *)

Lemma len_slice_to_in {T} (t : list T) c : 0 <= c <= len t -> len (slice_to t c) = c.
Proof. intros H. rewrite slice_to_in_range by lia. rewrite len_firstn. lia. Qed.
Lemma len_slice_from_in {T} (t : list T) c : 0 <= c <= len t -> len (slice_from t c) = len t - c.
Proof. intros H. rewrite slice_from_in_range by lia. rewrite len_skipn. lia. Qed.

(* insert_text never trips the Document assertion; it fails only on a
   read-only buffer *)
Lemma insert_text_total s d ow mv :
  CInv s -> (exists s', insert_text s d ow mv = EOk s') \/
            (ero s = true /\ insert_text s d ow mv = EErr E_READONLY s).
Proof.
  intros HC. unfold insert_text.
  match goal with |- context [set_document s ?t ?c false] => set (t' := t); set (c' := c) end.
  assert (Hle : c' <= len t').
  { unfold t', c'. pose proof (len_nonneg d).
    destruct ow; rewrite !len_app, (len_slice_to_in (et s) (ec s) HC);
      match goal with |- context [len (slice_from ?a ?b)] => pose proof (len_nonneg (slice_from a b)) end;
      destruct mv; lia. }
  unfold set_document. destruct (len t' <? c') eqn:E; [lia|]. cbn [negb andb].
  destruct (ero s); [right; split; reflexivity|left; eexists; reflexivity].
Qed.

Lemma delete_before_cursor_total s n :
  CInv s -> 0 <= n ->
  (exists s', delete_before_cursor s n = EOk s') \/
  (ero s = true /\ delete_before_cursor s n = EErr E_READONLY s).
Proof.
  intros HC Hn. unfold delete_before_cursor. destruct (n <? 0) eqn:E; [lia|].
  destruct (0 <? ec s) eqn:E2; [|left; eexists; reflexivity].
  set (start := Z.max 0 (ec s - n)).
  assert (Hs : 0 <= start <= ec s) by (unfold start; lia).
  unfold CInv in HC.
  rewrite slice2_in_range by lia. rewrite len_firstn, len_skipn.
  match goal with |- context [set_document s ?t ?c false] => set (t' := t); set (c' := c) end.
  assert (Hle : c' <= len t').
  { unfold t', c'. rewrite len_app, len_slice_to_in, len_slice_from_in by lia. lia. }
  unfold set_document. destruct (len t' <? c') eqn:E3; [lia|]. cbn [negb andb].
  destruct (ero s); [right; split; reflexivity|left; eexists; reflexivity].
Qed.

Lemma delete_total s n :
  (exists s', delete s n = EOk s') \/ (exists s', delete s n = EErr E_READONLY s').
Proof.
  unfold delete. destruct (ec s <? len (et s)); [|left; eexists; reflexivity].
  destruct (set_text s _) as [s'|c s'] eqn:E; [left; eexists; reflexivity|].
  apply set_text_err in E. subst. right; eexists; reflexivity.
Qed.

(* cursor_up / cursor_down are total (since fix 46fed32: any count) *)
Lemma cursor_up_total s n : exists s', cursor_up s n = EOk s'.
Proof. unfold cursor_up; eexists; reflexivity. Qed.
Lemma cursor_down_total s n : exists s', cursor_down s n = EOk s'.
Proof. unfold cursor_down; eexists; reflexivity. Qed.

(* every error a buffer operation can raise is one of the declared ones *)
Lemma ebind_err r k c s' :
  ebind r k = EErr c s' -> r = EErr c s' \/ exists s1, r = EOk s1 /\ k s1 = EErr c s'.
Proof. destruct r as [s1|c1 s1]; cbn [ebind]; [right; eauto|left; assumption]. Qed.

Lemma auto_up_ok s n g : exists s', auto_up s n g = EOk s'.
Proof.
  unfold auto_up. destruct (0 <? _); [apply cursor_up_total|].
  destruct (esel s); [eexists; reflexivity|].
  destruct (history_backward_ok s n) as [s1 ->]. cbn [ebind]. destruct g; eexists; reflexivity.
Qed.
Lemma auto_down_ok s n g : exists s', auto_down s n g = EOk s'.
Proof.
  unfold auto_down. destruct (_ <? _); [apply cursor_down_total|].
  destruct (esel s); [eexists; reflexivity|].
  destruct (history_forward_ok s n) as [s1 ->]. cbn [ebind]. destruct g; eexists; reflexivity.
Qed.

Lemma bstep_err_declared s o c s' :
  bstep s o = EErr c s' -> c = E_ASSERT \/ c = E_READONLY.
Proof.
  destruct o; cbn [bstep]; intros H.
  - right; eapply set_text_err; eassumption.
  - discriminate.
  - apply set_document_err in H; tauto.
  - unfold insert_text in H; apply set_document_err in H; tauto.
  - unfold delete_before_cursor in H. destruct (n <? 0); [injection H as <- _; now left|].
    destruct (0 <? ec s); [|discriminate]. apply set_document_err in H; tauto.
  - unfold delete in H. destruct (ec s <? _); [|discriminate]. right; eapply set_text_err; eassumption.
  - discriminate.
  - discriminate.
  - destruct (cursor_up_total s n) as [s1 E]; rewrite E in H; discriminate.
  - destruct (cursor_down_total s n) as [s1 E]; rewrite E in H; discriminate.
  - discriminate.
  - discriminate.
  - unfold go_to_history in H. destruct (_ && _); discriminate.
  - destruct (history_backward_ok s n) as [s1 E]; rewrite E in H; discriminate.
  - destruct (history_forward_ok s n) as [s1 E]; rewrite E in H; discriminate.
  - destruct (auto_up_ok s n g) as [s1 E]; rewrite E in H; discriminate.
  - destruct (auto_down_ok s n g) as [s1 E]; rewrite E in H; discriminate.
  - unfold paste in H. destruct (count <? 1); [apply set_document_err in H; tauto|].
    destruct (ty =? 0); [apply set_document_err in H; tauto|].
    destruct (ty =? 1); [|injection H as <- _; now left].
    destruct (mode =? 1); apply set_document_err in H; tauto.
Qed.

(* ---------------------------------------------------------------------- *)
(* L2: after the post-command fix, Vi navigation mode never rests past the
   last character of a non-empty line *)

Definition rests_past_end (s : est) : bool :=
  is_cursor_at_the_end_of_line (edoc s) && (0 <? len (current_line (edoc s))).

Lemma before_first_nil_or c s :
  before_first c s = [] -> s = [] \/ exists r, s = c :: r.
Proof.
  destruct s as [|x r]; [now left|]. cbn [before_first]. destruct (x =? c) eqn:E.
  - apply Z.eqb_eq in E; subst. right; eauto.
  - discriminate.
Qed.

Lemma after_last_nonnil_last c s :
  after_last c s <> [] -> exists r x, s = r ++ [x] /\ x <> c.
Proof.
  unfold after_last. intros H.
  destruct (rev s) as [|x r] eqn:E.
  - cbn in H. congruence.
  - cbn [before_first] in H. destruct (x =? c) eqn:Ex; [cbn in H; congruence|].
    exists (rev r), x. split; [|apply Z.eqb_neq, Ex].
    rewrite <- (rev_involutive s), E. reflexivity.
Qed.

Lemma index_app_last {T} (r : list T) x : index (r ++ [x]) (len r) = Some x.
Proof.
  unfold index. pose proof (len_nonneg r). rewrite len_app. change (len [x]) with 1.
  destruct (len r <? 0) eqn:E; [lia|].
  destruct ((len r <? 0) || (len r + 1 <=? len r)) eqn:E2; [lia|].
  unfold len. rewrite Nat2Z.id. rewrite nth_error_app2 by lia. now rewrite Nat.sub_diag.
Qed.

Lemma nth_error_firstn_lt {T} (l : list T) : forall n i, (i < n)%nat ->
  nth_error (firstn n l) i = nth_error l i.
Proof.
  induction l as [|x l IH]; intros [|n] [|i] H; cbn [firstn nth_error]; try reflexivity; try lia.
  apply IH. lia.
Qed.

Lemma index_firstn {T} (t : list T) c i :
  0 <= i -> i < c -> c <= len t -> index (firstn (Z.to_nat c) t) i = index t i.
Proof.
  intros H0 H1 H2. unfold index. rewrite len_firstn.
  destruct (i <? 0) eqn:E; [lia|].
  rewrite Z2Nat.id by lia. rewrite Z.min_l by lia.
  destruct ((i <? 0) || (c <=? i)) eqn:E1; [lia|].
  destruct ((i <? 0) || (len t <=? i)) eqn:E2; [lia|].
  apply nth_error_firstn_lt. lia.
Qed.

(* at the end of a non-empty line the character before the cursor exists and
   is not a line ending *)
Lemma eol_nonempty_prev s :
  CInv s -> is_cursor_at_the_end_of_line (edoc s) = true -> 0 < len (current_line (edoc s)) ->
  1 <= ec s /\ exists x, index (et s) (ec s - 1) = Some x /\ x <> NL.
Proof.
  intros HC Heol Hne. unfold CInv in HC.
  unfold is_cursor_at_the_end_of_line, edoc in Heol; cbn [dtext dcur] in Heol.
  (* the part of the line after the cursor is empty *)
  assert (Ha : current_line_after_cursor (edoc s) = []).
  { unfold current_line_after_cursor, text_after_cursor, edoc; cbn [dtext dcur].
    rewrite slice_from_in_range by lia.
    destruct (skipn (Z.to_nat (ec s)) (et s)) as [|y r] eqn:Es; [reflexivity|].
    assert (Hi : index (et s) (ec s) = Some y).
    { unfold index. destruct (ec s <? 0) eqn:E; [lia|].
      assert (Hlt : ec s < len (et s)).
      { destruct (Z.eq_dec (ec s) (len (et s))) as [Heq|]; [|lia].
        rewrite Heq in Es. unfold len in Es. rewrite Nat2Z.id, skipn_all in Es. discriminate. }
      destruct ((ec s <? 0) || (len (et s) <=? ec s)) eqn:E2; [lia|].
      rewrite <- (firstn_skipn (Z.to_nat (ec s)) (et s)), Es.
      rewrite nth_error_app2 by (rewrite firstn_length; unfold len in *; lia).
      rewrite firstn_length. replace (_ - _)%nat with 0%nat by (unfold len in *; lia). reflexivity. }
    rewrite Hi in Heol. apply Z.eqb_eq in Heol. subst y. cbn [before_first].
    change (NL =? NL) with true. reflexivity. }
  unfold current_line in Hne. rewrite Ha, app_nil_r in Hne.
  assert (Hb : current_line_before_cursor (edoc s) <> []).
  { intros E. rewrite E in Hne. cbn in Hne. lia. }
  unfold current_line_before_cursor, text_before_cursor, edoc in Hb; cbn [dtext dcur] in Hb.
  rewrite slice_to_in_range in Hb by lia.
  apply after_last_nonnil_last in Hb as (r & x & Hr & Hx).
  assert (Hlen : len (firstn (Z.to_nat (ec s)) (et s)) = ec s) by (rewrite len_firstn; lia).
  rewrite Hr, len_app in Hlen. change (len [x]) with 1 in Hlen.
  pose proof (len_nonneg r). split; [lia|]. exists x. split; [|exact Hx].
  rewrite <- (index_firstn (et s) (ec s) (ec s - 1)) by lia.
  rewrite Hr. replace (ec s - 1) with (len r) by lia. apply index_app_last.
Qed.

Lemma fix_vi_rests s :
  CInv s -> vi_navigation_mode s = true -> rests_past_end (fix_vi_cursor_position s) = false.
Proof.
  intros HC Hnav. unfold fix_vi_cursor_position. rewrite Hnav. cbn [andb].
  destruct (is_cursor_at_the_end_of_line (edoc s)) eqn:E1; cbn [andb];
    [|unfold rests_past_end; now rewrite E1].
  destruct (0 <? len (current_line (edoc s))) eqn:E2;
    [|unfold rests_past_end; now rewrite E1, E2].
  apply Z.ltb_lt in E2.
  destruct (eol_nonempty_prev s HC E1 E2) as (H1 & x & Hx & Hnl).
  unfold rests_past_end. apply andb_false_iff. left.
  unfold is_cursor_at_the_end_of_line, edoc, with_pref; cbn [dtext dcur et ec with_tc].
  rewrite set_cursor_text.
  assert (Hc : ec (set_cursor s (ec s - 1)) = ec s - 1).
  { unfold set_cursor, CInv in *. destruct (len (et s) <? ec s - 1) eqn:Ea; [lia|].
    destruct (ec s - 1 <? 0) eqn:Eb; [lia|]. rewrite Z.max_r by lia.
    destruct (ec s - 1 =? ec s) eqn:Ec; [lia|]. reflexivity. }
  rewrite Hc, Hx. now apply Z.eqb_neq.
Qed.

Lemma fix_vi_inv s : EInv s -> EInv (fix_vi_cursor_position s).
Proof.
  intros H. unfold fix_vi_cursor_position. destruct (_ && _ && _); [|exact H].
  apply with_pref_inv, set_cursor_inv, H.
Qed.

(* ---------------------------------------------------------------------- *)
(* L4: handlers *)

Lemma with_vi_inv s m o a d t : EInv s -> EInv (with_vi s m o a d t).
Proof. intros H; exact H. Qed.
Lemma set_input_mode_inv s m : EInv s -> EInv (set_input_mode s m).
Proof. intros H; unfold set_input_mode; destruct (m =? M_NAVIGATION); exact H. Qed.
Lemma with_mc_inv s mc : EInv s -> EInv (with_mc s mc).
Proof. intros H; exact H. Qed.

Lemma run_handler_inv h s arg data : EInv s -> EInv (eres_st (run_handler h s arg data)).
Proof.
  intros H. pose proof H as [HC HS]. destruct h; cbn [run_handler].
  - (* back to navigation *)
    set (s1 := if _ || _ then _ else s).
    assert (H1 : EInv s1) by (unfold s1; destruct (_ || _); [apply set_cursor_inv, HS|exact H]).
    pose proof (set_input_mode_inv s1 M_NAVIGATION H1) as H2.
    destruct (esel (set_input_mode s1 M_NAVIGATION)); cbn [exit_selection eres_st]; [|exact H2].
    destruct H2 as [HC2 _]. split; [exact HC2|]. unfold SInv; cbn [esel with_sel with_tc]; discriminate.
  - cbn [eres_st]; now apply set_input_mode_inv.
  - cbn [eres_st]; apply set_cursor_inv, HS.
  - cbn [eres_st]; apply set_cursor_inv, HS.
  - cbn [cursor_right eres_st]; apply set_cursor_inv, HS.
  - cbn [cursor_left eres_st]; apply set_cursor_inv, HS.
  - now apply insert_text_inv.
  - now apply delete_inv.
  - destruct (arg <? 0); [now apply delete_inv|now apply delete_before_cursor_inv].
  - cbn [eres_st]; now apply set_input_mode_inv.
  - cbn [eres_st]; apply set_input_mode_inv, set_cursor_inv, HS.
  - cbn [eres_st]; apply set_input_mode_inv, set_cursor_inv, HS.
  - cbn [eres_st]. apply set_cursor_inv. apply (set_input_mode_inv s M_INSERT H).
  - cbn [eres_st]; now apply set_input_mode_inv.
  - cbn [eres_st]; now apply set_input_mode_inv.
  - cbn [cursor_left eres_st]; apply set_cursor_inv, HS.
  - apply ebind_inv; [now apply insert_text_inv|]. intros s1 [_ HS1]; cbn [eres_st].
    apply set_input_mode_inv, set_cursor_inv, HS1.
  - now apply insert_text_inv.
  - cbn [eres_st]; exact H.
  - cbn [eres_st]; exact H.
  - apply ebind_inv; [now apply set_text_inv|]. intros s1 [_ HS1]; cbn [eres_st].
    apply set_cursor_inv. exact HS1.
  - destruct (mc_backspace_parts _ _ _) as [parts del].
    destruct (existsb _ _); cbn [eres_st]; [exact H|].
    destruct del; cbn [eres_st]; [|exact H].
    apply ebind_inv; [now apply set_text_inv|]. intros s1 [_ HS1]; cbn [eres_st].
    apply set_cursor_inv. exact HS1.
  - destruct (mc_delete_parts _ _ _) as [[parts pf] del].
    destruct del; cbn [eres_st]; [|exact H].
    apply ebind_inv; [now apply set_text_inv|]. intros s1 H1; cbn [eres_st]. exact H1.
  - match goal with |- context [if ?c then _ else _] => destruct c end; cbn [eres_st];
      [apply set_cursor_inv; exact HS|exact H].
  - match goal with |- context [if ?c then _ else _] => destruct c end; cbn [eres_st];
      [exact H|apply set_cursor_inv; exact HS].
  - cbn [eres_st]; exact H.
  - cbn [eres_st]; exact H.
  - now apply cursor_up_inv.
  - now apply cursor_down_inv.
  - now apply auto_up_inv.
  - now apply auto_up_inv.
  - now apply auto_down_inv.
  - now apply auto_down_inv.
  - now apply history_backward_inv.
  - now apply history_forward_inv.
  - now apply auto_up_inv.
  - now apply auto_down_inv.
Qed.

Lemma call_handler_inv h s arg data : EInv s -> EInv (eres_st (call_handler h s arg data)).
Proof.
  intros H. unfold call_handler.
  pose proof (run_handler_inv h s arg data H) as H1.
  destruct (run_handler h s arg data) as [s1|c s1]; cbn [eres_st] in *.
  - destruct (_ && _ && _); [apply with_vi_inv|]; now apply fix_vi_inv.
  - destruct (c =? E_READONLY); cbn [eres_st]; [|exact H1].
    destruct (_ && _ && _); [apply with_vi_inv|]; now apply fix_vi_inv.
Qed.

(* After every command that _call_handler completes (the handler returned, or
   its EditReadOnlyBuffer was swallowed): if the editor is then in Vi
   navigation mode, the cursor does not rest past the last character of a
   non-empty line. *)
Lemma set_cursor_nav s v : vi_navigation_mode (set_cursor s v) = vi_navigation_mode s.
Proof. unfold set_cursor. destruct (_ =? ec s); reflexivity. Qed.

Lemma fix_vi_nav s : vi_navigation_mode (fix_vi_cursor_position s) = vi_navigation_mode s.
Proof.
  unfold fix_vi_cursor_position. destruct (_ && _ && _); [|reflexivity].
  unfold with_pref. rewrite <- (set_cursor_nav s (ec s - 1)). reflexivity.
Qed.

Lemma leave_nav_rests (b : bool) s1 :
  let s' := if b then with_vi s1 (vmode s1) (vop s1) (voparg s1) (vdig s1) false else s1 in
  vi_navigation_mode s' = true -> vi_navigation_mode s1 = true /\ rests_past_end s' = rests_past_end s1.
Proof.
  destruct b; cbn zeta; [|tauto]. intros H. split; [|reflexivity].
  unfold vi_navigation_mode in *; cbn [evi vop vdig esel vmode vtemp ero with_vi] in H.
  apply andb_true_iff in H as [H H5]. rewrite H. cbn [andb].
  rewrite orb_false_r in H5. apply orb_true_iff in H5 as [H5|H5]; rewrite H5; rewrite ?orb_true_r; reflexivity.
Qed.

Lemma call_handler_rests h s arg data s' :
  EInv s -> call_handler h s arg data = EOk s' ->
  vi_navigation_mode s' = true -> rests_past_end s' = false.
Proof.
  intros H Hc Hnav. unfold call_handler in Hc.
  pose proof (run_handler_inv h s arg data H) as HI.
  assert (Hgen : forall s1, EInv s1 ->
            EOk ((fun s1 => if vtemp s && evi s1 && negb (vop s1)
                            then with_vi s1 (vmode s1) (vop s1) (voparg s1) (vdig s1) false else s1)
                   (fix_vi_cursor_position s1)) = EOk s' -> rests_past_end s' = false).
  { intros s1 [HC1 _] E. injection E as <-.
    destruct (leave_nav_rests (vtemp s && evi (fix_vi_cursor_position s1) && negb (vop (fix_vi_cursor_position s1)))
                (fix_vi_cursor_position s1) Hnav) as [Hn ->].
    rewrite fix_vi_nav in Hn. now apply fix_vi_rests. }
  destruct (run_handler h s arg data) as [s1|c s1]; cbn [eres_st] in HI.
  - now apply (Hgen s1).
  - destruct (c =? E_READONLY); [now apply (Hgen s1)|discriminate].
Qed.

(* which exceptions can leave a modelled handler *)
Lemma run_handler_err h s arg data c s' :
  CInv s -> run_handler h s arg data = EErr c s' ->
  c = E_READONLY \/
  (c = E_INDEX /\ h = HViBackspaceMulti /\ exists p, In p (emc s) /\ len (et s) < p).
Proof.
  intros HC. destruct h; cbn [run_handler]; intros H; try discriminate.
  - destruct (esel _); discriminate.
  - destruct (insert_text_total s (str_mul data arg) false true HC) as [[s1 E]|[_ E]]; rewrite E in H;
      [discriminate|injection H as <- _; now left].
  - destruct (delete_total s arg) as [[s1 E]|[s1 E]]; rewrite E in H;
      [discriminate|injection H as <- _; now left].
  - destruct (arg <? 0) eqn:Ea.
    + destruct (delete_total s (- arg)) as [[s1 E]|[s1 E]]; rewrite E in H;
        [discriminate|injection H as <- _; now left].
    + destruct (delete_before_cursor_total s arg HC ltac:(lia)) as [[s1 E]|[_ E]]; rewrite E in H;
        [discriminate|injection H as <- _; now left].
  - destruct (insert_text_total s data true true HC) as [[s1 E]|[_ E]]; rewrite E in H; cbn [ebind] in H;
      [discriminate|injection H as <- _; now left].
  - destruct (insert_text_total s data true true HC) as [[s1 E]|[_ E]]; rewrite E in H;
      [discriminate|injection H as <- _; now left].
  - apply ebind_err in H as [H|(s1 & _ & H)]; [left; eapply set_text_err; eassumption|discriminate].
  - destruct (mc_backspace_parts _ _ _) as [parts del].
    destruct (existsb _ (emc s)) eqn:Ex.
    + injection H as <- _. right. split; [reflexivity|]. split; [reflexivity|].
      apply existsb_exists in Ex as (p & Hp & Hlt). exists p. split; [exact Hp|lia].
    + destruct del; [|discriminate].
      apply ebind_err in H as [H|(s1 & _ & H)]; [left; eapply set_text_err; eassumption|discriminate].
  - destruct (mc_delete_parts _ _ _) as [[parts pf] del]. destruct del; [|discriminate].
    apply ebind_err in H as [H|(s1 & _ & H)]; [left; eapply set_text_err; eassumption|discriminate].
  - match type of H with context [if ?c then _ else _] => destruct c end; discriminate.
  - match type of H with context [if ?c then _ else _] => destruct c end; discriminate.
  - destruct (auto_up_ok s arg false) as [s1 E]; rewrite E in H; discriminate.
  - destruct (auto_up_ok s arg true) as [s1 E]; rewrite E in H; discriminate.
  - destruct (auto_down_ok s arg false) as [s1 E]; rewrite E in H; discriminate.
  - destruct (auto_down_ok s arg true) as [s1 E]; rewrite E in H; discriminate.
  - destruct (history_backward_ok s arg) as [s1 E]; rewrite E in H; discriminate.
  - destruct (history_forward_ok s arg) as [s1 E]; rewrite E in H; discriminate.
  - destruct (auto_up_ok s arg false) as [s1 E]; rewrite E in H; discriminate.
  - destruct (auto_down_ok s arg false) as [s1 E]; rewrite E in H; discriminate.
Qed.

(* the step as the key processor performs it: for a repeat count >= 1 and
   multiple cursors within the text no exception leaves _call_handler *)
Lemma call_handler_total h s arg data :
  EInv s -> MInv s ->
  exists s', call_handler h s arg data = EOk s' /\ EInv s'.
Proof.
  intros H HM.
  pose proof (call_handler_inv h s arg data H) as HI.
  unfold call_handler in *.
  destruct (run_handler h s arg data) as [s1|c s1] eqn:E.
  - eexists; split; [reflexivity|exact HI].
  - destruct (run_handler_err h s arg data c s1 (proj1 H) E) as [->|(-> & -> & p & Hp & Hlt)].
    + change (E_READONLY =? E_READONLY) with true in *. eexists; split; [reflexivity|exact HI].
    + specialize (HM p Hp). lia.
Qed.

(* the multiple-cursor hypothesis is necessary: a position beyond the text
   makes Backspace in insert-multiple mode raise IndexError (what finding F8b
   showed on the real editor before history navigation was disabled there) *)
Lemma stale_multicursor_escapes :
  exists s, EInv s /\ ~ MInv s /\ call_handler HViBackspaceMulti s 1 [] = EErr E_INDEX s.
Proof.
  exists (mkE [120] 1 None [1; 5] false None [[120]] 0 true M_INSERT_MULTIPLE false None false false).
  split; [split; [unfold CInv; cbn; lia|unfold SInv; cbn; discriminate]|].
  split; [intros HM; specialize (HM 5 ltac:(cbn; tauto)); cbn in HM; lia|]. vm_compute. reflexivity.
Qed.

(* Escape handlers: navigation mode, nothing pending *)
Definition nav_clean (s : est) : Prop :=
  vmode s = M_NAVIGATION /\ vop s = false /\ voparg s = None /\ vdig s = false.

Lemma set_cursor_vi s v :
  vmode (set_cursor s v) = vmode s /\ vop (set_cursor s v) = vop s /\
  voparg (set_cursor s v) = voparg s /\ vdig (set_cursor s v) = vdig s /\
  vtemp (set_cursor s v) = vtemp s /\ evi (set_cursor s v) = evi s.
Proof. unfold set_cursor. destruct (_ =? ec s); repeat split; reflexivity. Qed.

Lemma fix_vi_vi s :
  vmode (fix_vi_cursor_position s) = vmode s /\ vop (fix_vi_cursor_position s) = vop s /\
  voparg (fix_vi_cursor_position s) = voparg s /\ vdig (fix_vi_cursor_position s) = vdig s.
Proof.
  unfold fix_vi_cursor_position. destruct (_ && _ && _); [|repeat split; reflexivity].
  unfold with_pref; cbn [vmode vop voparg vdig with_tc].
  destruct (set_cursor_vi s (ec s - 1)) as (A & B & C & D & _). repeat split; assumption.
Qed.

Lemma escape_handlers_nav h s arg data :
  (h = HBackToNavigation \/ h = HAcceptSearchVi) ->
  exists s', call_handler h s arg data = EOk s' /\ nav_clean s'.
Proof.
  intros Hh. unfold call_handler.
  assert (Hr : exists s1, run_handler h s arg data = EOk s1 /\ nav_clean s1).
  { destruct Hh as [-> | ->]; cbn [run_handler].
    - set (s1 := if _ || _ then _ else s).
      destruct (esel (set_input_mode s1 M_NAVIGATION)); cbn [exit_selection];
        eexists; (split; [reflexivity|]); unfold nav_clean, set_input_mode;
        change (M_NAVIGATION =? M_NAVIGATION) with true; cbn; repeat split; reflexivity.
    - eexists; split; [reflexivity|]. unfold nav_clean, set_input_mode.
      change (M_NAVIGATION =? M_NAVIGATION) with true; cbn; repeat split; reflexivity. }
  destruct Hr as (s1 & -> & (N1 & N2 & N3 & N4)).
  eexists; split; [reflexivity|].
  destruct (fix_vi_vi s1) as (A & B & C & D).
  unfold nav_clean.
  destruct (_ && _ && _); cbn [vmode vop voparg vdig with_vi]; rewrite ?A, ?B, ?C, ?D; repeat split; assumption.
Qed.

(* accept returns exactly the buffer text *)
Lemma accept_result_text s : accept_result s = et s.
Proof. reflexivity. Qed.

(* ---------------------------------------------------------------------- *)
(* The working index stays within the working lines: every Buffer mutator of
   the model, any arguments, exceptions included (audit item 1). *)
Definition WInv (s : est) : Prop := 0 <= ewi s < len (ewl s).

Lemma set_cursor_hist s v : ewl (set_cursor s v) = ewl s /\ ewi (set_cursor s v) = ewi s.
Proof. unfold set_cursor. destruct (_ =? ec s); split; reflexivity. Qed.

Lemma WInv_same s s' : ewl s' = ewl s -> ewi s' = ewi s -> WInv s -> WInv s'.
Proof. unfold WInv. intros -> ->. tauto. Qed.

Lemma set_cursor_winv s v : WInv s -> WInv (set_cursor s v).
Proof. destruct (set_cursor_hist s v) as [A B]. now apply WInv_same. Qed.

Lemma set_text_winv s v : WInv s -> WInv (eres_st (set_text s v)).
Proof.
  intros H. unfold set_text.
  set (s1 := if len v <? ec s then set_cursor s (len v) else s).
  assert (H1 : WInv s1) by (unfold s1; destruct (len v <? ec s); [now apply set_cursor_winv|exact H]).
  destruct (ero s1); cbn [eres_st]; [exact H1|]. destruct (str_eqb _ _); cbn [eres_st]; exact H1.
Qed.

Lemma set_document_winv s t c b : WInv s -> WInv (eres_st (set_document s t c b)).
Proof.
  intros H. unfold set_document. destruct (len t <? c); cbn [eres_st]; [exact H|].
  destruct (negb b && ero s); cbn [eres_st]; exact H.
Qed.

Lemma ebind_winv r k :
  WInv (eres_st r) -> (forall s, WInv s -> WInv (eres_st (k s))) -> WInv (eres_st (ebind r k)).
Proof. destruct r as [s|c s]; cbn [ebind eres_st]; auto. Qed.

Lemma len_set_nth {T} (l : list T) : forall n x, len (set_nth l n x) = len l.
Proof.
  induction l as [|y r IH]; intros [|n] x; cbn [set_nth]; try reflexivity.
  rewrite !len_cons. now rewrite IH.
Qed.

Lemma set_working_index_winv s i : WInv s -> 0 <= i < len (ewl s) -> WInv (set_working_index s i).
Proof.
  intros H Hi. unfold set_working_index. destruct (i =? ewi s); [exact H|].
  unfold WInv; cbn [ewl ewi with_tc with_hist]. now rewrite len_set_nth.
Qed.

Lemma history_backward_pos_winv s n : WInv s -> 0 < n -> WInv (eres_st (history_backward_pos s n)).
Proof.
  intros H Hn. unfold history_backward_pos. destruct (0 <? ewi s) eqn:E; cbn [eres_st]; [|exact H].
  apply set_cursor_winv, set_working_index_winv; [exact H|]. unfold WInv in H. lia.
Qed.
Lemma history_forward_pos_winv s n : WInv s -> 0 < n -> WInv (eres_st (history_forward_pos s n)).
Proof.
  intros H Hn. unfold history_forward_pos. destruct (_ <? _) eqn:E; cbn [eres_st]; [|exact H].
  apply set_cursor_winv, set_cursor_winv, set_working_index_winv; [exact H|]. unfold WInv in H. lia.
Qed.
Lemma history_backward_winv s n : WInv s -> WInv (eres_st (history_backward s n)).
Proof.
  intros H. unfold history_backward. destruct (n =? 0) eqn:E0; [exact H|].
  destruct (n <? 0) eqn:E1; [apply history_forward_pos_winv|apply history_backward_pos_winv]; (exact H || lia).
Qed.
Lemma history_forward_winv s n : WInv s -> WInv (eres_st (history_forward s n)).
Proof.
  intros H. unfold history_forward. destruct (n =? 0) eqn:E0; [exact H|].
  destruct (n <? 0) eqn:E1; [apply history_backward_pos_winv|apply history_forward_pos_winv]; (exact H || lia).
Qed.

Lemma cursor_updown_winv s n :
  WInv s -> WInv (eres_st (cursor_up s n)) /\ WInv (eres_st (cursor_down s n)).
Proof.
  intros H. unfold cursor_up, cursor_down; cbn [eres_st].
  split; match goal with |- WInv (with_pref ?x _) => apply (WInv_same x) end;
    try reflexivity; now apply set_cursor_winv.
Qed.

Lemma bstep_winv s o : WInv s -> WInv (eres_st (bstep s o)).
Proof.
  intros H; destruct o; cbn [bstep].
  - now apply set_text_winv.
  - cbn [eres_st]; now apply set_cursor_winv.
  - now apply set_document_winv.
  - unfold insert_text; now apply set_document_winv.
  - unfold delete_before_cursor. destruct (n <? 0); [exact H|]. destruct (0 <? ec s); [|exact H].
    now apply set_document_winv.
  - unfold delete. destruct (ec s <? _); [|exact H]. now apply set_text_winv.
  - cbn [cursor_left eres_st]; now apply set_cursor_winv.
  - cbn [cursor_right eres_st]; now apply set_cursor_winv.
  - now apply cursor_updown_winv.
  - now apply cursor_updown_winv.
  - exact H.
  - exact H.
  - unfold go_to_history. destruct (_ && _) eqn:E; cbn [eres_st]; [|exact H].
    apply andb_true_iff in E as [E1 E2]. apply set_cursor_winv, set_working_index_winv; [exact H|lia].
  - now apply history_backward_winv.
  - now apply history_forward_winv.
  - unfold auto_up. destruct (0 <? _); [now apply cursor_updown_winv|]. destruct (esel s); [exact H|].
    apply ebind_winv; [now apply history_backward_winv|]. intros s1 H1. destruct g; cbn [eres_st]; [now apply set_cursor_winv|exact H1].
  - unfold auto_down. destruct (_ <? _); [now apply cursor_updown_winv|]. destruct (esel s); [exact H|].
    apply ebind_winv; [now apply history_forward_winv|]. intros s1 H1. destruct g; cbn [eres_st]; [now apply set_cursor_winv|exact H1].
  - unfold paste. destruct (count <? 1); [now apply set_document_winv|].
    destruct (ty =? 0); [now apply set_document_winv|]. destruct (ty =? 1); [|exact H].
    destruct (mode =? 1); now apply set_document_winv.
Qed.

Lemma bsteps_winv ops : forall s, WInv s -> WInv (bsteps s ops).
Proof.
  induction ops as [|o ops IH]; intros s H; cbn [bsteps fold_left]; [exact H|]. apply IH, bstep_winv, H.
Qed.

(* go_to_history as it stood before fix c767972 broke it, both ways *)
Lemma go_to_history_pinned_refuted :
  exists s, WInv s /\ EInv s /\
    ~ WInv (eres_st (go_to_history_pinned s (-1))) /\
    (exists s', go_to_history_pinned s (-5) = EErr E_INDEX s' /\ ewi s' = -5).
Proof.
  exists (mkE [99] 1 None [] false None [[97]; [98]; [99]] 2 false M_INSERT false None false false).
  split; [unfold WInv; cbn; lia|]. split; [split; [unfold CInv; cbn; lia|unfold SInv; cbn; discriminate]|].
  split; [vm_compute; intros [H _]; apply H; reflexivity|].
  eexists. split; vm_compute; reflexivity.
Qed.
