(* C10: facts about the regenerated Char.display_mappings (finite, by
   computation over the whole table, re-proved whenever the table changes) and
   about Char.__init__ / Vt100_Output.write for every code point. *)
From Coq Require Import ZArith List Bool Lia.
From PTK Require Import Lib.Sx Lib.Py Gen.C10_DisplayMappings Model.C10_Screen.
Import ListNotations.
Open Scope Z_scope.

(* ------------------------------------------------------------ generic *)

Lemma assoc_In {V} (t : list (Z * V)) k v : assoc t k = Some v -> In (k, v) t.
Proof.
  induction t as [|[k' v'] r IH]; cbn [assoc]; intro H; [discriminate|].
  destruct (k' =? k) eqn:E.
  - apply Z.eqb_eq in E. inversion H. subst. left. reflexivity.
  - right. apply IH. exact H.
Qed.

Lemma zrange_In n c : 0 <= c < n -> In c (zrange n).
Proof.
  intro H. unfold zrange. apply in_map_iff. exists (Z.to_nat c). split.
  - apply Z2Nat.id. lia.
  - apply in_seq. lia.
Qed.

Lemma is_control_range c : is_control c = true -> 0 <= c < 160.
Proof.
  unfold is_control. intro H.
  destruct (0 <=? c) eqn:E1; destruct (c <=? 31) eqn:E2; destruct (c =? 127) eqn:E3;
    destruct (128 <=? c) eqn:E4; destruct (c <=? 159) eqn:E5; cbn in H; try discriminate; lia.
Qed.

Lemma printable_not_control c : printable_ascii c = true -> is_control c = false.
Proof.
  unfold printable_ascii, is_control. intro H.
  destruct (32 <=? c) eqn:E1; destruct (c <=? 126) eqn:E2; cbn in H; try discriminate.
  destruct (0 <=? c) eqn:F1; destruct (c <=? 31) eqn:F2; destruct (c =? 127) eqn:F3;
    destruct (128 <=? c) eqn:F4; destruct (c <=? 159) eqn:F5; cbn; try reflexivity; lia.
Qed.

Lemma control_free_app a b : control_free (a ++ b) = control_free a && control_free b.
Proof. unfold control_free. apply forallb_app. Qed.

Lemma printable_all_control_free v : forallb printable_ascii v = true -> control_free v = true.
Proof.
  unfold control_free. intro H. apply forallb_forall. intros c Hc.
  rewrite (printable_not_control c); [reflexivity|].
  eapply forallb_forall in H; eauto.
Qed.

(* ------------------------------------------------------------ the table *)

(* every control code point below 160 is a key *)
Definition keys_cover_check : bool :=
  forallb (fun c => if is_control c then match dm_lookup c with Some _ => true | None => false end else true)
          (zrange 160).

(* a display string: not empty, printable ASCII only, and not itself a
   one-character key (so wrapping a cell's text in Char again changes nothing) *)
Definition value_ok (v : list Z) : bool :=
  match v with
  | [] => false
  | [c] => printable_ascii c && match dm_lookup c with Some _ => false | None => true end
  | _ => forallb printable_ascii v
  end.
Definition values_check : bool := forallb (fun kv => value_ok (snd kv)) display_mappings.

Lemma keys_cover_checked : keys_cover_check = true.
Proof. vm_compute. reflexivity. Qed.

Lemma values_checked : values_check = true.
Proof. vm_compute. reflexivity. Qed.

Lemma table_covers : forall c, is_control c = true -> exists v, dm_lookup c = Some v.
Proof.
  intros c Hc.
  pose proof keys_cover_checked as K. unfold keys_cover_check in K.
  rewrite forallb_forall in K. specialize (K c (zrange_In 160 c (is_control_range c Hc))).
  rewrite Hc in K. destruct (dm_lookup c) as [v|]; [exists v; reflexivity | discriminate].
Qed.

Lemma not_in_table_not_control : forall c, dm_lookup c = None -> is_control c = false.
Proof.
  intros c H. destruct (is_control c) eqn:E; [|reflexivity].
  destruct (table_covers c E) as [v Hv]. congruence.
Qed.

Lemma table_value_ok : forall c v, dm_lookup c = Some v -> value_ok v = true.
Proof.
  intros c v H. apply assoc_In in H.
  pose proof values_checked as K. unfold values_check in K. rewrite forallb_forall in K.
  exact (K (c, v) H).
Qed.

Lemma value_ok_printable v : value_ok v = true -> forallb printable_ascii v = true.
Proof.
  destruct v as [|a [|b r]]; cbn [value_ok]; intro H; [discriminate| |exact H].
  apply andb_true_iff in H. destruct H as [H _]. cbn. rewrite H. reflexivity.
Qed.

Lemma table_values_clean : forall c v, dm_lookup c = Some v -> control_free v = true.
Proof. intros c v H. apply printable_all_control_free, value_ok_printable, (table_value_ok c v H). Qed.

Lemma table_values_nonempty : forall c v, dm_lookup c = Some v -> v <> [].
Proof. intros c v H E. apply table_value_ok in H. subst v. discriminate. Qed.

(* the structural side condition found by the generator's AST scan on this run *)
Lemma store_sites_reviewed_checked : store_sites_reviewed = true.
Proof. reflexivity. Qed.

(* the scan found the readline-like listing mapping its display text through
   _show_control_characters (the model of Model/C10_Print.v assumes it) *)
Lemma readline_listing_mapped_checked : readline_listing_mapped = true.
Proof. reflexivity. Qed.

(* ------------------------------------------------------------ Char.__init__ *)

Lemma char_init_single_clean : forall wc c st, control_free (cch (char_init wc [c] st)) = true.
Proof.
  intros wc c st. unfold char_init. destruct (dm_lookup c) as [v|] eqn:E; cbn [cch].
  - exact (table_values_clean c v E).
  - cbn. rewrite (not_in_table_not_control c E). reflexivity.
Qed.

Lemma char_init_cch_cases : forall wc s st,
  cch (char_init wc s st) = s \/ exists c v, s = [c] /\ dm_lookup c = Some v /\ cch (char_init wc s st) = v.
Proof.
  intros wc s st. destruct s as [|c [|d r]]; cbn [char_init]; try (left; reflexivity).
  destruct (dm_lookup c) as [v|] eqn:E; cbn [cch]; [right; exists c, v; auto | left; reflexivity].
Qed.

Lemma char_init_clean_of_clean : forall wc s st,
  control_free s = true -> control_free (cch (char_init wc s st)) = true.
Proof.
  intros wc s st H. destruct (char_init_cch_cases wc s st) as [E | (c & v & _ & Hv & E)]; rewrite E.
  - exact H.
  - exact (table_values_clean c v Hv).
Qed.

(* a display string is never itself replaced *)
Lemma char_init_value_fixed : forall wc v st, value_ok v = true -> cch (char_init wc v st) = v.
Proof.
  intros wc v st H. destruct v as [|c [|d r]]; cbn [char_init]; try reflexivity.
  cbn [value_ok] in H. apply andb_true_iff in H. destruct H as [_ H].
  destruct (dm_lookup c); [discriminate | reflexivity].
Qed.

(* restyling an existing cell (fill_area, append_style_to_content, cursor
   line highlighting: Char(cell.char, new style)) keeps its text *)
Lemma char_init_rewrap : forall wc s st st',
  cch (char_init wc (cch (char_init wc s st)) st') = cch (char_init wc s st).
Proof.
  intros wc s st st'. destruct (char_init_cch_cases wc s st) as [E | (c & v & Hs & Hv & E)].
  - rewrite E. destruct (char_init_cch_cases wc s st') as [E' | (c & v & Hs & Hv & E')]; [exact E'|].
    (* s = [c] is a key: then the first Char would have replaced it too *)
    subst s. cbn [char_init] in E. rewrite Hv in E. cbn [cch] in E.
    rewrite E'. exact E.
  - rewrite E. apply char_init_value_fixed. exact (table_value_ok c v Hv).
Qed.

Lemma cwidth_nonneg wc s : 0 <= cwidth wc s.
Proof. induction s as [|c r IH]; cbn [cwidth fold_right]; [lia|]. fold (cwidth wc r). lia. Qed.

Lemma char_init_cw : forall wc s st, cw (char_init wc s st) = cwidth wc (cch (char_init wc s st)).
Proof.
  intros wc s st. destruct s as [|c [|d r]]; cbn [char_init]; try reflexivity.
  destruct (dm_lookup c); reflexivity.
Qed.

Lemma char_init_cw_nonneg : forall wc s st, 0 <= cw (char_init wc s st).
Proof. intros. rewrite char_init_cw. apply cwidth_nonneg. Qed.

(* wcwidth gives every printable ASCII character width 1 *)
Definition wc_ascii (wc : Z -> Z) : Prop := forall c, printable_ascii c = true -> wc c = 1.

Lemma cwidth_printable wc v : wc_ascii wc -> forallb printable_ascii v = true -> cwidth wc v = len v.
Proof.
  intros Hw. induction v as [|c r IH]; intro H; [reflexivity|].
  cbn [forallb] in H. apply andb_true_iff in H. destruct H as [Hc Hr].
  cbn [cwidth fold_right]. fold (cwidth wc r). rewrite (IH Hr), (Hw c Hc), len_cons. lia.
Qed.

(* a character whose cell has width 0 (the zero-width merge path of
   _copy_body) is never a control character: control characters are shown by
   a non-empty printable string, which has positive width *)
Lemma zero_width_not_control : forall wc c st,
  wc_ascii wc -> cw (char_init wc [c] st) = 0 -> is_control c = false.
Proof.
  intros wc c st Hw H. destruct (dm_lookup c) as [v|] eqn:E.
  - exfalso. unfold char_init in H. rewrite E in H. cbn [cw] in H.
    pose proof (table_value_ok c v E) as Hv.
    rewrite (cwidth_printable wc v Hw (value_ok_printable v Hv)) in H.
    pose proof (table_values_nonempty c v E) as Hn.
    destruct v; [congruence|]. rewrite len_cons in H. pose proof (len_nonneg v). lia.
  - exact (not_in_table_not_control c E).
Qed.

(* ------------------------------------------------------------ Vt100_Output.write *)

Lemma vt_write_no_esc : forall d, ~ In 27 (vt_write d).
Proof.
  intros d H. unfold vt_write in H. apply in_map_iff in H. destruct H as (c & Hc & _).
  destruct (c =? 27) eqn:E; [discriminate|]. apply Z.eqb_neq in E. congruence.
Qed.

Lemma vt_write_clean_id : forall d, control_free d = true -> vt_write d = d.
Proof.
  induction d as [|c r IH]; intro H; [reflexivity|].
  cbn [control_free forallb] in H. apply andb_true_iff in H. destruct H as [Hc Hr].
  cbn [vt_write map]. fold (vt_write r). rewrite (IH Hr).
  destruct (c =? 27) eqn:E; [|reflexivity].
  apply Z.eqb_eq in E. subst c. discriminate.
Qed.

(* write introduces no control character *)
Lemma vt_write_controls : forall d c, In c (vt_write d) -> is_control c = true -> In c d.
Proof.
  intros d c H Hc. unfold vt_write in H. apply in_map_iff in H. destruct H as (x & Hx & Hin).
  destruct (x =? 27); [subst c; discriminate | subst c; exact Hin].
Qed.

Lemma vt_write_length : forall d, length (vt_write d) = length d.
Proof. intro d. apply map_length. Qed.

Lemma table_values_summary : forall c v, dm_lookup c = Some v ->
  control_free v = true /\ v <> [] /\ forallb printable_ascii v = true.
Proof.
  intros c v H. split; [exact (table_values_clean c v H)|].
  split; [exact (table_values_nonempty c v H) | exact (value_ok_printable v (table_value_ok c v H))].
Qed.

Lemma cell_clean_write : forall wc c st,
  control_free (cch (char_init wc [c] st)) = true /\
  vt_write (cch (char_init wc [c] st)) = cch (char_init wc [c] st).
Proof.
  intros wc c st. split; [apply char_init_single_clean | apply vt_write_clean_id, char_init_single_clean].
Qed.

Lemma control_visible : forall wc c st, wc_ascii wc -> is_control c = true ->
  exists v, dm_lookup c = Some v /\ cch (char_init wc [c] st) = v /\ 0 < cw (char_init wc [c] st).
Proof.
  intros wc c st Hw Hc. destruct (table_covers c Hc) as [v Hv]. exists v. split; [exact Hv|].
  split; [unfold char_init; rewrite Hv; reflexivity|].
  pose proof (char_init_cw_nonneg wc [c] st) as H0.
  destruct (Z.eq_dec (cw (char_init wc [c] st)) 0) as [E|E]; [|apply Z.le_neq; split; [exact H0 | congruence]].
  rewrite (zero_width_not_control wc c st Hw E) in Hc. discriminate.
Qed.

(* ------------------------------------------------------------ caret / hex notation *)

Lemma str_eqb_eq : forall a b, str_eqb a b = true -> a = b.
Proof.
  induction a as [|x r IH]; intros [|y l] H; cbn in H; try discriminate; [reflexivity|].
  apply andb_true_iff in H. destruct H as [H1 H2]. apply Z.eqb_eq in H1. subst. f_equal. apply IH. exact H2.
Qed.

(* "^" + chr(c ^ 0x40) for C0 and DEL ("^?"), "<%02x>" for C1 *)
Definition hexdigit (d : Z) : Z := if d <? 10 then 48 + d else 87 + d.
Definition notation_of (c : Z) : list Z :=
  if (c <? 32) || (c =? 127) then [94; Z.lxor c 64]
  else [60; hexdigit (c / 16); hexdigit (c mod 16); 62].
Definition notation_check : bool :=
  forallb (fun kv : Z * list Z => negb (is_control (fst kv)) || str_eqb (snd kv) (notation_of (fst kv))) display_mappings.

Lemma notation_checked : notation_check = true.
Proof. vm_compute. reflexivity. Qed.

(* every control character is shown in exactly ITS caret or hex notation *)
Lemma table_notation : forall c v, is_control c = true -> dm_lookup c = Some v -> v = notation_of c.
Proof.
  intros c v Hc H. apply assoc_In in H. pose proof notation_checked as K. unfold notation_check in K.
  rewrite forallb_forall in K. specialize (K _ H). cbn [fst snd] in K. rewrite Hc in K. cbn in K.
  apply str_eqb_eq. exact K.
Qed.

Lemma cell_notation : forall wc c st, is_control c = true -> cch (char_init wc [c] st) = notation_of c.
Proof.
  intros wc c st Hc. destruct (table_covers c Hc) as [v Hv]. unfold char_init. rewrite Hv. cbn [cch].
  exact (table_notation c v Hc Hv).
Qed.

(* ------------------------------------------------------------ key data *)

(* Multi-character key data (what Window._show_key_processor_key_buffer and
   _highlight_digraph can receive from the input parser): no sequence of the
   regenerated ANSI_SEQUENCES has display width 1, so the key-buffer cell
   (guarded by get_cwidth(data) == 1) only ever gets ONE character; and, ESC
   TAB apart, every sequence is control-free once ESC is replaced by write. *)
Lemma key_sequences_width_checked : forallb (fun sw : list Z * Z => negb (snd sw =? 1)) key_sequences = true.
Proof. vm_compute. reflexivity. Qed.

Lemma key_sequences_write_checked :
  forallb (fun sw : list Z * Z => control_free (vt_write (fst sw)) || str_eqb (fst sw) [27; 9]) key_sequences = true.
Proof. vm_compute. reflexivity. Qed.

Lemma key_data_width : forall s w, In (s, w) key_sequences -> w <> 1.
Proof.
  intros s w H E. pose proof key_sequences_width_checked as K. rewrite forallb_forall in K.
  specialize (K _ H). cbn [snd] in K. subst w. discriminate.
Qed.

Lemma key_data_write_clean : forall s w, In (s, w) key_sequences -> s <> [27; 9] ->
  control_free (vt_write s) = true.
Proof.
  intros s w H Hne. pose proof key_sequences_write_checked as K. rewrite forallb_forall in K.
  specialize (K _ H). cbn [fst] in K. apply orb_true_iff in K. destruct K as [K|K]; [exact K|].
  exfalso. apply Hne. clear - K. revert K. generalize [27; 9]. induction s as [|x r IH]; intros l K; destruct l as [|y l']; cbn in K; try discriminate; [reflexivity|].
  apply andb_true_iff in K. destruct K as [K1 K2]. apply Z.eqb_eq in K1. subst. f_equal. apply IH. exact K2.
Qed.

(* Char on a multi-character string does no replacement at all: safety of a
   cell rests on the text argument being ONE character or already clean
   (the store sites are checked by gen/gen_t_c10.py). *)
Example char_init_multichar_not_sanitised :
  exists s, control_free (cch (char_init (fun _ => 1) s [])) = false.
Proof. exists [155; 120]. vm_compute. reflexivity. Qed.
