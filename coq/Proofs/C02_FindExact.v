(* C02 - find / find_backwards / find_all, exactly: the list of matches is THE
   greedy leftmost non-overlapping list of occurrences (so find returns the
   count-th of them, None iff there are fewer, and find_all misses an
   occurrence only when it overlaps a listed one). *)
From Coq Require Import ZArith List Bool Lia Sorted.
From PTK Require Import Lib.Sx Lib.Py Gen.Whitespace Model.Document Model.C02_DocQueries
  Proofs.C02_Base Proofs.C02_Find.
Import ListNotations.
Open Scope Z_scope.

(* l is the greedy enumeration of P from [from] on: its head is the least
   k >= from with P k, the next one the least k >= head + step with P k, ...,
   and after its last element there is no such k. *)
Inductive greedy (P : Z -> Prop) (step : Z) : Z -> list Z -> Prop :=
| g_nil from : (forall k, from <= k -> ~ P k) -> greedy P step from []
| g_cons from m l :
    from <= m -> P m -> (forall k, from <= k < m -> ~ P k) ->
    greedy P step (m + step) l -> greedy P step from (m :: l).

Lemma greedy_ext P Q step : 0 <= step -> forall from l,
  (forall k, from <= k -> (P k <-> Q k)) -> greedy P step from l -> greedy Q step from l.
Proof.
  intros Hs from l Hpq H. induction H as [from Hn|from m l Hm Hp Hlt Hg IH].
  - apply g_nil. intros k Hk HQ. apply (Hn k Hk). now apply Hpq.
  - apply g_cons; [exact Hm|now apply Hpq| |].
    + intros k Hk HQ. apply (Hlt k Hk). apply Hpq; [lia|exact HQ].
    + apply IH. intros k Hk. apply Hpq. lia.
Qed.

Lemma greedy_weaken P step from l :
  ~ P from -> greedy P step (from + 1) l -> greedy P step from l.
Proof.
  intros Hn H. inversion H as [f Hno|f m l' Hm Hp Hlt Hg]; subst.
  - apply g_nil. intros k Hk. destruct (Z.eq_dec k from) as [->|Hne]; [exact Hn|apply Hno; lia].
  - apply g_cons; [lia|exact Hp| |exact Hg].
    intros k Hk. destruct (Z.eq_dec k from) as [->|Hne]; [exact Hn|apply Hlt; lia].
Qed.

Lemma greedy_unique P step from l1 : greedy P step from l1 ->
  forall l2, greedy P step from l2 -> l1 = l2.
Proof.
  induction 1 as [from Hn|from m l Hm Hp Hlt Hg IH]; intros l2 H2.
  - inversion H2 as [|f m2 l2' Hm2 Hp2 _ _]; subst; [reflexivity|]. exfalso. exact (Hn m2 Hm2 Hp2).
  - inversion H2 as [f Hn2|f m2 l2' Hm2 Hp2 Hlt2 Hg2]; subst.
    + exfalso. exact (Hn2 m Hm Hp).
    + assert (m = m2).
      { destruct (Z_lt_dec m m2) as [Hl|Hl]; [exfalso; apply (Hlt2 m); [lia|exact Hp]|].
        destruct (Z_lt_dec m2 m) as [Hl'|Hl']; [exfalso; apply (Hlt m2); [lia|exact Hp2]|]. lia. }
      subst m2. f_equal. now apply IH.
Qed.

(* every k with P k is a listed match or overlaps one *)
Lemma greedy_cover P step from l : greedy P step from l ->
  forall k, from <= k -> P k -> exists m, In m l /\ m <= k < m + step.
Proof.
  induction 1 as [from Hn|from m l Hm Hp Hlt Hg IH]; intros k Hk HP.
  - exfalso. exact (Hn k Hk HP).
  - destruct (Z_lt_dec k m) as [Hl|Hl]; [exfalso; apply (Hlt k); [lia|exact HP]|].
    destruct (Z_lt_dec k (m + step)) as [Hin|Hout].
    + exists m. split; [now left|lia].
    + destruct (IH k ltac:(lia) HP) as [m' [Hin' Hr]]. exists m'. split; [now right|exact Hr].
Qed.

Lemma greedy_members P step : 0 <= step -> forall from l, greedy P step from l ->
  forall m, In m l -> from <= m /\ P m.
Proof.
  intros Hs from l H. induction H as [from Hn|from m l Hm Hp Hlt Hg IH]; intros x Hin; [destruct Hin|].
  destruct Hin as [<-|Hin]; [split; assumption|]. destruct (IH x Hin). split; [lia|assumption].
Qed.

Lemma greedy_sorted P step : 1 <= step -> forall from l, greedy P step from l -> StronglySorted Z.lt l.
Proof.
  intros Hs from l H. induction H as [from Hn|from m l Hm Hp Hlt Hg IH]; constructor; [exact IH|].
  apply Forall_forall. intros x Hin.
  destruct (greedy_members P step ltac:(lia) _ _ Hg x Hin). lia.
Qed.

Section Exact.
Variable ceq : Z -> Z -> bool.

(* an occurrence that lies inside s *)
Definition occ (sub s : str) (k : Z) : Prop :=
  occurs_at ceq s k sub /\ k + len sub <= len s.

Definition fstep (sub : str) : Z := Z.max 1 (len sub).

(* occurrences of sub in s, in the coordinates of a scan that is at offset i *)
Definition occ_from (sub s : str) (i k : Z) : Prop :=
  i <= k /\ startswith_by ceq (skipn (Z.to_nat (k - i)) s) sub = true /\ k - i + len sub <= len s.

Lemma occ_from_cons sub x r i k :
  i + 1 <= k -> (occ_from sub r (i + 1) k <-> occ_from sub (x :: r) i k).
Proof.
  intros Hk. unfold occ_from. rewrite len_cons.
  replace (Z.to_nat (k - i)) with (S (Z.to_nat (k - (i + 1)))) by lia. cbn [skipn].
  split; intros (H1 & H2 & H3); (split; [lia|split; [exact H2|lia]]).
Qed.

Lemma lit_matches_greedy sub s : forall i skip,
  greedy (occ_from sub s i) (fstep sub) (i + Z.of_nat skip) (lit_matches ceq sub s i skip).
Proof.
  assert (Hst : 0 <= fstep sub) by (unfold fstep; lia).
  induction s as [|x r IH]; intros i skip; cbn [lit_matches].
  - destruct skip as [|k'].
    + rewrite Z.add_0_r. destruct (startswith_by ceq [] sub) eqn:E.
      * apply g_cons; [lia| | |].
        -- unfold occ_from. rewrite Z.sub_diag. cbn [Z.to_nat skipn]. split; [lia|]. split; [exact E|].
           apply (startswith_by_len ceq) in E. lia.
        -- intros k Hk; lia.
        -- apply g_nil. intros k Hk (H1 & H2 & H3). change (len (@nil Z)) with 0 in H3.
           pose proof (len_nonneg sub). unfold fstep in Hk. lia.
      * apply g_nil. intros k Hk (H1 & H2 & H3). change (len (@nil Z)) with 0 in H3.
        pose proof (len_nonneg sub). assert (k = i) by lia. subst k.
        rewrite Z.sub_diag in H2. cbn [Z.to_nat skipn] in H2. congruence.
    + apply g_nil. intros k Hk (H1 & H2 & H3). change (len (@nil Z)) with 0 in H3.
      pose proof (len_nonneg sub). lia.
  - destruct skip as [|k'].
    + rewrite Z.add_0_r. destruct (startswith_by ceq (x :: r) sub) eqn:E.
      * apply g_cons; [lia| | |].
        -- unfold occ_from. rewrite Z.sub_diag. cbn [Z.to_nat skipn]. split; [lia|]. split; [exact E|].
           apply (startswith_by_len ceq) in E. lia.
        -- intros k Hk; lia.
        -- specialize (IH (i + 1) (pred (length sub))).
           replace (i + 1 + Z.of_nat (pred (length sub))) with (i + fstep sub) in IH
             by (unfold fstep, len; lia).
           eapply greedy_ext; [exact Hst| |exact IH].
           intros k Hk. apply occ_from_cons. unfold fstep in Hk. lia.
      * apply greedy_weaken.
        -- intros (H1 & H2 & H3). rewrite Z.sub_diag in H2. cbn [Z.to_nat skipn] in H2. congruence.
        -- specialize (IH (i + 1) O). rewrite Z.add_0_r in IH.
           eapply greedy_ext; [exact Hst| |exact IH].
           intros k Hk. apply occ_from_cons. lia.
    + specialize (IH (i + 1) k').
      replace (i + Z.of_nat (S k')) with (i + 1 + Z.of_nat k') by lia.
      eapply greedy_ext; [exact Hst| |exact IH].
      intros k Hk. apply occ_from_cons. lia.
Qed.

Lemma occ_from_0 sub s k : occ_from sub s 0 k <-> occ sub s k.
Proof.
  unfold occ_from, occ, occurs_at. rewrite Z.sub_0_r. tauto.
Qed.

(* re.finditer(re.escape(sub), s): THE greedy list of occurrences *)
Theorem find_iter_greedy sub s : greedy (occ sub s) (fstep sub) 0 (find_iter ceq sub s).
Proof.
  unfold find_iter. pose proof (lit_matches_greedy sub s 0 O) as H. rewrite Z.add_0_l in H.
  eapply greedy_ext; [unfold fstep; lia| |exact H]. intros k _. apply occ_from_0.
Qed.

Theorem find_iter_is_the_greedy_list sub s l :
  greedy (occ sub s) (fstep sub) 0 l -> find_iter ceq sub s = l.
Proof. intros H. exact (greedy_unique _ _ _ _ (find_iter_greedy sub s) _ H). Qed.

(* find_all: sorted, every member is an occurrence, and every occurrence is
   listed or overlaps a listed one (k in [m, m + max(1, len sub))) *)
Theorem find_all_exact d sub :
  StronglySorted Z.lt (dfind_all ceq d sub) /\
  (forall m, In m (dfind_all ceq d sub) -> occ sub (dtext d) m) /\
  (forall k, occ sub (dtext d) k ->
     exists m, In m (dfind_all ceq d sub) /\ m <= k < m + fstep sub).
Proof.
  unfold dfind_all. pose proof (find_iter_greedy sub (dtext d)) as G.
  split; [apply (greedy_sorted _ (fstep sub) ltac:(unfold fstep; lia) _ _ G)|]. split.
  - intros m Hin. apply (greedy_members _ (fstep sub) ltac:(unfold fstep; lia) _ _ G m Hin).
  - intros k Hk. apply (greedy_cover _ _ _ _ G k); [destruct Hk as [[H0 _] _]; exact H0|exact Hk].
Qed.

(* occurrences in the text after an offset are the occurrences of the text from there on *)
Lemma occ_skipn sub t c k :
  0 <= c <= len t -> 0 <= k -> (occ sub (skipn (Z.to_nat c) t) k <-> occ sub t (c + k)).
Proof.
  intros Hc Hk. unfold occ, occurs_at. rewrite len_skipn.
  rewrite (skipn_skipn_Z t c k) by lia. split; intros [[H0 H1] H2]; (split; [split; [lia|exact H1]|lia]).
Qed.

(* The text find() scans *)
Definition find_scanned (d : doc) (il ic : bool) : str :=
  let text := if il then current_line_after_cursor d else text_after_cursor d in
  if ic then text else slice_from text 1.

(* find(..., count): the count-th element of the greedy list of occurrences
   in the scanned text (shifted by one when the current position is skipped);
   None iff that list is shorter (or the text after the cursor is empty and
   the current position is excluded). *)
Theorem find_exact d sub il ic count l :
  greedy (occ sub (find_scanned d il ic)) (fstep sub) 0 l ->
  dfind ceq d sub il ic count =
  if negb ic && (len (if il then current_line_after_cursor d else text_after_cursor d) =? 0) then None
  else option_map (fun p => if ic then p else p + 1) (nth_match l count).
Proof.
  intros G. apply find_iter_is_the_greedy_list in G. unfold dfind, find_scanned in *. cbv zeta in *.
  destruct il, ic; cbn [negb andb] in *.
  - rewrite G. destruct (nth_match l count); reflexivity.
  - destruct (len (current_line_after_cursor d) =? 0); [reflexivity|].
    rewrite G. destruct (nth_match l count); reflexivity.
  - rewrite G. destruct (nth_match l count); reflexivity.
  - destruct (len (text_after_cursor d) =? 0); [reflexivity|].
    rewrite G. destruct (nth_match l count); reflexivity.
Qed.

(* mirror of an occurrence *)
Lemma occ_rev sub s p :
  occ (rev sub) (rev s) p <-> occ sub s (len s - p - len sub).
Proof.
  unfold occ. rewrite !len_rev. split; intros [Ho Hl].
  - pose proof (proj1 Ho) as Hp0. split; [|lia]. apply occurs_at_rev; [exact Ho|lia].
  - destruct Ho as [H0 H1]. split; [|lia].
    replace p with (len (rev s) - (len s - p - len sub) - len (rev sub)) by (rewrite !len_rev; lia).
    apply occurs_at_rev; [rewrite !rev_involutive; split; assumption|rewrite !len_rev; lia].
Qed.

(* find_backwards(..., count): the count-th element of the greedy list of
   occurrences of the mirrored needle in the mirrored text before the cursor,
   i.e. occurrences in the text before the cursor taken greedily from the
   right (occ_rev). *)
Theorem find_backwards_exact d sub (il : bool) count l :
  let before := if il then current_line_before_cursor d else text_before_cursor d in
  greedy (occ (rev sub) (rev before)) (fstep sub) 0 l ->
  dfind_backwards ceq d sub il count = option_map (fun p => - p - len sub) (nth_match l count).
Proof.
  cbv zeta. intros G.
  replace (fstep sub) with (fstep (rev sub)) in G by (unfold fstep; now rewrite len_rev).
  apply find_iter_is_the_greedy_list in G. unfold dfind_backwards. cbv zeta.
  destruct il; rewrite G; destruct (nth_match l count); reflexivity.
Qed.

(* ---------------------------------------------------------------------- *)
(* find in whole-text coordinates (also for in_current_line): the matches are
   the greedy occurrences k of the needle in the TEXT with
   lo <= k and k + len sub <= hi, lo = cursor (+1 unless
   include_current_position), hi = end of the current line / of the text. *)

Lemma startswith_by_app_inv s q : forall p,
  startswith_by ceq (s ++ q) p = true -> len p <= len s -> startswith_by ceq s p = true.
Proof.
  induction s as [|x s IH]; intros [|y p]; cbn [startswith_by app]; intros H Hl; try reflexivity.
  - change (len (@nil Z)) with 0 in Hl. rewrite len_cons in Hl. pose proof (len_nonneg p). lia.
  - apply andb_prop in H as [H1 H2]. rewrite H1. cbn [andb]. apply IH; [exact H2|].
    rewrite !len_cons in Hl. lia.
Qed.

Lemma occ_prefix sub a q k :
  occ sub a k <-> occ sub (a ++ q) k /\ k + len sub <= len a.
Proof.
  unfold occ, occurs_at. rewrite len_app. pose proof (len_nonneg q) as Hq. split.
  - intros [[H0 H1] H2]. split; [|exact H2]. split; [split; [exact H0|]|lia].
    rewrite skipn_app. now apply startswith_by_app.
  - intros [[[H0 H1] _] H2]. split; [|exact H2]. split; [exact H0|].
    pose proof (len_nonneg sub) as Hs.
    rewrite skipn_app in H1.
    replace (Z.to_nat k - length a)%nat with 0%nat in H1 by (unfold len in H2; lia).
    cbn [skipn] in H1. apply (startswith_by_app_inv _ q); [exact H1|].
    rewrite len_skipn. lia.
Qed.

Definition find_lo (d : doc) (ic : bool) : Z := dcur d + (if ic then 0 else 1).
Definition find_hi (d : doc) (il : bool) : Z :=
  if il then dcur d + len (current_line_after_cursor d) else len (dtext d).

Lemma scanned_occ d sub (il ic : bool) k :
  valid d -> 0 <= k ->
  (ic = false -> 1 <= len (if il then current_line_after_cursor d else text_after_cursor d)) ->
  (occ sub (find_scanned d il ic) k <->
   occ sub (dtext d) (find_lo d ic + k) /\ find_lo d ic + k + len sub <= find_hi d il).
Proof.
  intros Hv Hk Hne. unfold find_scanned, find_lo, find_hi. cbv zeta.
  pose proof (len_ta d Hv) as Hta. pose proof (len_cla_le d Hv) as Hcla.
  destruct (cla_split d) as [q [Hq _]]. pose proof Hv as [Hc0 Hc1].
  assert (Hskip : forall j, 0 <= j -> (occ sub (text_after_cursor d) j <-> occ sub (dtext d) (dcur d + j))).
  { intros j Hj. rewrite (ta_skipn d Hv). apply occ_skipn; lia. }
  destruct il, ic.
  - rewrite Z.add_0_r. rewrite occ_prefix with (q := q). rewrite <- Hq. rewrite Hskip by lia.
    split; intros [H1 H2]; (split; [exact H1|lia]).
  - specialize (Hne eq_refl). rewrite slice_from_1.
    change 1%nat with (Z.to_nat 1). rewrite occ_skipn by lia.
    rewrite occ_prefix with (q := q). rewrite <- Hq. rewrite Hskip by lia.
    replace (dcur d + (1 + k)) with (dcur d + 1 + k) by lia.
    split; intros [H1 H2]; (split; [exact H1|lia]).
  - rewrite Z.add_0_r. rewrite Hskip by lia. split; [|tauto].
    intros H. split; [exact H|]. destruct H as [_ H]. lia.
  - specialize (Hne eq_refl). rewrite slice_from_1.
    change 1%nat with (Z.to_nat 1). rewrite occ_skipn by lia. rewrite Hskip by lia.
    replace (dcur d + (1 + k)) with (dcur d + 1 + k) by lia. split; [|tauto].
    intros H. split; [exact H|]. destruct H as [_ H]. lia.
Qed.

Lemma greedy_shift (P Q : Z -> Prop) step b : 0 <= step -> forall from l,
  greedy P step from l ->
  (forall k, from <= k -> (P k <-> Q (b + k))) ->
  greedy Q step (b + from) (map (Z.add b) l).
Proof.
  intros Hs from l H. induction H as [from Hn|from m l Hm Hp Hlt Hg IH]; intros Hpq; cbn [map].
  - apply g_nil. intros k Hk HQ. apply (Hn (k - b)); [lia|]. apply Hpq; [lia|].
    now replace (b + (k - b)) with k by lia.
  - apply g_cons; [lia|now apply Hpq| |].
    + intros k Hk HQ. apply (Hlt (k - b)); [lia|]. apply Hpq; [lia|].
      now replace (b + (k - b)) with k by lia.
    + replace (b + m + step) with (b + (m + step)) by lia. apply IH.
      intros k Hk. apply Hpq. lia.
Qed.

Lemma nth_match_map {T U} (f : T -> U) (l : list T) count :
  nth_match (map f l) count = option_map f (nth_match l count).
Proof.
  unfold nth_match. destruct (count <? 1); [reflexivity|]. apply nth_error_map.
Qed.

Definition find_text (d : doc) (il : bool) : str :=
  if il then current_line_after_cursor d else text_after_cursor d.

Lemma find_exact_ft d sub il ic count :
  dfind ceq d sub il ic count =
  if negb ic && (len (find_text d il) =? 0) then None
  else option_map (fun p => if ic then p else p + 1)
         (nth_match (find_iter ceq sub (find_scanned d il ic)) count).
Proof.
  rewrite (find_exact d sub il ic count _ (find_iter_greedy sub (find_scanned d il ic))).
  destruct il; reflexivity.
Qed.

Theorem find_exact_text d sub (il ic : bool) count l :
  valid d ->
  greedy (fun k => occ sub (dtext d) k /\ k + len sub <= find_hi d il) (fstep sub) (find_lo d ic) l ->
  dfind ceq d sub il ic count = option_map (fun k => k - dcur d) (nth_match l count).
Proof.
  intros Hv G.
  assert (Hhi : find_hi d il = dcur d + len (find_text d il)).
  { unfold find_hi, find_text. destruct il; [reflexivity|]. rewrite (len_ta d Hv). lia. }
  pose proof (len_nonneg (find_text d il)) as Htn. pose proof (len_nonneg sub) as Hsn.
  rewrite find_exact_ft.
  destruct (negb ic && (len (find_text d il) =? 0)) eqn:Ec.
  - (* nothing is scanned: no occurrence fits, the list is empty *)
    assert (Hl : l = []).
    { destruct ic; [discriminate|]. cbn [negb andb] in Ec. apply Z.eqb_eq in Ec.
      inversion G as [|f m l' Hm [_ Hfit] _ _]; subst; [reflexivity|].
      unfold find_lo in Hm. lia. }
    subst l. unfold nth_match. destruct (count <? 1); [reflexivity|].
    destruct (Z.to_nat (count - 1)); reflexivity.
  - assert (Hne : ic = false -> 1 <= len (find_text d il)).
    { intros ->. cbn [negb andb] in Ec. destruct (len (find_text d il) =? 0) eqn:E; [discriminate|lia]. }
    pose proof (find_iter_greedy sub (find_scanned d il ic)) as G0.
    apply (greedy_shift _ (fun k => occ sub (dtext d) k /\ k + len sub <= find_hi d il)
             (fstep sub) (find_lo d ic) ltac:(unfold fstep; lia)) in G0.
    2:{ intros k Hk. apply scanned_occ; [exact Hv|exact Hk|exact Hne]. }
    rewrite Z.add_0_r in G0.
    rewrite <- (greedy_unique _ _ _ _ G0 _ G). rewrite nth_match_map.
    destruct (nth_match (find_iter ceq sub (find_scanned d il ic)) count) as [p|]; [|reflexivity].
    cbn [option_map]. f_equal. unfold find_lo. destruct ic; lia.
Qed.

End Exact.
