(* C02 - find / find_backwards / find_all, exactly: the list of matches is THE
   greedy leftmost non-overlapping list of occurrences (so find returns the
   count-th of them, None iff there are fewer, and find_all misses an
   occurrence only when it overlaps a listed one). *)
From Coq Require Import ZArith List Bool Lia Sorted.
From PTK Require Import Lib.Sx Lib.Py Gen.Whitespace Model.Document Model.C02_DocQueries
  Proofs.C02_Base Proofs.C02_Find.
Import ListNotations.
Open Scope Z_scope.

(* l is the greedy enumeration of P from [from] on: its head is the least
   k >= from with P k, the next one the least k >= head + step with P k, ...,
   and after its last element there is no such k. *)
Inductive greedy (P : Z -> Prop) (step : Z) : Z -> list Z -> Prop :=
| g_nil from : (forall k, from <= k -> ~ P k) -> greedy P step from []
| g_cons from m l :
    from <= m -> P m -> (forall k, from <= k < m -> ~ P k) ->
    greedy P step (m + step) l -> greedy P step from (m :: l).

Lemma greedy_ext P Q step : 0 <= step -> forall from l,
  (forall k, from <= k -> (P k <-> Q k)) -> greedy P step from l -> greedy Q step from l.
Proof.
  intros Hs from l Hpq H. induction H as [from Hn|from m l Hm Hp Hlt Hg IH].
  - apply g_nil. intros k Hk HQ. apply (Hn k Hk). now apply Hpq.
  - apply g_cons; [exact Hm|now apply Hpq| |].
    + intros k Hk HQ. apply (Hlt k Hk). apply Hpq; [lia|exact HQ].
    + apply IH. intros k Hk. apply Hpq. lia.
Qed.

Lemma greedy_weaken P step from l :
  ~ P from -> greedy P step (from + 1) l -> greedy P step from l.
Proof.
  intros Hn H. inversion H as [f Hno|f m l' Hm Hp Hlt Hg]; subst.
  - apply g_nil. intros k Hk. destruct (Z.eq_dec k from) as [->|Hne]; [exact Hn|apply Hno; lia].
  - apply g_cons; [lia|exact Hp| |exact Hg].
    intros k Hk. destruct (Z.eq_dec k from) as [->|Hne]; [exact Hn|apply Hlt; lia].
Qed.

Lemma greedy_unique P step from l1 : greedy P step from l1 ->
  forall l2, greedy P step from l2 -> l1 = l2.
Proof.
  induction 1 as [from Hn|from m l Hm Hp Hlt Hg IH]; intros l2 H2.
  - inversion H2 as [|f m2 l2' Hm2 Hp2 _ _]; subst; [reflexivity|]. exfalso. exact (Hn m2 Hm2 Hp2).
  - inversion H2 as [f Hn2|f m2 l2' Hm2 Hp2 Hlt2 Hg2]; subst.
    + exfalso. exact (Hn2 m Hm Hp).
    + assert (m = m2).
      { destruct (Z_lt_dec m m2) as [Hl|Hl]; [exfalso; apply (Hlt2 m); [lia|exact Hp]|].
        destruct (Z_lt_dec m2 m) as [Hl'|Hl']; [exfalso; apply (Hlt m2); [lia|exact Hp2]|]. lia. }
      subst m2. f_equal. now apply IH.
Qed.

(* every k with P k is a listed match or overlaps one *)
Lemma greedy_cover P step from l : greedy P step from l ->
  forall k, from <= k -> P k -> exists m, In m l /\ m <= k < m + step.
Proof.
  induction 1 as [from Hn|from m l Hm Hp Hlt Hg IH]; intros k Hk HP.
  - exfalso. exact (Hn k Hk HP).
  - destruct (Z_lt_dec k m) as [Hl|Hl]; [exfalso; apply (Hlt k); [lia|exact HP]|].
    destruct (Z_lt_dec k (m + step)) as [Hin|Hout].
    + exists m. split; [now left|lia].
    + destruct (IH k ltac:(lia) HP) as [m' [Hin' Hr]]. exists m'. split; [now right|exact Hr].
Qed.

Lemma greedy_members P step : 0 <= step -> forall from l, greedy P step from l ->
  forall m, In m l -> from <= m /\ P m.
Proof.
  intros Hs from l H. induction H as [from Hn|from m l Hm Hp Hlt Hg IH]; intros x Hin; [destruct Hin|].
  destruct Hin as [<-|Hin]; [split; assumption|]. destruct (IH x Hin). split; [lia|assumption].
Qed.

Lemma greedy_sorted P step : 1 <= step -> forall from l, greedy P step from l -> StronglySorted Z.lt l.
Proof.
  intros Hs from l H. induction H as [from Hn|from m l Hm Hp Hlt Hg IH]; constructor; [exact IH|].
  apply Forall_forall. intros x Hin.
  destruct (greedy_members P step ltac:(lia) _ _ Hg x Hin). lia.
Qed.

Section Exact.
Variable ceq : Z -> Z -> bool.

(* an occurrence that lies inside s *)
Definition occ (sub s : str) (k : Z) : Prop :=
  occurs_at ceq s k sub /\ k + len sub <= len s.

Definition fstep (sub : str) : Z := Z.max 1 (len sub).

(* occurrences of sub in s, in the coordinates of a scan that is at offset i *)
Definition occ_from (sub s : str) (i k : Z) : Prop :=
  i <= k /\ startswith_by ceq (skipn (Z.to_nat (k - i)) s) sub = true /\ k - i + len sub <= len s.

Lemma occ_from_cons sub x r i k :
  i + 1 <= k -> (occ_from sub r (i + 1) k <-> occ_from sub (x :: r) i k).
Proof.
  intros Hk. unfold occ_from. rewrite len_cons.
  replace (Z.to_nat (k - i)) with (S (Z.to_nat (k - (i + 1)))) by lia. cbn [skipn].
  split; intros (H1 & H2 & H3); (split; [lia|split; [exact H2|lia]]).
Qed.

Lemma lit_matches_greedy sub s : forall i skip,
  greedy (occ_from sub s i) (fstep sub) (i + Z.of_nat skip) (lit_matches ceq sub s i skip).
Proof.
  assert (Hst : 0 <= fstep sub) by (unfold fstep; lia).
  induction s as [|x r IH]; intros i skip; cbn [lit_matches].
  - destruct skip as [|k'].
    + rewrite Z.add_0_r. destruct (startswith_by ceq [] sub) eqn:E.
      * apply g_cons; [lia| | |].
        -- unfold occ_from. rewrite Z.sub_diag. cbn [Z.to_nat skipn]. split; [lia|]. split; [exact E|].
           apply (startswith_by_len ceq) in E. lia.
        -- intros k Hk; lia.
        -- apply g_nil. intros k Hk (H1 & H2 & H3). change (len (@nil Z)) with 0 in H3.
           pose proof (len_nonneg sub). unfold fstep in Hk. lia.
      * apply g_nil. intros k Hk (H1 & H2 & H3). change (len (@nil Z)) with 0 in H3.
        pose proof (len_nonneg sub). assert (k = i) by lia. subst k.
        rewrite Z.sub_diag in H2. cbn [Z.to_nat skipn] in H2. congruence.
    + apply g_nil. intros k Hk (H1 & H2 & H3). change (len (@nil Z)) with 0 in H3.
      pose proof (len_nonneg sub). lia.
  - destruct skip as [|k'].
    + rewrite Z.add_0_r. destruct (startswith_by ceq (x :: r) sub) eqn:E.
      * apply g_cons; [lia| | |].
        -- unfold occ_from. rewrite Z.sub_diag. cbn [Z.to_nat skipn]. split; [lia|]. split; [exact E|].
           apply (startswith_by_len ceq) in E. lia.
        -- intros k Hk; lia.
        -- specialize (IH (i + 1) (pred (length sub))).
           replace (i + 1 + Z.of_nat (pred (length sub))) with (i + fstep sub) in IH
             by (unfold fstep, len; lia).
           eapply greedy_ext; [exact Hst| |exact IH].
           intros k Hk. apply occ_from_cons. unfold fstep in Hk. lia.
      * apply greedy_weaken.
        -- intros (H1 & H2 & H3). rewrite Z.sub_diag in H2. cbn [Z.to_nat skipn] in H2. congruence.
        -- specialize (IH (i + 1) O). rewrite Z.add_0_r in IH.
           eapply greedy_ext; [exact Hst| |exact IH].
           intros k Hk. apply occ_from_cons. lia.
    + specialize (IH (i + 1) k').
      replace (i + Z.of_nat (S k')) with (i + 1 + Z.of_nat k') by lia.
      eapply greedy_ext; [exact Hst| |exact IH].
      intros k Hk. apply occ_from_cons. lia.
Qed.

Lemma occ_from_0 sub s k : occ_from sub s 0 k <-> occ sub s k.
Proof.
  unfold occ_from, occ, occurs_at. rewrite Z.sub_0_r. tauto.
Qed.

(* re.finditer(re.escape(sub), s): THE greedy list of occurrences *)
Theorem find_iter_greedy sub s : greedy (occ sub s) (fstep sub) 0 (find_iter ceq sub s).
Proof.
  unfold find_iter. pose proof (lit_matches_greedy sub s 0 O) as H. rewrite Z.add_0_l in H.
  eapply greedy_ext; [unfold fstep; lia| |exact H]. intros k _. apply occ_from_0.
Qed.

Theorem find_iter_is_the_greedy_list sub s l :
  greedy (occ sub s) (fstep sub) 0 l -> find_iter ceq sub s = l.
Proof. intros H. exact (greedy_unique _ _ _ _ (find_iter_greedy sub s) _ H). Qed.

(* find_all: sorted, every member is an occurrence, and every occurrence is
   listed or overlaps a listed one (k in [m, m + max(1, len sub))) *)
Theorem find_all_exact d sub :
  StronglySorted Z.lt (dfind_all ceq d sub) /\
  (forall m, In m (dfind_all ceq d sub) -> occ sub (dtext d) m) /\
  (forall k, occ sub (dtext d) k ->
     exists m, In m (dfind_all ceq d sub) /\ m <= k < m + fstep sub).
Proof.
  unfold dfind_all. pose proof (find_iter_greedy sub (dtext d)) as G.
  split; [apply (greedy_sorted _ (fstep sub) ltac:(unfold fstep; lia) _ _ G)|]. split.
  - intros m Hin. apply (greedy_members _ (fstep sub) ltac:(unfold fstep; lia) _ _ G m Hin).
  - intros k Hk. apply (greedy_cover _ _ _ _ G k); [destruct Hk as [[H0 _] _]; exact H0|exact Hk].
Qed.

(* occurrences in the text after an offset are the occurrences of the text from there on *)
Lemma occ_skipn sub t c k :
  0 <= c <= len t -> 0 <= k -> (occ sub (skipn (Z.to_nat c) t) k <-> occ sub t (c + k)).
Proof.
  intros Hc Hk. unfold occ, occurs_at. rewrite len_skipn.
  rewrite (skipn_skipn_Z t c k) by lia. split; intros [[H0 H1] H2]; (split; [split; [lia|exact H1]|lia]).
Qed.

(* The text find() scans *)
Definition find_scanned (d : doc) (il ic : bool) : str :=
  let text := if il then current_line_after_cursor d else text_after_cursor d in
  if ic then text else slice_from text 1.

(* find(..., count): the count-th element of the greedy list of occurrences
   in the scanned text (shifted by one when the current position is skipped);
   None iff that list is shorter (or the text after the cursor is empty and
   the current position is excluded). *)
Theorem find_exact d sub il ic count l :
  greedy (occ sub (find_scanned d il ic)) (fstep sub) 0 l ->
  dfind ceq d sub il ic count =
  if negb ic && (len (if il then current_line_after_cursor d else text_after_cursor d) =? 0) then None
  else option_map (fun p => if ic then p else p + 1) (nth_match l count).
Proof.
  intros G. apply find_iter_is_the_greedy_list in G. unfold dfind, find_scanned in *. cbv zeta in *.
  destruct il, ic; cbn [negb andb] in *.
  - rewrite G. destruct (nth_match l count); reflexivity.
  - destruct (len (current_line_after_cursor d) =? 0); [reflexivity|].
    rewrite G. destruct (nth_match l count); reflexivity.
  - rewrite G. destruct (nth_match l count); reflexivity.
  - destruct (len (text_after_cursor d) =? 0); [reflexivity|].
    rewrite G. destruct (nth_match l count); reflexivity.
Qed.

(* mirror of an occurrence *)
Lemma occ_rev sub s p :
  occ (rev sub) (rev s) p <-> occ sub s (len s - p - len sub).
Proof.
  unfold occ. rewrite !len_rev. split; intros [Ho Hl].
  - pose proof (proj1 Ho) as Hp0. split; [|lia]. apply occurs_at_rev; [exact Ho|lia].
  - destruct Ho as [H0 H1]. split; [|lia].
    replace p with (len (rev s) - (len s - p - len sub) - len (rev sub)) by (rewrite !len_rev; lia).
    apply occurs_at_rev; [rewrite !rev_involutive; split; assumption|rewrite !len_rev; lia].
Qed.

(* find_backwards(..., count): the count-th element of the greedy list of
   occurrences of the mirrored needle in the mirrored text before the cursor,
   i.e. occurrences in the text before the cursor taken greedily from the
   right (occ_rev). *)
Theorem find_backwards_exact d sub (il : bool) count l :
  let before := if il then current_line_before_cursor d else text_before_cursor d in
  greedy (occ (rev sub) (rev before)) (fstep sub) 0 l ->
  dfind_backwards ceq d sub il count = option_map (fun p => - p - len sub) (nth_match l count).
Proof.
  cbv zeta. intros G.
  replace (fstep sub) with (fstep (rev sub)) in G by (unfold fstep; now rewrite len_rev).
  apply find_iter_is_the_greedy_list in G. unfold dfind_backwards. cbv zeta.
  destruct il; rewrite G; destruct (nth_match l count); reflexivity.
Qed.

End Exact.
