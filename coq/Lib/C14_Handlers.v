(* C14: the little language the history-related key handlers of /repo are
   translated into by gen/gen_t_c14.py (from their source, fail closed).
   A handler body is a list of calls on event.current_buffer. *)
From Coq Require Import ZArith List.
Import ListNotations.
Open Scope Z_scope.

(* an integer argument of such a call *)
Inductive hcount :=
| CArg (k : Z)        (* event.arg - k *)
| CConst (z : Z)      (* a constant (also: the default value of an omitted parameter) *)
| CLast.              (* len(buffer._working_lines) - 1 *)

Inductive hcall :=
| HBack (c : hcount)                 (* history_backward(count=c) *)
| HFwd (c : hcount)                  (* history_forward(count=c) *)
| HGoto (c : hcount)                 (* go_to_history(c) *)
| HAutoUp (c : hcount) (gts : bool)  (* auto_up(count=c, go_to_start_of_line_if_history_changes=gts) *)
| HAutoDown (c : hcount) (gts : bool).

(* one row per handler: id, "bound only when a numeric argument is present"
   (filter has_arg), body *)
Record hrow := mkhrow { h_id : Z; h_needs_arg : bool; h_calls : list hcall }.
