(* Library for C07: string equality, the subsequence relation used to say
   "these snapshots are boundary states of the history, in chronological
   order", and small list facts. *)
From Coq Require Import ZArith List Bool Lia.
From PTK Require Import Lib.Py.
Import ListNotations.
Open Scope Z_scope.

Lemma c07_str_eqb_refl (a : str) : str_eqb a a = true.
Proof. induction a as [|x a IH]; cbn [str_eqb]; [reflexivity|]. now rewrite Z.eqb_refl, IH. Qed.

Lemma c07_str_eqb_eq (a b : str) : str_eqb a b = true <-> a = b.
Proof.
  split.
  - revert b. induction a as [|x a IH]; intros [|y b] H; cbn [str_eqb] in H; try discriminate; [reflexivity|].
    apply andb_true_iff in H. destruct H as [H1 H2]. apply Z.eqb_eq in H1. apply IH in H2. now subst.
  - intros ->. apply c07_str_eqb_refl.
Qed.

Lemma c07_str_eqb_neq (a b : str) : str_eqb a b = false <-> a <> b.
Proof.
  split.
  - intros H E. apply c07_str_eqb_eq in E. congruence.
  - intros H. destruct (str_eqb a b) eqn:E; [|reflexivity]. apply c07_str_eqb_eq in E. contradiction.
Qed.

(* [subseq l p]: l is obtained from p by deleting elements (order kept,
   each element of l matched with a distinct position of p). *)
Inductive subseq {A : Type} : list A -> list A -> Prop :=
| subseq_nil : forall p, subseq [] p
| subseq_skip : forall l x p, subseq l p -> subseq l (x :: p)
| subseq_take : forall l x p, subseq l p -> subseq (x :: l) (x :: p).

Lemma subseq_refl {A} (l : list A) : subseq l l.
Proof. induction l; constructor; assumption. Qed.

Lemma subseq_tail {A} (x : A) (l p : list A) : subseq (x :: l) p -> subseq l p.
Proof.
  intros H. remember (x :: l) as xl eqn:E. revert x l E.
  induction H as [p|l0 y p H IH|l0 y p H IH]; intros x l E.
  - discriminate.
  - apply subseq_skip. eapply IH. exact E.
  - injection E as -> ->. apply subseq_skip. exact H.
Qed.

Lemma subseq_drop_prefix {A} (pre l p : list A) : subseq (pre ++ l) p -> subseq l p.
Proof.
  induction pre as [|x pre IH]; cbn [app]; intros H; [exact H|].
  apply IH. eapply subseq_tail. exact H.
Qed.

Lemma subseq_In {A} (l p : list A) (x : A) : subseq l p -> In x l -> In x p.
Proof.
  intros H. induction H as [p|l y p H IH|l y p H IH]; intros Hin.
  - destruct Hin.
  - right. auto.
  - destruct Hin as [->|Hin]; [left; reflexivity|right; auto].
Qed.

Lemma subseq_trans {A} (a b c : list A) : subseq a b -> subseq b c -> subseq a c.
Proof.
  intros Hab Hbc. revert a Hab.
  induction Hbc as [p|l y p H IH|l y p H IH]; intros a Hab.
  - inversion Hab; subst. constructor.
  - apply subseq_skip. auto.
  - inversion Hab; subst.
    + constructor.
    + apply subseq_skip. auto.
    + apply subseq_take. auto.
Qed.

(* the first element of l sits somewhere in p and the rest of l lies strictly
   after it *)
Lemma subseq_split {A} (x : A) (l p : list A) :
  subseq (x :: l) p -> exists p1 p2, p = p1 ++ x :: p2 /\ subseq l p2.
Proof.
  intros H. remember (x :: l) as xl eqn:E. revert x l E.
  induction H as [p|l0 y p H IH|l0 y p H IH]; intros x l E.
  - discriminate.
  - destruct (IH _ _ E) as (p1 & p2 & -> & Hs). exists (y :: p1), p2. split; [reflexivity|exact Hs].
  - injection E as -> ->. exists [], p. split; [reflexivity|exact H].
Qed.

Lemma subseq_cons_in_app {A} (x : A) (pre l r : list A) :
  subseq l r -> subseq (x :: l) (pre ++ x :: r).
Proof.
  intros H. induction pre as [|y pre IH]; cbn [app].
  - apply subseq_take. exact H.
  - apply subseq_skip. exact IH.
Qed.

Lemma subseq_nil_r {A} (l : list A) : subseq l [] -> l = [].
Proof. intros H. inversion H. reflexivity. Qed.

(* [last] ignores its default on a non-empty list *)
Lemma last_nonempty {A} (l : list A) (d d' : A) : l <> [] -> last l d = last l d'.
Proof.
  induction l as [|x l IH]; intros H; [congruence|].
  destruct l as [|y l]; [reflexivity|].
  change (last (y :: l) d = last (y :: l) d'). apply IH. discriminate.
Qed.

Lemma last_cons_nonempty {A} (x : A) (l : list A) (d : A) : l <> [] -> last (x :: l) d = last l d.
Proof. destruct l; [congruence|reflexivity]. Qed.

Lemma last_app_cons {A} (pre : list A) (x : A) (r : list A) (d : A) :
  last (pre ++ x :: r) d = last (x :: r) d.
Proof.
  induction pre as [|y pre IH]; [reflexivity|].
  cbn [app]. rewrite last_cons_nonempty; [exact IH|]. destruct pre; discriminate.
Qed.

Lemma last_all_same {A} (l : list A) (d : A) : Forall (fun e => e = d) l -> last l d = d.
Proof.
  induction l as [|x l IH]; intros H; [reflexivity|].
  inversion H as [|? ? Hx Hl]; subst.
  destruct l as [|y l]; [reflexivity|].
  change (last (y :: l) d = d). apply IH. exact Hl.
Qed.
