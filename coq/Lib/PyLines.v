(* str.splitlines() (keepends=False): CPython's line boundaries. *)
From Coq Require Import ZArith List Bool.
From PTK Require Import Lib.Py.
Import ListNotations.
Open Scope Z_scope.

Definition is_linebreak (c : Z) : bool :=
  mem_Z c [10; 11; 12; 13; 28; 29; 30; 133; 8232; 8233].

(* cur is the reversed current line; after_cr: the previous character was a
   "\r" that already ended a line, so a "\n" now belongs to that boundary *)
Fixpoint splitlines_aux (s cur : str) (after_cr : bool) : list str :=
  match s with
  | [] => match cur with [] => [] | _ => [rev cur] end
  | x :: r =>
      if after_cr && (x =? 10) then splitlines_aux r cur false
      else if is_linebreak x then rev cur :: splitlines_aux r [] (x =? 13)
      else splitlines_aux r (x :: cur) false
  end.
Definition splitlines (s : str) : list str := splitlines_aux s [] false.
