(* Regular-expression ASTs for the four hard-coded patterns of vt100_parser.py.
   gen/gen_t_c03.py parses the pattern strings of /repo with re's own parser
   (re._parser.parse) and emits them in this syntax (Gen/C03_Regexes.v); anything
   outside it fails closed.  Whole-string match: ^ ... \Z are required by the
   generator and dropped. *)
From Coq Require Import ZArith List.
Import ListNotations.
Open Scope Z_scope.

Inductive cset :=
| CChr (c : Z)              (* a literal character *)
| CDigit                    (* \d : re's Unicode digit class *)
| CAny                      (* .  : anything but "\n" (no DOTALL) *)
| CUnion (a b : cset).      (* [...] *)

Inductive re :=
| RNone                    (* the empty language; never generated, needed for derivatives *)
| REps
| RSet (s : cset)
| RCat (a b : re)
| RAlt (a b : re)
| RStar (a : re)
| RPlus (a : re)
| ROpt (a : re).

(* a sequence a1 a2 ... an, right nested *)
Fixpoint cat_list (l : list re) : re :=
  match l with
  | [] => REps
  | [x] => x
  | x :: r => RCat x (cat_list r)
  end.
