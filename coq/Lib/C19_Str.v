(* C19 - string and number primitives of CPython used by the style / SGR
   code: str.split() without arguments, ASCII str.lower(), str(int),
   int(s) for digit strings, int(s, 16), format(n, "02x"), association lists.
   Definitions only; facts are in Proofs/C19_StrFacts.v. *)
From Coq Require Import ZArith List Bool Ascii String.
From PTK Require Import Lib.Py Gen.Whitespace.
Import ListNotations.
Open Scope Z_scope.

(* string literals as code point lists *)
Fixpoint zs (s : string) : list Z :=
  match s with
  | EmptyString => []
  | String c r => Z.of_N (N_of_ascii c) :: zs r
  end.

Definition is_space (c : Z) : bool := mem_Z c py_isspace_table.

(* str.split(): maximal runs of non-whitespace.  Right-to-left formulation:
   the boolean says whether the head of the remaining text continues the
   first word of the result. *)
Fixpoint split_ws_r (s : str) : bool * list str :=
  match s with
  | [] => (false, [])
  | x :: r =>
      let '(inw, ws) := split_ws_r r in
      if is_space x then (false, ws)
      else if inw then (true, match ws with w :: ws' => (x :: w) :: ws' | [] => [[x]] end)
           else (true, [x] :: ws)
  end.
Definition split_ws (s : str) : list str := snd (split_ws_r s).

(* str.lower() restricted to ASCII (the harness only sends code points whose
   lower() is the ASCII one) *)
Definition lower_c (c : Z) : Z := if (65 <=? c) && (c <=? 90) then c + 32 else c.
Definition lower (s : str) : str := map lower_c s.

Definition mem_str (x : str) (l : list str) : bool := existsb (str_eqb x) l.

Fixpoint assoc {V} (k : str) (l : list (str * V)) : option V :=
  match l with
  | [] => None
  | (k', v) :: r => if str_eqb k k' then Some v else assoc k r
  end.

Fixpoint assocZ {V} (k : Z) (l : list (Z * V)) : option V :=
  match l with
  | [] => None
  | (k', v) :: r => if k =? k' then Some v else assocZ k r
  end.

Definition endswith (s p : str) : bool := startswith (rev s) (rev p).
Definition contains (sub s : str) : bool := 0 <=? find_sub sub s.

(* ---- numbers ---------------------------------------------------------- *)

(* digits of n >= 0 in [base], most significant first; None = out of fuel
   (Proofs/C19_StrFacts.v: never for the fuel chosen below) *)
Fixpoint digits_fuel (base : Z) (fuel : nat) (n : Z) (acc : list Z) : option (list Z) :=
  match fuel with
  | O => None
  | S f =>
      let acc' := n mod base :: acc in
      if n / base =? 0 then Some acc' else digits_fuel base f (n / base) acc'
  end.
Definition digits (base n : Z) : option (list Z) :=
  digits_fuel base (S (Z.to_nat (Z.log2 n))) n [].

Definition dchar (d : Z) : Z := if d <? 10 then 48 + d else 87 + d.

Definition OUT_OF_FUEL : str := [63; 63; 63].

(* str(n) *)
Definition str_of_int (n : Z) : str :=
  match digits 10 (Z.abs n) with
  | Some ds => (if n <? 0 then [45] else []) ++ map dchar ds
  | None => OUT_OF_FUEL
  end.

(* format(n, "02x") *)
Definition hex02 (n : Z) : str :=
  match digits 16 (Z.abs n) with
  | Some ds =>
      let h := map dchar ds in
      if n <? 0 then 45 :: h
      else if len h <? 2 then 48 :: h else h
  | None => OUT_OF_FUEL
  end.

Definition is_digit (c : Z) : bool := (48 <=? c) && (c <=? 57).

(* int(s) for a string of ASCII digits; int("" or 0) = 0 *)
Definition int10 (s : str) : Z := fold_left (fun a c => a * 10 + (c - 48)) s 0.

(* int(s, 16) for ASCII text, after CPython's PyLong_FromString: blanks
   stripped, optional sign, optional 0x/0X prefix (one underscore allowed
   after it), digits with single underscores between them.  None = ValueError *)
Definition int_space (c : Z) : bool := (c =? 32) || ((9 <=? c) && (c <=? 13)).

Definition hexval (c : Z) : option Z :=
  if (48 <=? c) && (c <=? 57) then Some (c - 48)
  else if (97 <=? c) && (c <=? 102) then Some (c - 87)
  else if (65 <=? c) && (c <=? 70) then Some (c - 55)
  else None.

Definition is_hex_b (c : Z) : bool := match hexval c with Some _ => true | None => false end.

(* re.fullmatch("[0-9a-fA-F]{3}|[0-9a-fA-F]{6}", s) *)
Definition hex36_b (s : str) : bool :=
  forallb is_hex_b s && ((len s =? 3) || (len s =? 6)).

Definition hex6_b (s : str) : bool := (len s =? 6) && forallb is_hex_b s.

(* min(int(current.lstrip("0")[:5] or 0), 9999) for a string of ASCII digits *)
Definition csi_number (current : str) : Z :=
  Z.min (int10 (firstn 5 (lstrip_by (fun c => c =? 48) current))) 9999.

Fixpoint scan_hex (s : str) (acc : Z) (prev_us : bool) (nd : Z) : option (Z * Z * str) :=
  match s with
  | [] => if prev_us then None else Some (acc, nd, [])
  | c :: r =>
      match hexval c with
      | Some v => scan_hex r (acc * 16 + v) false (nd + 1)
      | None =>
          if c =? 95 then (if prev_us then None else scan_hex r acc true nd)
          else if prev_us then None else Some (acc, nd, s)
      end
  end.

Definition py_int16 (s : str) : option Z :=
  let s1 := lstrip_by int_space s in
  let sign := match s1 with c :: _ => if c =? 45 then -1 else 1 | [] => 1 end in
  let s2 := match s1 with
            | c :: r => if (c =? 43) || (c =? 45) then r else s1
            | [] => s1
            end in
  let s3 := match s2 with
            | c :: x :: r =>
                if (c =? 48) && ((x =? 120) || (x =? 88))
                then match r with u :: r' => if u =? 95 then r' else r | [] => r end
                else s2
            | _ => s2
            end in
  let lead_us := match s3 with c :: _ => c =? 95 | [] => false end in
  if lead_us then None
  else
    match scan_hex s3 0 false 0 with
    | None => None
    | Some (v, nd, rest) =>
        if nd =? 0 then None
        else if forallb int_space rest then Some (sign * v) else None
    end.
