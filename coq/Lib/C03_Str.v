(* String lemmas used by the C03 proofs (str_eqb, startswith, firstn/skipn). *)
From Coq Require Import ZArith List Bool Lia.
From PTK Require Import Lib.Py.
Import ListNotations.
Open Scope Z_scope.

Lemma str_eqb_refl (a : str) : str_eqb a a = true.
Proof. induction a as [|x a IH]; cbn [str_eqb]; [reflexivity|]. now rewrite Z.eqb_refl, IH. Qed.

Lemma str_eqb_eq (a b : str) : str_eqb a b = true <-> a = b.
Proof.
  split.
  - revert b. induction a as [|x a IH]; intros [|y b] H; cbn [str_eqb] in H; try discriminate; [reflexivity|].
    apply andb_true_iff in H. destruct H as [H1 H2]. apply Z.eqb_eq in H1. subst. f_equal. now apply IH.
  - intros ->. apply str_eqb_refl.
Qed.

Lemma str_eqb_neq (a b : str) : str_eqb a b = false <-> a <> b.
Proof.
  split.
  - intros H E. apply str_eqb_eq in E. congruence.
  - intros H. destruct (str_eqb a b) eqn:E; [|reflexivity]. apply str_eqb_eq in E. contradiction.
Qed.

Lemma startswith_nil (s : str) : startswith s [] = true.
Proof. destruct s; reflexivity. Qed.

Lemma startswith_app (m t : str) : startswith (m ++ t) m = true.
Proof. induction m as [|x m IH]; cbn [startswith app]; [apply startswith_nil|]. now rewrite Z.eqb_refl, IH. Qed.

Lemma startswith_split (s m : str) : startswith s m = true -> s = m ++ skipn (length m) s.
Proof.
  revert s. induction m as [|y m IH]; intros s H; [reflexivity|].
  destruct s as [|x s]; cbn [startswith] in H; [discriminate|].
  apply andb_true_iff in H. destruct H as [H1 H2]. apply Z.eqb_eq in H1. subst.
  cbn [length skipn app]. f_equal. now apply IH.
Qed.

Lemma startswith_iff (s m : str) : startswith s m = true <-> exists t, s = m ++ t.
Proof.
  split.
  - intros H. eexists. now apply startswith_split.
  - intros [t ->]. apply startswith_app.
Qed.

Lemma startswith_firstn (s m : str) : startswith s m = true -> firstn (length m) s = m.
Proof.
  intros H. apply startswith_split in H. rewrite H at 1.
  rewrite firstn_app, Nat.sub_diag, firstn_all. cbn [firstn]. now rewrite app_nil_r.
Qed.
