(* S-expressions: the wire format between the Python harness, the extracted
   OCaml model and the in-Coq (vm_compute) evaluation.  An input case and a
   canonical result are both [sx] values; every model exposes
   [run : sx -> sx]. *)
From Coq Require Import ZArith List Bool.
Import ListNotations.
Open Scope Z_scope.

Inductive sx : Type :=
| A (z : Z)
| L (l : list sx).

Fixpoint sx_eqb (a b : sx) {struct a} : bool :=
  match a, b with
  | A x, A y => Z.eqb x y
  | L xs, L ys =>
      (fix go (xs ys : list sx) {struct xs} : bool :=
         match xs, ys with
         | [], [] => true
         | x :: xs', y :: ys' => sx_eqb x y && go xs' ys'
         | _, _ => false
         end) xs ys
  | _, _ => false
  end.

(* Encoders *)
Definition sx_Z (z : Z) : sx := A z.
Definition sx_bool (b : bool) : sx := A (if b then 1 else 0).
Definition sx_str (s : list Z) : sx := L (map A s).
Definition sx_opt {T} (f : T -> sx) (o : option T) : sx :=
  match o with None => L [] | Some x => L [f x] end.
Definition sx_list {T} (f : T -> sx) (l : list T) : sx := L (map f l).
Definition sx_pair {T U} (f : T -> sx) (g : U -> sx) (p : T * U) : sx :=
  L [f (fst p); g (snd p)].

(* Decoders (total; a malformed case decodes to [None] and the model answers
   [bad_case], which never equals an implementation result). *)
Definition as_Z (s : sx) : option Z := match s with A z => Some z | _ => None end.
Definition as_bool (s : sx) : option bool :=
  match s with A 0 => Some false | A 1 => Some true | _ => None end.
Fixpoint all_Z (l : list sx) : option (list Z) :=
  match l with
  | [] => Some []
  | A z :: r => match all_Z r with Some r' => Some (z :: r') | None => None end
  | _ => None
  end.
Definition as_str (s : sx) : option (list Z) :=
  match s with L l => all_Z l | _ => None end.
Definition as_list (s : sx) : option (list sx) :=
  match s with L l => Some l | _ => None end.
Definition as_opt {T} (f : sx -> option T) (s : sx) : option (option T) :=
  match s with
  | L [] => Some None
  | L [x] => match f x with Some v => Some (Some v) | None => None end
  | _ => None
  end.
Fixpoint map_opt {T U} (f : T -> option U) (l : list T) : option (list U) :=
  match l with
  | [] => Some []
  | x :: r => match f x, map_opt f r with
              | Some y, Some r' => Some (y :: r')
              | _, _ => None
              end
  end.

Definition bad_case : sx := L [A (-999)].

(* Index list of the cases on which model and expected result differ: the
   only thing a cases_*.v file prints. *)
Fixpoint mismatches_from (n : Z) (run : sx -> sx) (cases : list (sx * sx)) : list Z :=
  match cases with
  | [] => []
  | (i, o) :: r =>
      if sx_eqb (run i) o then mismatches_from (n + 1) run r
      else n :: mismatches_from (n + 1) run r
  end.
Definition mismatches := mismatches_from 0.
