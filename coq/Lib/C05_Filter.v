(* C05: filter expression trees of key bindings (prompt_toolkit.filters.base:
   Condition atoms combined by _AndList / _OrList / _Invert, Always, Never) and
   the shape of one row of the regenerated binding table. *)
From Coq Require Import ZArith List Bool.
Import ListNotations.
Open Scope Z_scope.

Inductive ftree : Type :=
| FTrue
| FFalse
| FAtom (a : Z)
| FNot (f : ftree)
| FAnd (l : list ftree)
| FOr (l : list ftree).

(* valuation of the atoms: atom index -> bool *)
Fixpoint feval (v : Z -> bool) (f : ftree) {struct f} : bool :=
  match f with
  | FTrue => true
  | FFalse => false
  | FAtom a => v a
  | FNot g => negb (feval v g)
  | FAnd l => (fix go (l : list ftree) : bool :=
                 match l with [] => true | x :: r => feval v x && go r end) l
  | FOr l => (fix go (l : list ftree) : bool :=
                match l with [] => false | x :: r => feval v x || go r end) l
  end.

Fixpoint fatoms (f : ftree) {struct f} : list Z :=
  match f with
  | FTrue | FFalse => []
  | FAtom a => [a]
  | FNot g => fatoms g
  | FAnd l => (fix go (l : list ftree) : list Z :=
                 match l with [] => [] | x :: r => fatoms x ++ go r end) l
  | FOr l => (fix go (l : list ftree) : list Z :=
                match l with [] => [] | x :: r => fatoms x ++ go r end) l
  end.

Record binding := mkB {
  bkeys : list Z;        (* key codes; K_Any is the wildcard *)
  bfilter : ftree;
  beager : ftree;
  bhandler : Z           (* index into the handler-name table *)
}.
