(* Python runtime primitives used by the models: str as [list Z] (code
   points), int as [Z].  Slices follow CPython's PySlice_AdjustIndices
   (step 1): negative indices get len added, then everything is clamped.  The
   models must go wrong exactly where Python does, so this is not idealised. *)
From Coq Require Import ZArith List Bool Lia.
Import ListNotations.
Open Scope Z_scope.

Definition str := list Z.

Definition len {T} (s : list T) : Z := Z.of_nat (length s).

Definition adj_index (n i : Z) : Z :=
  if i <? 0 then Z.max 0 (i + n) else Z.min i n.

(* s[lo:hi] *)
Definition slice {T} (s : list T) (lo hi : option Z) : list T :=
  let n := len s in
  let a := match lo with None => 0 | Some i => adj_index n i end in
  let b := match hi with None => n | Some i => adj_index n i end in
  if a <? b then firstn (Z.to_nat (b - a)) (skipn (Z.to_nat a) s) else [].

Definition slice_from {T} (s : list T) (lo : Z) := slice s (Some lo) None.
Definition slice_to {T} (s : list T) (hi : Z) := slice s None (Some hi).
Definition slice2 {T} (s : list T) (lo hi : Z) := slice s (Some lo) (Some hi).

(* s[i] : IndexError = None *)
Definition index {T} (s : list T) (i : Z) : option T :=
  let n := len s in
  let j := if i <? 0 then i + n else i in
  if (j <? 0) || (n <=? j) then None else nth_error s (Z.to_nat j).

Definition NL : Z := 10.
Definition SP : Z := 32.

Fixpoint mem_Z (c : Z) (l : list Z) : bool :=
  match l with [] => false | x :: r => (x =? c) || mem_Z c r end.

(* str.find(c) for one character; -1 when absent *)
Fixpoint find_char_from (c : Z) (s : str) (i : Z) : Z :=
  match s with
  | [] => -1
  | x :: r => if x =? c then i else find_char_from c r (i + 1)
  end.
Definition find_char (c : Z) (s : str) : Z := find_char_from c s 0.

Fixpoint str_eqb (a b : str) : bool :=
  match a, b with
  | [], [] => true
  | x :: a', y :: b' => (x =? y) && str_eqb a' b'
  | _, _ => false
  end.

Fixpoint startswith (s p : str) : bool :=
  match p, s with
  | [], _ => true
  | y :: p', x :: s' => (x =? y) && startswith s' p'
  | _ :: _, [] => false
  end.

(* str.find(sub): leftmost occurrence, -1 when absent; "" is found at 0 *)
Fixpoint find_sub_from (sub s : str) (i : Z) : Z :=
  if startswith s sub then i
  else match s with
       | [] => -1
       | _ :: r => find_sub_from sub r (i + 1)
       end.
Definition find_sub (sub s : str) : Z := find_sub_from sub s 0.

(* s.lstrip(chars) / by predicate *)
Fixpoint lstrip_by (p : Z -> bool) (s : str) : str :=
  match s with
  | [] => []
  | x :: r => if p x then lstrip_by p r else s
  end.
Definition rstrip_by (p : Z -> bool) (s : str) : str := rev (lstrip_by p (rev s)).
Definition strip_by (p : Z -> bool) (s : str) : str := rstrip_by p (lstrip_by p s).

(* s.split(sep) for a single-character separator: always non-empty *)
Fixpoint split_on_aux (c : Z) (s : str) (cur : str) : list str :=
  match s with
  | [] => [rev cur]
  | x :: r => if x =? c then rev cur :: split_on_aux c r [] else split_on_aux c r (x :: cur)
  end.
Definition split_on (c : Z) (s : str) : list str := split_on_aux c s [].

Fixpoint join (sep : str) (l : list str) : str :=
  match l with
  | [] => []
  | [x] => x
  | x :: r => x ++ sep ++ join sep r
  end.

(* s.partition(c)[0] and [2]; s.rpartition(c)[2] *)
Fixpoint before_first (c : Z) (s : str) : str :=
  match s with
  | [] => []
  | x :: r => if x =? c then [] else x :: before_first c r
  end.
Fixpoint after_first (c : Z) (s : str) : option str :=
  match s with
  | [] => None
  | x :: r => if x =? c then Some r else after_first c r
  end.
Definition after_last (c : Z) (s : str) : str := rev (before_first c (rev s)).

Fixpoint count_char (c : Z) (s : str) : Z :=
  match s with
  | [] => 0
  | x :: r => (if x =? c then 1 else 0) + count_char c r
  end.

Fixpoint repeat_str (s : str) (n : nat) : str :=
  match n with O => [] | S k => s ++ repeat_str s k end.
(* s * n for a Python int n (n <= 0 gives "") *)
Definition str_mul (s : str) (n : Z) : str := repeat_str s (Z.to_nat n).

Definition zmin := Z.min.
Definition zmax := Z.max.

(* ---------------------------------------------------------------------- *)
(* Basic facts *)

Lemma len_nonneg {T} (s : list T) : 0 <= len s.
Proof. unfold len; lia. Qed.

Lemma len_app {T} (a b : list T) : len (a ++ b) = len a + len b.
Proof. unfold len; rewrite app_length; lia. Qed.

Lemma len_nil {T} : len (@nil T) = 0.
Proof. reflexivity. Qed.

Lemma len_cons {T} (x : T) (s : list T) : len (x :: s) = 1 + len s.
Proof. unfold len; cbn [length]; lia. Qed.

Lemma len_firstn {T} (s : list T) (n : nat) : len (firstn n s) = Z.min (Z.of_nat n) (len s).
Proof. unfold len; rewrite firstn_length; lia. Qed.

Lemma len_skipn {T} (s : list T) (n : nat) : len (skipn n s) = Z.max 0 (len s - Z.of_nat n).
Proof. unfold len; rewrite skipn_length; lia. Qed.

Lemma len_rev {T} (s : list T) : len (rev s) = len s.
Proof. unfold len; now rewrite rev_length. Qed.

(* The in-range slice is the mathematical one. *)
Lemma slice2_in_range {T} (s : list T) (a b : Z) :
  0 <= a -> a <= b -> b <= len s ->
  slice2 s a b = firstn (Z.to_nat (b - a)) (skipn (Z.to_nat a) s).
Proof.
  intros Ha Hab Hb. unfold slice2, slice, adj_index.
  destruct (a <? 0) eqn:E1; [lia|].
  destruct (b <? 0) eqn:E2; [lia|].
  rewrite (Z.min_l a) by lia. rewrite (Z.min_l b) by lia.
  destruct (a <? b) eqn:E3; [reflexivity|].
  assert (a = b) by lia; subst. rewrite Z.sub_diag. reflexivity.
Qed.

Lemma slice_to_in_range {T} (s : list T) (b : Z) :
  0 <= b -> b <= len s -> slice_to s b = firstn (Z.to_nat b) s.
Proof.
  intros H0 Hb. unfold slice_to, slice, adj_index.
  destruct (b <? 0) eqn:E; [lia|]. rewrite Z.min_l by lia.
  destruct (0 <? b) eqn:E2.
  - now rewrite Z.sub_0_r.
  - assert (b = 0) by lia; subst; reflexivity.
Qed.

Lemma slice_from_in_range {T} (s : list T) (a : Z) :
  0 <= a -> a <= len s -> slice_from s a = skipn (Z.to_nat a) s.
Proof.
  intros H0 Ha. unfold slice_from, slice, adj_index.
  destruct (a <? 0) eqn:E; [lia|]. rewrite Z.min_l by lia.
  destruct (a <? len s) eqn:E2.
  - apply firstn_all2. unfold len in *. rewrite skipn_length. lia.
  - assert (a = len s) by lia. subst. unfold len. rewrite Nat2Z.id.
    now rewrite skipn_all.
Qed.

Lemma firstn_skipn_len {T} (s : list T) (n : nat) :
  len (firstn n s) + len (skipn n s) = len s.
Proof. rewrite <- len_app, firstn_skipn; reflexivity. Qed.
