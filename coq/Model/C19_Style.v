(* C19 - styles/style.py as coded: parse_color, _parse_style_str,
   _expand_classname, Style.__init__ (class_names_and_attrs),
   Style.get_attrs_for_style_str (with the itertools.combinations enumeration
   as written), _merge_attrs, merge_styles / _MergedStyle.  Definitions only. *)
From Coq Require Import ZArith List Bool String.
From PTK Require Import Lib.Py Lib.C19_Str Gen.Whitespace Gen.C19_Palette.
Import ListNotations.
Open Scope Z_scope.

(* styles/base.py Attrs; None = "take the value from the parent" *)
Record attrs : Type := mkA {
  a_color : option str;
  a_bgcolor : option str;
  a_bold : option bool;
  a_underline : option bool;
  a_strike : option bool;
  a_italic : option bool;
  a_blink : option bool;
  a_reverse : option bool;
  a_hidden : option bool
}.

Definition EMPTY_ATTRS : attrs := mkA None None None None None None None None None.
Definition DEFAULT_ATTRS : attrs :=
  mkA (Some []) (Some []) (Some false) (Some false) (Some false) (Some false)
      (Some false) (Some false) (Some false).

Definition set_color v a := mkA v (a_bgcolor a) (a_bold a) (a_underline a) (a_strike a) (a_italic a) (a_blink a) (a_reverse a) (a_hidden a).
Definition set_bgcolor v a := mkA (a_color a) v (a_bold a) (a_underline a) (a_strike a) (a_italic a) (a_blink a) (a_reverse a) (a_hidden a).
Definition set_bold v a := mkA (a_color a) (a_bgcolor a) v (a_underline a) (a_strike a) (a_italic a) (a_blink a) (a_reverse a) (a_hidden a).
Definition set_underline v a := mkA (a_color a) (a_bgcolor a) (a_bold a) v (a_strike a) (a_italic a) (a_blink a) (a_reverse a) (a_hidden a).
Definition set_strike v a := mkA (a_color a) (a_bgcolor a) (a_bold a) (a_underline a) v (a_italic a) (a_blink a) (a_reverse a) (a_hidden a).
Definition set_italic v a := mkA (a_color a) (a_bgcolor a) (a_bold a) (a_underline a) (a_strike a) v (a_blink a) (a_reverse a) (a_hidden a).
Definition set_blink v a := mkA (a_color a) (a_bgcolor a) (a_bold a) (a_underline a) (a_strike a) (a_italic a) v (a_reverse a) (a_hidden a).
Definition set_reverse v a := mkA (a_color a) (a_bgcolor a) (a_bold a) (a_underline a) (a_strike a) (a_italic a) (a_blink a) v (a_hidden a).
Definition set_hidden v a := mkA (a_color a) (a_bgcolor a) (a_bold a) (a_underline a) (a_strike a) (a_italic a) (a_blink a) (a_reverse a) v.

(* ---- parse_color(text); None = ValueError ------------------------------ *)
Definition s_default : str := Eval vm_compute in zs "default".

Definition parse_color (text : str) : option str :=
  if mem_str text ansi_color_names then Some text
  else match assoc text ansi_color_aliases with
  | Some v => Some v
  | None =>
  match assoc (lower text) named_colors_lower with
  | Some v => Some v
  | None =>
    if str_eqb (slice2 text 0 1) [35] then
      let col := slice_from text 1 in
      if mem_str col ansi_color_names then Some col
      else match assoc col ansi_color_aliases with
      | Some v => Some v
      | None =>
          if negb (hex36_b col) then None
          else if len col =? 6 then Some col
          else match col with
               | [c0; c1; c2] => Some [c0; c0; c1; c1; c2; c2]
               | _ => None
               end
      end
    else if str_eqb text [] || str_eqb text s_default then Some text
    else None
  end end.

(* parse_color as it stood before the fix d87ad65 (no hexadecimal test) *)
Definition parse_color_pinned (text : str) : option str :=
  if mem_str text ansi_color_names then Some text
  else match assoc text ansi_color_aliases with
  | Some v => Some v
  | None =>
  match assoc (lower text) named_colors_lower with
  | Some v => Some v
  | None =>
    if str_eqb (slice2 text 0 1) [35] then
      let col := slice_from text 1 in
      if mem_str col ansi_color_names then Some col
      else match assoc col ansi_color_aliases with
      | Some v => Some v
      | None =>
          if len col =? 6 then Some col
          else match col with
               | [c0; c1; c2] => Some [c0; c0; c1; c1; c2; c2]
               | _ => None
               end
      end
    else if str_eqb text [] || str_eqb text s_default then Some text
    else None
  end end.

(* ---- _parse_style_str(style_str); None = ValueError -------------------- *)
Definition s_noinherit := Eval vm_compute in zs "noinherit".
Definition s_bold := Eval vm_compute in zs "bold".          Definition s_nobold := Eval vm_compute in zs "nobold".
Definition s_italic := Eval vm_compute in zs "italic".      Definition s_noitalic := Eval vm_compute in zs "noitalic".
Definition s_underline := Eval vm_compute in zs "underline". Definition s_nounderline := Eval vm_compute in zs "nounderline".
Definition s_strike := Eval vm_compute in zs "strike".      Definition s_nostrike := Eval vm_compute in zs "nostrike".
Definition s_blink := Eval vm_compute in zs "blink".        Definition s_noblink := Eval vm_compute in zs "noblink".
Definition s_reverse := Eval vm_compute in zs "reverse".    Definition s_noreverse := Eval vm_compute in zs "noreverse".
Definition s_hidden := Eval vm_compute in zs "hidden".      Definition s_nohidden := Eval vm_compute in zs "nohidden".
Definition s_roman := Eval vm_compute in zs "roman". Definition s_sans := Eval vm_compute in zs "sans". Definition s_mono := Eval vm_compute in zs "mono".
Definition s_border := Eval vm_compute in zs "border:".
Definition s_bg := Eval vm_compute in zs "bg:". Definition s_fg := Eval vm_compute in zs "fg:".
Definition s_class := Eval vm_compute in zs "class:".

Definition apply_part (part : str) (a : attrs) : option attrs :=
  if str_eqb part s_noinherit then Some a
  else if str_eqb part s_bold then Some (set_bold (Some true) a)
  else if str_eqb part s_nobold then Some (set_bold (Some false) a)
  else if str_eqb part s_italic then Some (set_italic (Some true) a)
  else if str_eqb part s_noitalic then Some (set_italic (Some false) a)
  else if str_eqb part s_underline then Some (set_underline (Some true) a)
  else if str_eqb part s_nounderline then Some (set_underline (Some false) a)
  else if str_eqb part s_strike then Some (set_strike (Some true) a)
  else if str_eqb part s_nostrike then Some (set_strike (Some false) a)
  else if str_eqb part s_blink then Some (set_blink (Some true) a)
  else if str_eqb part s_noblink then Some (set_blink (Some false) a)
  else if str_eqb part s_reverse then Some (set_reverse (Some true) a)
  else if str_eqb part s_noreverse then Some (set_reverse (Some false) a)
  else if str_eqb part s_hidden then Some (set_hidden (Some true) a)
  else if str_eqb part s_nohidden then Some (set_hidden (Some false) a)
  else if str_eqb part s_roman || str_eqb part s_sans || str_eqb part s_mono then Some a
  else if startswith part s_border then Some a
  else if startswith part [91] && endswith part [93] then Some a
  else if startswith part s_bg then
    match parse_color (slice_from part 3) with Some c => Some (set_bgcolor (Some c) a) | None => None end
  else if startswith part s_fg then
    match parse_color (slice_from part 3) with Some c => Some (set_color (Some c) a) | None => None end
  else
    match parse_color part with Some c => Some (set_color (Some c) a) | None => None end.

Fixpoint apply_parts (parts : list str) (a : attrs) : option attrs :=
  match parts with
  | [] => Some a
  | p :: r => match apply_part p a with Some a' => apply_parts r a' | None => None end
  end.

Definition parse_style_str (style_str : str) : option attrs :=
  apply_parts (split_ws style_str)
              (if contains s_noinherit style_str then DEFAULT_ATTRS else EMPTY_ATTRS).

(* ---- _expand_classname ------------------------------------------------- *)
(* 'a.b.c' -> ['a', 'a.b', 'a.b.c'] *)
Fixpoint prefixes_joined (done : list str) (parts : list str) : list str :=
  match parts with
  | [] => []
  | p :: r => let d := done ++ [p] in lower (join [46] d) :: prefixes_joined d r
  end.
Definition expand_classname (classname : str) : list str :=
  prefixes_joined [] (split_on 46 classname).

(* ---- Style.__init__ ---------------------------------------------------- *)
Inductive res (T : Type) : Type :=
| Ok (x : T)
| Err (code : Z).            (* 1 = ValueError, 2 = AssertionError *)
Arguments Ok {T} x.
Arguments Err {T} code.

(* CLASS_NAMES_RE = ^[a-z0-9.\s_-]*$  (pattern string fingerprinted in
   Proofs/C19_StyleFacts.v) *)
Definition class_name_char (c : Z) : bool :=
  ((97 <=? c) && (c <=? 122)) || ((48 <=? c) && (c <=? 57)) ||
  (c =? 46) || (c =? 95) || (c =? 45) || mem_Z c re_space_table.
Definition class_names_ok (s : str) : bool := forallb class_name_char s.

Definition rule : Type := (list str * attrs)%type.

Definition mk_rule (r : str * str) : res rule :=
  let '(class_names, style_str) := r in
  if class_names_ok class_names then
    match parse_style_str style_str with
    | Some a => Ok (split_ws (lower class_names), a)
    | None => Err 1
    end
  else Err 2.

Fixpoint mk_style (rules : list (str * str)) : res (list rule) :=
  match rules with
  | [] => Ok []
  | r :: rest =>
      match mk_rule r with
      | Err e => Err e
      | Ok x => match mk_style rest with Err e => Err e | Ok xs => Ok (x :: xs) end
      end
  end.

(* ---- get_attrs_for_style_str ------------------------------------------- *)
(* itertools.combinations(l, k) *)
Fixpoint combinations {T} (l : list T) (k : nat) {struct l} : list (list T) :=
  match k, l with
  | O, _ => [[]]
  | S _, [] => []
  | S k', x :: r => map (cons x) (combinations r k') ++ combinations r k
  end.

(* combos = {frozenset([new_name])} | {frozenset(c2 + (new_name,))
            for count in 1..len(class_names) for c2 in combinations(class_names, count)} *)
Definition combos (seen : list str) (new_name : str) : list (list str) :=
  [new_name] ::
  flat_map (fun count => map (fun c2 => c2 ++ [new_name]) (combinations seen count))
           (seq 1 (List.length seen)).

(* frozenset equality and `names in combos` *)
Definition subset_b (a b : list str) : bool := forallb (fun x => mem_str x b) a.
Definition set_eqb (a b : list str) : bool := subset_b a b && subset_b b a.
Definition in_combos (names : list str) (cs : list (list str)) : bool := existsb (set_eqb names) cs.

(* set.add *)
Definition add_seen (seen : list str) (c : str) : list str :=
  if mem_str c seen then seen else seen ++ [c].

Definition matching (table : list rule) (cs : list (list str)) : list attrs :=
  map snd (filter (fun r : rule => in_combos (fst r) cs) table).

Fixpoint class_step (table : list rule) (new_names : list str)
         (acc : list attrs) (seen : list str) : list attrs * list str :=
  match new_names with
  | [] => (acc, seen)
  | n :: r => class_step table r (acc ++ matching table (combos seen n)) (add_seen seen n)
  end.

Definition new_class_names (part : str) : list str :=
  flat_map expand_classname (split_on 44 (lower (slice_from part 6))).

Fixpoint parts_loop (table : list rule) (parts : list str)
         (acc : list attrs) (seen : list str) : option (list attrs) :=
  match parts with
  | [] => Some acc
  | part :: r =>
      if startswith part s_class then
        let '(acc', seen') := class_step table (new_class_names part) acc seen in
        parts_loop table r acc' seen'
      else
        match parse_style_str part with
        | Some a => parts_loop table r (acc ++ [a]) seen
        | None => None
        end
  end.

Definition is_nil {T} (l : list T) : bool := match l with [] => true | _ => false end.

Definition list_of_attrs (table : list rule) (style_str : str) (default : attrs) : option (list attrs) :=
  parts_loop table (split_ws style_str)
             (default :: map snd (filter (fun r : rule => is_nil (fst r)) table)) [].

(* ---- _merge_attrs ------------------------------------------------------ *)
(* _or(values...): first not-None value, starting at the end; None = the
   `raise ValueError` that "should not happen" *)
Fixpoint first_some {T} (l : list (option T)) : option T :=
  match l with
  | [] => None
  | Some v :: _ => Some v
  | None :: r => first_some r
  end.
Definition or_ {T} (base : T) (vals : list (option T)) : option T :=
  first_some (rev (Some base :: vals)).

Definition merge_attrs (l : list attrs) : attrs :=
  mkA (or_ [] (map a_color l)) (or_ [] (map a_bgcolor l))
      (or_ false (map a_bold l)) (or_ false (map a_underline l))
      (or_ false (map a_strike l)) (or_ false (map a_italic l))
      (or_ false (map a_blink l)) (or_ false (map a_reverse l))
      (or_ false (map a_hidden l)).

Definition get_attrs (table : list rule) (style_str : str) (default : attrs) : res attrs :=
  match list_of_attrs table style_str default with
  | Some l => Ok (merge_attrs l)
  | None => Err 1
  end.

(* Style(rules).get_attrs_for_style_str(style_str, default) *)
Definition style_get (rules : list (str * str)) (style_str : str) (default : attrs) : res attrs :=
  match mk_style rules with
  | Err e => Err e
  | Ok table => get_attrs table style_str default
  end.

(* merge_styles([Style(s) for s in sheets]).get_attrs_for_style_str(...):
   every sheet is constructed first (in order), then _MergedStyle builds
   Style(concatenated style_rules) *)
Fixpoint build_all (sheets : list (list (str * str))) : res unit :=
  match sheets with
  | [] => Ok tt
  | s :: r => match mk_style s with Err e => Err e | Ok _ => build_all r end
  end.
Definition merged_get (sheets : list (list (str * str))) (style_str : str) (default : attrs) : res attrs :=
  match build_all sheets with
  | Err e => Err e
  | Ok _ => style_get (List.concat sheets) style_str default
  end.
