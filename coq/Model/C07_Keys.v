(* C07 - the part of KeyProcessor._call_handler that decides about undo
   snapshots (key_processor.py), over a table of bindings.

       event = KeyPressEvent(..., is_repeat=(handler == self._previous_handler))
       if handler.save_before(event):
           event.app.current_buffer.save_to_undo_stack()
       handler.call(event); self._fix_vi_cursor_position(event)
       ...
       self._previous_handler = handler

   A binding is a row (cls, act, role) of the table regenerated from /repo
   (Gen/C07_Bindings.v, see gen/gen_t_c07.py): cls is what save_before does
   (0 never, 1 always, 2 if_no_repeat), act says whether the handler calls
   Buffer.undo (1) / Buffer.redo (2); role is only a label.
   A key event [Key h n t c] dispatches binding number [h]; if the handler is
   an undo (redo) handler it calls undo (redo) [n] times (Vi: event.arg);
   (t, c) is the text/cursor the dispatch leaves behind (for an undo handler:
   after the Vi end-of-line cursor correction; for every other handler: an
   arbitrary effect).  [DRedo] is a direct call of Buffer.redo() between two
   key events (no default binding calls it).
   [UndoKey h n nav] is a dispatch of an undo key whose effect is COMPUTED by
   a small handler model instead of being a payload: named_commands.undo /
   vi._undo call Buffer.undo() n times and touch nothing else, then
   _fix_vi_cursor_position moves the cursor one to the left when Vi
   navigation mode is on ([nav]), the cursor is at the end of its line and
   the line is not empty.
   [Cpr] is a cursor position report (Keys.CPRResponse) arriving from the
   terminal: KeyProcessor.process_keys hands it to _handle_cpr_response, which
   calls the CPR binding directly - no _call_handler, so no snapshot and
   _previous_handler (and arg, previous key sequence) stay as they are; the
   CPR handler (bindings/cpr.py) only talks to the renderer.
   [KReset t c] is the start of the next prompt on the same session:
   PromptSession.prompt() resets the default buffer to the new document
   (Buffer.reset: both stacks emptied) and Application.run_async calls
   Application.reset(), whose KeyProcessor.reset() sets
   _previous_handler = None - however the previous prompt ended (accept key,
   app.exit() from a task, cancellation).
   The theorems are for ANY table; Model/C07_Table.v instantiates it. *)
From Coq Require Import ZArith List Bool.
From PTK Require Import Lib.Sx Lib.Py Model.C07_Undo.
Import ListNotations.
Open Scope Z_scope.

Definition row : Type := (Z * Z * Z)%type.
Definition r_cls (r : row) : Z := fst (fst r).
Definition r_act (r : row) : Z := snd (fst r).
Definition r_role (r : row) : Z := snd r.

(* A binding number outside the table behaves like a plain binding (1,0,0);
   the harness never sends one (decoder rejects it). *)
Definition lookup (tbl : list row) (h : Z) : row :=
  if h <? 0 then (1, 0, 0) else nth (Z.to_nat h) tbl (1, 0, 0).

Inductive kev :=
| Key (h : Z) (n : Z) (t : str) (c : Z)
| DRedo
| UndoKey (h : Z) (n : Z) (nav : bool)
| Cpr
| KReset (t : str) (c : Z).

Record kst := mkkst { kbuf : ust; kprev : option Z }.

Definition is_repeat (prev : option Z) (h : Z) : bool :=
  match prev with Some p => p =? h | None => false end.

(* handler.save_before(event) *)
Definition save_before (tbl : list row) (prev : option Z) (h : Z) : bool :=
  let cls := r_cls (lookup tbl h) in
  if cls =? 0 then false
  else if cls =? 2 then negb (is_repeat prev h)
  else true.

(* The dispatch itself, as _call_handler runs it: snapshot?, then the
   handler's undo()/redo() calls, then whatever else the dispatch does. *)
Definition kbody (tbl : list row) (s : kst) (h n : Z) : ust :=
  let b := kbuf s in
  let s1 := if save_before tbl (kprev s) h then save_to_undo_stack b true else b in
  let act := r_act (lookup tbl h) in
  if act =? 1 then iter_op Undo (Z.to_nat n) s1
  else if act =? 2 then iter_op Redo (Z.to_nat n) s1
  else s1.

(* KeyProcessor._fix_vi_cursor_position: the cursor after the fix-up.
     if vi_navigation_mode() and document.is_cursor_at_the_end_of_line
        and len(document.current_line) > 0:  buff.cursor_position -= 1
   is_cursor_at_the_end_of_line: current_char in ("\n", "").  At the end of
   the line, current_line is the part before the cursor. *)
Definition fix_vi_cursor (nav : bool) (b : ust) : Z :=
  let t := utext b in
  let c := ucur b in
  let at_eol := match index t c with Some ch => ch =? NL | None => true end in
  let line_nonempty :=
    (0 <? c) && match index t (c - 1) with Some ch => negb (ch =? NL) | None => false end in
  if nav && at_eol && line_nonempty then c - 1 else c.

(* bindings/cpr.py: row, col = ...; event.app.renderer.report_absolute_cursor_row(row) *)
Definition cpr_handler (b : ust) : ust := b.

Definition kstep (tbl : list row) (s : kst) (e : kev) : kst :=
  match e with
  | Key h n t c => mkkst (set_state (kbody tbl s h n) t c) (Some h)
  | DRedo => mkkst (redo (kbuf s)) (kprev s)
  | UndoKey h n nav =>
      let b := kbody tbl s h n in
      mkkst (set_state b (utext b) (fix_vi_cursor nav b)) (Some h)
  | Cpr => mkkst (cpr_handler (kbuf s)) (kprev s)
  | KReset t c => mkkst (ustep (kbuf s) (Reset t c)) None
  end.

(* What one event does to the buffer, as a list of buffer-level operations:
   [Cmd save (text) (cursor)] with the CURRENT text and cursor is "snapshot if
   save, handler has not touched the text yet". *)
Definition expand_key (tbl : list row) (s : kst) (h n : Z) (t : str) (c : Z) : list uop :=
  let act := r_act (lookup tbl h) in
  let body := if act =? 1 then repeat Undo (Z.to_nat n)
              else if act =? 2 then repeat Redo (Z.to_nat n)
              else [] in
  Cmd (save_before tbl (kprev s) h) (utext (kbuf s)) (ucur (kbuf s))
    :: body ++ [Cmd false t c].

Definition expand (tbl : list row) (s : kst) (e : kev) : list uop :=
  match e with
  | Key h n t c => expand_key tbl s h n t c
  | DRedo => [Redo]
  | UndoKey h n nav =>
      let b := kbody tbl s h n in
      expand_key tbl s h n (utext b) (fix_vi_cursor nav b)
  | Cpr => []
  | KReset t c => [Reset t c]
  end.

Definition krun (tbl : list row) (s : kst) (evs : list kev) : kst :=
  fold_left (kstep tbl) evs s.

Definition kfresh (t : str) (c : Z) : kst := mkkst (fresh t c) None.

(* The whole session as one buffer-level operation list (what the
   buffer-level theorems quantify over). *)
Fixpoint expand_all (tbl : list row) (s : kst) (evs : list kev) : list uop :=
  match evs with
  | [] => []
  | e :: r => expand tbl s e ++ expand_all tbl (kstep tbl s e) r
  end.

Definition kev_ok (e : kev) : Prop :=
  match e with
  | Key h n t c => 0 <= c <= len t /\ 0 <= n
  | UndoKey h n nav => 0 <= n
  | KReset t c => 0 <= c <= len t
  | DRedo | Cpr => True
  end.

(* the text the current prompt started with *)
Definition ksession_start (t0 : str) (evs : list kev) : str :=
  fold_left (fun acc e => match e with KReset t _ => t | _ => acc end) evs t0.

(* Key-level ghost history: the (text, cursor) the buffer had when each earlier
   COMMAND of the current prompt was dispatched - one entry per key event (or
   direct redo() call), newest first; no mid-dispatch states.  A terminal
   report is not a command and adds nothing; a new prompt starts it afresh. *)
Definition kgstep (tbl : list row) (g : kst * list snap) (e : kev) : kst * list snap :=
  (kstep tbl (fst g) e,
   match e with
   | KReset _ _ => []
   | Cpr => snd g
   | _ => here (kbuf (fst g)) :: snd g
   end).

Definition kgrun (tbl : list row) (s : kst) (evs : list kev) : kst * list snap :=
  fold_left (kgstep tbl) evs (s, []).

(* no binding's handler calls Buffer.redo (true of the real table; a handler
   calling redo() more than once would snapshot mid-dispatch states) *)
Definition tbl_no_redo_handler (tbl : list row) : Prop :=
  forall h, r_act (lookup tbl h) <> 2.

(* How often the undo handlers call Buffer.undo():
     vi._undo:             for i in range(event.arg): event.current_buffer.undo()
     named_commands.undo:  event.current_buffer.undo()
   ([arg] is KeyPressEvent.arg: the typed count, 1 when none.) *)
Definition undo_calls (role arg : Z) : Z :=
  if role =? 4 then Z.max 0 arg else 1.

(* "A dispatch that is not an edit leaves the text alone": what the handlers
   of class-0 bindings (the Vi undo key, the CPR handler) and the residual
   effect of every undo handler (the Vi end-of-line cursor correction) do.
   Stated per event, at the state it is dispatched in. *)
Definition quiet (tbl : list row) (s : kst) (e : kev) : Prop :=
  match e with
  | Key h n t c =>
      (r_act (lookup tbl h) <> 0 \/ r_cls (lookup tbl h) = 0) ->
      t = utext (kbody tbl s h n)
  | DRedo | UndoKey _ _ _ | Cpr | KReset _ _ => True
  end.

Fixpoint all_quiet (tbl : list row) (s : kst) (evs : list kev) : Prop :=
  match evs with
  | [] => True
  | e :: r => quiet tbl s e /\ all_quiet tbl (kstep tbl s e) r
  end.

(* table sanity used by the theorems: only plain handlers are if_no_repeat *)
Definition tbl_sane (tbl : list row) : Prop :=
  forall h, r_cls (lookup tbl h) = 2 -> r_act (lookup tbl h) = 0.

(* ---- wire format ---- *)
Definition dec_kev (tbl : list row) (x : sx) : option kev :=
  let nrows := len tbl in
  match x with
  | L [A 1; A h; A n; t; A c] =>
      match as_str t with
      | Some t' =>
          if (0 <=? c) && (c <=? len t') && (0 <=? n) && (0 <=? h) && (h <? nrows)
          then Some (Key h n t' c) else None
      | None => None
      end
  | L [A 2] => Some DRedo
  | L [A 3; A h; A arg; nav] =>
      (* an undo key pressed with count [arg]: the handler model says how often undo() runs *)
      match as_bool nav with
      | Some nv =>
          let r := lookup tbl h in
          (* Vi navigation mode at fix-up time is not an input either: the Vi u
             binding (role 4) is registered under filter vi_navigation_mode and
             its handler leaves the input mode alone; the emacs undo keys (role
             5) only exist in emacs mode.  The harness sends what
             vi_navigation_mode() said inside _fix_vi_cursor_position; a
             different value is rejected (-> reported as a disagreement). *)
          if (0 <=? h) && (h <? nrows) && (r_act r =? 1) && ((r_role r =? 4) || (r_role r =? 5))
             && Bool.eqb nv (r_role r =? 4)
          then Some (UndoKey h (undo_calls (r_role r) arg) (r_role r =? 4)) else None
      | None => None
      end
  | L [A 4] => Some Cpr
  | L [A 5; t; A c] =>
      match as_str t with
      | Some t' => if (0 <=? c) && (c <=? len t') then Some (KReset t' c) else None
      | None => None
      end
  | _ => None
  end.

(* per event: (save-decision state) *)
Fixpoint run_kevs (tbl : list row) (s : kst) (evs : list kev) : list sx :=
  match evs with
  | [] => []
  | e :: r =>
      let s' := kstep tbl s e in
      let sv := match e with
                | Key h _ _ _ | UndoKey h _ _ => save_before tbl (kprev s) h
                | DRedo | Cpr | KReset _ _ => false
                end in
      L [sx_bool sv; enc_ust (kbuf s')] :: run_kevs tbl s' r
  end.

Definition run_C07_keys (tbl : list row) (t : sx) (cur : Z) (evs : list sx) : sx :=
  match as_str t, map_opt (dec_kev tbl) evs with
  | Some t', Some evs' =>
      if (0 <=? cur) && (cur <=? len t') then L (run_kevs tbl (kfresh t' cur) evs')
      else bad_case
  | _, _ => bad_case
  end.
