(* C19 - nested dynamic styles: a DynamicStyle whose get_style() returns not a
   plain Style but a PERSISTENT style object that is itself a _MergedStyle or a
   DynamicStyle (styles/base.py DynamicStyle, styles/style.py _MergedStyle):
     DynamicStyle.invalidation_hash      = hash of (get_style() or DummyStyle())
     DynamicStyle.style_rules            = its style_rules
     DynamicStyle.get_attrs_for_style_str delegates to that object - when it is a
       _MergedStyle the look-up goes through THAT object's own one-entry cache
     _MergedStyle.invalidation_hash      = tuple of the members' hashes (a member
       that is a dynamic style holding a merged style contributes a tuple)
   Two layers: the inner persistent objects are the style objects of
   Model/C19_Merged.v (their dynamic slots hold a plain Style or None); the
   outer objects' dynamic slots hold None, a plain Style, or inner object k.
   (Nesting through slots is therefore two deep; structural recursion, no fuel.)
   Definitions only. *)
From Coq Require Import ZArith List Bool.
From PTK Require Import Lib.Py Lib.C19_Str Model.C19_Style Model.C19_Merged.
Import ListNotations.
Open Scope Z_scope.

Inductive target : Type :=
| TNone                      (* get_style() returns None *)
| TSheet (id : Z)            (* a plain Style of the pool *)
| TObj (k : nat).            (* the persistent inner object number k *)

Inductive sty1 : Type :=
| N1Style (id : Z)
| N1Dummy
| N1Dynamic (slot : Z)
| N1Merged (l : list sty1).

Definition env1_t : Type := list (Z * target).
Definition env1_get (env1 : env1_t) (slot : Z) : target :=
  match assocZ slot env1 with Some t => t | None => TNone end.

(* what the object returned by an outer slot answers *)
Definition target_hash (env0 : env_t) (inner : list sty) (tg : target) : hv :=
  match tg with
  | TNone => HOne
  | TSheet id => HId id
  | TObj k => match nth_error inner k with Some t => inv_hash env0 t | None => HOne end
  end.
Definition target_rules (pool : pool_t) (env0 : env_t) (inner : list sty) (tg : target) : rules_t :=
  match tg with
  | TNone => []
  | TSheet id => pool_rules pool id
  | TObj k => match nth_error inner k with Some t => style_rules pool env0 t | None => [] end
  end.

Fixpoint inv_hash1 (env0 : env_t) (env1 : env1_t) (inner : list sty) (t : sty1) {struct t} : hv :=
  match t with
  | N1Style id => HId id
  | N1Dummy => HOne
  | N1Dynamic slot => target_hash env0 inner (env1_get env1 slot)
  | N1Merged l => HTuple (map (inv_hash1 env0 env1 inner) l)
  end.

Fixpoint style_rules1 (pool : pool_t) (env0 : env_t) (env1 : env1_t) (inner : list sty) (t : sty1) {struct t} : rules_t :=
  match t with
  | N1Style id => pool_rules pool id
  | N1Dummy => []
  | N1Dynamic slot => target_rules pool env0 inner (env1_get env1 slot)
  | N1Merged l => flat_map (style_rules1 pool env0 env1 inner) l
  end.

(* obj.get_attrs_for_style_str(s) for outer object t with its cache c1; c0s are
   the caches of the inner objects (a look-up through a dynamic slot holding
   inner object k goes through and updates cache k) *)
Definition lookup1 (pool : pool_t) (env0 : env_t) (env1 : env1_t) (inner : list sty)
           (t : sty1) (c1 : mcache) (c0s : list mcache) (s : str)
  : res attrs * mcache * list mcache :=
  match t with
  | N1Style id => (style_get (pool_rules pool id) s DEFAULT_ATTRS, c1, c0s)
  | N1Dummy => (Ok DEFAULT_ATTRS, c1, c0s)
  | N1Dynamic slot =>
      match env1_get env1 slot with
      | TNone => (Ok DEFAULT_ATTRS, c1, c0s)
      | TSheet id => (style_get (pool_rules pool id) s DEFAULT_ATTRS, c1, c0s)
      | TObj k =>
          match nth_error inner k, nth_error c0s k with
          | Some t0, Some c0 =>
              let '(r, c0') := lookup_obj pool env0 t0 c0 s in (r, c1, set_nth k c0' c0s)
          | _, _ => (Ok DEFAULT_ATTRS, c1, c0s)
          end
      end
  | N1Merged _ =>
      let h := inv_hash1 env0 env1 inner t in
      match c1 with
      | Some (k, rules) =>
          if hv_eqb h k then (style_get rules s DEFAULT_ATTRS, c1, c0s)
          else let rules' := style_rules1 pool env0 env1 inner t in
               (style_get rules' s DEFAULT_ATTRS, Some (h, rules'), c0s)
      | None =>
          let rules' := style_rules1 pool env0 env1 inner t in
          (style_get rules' s DEFAULT_ATTRS, Some (h, rules'), c0s)
      end
  end.

(* the reference: everything built anew (all caches empty) for the sheets as they are now *)
Definition fresh_lookup1 (pool : pool_t) (env0 : env_t) (env1 : env1_t) (inner : list sty) (t : sty1) (s : str)
  : res attrs :=
  match t with
  | N1Style id => style_get (pool_rules pool id) s DEFAULT_ATTRS
  | N1Dummy => Ok DEFAULT_ATTRS
  | N1Dynamic slot =>
      match env1_get env1 slot with
      | TNone => Ok DEFAULT_ATTRS
      | TSheet id => style_get (pool_rules pool id) s DEFAULT_ATTRS
      | TObj k => match nth_error inner k with
                  | Some t0 => fresh_lookup pool env0 t0 s
                  | None => Ok DEFAULT_ATTRS
                  end
      end
  | N1Merged _ => style_get (style_rules1 pool env0 env1 inner t) s DEFAULT_ATTRS
  end.

Inductive event1 : Type :=
| E1Switch0 (slot : Z) (o : option Z)     (* an inner dynamic slot now returns Style id / None *)
| E1Switch1 (slot : Z) (tg : target)      (* an outer dynamic slot now returns tg *)
| E1Lookup (k : nat) (s : str)            (* outer[k].get_attrs_for_style_str(s) *)
| E1Rules (k : nat)                       (* outer[k].style_rules *)
| E1Lookup0 (k : nat) (s : str).          (* inner[k].get_attrs_for_style_str(s): the inner objects are used directly too *)

Record nstate : Type := mkNS { ns_env0 : env_t; ns_env1 : env1_t; ns_c0 : list mcache; ns_c1 : list mcache }.

Definition step_event1 (pool : pool_t) (inner : list sty) (objs : list sty1) (st : nstate) (e : event1)
  : eanswer * nstate :=
  match e with
  | E1Switch0 slot o => (ANone, mkNS ((slot, o) :: ns_env0 st) (ns_env1 st) (ns_c0 st) (ns_c1 st))
  | E1Switch1 slot tg => (ANone, mkNS (ns_env0 st) ((slot, tg) :: ns_env1 st) (ns_c0 st) (ns_c1 st))
  | E1Lookup k s =>
      match nth_error objs k, nth_error (ns_c1 st) k with
      | Some t, Some c1 =>
          let '(r, c1', c0s') := lookup1 pool (ns_env0 st) (ns_env1 st) inner t c1 (ns_c0 st) s in
          (AAttrs r, mkNS (ns_env0 st) (ns_env1 st) c0s' (set_nth k c1' (ns_c1 st)))
      | _, _ => (ANone, st)
      end
  | E1Rules k =>
      match nth_error objs k with
      | Some t => (ARules (style_rules1 pool (ns_env0 st) (ns_env1 st) inner t), st)
      | None => (ANone, st)
      end
  | E1Lookup0 k s =>
      match nth_error inner k, nth_error (ns_c0 st) k with
      | Some t0, Some c0 =>
          let '(r, c0') := lookup_obj pool (ns_env0 st) t0 c0 s in
          (AAttrs r, mkNS (ns_env0 st) (ns_env1 st) (set_nth k c0' (ns_c0 st)) (ns_c1 st))
      | _, _ => (ANone, st)
      end
  end.

Fixpoint run_events1 (pool : pool_t) (inner : list sty) (objs : list sty1) (st : nstate) (es : list event1)
  : list eanswer :=
  match es with
  | [] => []
  | e :: r => let '(a, st') := step_event1 pool inner objs st e in a :: run_events1 pool inner objs st' r
  end.

Fixpoint run_events1_fresh (pool : pool_t) (inner : list sty) (objs : list sty1) (env0 : env_t) (env1 : env1_t)
         (es : list event1) : list eanswer :=
  match es with
  | [] => []
  | E1Switch0 slot o :: r => ANone :: run_events1_fresh pool inner objs ((slot, o) :: env0) env1 r
  | E1Switch1 slot tg :: r => ANone :: run_events1_fresh pool inner objs env0 ((slot, tg) :: env1) r
  | E1Lookup k s :: r =>
      (match nth_error objs k with
       | Some t => AAttrs (fresh_lookup1 pool env0 env1 inner t s)
       | None => ANone
       end) :: run_events1_fresh pool inner objs env0 env1 r
  | E1Rules k :: r =>
      (match nth_error objs k with
       | Some t => ARules (style_rules1 pool env0 env1 inner t)
       | None => ANone
       end) :: run_events1_fresh pool inner objs env0 env1 r
  | E1Lookup0 k s :: r =>
      (match nth_error inner k with
       | Some t0 => AAttrs (fresh_lookup pool env0 t0 s)
       | None => ANone
       end) :: run_events1_fresh pool inner objs env0 env1 r
  end.

Definition EMPTY_NS (inner : list sty) (objs : list sty1) : nstate :=
  mkNS [] [] (map (fun _ => None) inner) (map (fun _ => None) objs).
