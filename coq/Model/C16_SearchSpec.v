(* Specification vocabulary for C16 (definitions only): what it means for a
   needle to occur at a position, and the order in which Buffer._search visits
   the other working lines. *)
From Coq Require Import ZArith List Bool.
From PTK Require Import Lib.Sx Lib.Py Model.Document Model.C16_Search.
Import ListNotations.
Open Scope Z_scope.

Section Spec.
Variable ceq : Z -> Z -> bool.

(* [mid] is [needle] character by character: equal, or related by [ceq]
   (pattern character first) when case is ignored *)
Definition same (ic : bool) (needle mid : str) : Prop :=
  Forall2 (fun p t => cmatch ceq ic p t = true) needle mid.

(* the needle occurs in [text] at offset [p]: text = pre ++ mid ++ post with
   |pre| = p and mid the needle up to [same] *)
Definition occurs_at (ic : bool) (needle text : str) (p : nat) : Prop :=
  exists pre mid post, text = pre ++ mid ++ post /\ length pre = p /\ same ic needle mid.

Definition occurs (ic : bool) (needle text : str) (p : Z) : Prop :=
  0 <= p /\ occurs_at ic needle text (Z.to_nat p).

(* [p] is the first occurrence at or after [lo] *)
Definition first_from (ic : bool) (needle text : str) (lo p : nat) : Prop :=
  (lo <= p)%nat /\ occurs_at ic needle text p /\
  forall o, (lo <= o < p)%nat -> ~ occurs_at ic needle text o.

(* [p] is the (k+1)-th match of the leftmost NON-OVERLAPPING scan started at
   [lo] (what re.finditer enumerates): after a match at p0 the scan resumes at
   p0 + max 1 |needle| *)
Fixpoint nth_match (ic : bool) (needle text : str) (lo k p : nat) {struct k} : Prop :=
  match k with
  | O => first_from ic needle text lo p
  | S k' => exists p0, first_from ic needle text lo p0 /\
                       nth_match ic needle text (p0 + Nat.max 1 (length needle)) k' p
  end.

(* [p] is the last occurrence that ends at or before [hi] *)
Definition last_before (ic : bool) (needle text : str) (hi p : nat) : Prop :=
  (p + length needle <= hi)%nat /\ occurs_at ic needle text p /\
  forall o, (p < o)%nat -> (o + length needle <= hi)%nat -> ~ occurs_at ic needle text o.

(* [p] is the (k+1)-th match of the non-overlapping scan that runs BACKWARDS
   from [hi]: after a match at p0 (ending at p0 + |needle|) the scan resumes
   with matches ending at or before p0 + |needle| - max 1 |needle| (= p0 for a
   non-empty needle) *)
Fixpoint nth_match_back (ic : bool) (needle text : str) (hi k p : nat) {struct k} : Prop :=
  match k with
  | O => last_before ic needle text hi p
  | S k' => exists p0, last_before ic needle text hi p0 /\
                       (Nat.max 1 (length needle) <= p0 + length needle)%nat /\
                       nth_match_back ic needle text
                         (p0 + length needle - Nat.max 1 (length needle)) k' p
  end.

(* no occurrence anywhere in the entry *)
Definition absent (ic : bool) (needle text : str) : Prop :=
  forall q, ~ occurs ic needle text q.

(* The other working lines in the order the forward / backward search visits
   them from working index [w] among [n] lines:
     forward   w+1, ..., n-1, then 0        (range(w+1, n+1) with i %= n)
     backward  w-1, ..., 0,   then n-1      (range(w-1, -2, -1) with i %= n)
   i.e. the wrap-around visits exactly ONE line. *)
Definition fwd_order (n w : Z) : list Z := zrange (w + 1) (Z.to_nat (n - 1 - w)) ++ [0].
Definition bwd_order (n w : Z) : list Z := zrange_down (w - 1) (Z.to_nat w) ++ [n - 1].

(* Buffer invariant *)
Definition Inv (b : sbuf) : Prop :=
  0 <= wi b < len (wl b) /\ 0 <= cur b <= len (entry (wl b) (wi b)).

(* where a found position puts the buffer *)
Definition moved (b : sbuf) (w c : Z) : sbuf := mksbuf (wl b) w c.

(* the keys that only edit the search field or move the cursor inside it *)
Definition typing_key (k : key) : Prop :=
  match k with
  | KChar _ | KSlash | KQuestion | KBackspace | KDelete | KLeft | KRight | KHome | KEnd => True
  | _ => False
  end.

Fixpoint keys_run (s : sess) (ks : list key) : option sess :=
  match ks with
  | [] => Some s
  | k :: r => match key_step ceq s k with Some s' => keys_run s' r | None => None end
  end.

End Spec.
