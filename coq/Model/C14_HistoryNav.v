(* Model of history browsing and accept in prompt_toolkit.buffer.Buffer
   (buffer.py: reset, load_history_if_not_yet_loaded, text / cursor_position /
   working_index setters, _text_changed, _set_history_search, _history_matches,
   history_forward, history_backward, go_to_history, cursor_up/down,
   auto_up/auto_down, validate, _validate_async, validate_and_handle,
   append_to_history), of history.py (History.load / get_strings /
   append_string, _ensure_loaded; InMemoryHistory/FileHistory as an abstract
   storage list; ThreadedHistory as patched: prepend counter, loader thread
   stepping through its snapshot, consumer), of the end-of-history readline
   command, of apply_search's landing and of the selection flag.
   Every function follows the Python statement by statement, as it stands in
   /repo now (after the fix: commits f4f2a3a get_strings() loads first, cb187ee
   count 0 / negative counts, 46fed32 cursor up/down with counts below 1,
   c767972 go_to_history ignores a negative index, 826cb7e a cursor movement
   forgets a cached VALID verdict); repaired functions are
   kept as `_pinned` definitions where a `_pinned_refuted` theorem uses them.

   Key handlers (named commands previous-/next-/beginning-of-/end-of-history,
   vi k/j/<n>G/up/down, emacs c-p/c-n, basic up/down) with KeyPressEvent.arg
   are modelled as the Buffer call they make (handler_op).

   Outside the model: completion state (assumed absent), read-only buffers,
   events, undo stack, yank-nth-arg/yank-last-arg, the search algorithm (only
   its landing), thread-level asynchrony (a scheduled validate-while-typing run
   completes before the next operation unless that operation is flagged
   "deferred"; ThreadedHistory's thread step / consumer chunk / append are
   atomic, and the thread's snapshot is taken when load() first runs). *)
From Coq Require Import ZArith List Bool.
From PTK Require Import Lib.Sx Lib.Py Model.Document Model.BufferEdit Lib.C14_Handlers Gen.C14_Handlers.
Import ListNotations.
Open Scope Z_scope.

(* History object: _loaded_strings (newest first), the backend storage
   (InMemoryHistory._storage, oldest first), _loaded. *)
Record hstore := mkst { ls : list str; sto : list str; loaded : bool }.

(* ThreadedHistory (as patched by 0c2cbbe): whether the History object is one,
   _num_prepended, whether the loader thread has been started, the items the
   thread still has to read from the backend (newest first: the snapshot
   load_history_strings() took when the thread started), and - belonging to the
   Buffer's running load() - prepended_at_start. *)
Record tstore := mkth { thr : bool; nprep : Z; tstarted : bool; tsrc : list str; tprep : Z }.

(* ValidationState *)
Definition V_UNKNOWN : Z := 0.
Definition V_VALID : Z := 1.
Definition V_INVALID : Z := 2.

Record hs := mk {
  wl : list str;          (* _working_lines *)
  wi : Z;                 (* working_index *)
  cur : Z;                (* cursor_position *)
  hst : option str;       (* history_search_text *)
  pref : option Z;        (* preferred_column *)
  vst : Z;                (* validation_state *)
  pend : bool;            (* a validate-while-typing run has been scheduled *)
  store : hstore;         (* the History object *)
  task : option Z;        (* _load_history_task: None, or Some (index of the
                             next item of the live _loaded_strings list) *)
  tfin : bool;            (* the load generator is exhausted *)
  ehs : bool;             (* enable_history_search() *)
  sel : bool;             (* selection_state is not None *)
  th : tstore             (* ThreadedHistory part of the History object *)
}.

(* What does not change during a session *)
Record cfg := mkcfg {
  vwt : bool;                                (* validate_while_typing() *)
  keep : bool;                               (* value returned by accept_handler *)
  val : option (str -> Z -> option Z)        (* validator: text, cursor -> error position *)
}.

Definition set_wl s v := mk v (wi s) (cur s) (hst s) (pref s) (vst s) (pend s) (store s) (task s) (tfin s) (ehs s) (sel s) (th s).
Definition set_wi_raw s v := mk (wl s) v (cur s) (hst s) (pref s) (vst s) (pend s) (store s) (task s) (tfin s) (ehs s) (sel s) (th s).
Definition set_cur_raw s v := mk (wl s) (wi s) v (hst s) (pref s) (vst s) (pend s) (store s) (task s) (tfin s) (ehs s) (sel s) (th s).
Definition set_hst s v := mk (wl s) (wi s) (cur s) v (pref s) (vst s) (pend s) (store s) (task s) (tfin s) (ehs s) (sel s) (th s).
Definition set_pref s v := mk (wl s) (wi s) (cur s) (hst s) v (vst s) (pend s) (store s) (task s) (tfin s) (ehs s) (sel s) (th s).
Definition set_vst s v := mk (wl s) (wi s) (cur s) (hst s) (pref s) v (pend s) (store s) (task s) (tfin s) (ehs s) (sel s) (th s).
Definition set_pend s v := mk (wl s) (wi s) (cur s) (hst s) (pref s) (vst s) v (store s) (task s) (tfin s) (ehs s) (sel s) (th s).
Definition set_store s v := mk (wl s) (wi s) (cur s) (hst s) (pref s) (vst s) (pend s) v (task s) (tfin s) (ehs s) (sel s) (th s).
Definition set_task s v f := mk (wl s) (wi s) (cur s) (hst s) (pref s) (vst s) (pend s) (store s) v f (ehs s) (sel s) (th s).
Definition set_sel s v := mk (wl s) (wi s) (cur s) (hst s) (pref s) (vst s) (pend s) (store s) (task s) (tfin s) (ehs s) v (th s).
Definition set_th s v := mk (wl s) (wi s) (cur s) (hst s) (pref s) (vst s) (pend s) (store s) (task s) (tfin s) (ehs s) (sel s) v.
Definition set_ehs s v := mk (wl s) (wi s) (cur s) (hst s) (pref s) (vst s) (pend s) (store s) (task s) (tfin s) v (sel s) (th s).

(* Buffer.text: _working_lines[working_index] (Python indexing) *)
Definition text (s : hs) : str :=
  match index (wl s) (wi s) with Some t => t | None => [] end.
Definition sdoc (s : hs) : doc := mkdoc (text s) (cur s).

(* History._ensure_loaded: fills _loaded_strings from the backend when that did
   not happen yet *)
Definition ensure_loaded (h : hstore) : hstore :=
  if loaded h then h else mkst (rev (sto h)) (sto h) true.

(* what History.get_strings() returns (it calls _ensure_loaded first); the
   harness observes [loaded_view], the raw list, which has no side effect *)
Definition get_strings (h : hstore) : list str := rev (ls (ensure_loaded h)).
Definition loaded_view (h : hstore) : list str := rev (ls h).

(* _cursor_position_changed: only preferred_column is modelled *)
(* since 826cb7e a cached VALID verdict is forgotten: it was computed for the
   old cursor position (a cached error stays) *)
Definition cursor_changed (s : hs) : hs :=
  let s1 := set_pref s None in
  if vst s1 =? V_VALID then set_vst s1 V_UNKNOWN else s1.

(* as it stood before that fix (finding C14-F4) *)
Definition cursor_changed_pinned (s : hs) : hs := set_pref s None.
Definition set_cursor_pinned (s : hs) (v : Z) : hs :=
  let n := len (match index (wl s) (wi s) with Some t => t | None => [] end) in
  let v1 := if n <? v then n else v in
  let v2 := if v1 <? 0 then 0 else v1 in
  let v3 := Z.max 0 v2 in
  let s1 := set_cur_raw s v3 in
  if v3 =? cur s then s1 else cursor_changed_pinned s1.

(* Buffer.cursor_position = v *)
Definition set_cursor (s : hs) (v : Z) : hs :=
  let n := len (text s) in
  let v1 := if n <? v then n else v in
  let v2 := if v1 <? 0 then 0 else v1 in
  let v3 := Z.max 0 v2 in
  let s1 := set_cur_raw s v3 in
  if v3 =? cur s then s1 else cursor_changed s1.

(* _text_changed *)
Definition text_changed (c : cfg) (s : hs) : hs :=
  let s1 := set_sel (set_pref (set_vst s V_UNKNOWN) None) false in
  match val c with
  | Some _ => if vwt c then set_pend s1 true else s1
  | None => s1
  end.

(* Buffer.working_index = v *)
Definition set_wi (c : cfg) (s : hs) (v : Z) : hs :=
  if wi s =? v then s
  else text_changed c (set_cursor (set_wi_raw s v) 0).

(* _set_history_search *)
Definition set_history_search (s : hs) : hs :=
  if ehs s then
    match hst s with
    | None => set_hst s (Some (text_before_cursor (sdoc s)))
    | Some _ => s
    end
  else set_hst s None.

(* _history_matches(i) *)
Definition history_matches (s : hs) (i : Z) : bool :=
  match hst s with
  | None => true
  | Some p => match index (wl s) i with Some l => startswith l p | None => false end
  end.

(* range(a, -1, -1) and range(a, b) *)
Definition range_down (a : Z) : list Z :=
  map (fun k => a - Z.of_nat k) (seq 0 (Z.to_nat (a + 1))).
Definition range_up (a b : Z) : list Z :=
  map (fun k => a + Z.of_nat k) (seq 0 (Z.to_nat (b - a))).

(* the loop shared by history_forward and history_backward:
     for i in <range>:
         if self._history_matches(i):
             self.working_index = i; count -= 1; found_something = True
         if count == 0: break                                              *)
Fixpoint nav_loop (c : cfg) (idxs : list Z) (s : hs) (count : Z) (found : bool) : hs * bool :=
  match idxs with
  | [] => (s, found)
  | i :: r =>
      let m := history_matches s i in
      let s1 := if m then set_wi c s i else s in
      let c1 := if m then count - 1 else count in
      let f1 := if m then true else found in
      if c1 =? 0 then (s1, f1) else nav_loop c r s1 c1 f1
  end.

(* the bodies of history_forward / history_backward for a positive count *)
Definition history_forward_pos (c : cfg) (s : hs) (count : Z) : hs :=
  let s0 := set_history_search s in
  let '(s1, found) := nav_loop c (range_up (wi s0 + 1) (len (wl s0))) s0 count false in
  if found then
    let s2 := set_cursor s1 0 in
    set_cursor s2 (cur s2 + get_end_of_line_position (sdoc s2))
  else s1.

Definition history_backward_pos (c : cfg) (s : hs) (count : Z) : hs :=
  let s0 := set_history_search s in
  let '(s1, found) := nav_loop c (range_down (wi s0 - 1)) s0 count false in
  if found then set_cursor s1 (len (text s1)) else s1.

(* count == 0: nothing at all; count < 0: the other direction with -count *)
Definition history_forward (c : cfg) (s : hs) (count : Z) : hs :=
  if count =? 0 then s
  else if count <? 0 then history_backward_pos c s (- count)
  else history_forward_pos c s count.

Definition history_backward (c : cfg) (s : hs) (count : Z) : hs :=
  if count =? 0 then s
  else if count <? 0 then history_forward_pos c s (- count)
  else history_backward_pos c s count.

(* as it stood before the count fix (finding C14-F2, repaired in /repo) *)
Definition history_forward_pinned := history_forward_pos.
Definition history_backward_pinned := history_backward_pos.

(* as fixed by c767972: `if 0 <= index < len(self._working_lines)` *)
Definition go_to_history (c : cfg) (s : hs) (i : Z) : hs :=
  if (0 <=? i) && (i <? len (wl s)) then
    let s1 := set_wi c s i in set_cursor s1 (len (text s1))
  else s.

(* named_commands.end_of_history *)
Definition end_of_history (c : cfg) (s : hs) : hs :=
  let s1 := history_forward c s (10 ^ 100) in
  go_to_history c s1 (len (wl s1) - 1).

(* `self.preferred_column or self.document.cursor_position_col` *)
Definition original_column (s : hs) : Z :=
  match pref s with
  | Some p => if p =? 0 then cursor_position_col (sdoc s) else p
  | None => cursor_position_col (sdoc s)
  end.

(* Document.get_cursor_up_position / get_cursor_down_position: a negative
   count moves the other way; count 0 stays on the row (at the column). *)
Definition up_delta (d : doc) (count col : Z) : Z :=
  translate_row_col_to_index d (Z.max 0 (cursor_position_row d - count)) col - dcur d.
Definition down_delta (d : doc) (count col : Z) : Z :=
  translate_row_col_to_index d (cursor_position_row d + count) col - dcur d.
Definition get_cursor_up_position (d : doc) (count col : Z) : Z :=
  if count <? 0 then down_delta d (- count) col else up_delta d count col.
Definition get_cursor_down_position (d : doc) (count col : Z) : Z :=
  if count <? 0 then up_delta d (- count) col else down_delta d count col.

(* Buffer.cursor_up / cursor_down *)
Definition cursor_up (s : hs) (count : Z) : hs :=
  let oc := original_column s in
  set_pref (set_cursor s (cur s + get_cursor_up_position (sdoc s) count oc)) (Some oc).

Definition cursor_down (s : hs) (count : Z) : hs :=
  let oc := original_column s in
  set_pref (set_cursor s (cur s + get_cursor_down_position (sdoc s) count oc)) (Some oc).

Definition go_start_of_line (s : hs) : hs :=
  set_cursor s (cur s + get_start_of_line_position (sdoc s) false).

(* auto_up / auto_down with complete_state = None: inside a multi-line text
   move the cursor, otherwise browse the history - unless something is
   selected, then nothing happens *)
Definition auto_up (c : cfg) (s : hs) (count : Z) (gts : bool) : hs :=
  if 0 <? cursor_position_row (sdoc s) then cursor_up s count
  else if sel s then s
  else
    let s1 := history_backward c s count in
    if gts then go_start_of_line s1 else s1.

Definition auto_down (c : cfg) (s : hs) (count : Z) (gts : bool) : hs :=
  if cursor_position_row (sdoc s) <? line_count (sdoc s) - 1 then cursor_down s count
  else if sel s then s
  else
    let s1 := history_forward c s count in
    if gts then go_start_of_line s1 else s1.

(* An edit of (text, cursor) computed by Model.BufferEdit, written back through
   _set_text / _set_cursor_position with their change notifications: a changed
   text resets validation, preferred column and the history search text; a
   changed cursor resets the preferred column. *)
Definition write_back (c : cfg) (s : hs) (b : buf) : hs :=
  let tchg := negb (str_eqb (btext b) (text s)) in
  let cchg := negb (bcur b =? cur s) in
  let s1 := set_cur_raw (set_wl s (py_update (wl s) (wi s) (fun _ => btext b))) (bcur b) in
  let s2 := if tchg then set_hst (text_changed c s1) None else s1 in
  if cchg then cursor_changed s2 else s2.

Definition sbuf (s : hs) : buf := mkbuf (text s) (cur s).

(* Buffer.validate(set_cursor) *)
Definition validate (c : cfg) (s : hs) (sc : bool) : hs * bool :=
  if negb (vst s =? V_UNKNOWN) then (s, vst s =? V_VALID)
  else
    match val c with
    | Some V =>
        match V (text s) (cur s) with
        | Some p =>
            let s1 := if sc then set_cursor s (Z.min (Z.max 0 p) (len (text s))) else s in
            (set_vst s1 V_INVALID, false)
        | None => (set_vst s V_VALID, true)
        end
    | None => (set_vst s V_VALID, true)
    end.

(* History.append_string on an InMemoryHistory *)
Definition append_string (h : hstore) (t : str) : hstore :=
  mkst (t :: ls h) (sto h ++ [t]) (loaded h).

(* History.get_strings(): _ensure_loaded (a no-op for ThreadedHistory, whose
   strings are "what the thread loaded so far"), then the reversed list *)
Definition hist_for_get (s : hs) : hstore :=
  if thr (th s) then store s else ensure_loaded (store s).

(* append_string: ThreadedHistory counts the insertion in front *)
Definition do_append (s : hs) (h : hstore) (t : str) : hs :=
  let s1 := set_store s (append_string h t) in
  if thr (th s) then set_th s1 (mkth true (nprep (th s) + 1) (tstarted (th s)) (tsrc (th s)) (tprep (th s)))
  else s1.

(* Buffer.append_to_history: history_strings[-1] is the head of
   _loaded_strings *)
Definition append_to_history (s : hs) : hs :=
  let t := text s in
  match t with
  | [] => s
  | _ =>
      let h := hist_for_get s in
      match ls h with
      | [] => do_append s h t
      | x :: _ => if str_eqb x t then set_store s h else do_append s h t
      end
  end.

(* as it stood before the fix (finding C14-F1, repaired in /repo): only what
   had been loaded so far was compared *)
Definition append_to_history_pinned (s : hs) : hs :=
  let t := text s in
  match t with
  | [] => s
  | _ =>
      match ls (store s) with
      | [] => set_store s (append_string (store s) t)
      | x :: _ => if str_eqb x t then s else set_store s (append_string (store s) t)
      end
  end.

(* Buffer.reset(Document(t, c), append_to_history=app) *)
Definition reset (s : hs) (t : str) (c : Z) (app : bool) : hs :=
  let s0 := if app then append_to_history s else s in
  mk [t] 0 c None None V_UNKNOWN (pend s0) (store s0) None false (ehs s0) false (th s0).

(* validate_and_handle; the accept handler records buffer.text and returns
   [keep c] *)
Definition validate_and_handle (c : cfg) (s : hs) : hs * option str :=
  let '(s1, ok) := validate c s true in
  if ok then
    let ret := text s1 in
    let s2 := append_to_history s1 in
    (if keep c then s2 else reset s2 [] 0 false, Some ret)
  else (s1, None).

(* A new session on the same backend (next program run on the same history
   file): a fresh History object - nothing loaded, nothing cached - and a
   fresh buffer. *)
Definition reopen (s : hs) : hs :=
  reset (set_th (set_store s (mkst [] (sto (store s)) false)) (mkth (thr (th s)) 0 false [] 0)) [] 0 false.

(* Buffer.apply_search once the search found (working_index, cursor_position):
       self.working_index = working_index; self.cursor_position = cursor_position
   (the search itself is C16's subject; whatever it finds, this is all that
   happens to the buffer - history_search_text is not touched).  The guard
   states what _search guarantees about the index. *)
Definition jump (c : cfg) (s : hs) (i p : Z) : hs :=
  if (0 <=? i) && (i <? len (wl s)) then set_cursor (set_wi c s i) p else s.

(* load_history_if_not_yet_loaded: creates the task; nothing is read yet *)
Definition load_start (s : hs) : hs :=
  match task s with
  | None =>
      let s1 := set_task s (Some 0) false in
      if thr (th s) then
        (* ThreadedHistory.load(): the first call empties _loaded_strings and
           starts the thread (which takes its snapshot of the backend);
           every call remembers _num_prepended *)
        let t := th s in
        if tstarted t then set_th s1 (mkth true (nprep t) true (tsrc t) (nprep t))
        else set_th (set_store s1 (mkst [] (sto (store s)) (loaded (store s))))
                    (mkth true (nprep t) true (rev (sto (store s))) (nprep t))
      else s1
  | Some _ => s
  end.

(* the loader thread reads one more item from its snapshot, or finishes *)
Definition thread_step (s : hs) : hs :=
  let t := th s in
  if thr t && tstarted t then
    match tsrc t with
    | x :: r => set_th (set_store s (mkst (ls (store s) ++ [x]) (sto (store s)) (loaded (store s))))
                       (mkth true (nprep t) true r (tprep t))
    | [] => set_store s (mkst (ls (store s)) (sto (store s)) true)
    end
  else s.

(* ThreadedHistory.load() as consumed by Buffer.load_history: whenever the
   thread signalled, everything behind skip + items_yielded is delivered
   (appendleft + index shift per item); the task ends when _loaded is seen. *)
Definition consume (s : hs) : hs :=
  if thr (th s) then
    match task s with
    | Some y =>
        if tfin s then s
        else
          let skip := nprep (th s) - tprep (th s) in
          let items := skipn (Z.to_nat (skip + y)) (ls (store s)) in
          let s1 := set_wi_raw (set_wl s (rev items ++ wl s)) (wi s + len items) in
          set_task s1 (Some (y + len items)) (loaded (store s))
    | None => s
    end
  else s.

(* History.load(): the first step calls _ensure_loaded; every step reads item
   [i] of the live list. *)

(* one item delivered to Buffer.load_history: appendleft + index shift *)
Definition pop_step (s : hs) : hs :=
  if thr (th s) then s else
  match task s with
  | None => s
  | Some i =>
      if tfin s then s
      else
        let s1 := set_store s (ensure_loaded (store s)) in
        match nth_error (ls (store s1)) (Z.to_nat i) with
        | Some item =>
            set_task (set_wi_raw (set_wl s1 (item :: wl s1)) (wi s1 + 1)) (Some (i + 1)) false
        | None => set_task s1 (Some i) true
        end
  end.

Fixpoint pop_n (n : nat) (s : hs) : hs :=
  match n with O => s | S k => pop_n k (pop_step s) end.
(* run the loader to completion *)
Definition pop_all (s : hs) : hs :=
  pop_n (S (S (length (sto (store s)) + length (ls (store s))))) s.

(* a scheduled validate-while-typing run: _validate_async *)
Definition flush (c : cfg) (s : hs) : hs :=
  if pend s then set_pend (fst (validate c (set_pend s false) false)) false else s.

(* ---------------------------------------------------------------------- *)
Inductive op :=
| OBack (n : Z)
| OFwd (n : Z)
| OGoto (i : Z)
| OAutoUp (n : Z) (gts : bool)
| OAutoDown (n : Z) (gts : bool)
| OEnd
| OInsert (d : str)
| ODelBefore (n : Z)
| ODel (n : Z)
| OSetText (t : str)
| OSetCursor (v : Z)
| OLeft (n : Z)
| ORight (n : Z)
| OValidate (sc : bool)
| OAccept
| OReset (t : str) (c : Z) (app : bool)
| OLoadStart
| OPop
| OPopAll
| OSetEhs (b : bool)
| OAppend
| OReopen
| OJump (i p : Z)
| OSelect (b : bool)
| OThread.

Definition ST_OK : Z := 0.

(* (status, state, returned text) *)
Definition outcome := (Z * hs * option str)%type.

Definition ok (s : hs) : outcome := (ST_OK, s, None).
Definition of_res (c : cfg) (s : hs) (r : res) : outcome :=
  match r with
  | Ok b _ => ok (write_back c s b)
  | Err e _ => (e, s, None)
  end.

Definition step_core (c : cfg) (s : hs) (o : op) : outcome :=
  match o with
  | OBack n => ok (history_backward c s n)
  | OFwd n => ok (history_forward c s n)
  | OGoto i => ok (go_to_history c s i)
  | OAutoUp n g => ok (auto_up c s n g)
  | OAutoDown n g => ok (auto_down c s n g)
  | OEnd => ok (end_of_history c s)
  | OInsert d => of_res c s (insert_text (sbuf s) d false true)
  | ODelBefore n => of_res c s (delete_before_cursor (sbuf s) n)
  | ODel n => of_res c s (delete (sbuf s) n)
  | OSetText t => of_res c s (Ok (set_text (sbuf s) t) [])
  | OSetCursor v => ok (set_cursor s v)
  | OLeft n => ok (set_cursor s (cur s + get_cursor_left_position (sdoc s) n))
  | ORight n => ok (set_cursor s (cur s + get_cursor_right_position (sdoc s) n))
  | OValidate sc => ok (fst (validate c s sc))
  | OAccept => let '(s', r) := validate_and_handle c s in (ST_OK, s', r)
  | OReset t cp app => ok (reset s t cp app)
  | OLoadStart => ok (load_start s)
  | OPop => ok (pop_step s)
  | OPopAll => ok (pop_all s)
  | OSetEhs b => ok (set_ehs s b)
  | OAppend => ok (append_to_history s)
  | OReopen => ok (reopen s)
  | OJump i p => ok (jump c s i p)
  | OSelect b => ok (set_sel s b)      (* start_selection() / exit_selection() *)
  | OThread => ok (thread_step s)
  end.

(* an operation followed by the completion of the validation it scheduled *)
Definition step (c : cfg) (s : hs) (o : op) : outcome :=
  let '(st, s', r) := step_core c s o in (st, flush c (consume s'), r).

Definition step_state (c : cfg) (s : hs) (o : op) : hs := snd (fst (step c s o)).
Definition steps (c : cfg) (s : hs) (ops : list op) : hs := fold_left (step_state c) ops s.

(* A freshly constructed Buffer(history=InMemoryHistory(storage)) *)
Definition init_k (storage : list str) (e k : bool) : hs :=
  mk [[]] 0 0 None None V_UNKNOWN false (mkst [] storage false) None false e false (mkth k 0 false [] 0).
Definition init (storage : list str) (e : bool) : hs := init_k storage e false.

(* ---------------------------------------------------------------------- *)
(* Validators available to the correspondence harness (the theorems quantify
   over an arbitrary function).  A validator is a list of rules, the first rule
   that fires rejects; a rule = (condition, position). *)
Inductive vcond :=
| VAlways
| VContains (ch : Z)
| VShorter (n : Z)
| VStarts (p : str)
| VEquals (t : str)
| VCursorAt (n : Z).
Inductive vpos :=
| PAbs (z : Z)
| PEnd (z : Z)      (* len(text) + z *)
| PCur (z : Z).     (* cursor + z *)

Definition vcond_holds (k : vcond) (t : str) (cp : Z) : bool :=
  match k with
  | VAlways => true
  | VContains ch => mem_Z ch t
  | VShorter n => len t <? n
  | VStarts p => startswith t p
  | VEquals u => str_eqb t u
  | VCursorAt n => cp =? n
  end.
Definition vpos_eval (p : vpos) (t : str) (cp : Z) : Z :=
  match p with PAbs z => z | PEnd z => len t + z | PCur z => cp + z end.

Fixpoint run_validator (rules : list (vcond * vpos)) (t : str) (cp : Z) : option Z :=
  match rules with
  | [] => None
  | (k, p) :: r => if vcond_holds k t cp then Some (vpos_eval p t cp) else run_validator r t cp
  end.

(* ---------------------------------------------------------------------- *)
(* Key handlers with a numeric argument (round 6).  KeyPressEvent._arg is None,
   "-" or a decimal numeral (possibly with a leading "-"); KeyPressEvent.arg:
       if self._arg == "-": return -1
       result = int(self._arg or 1)
       if int(result) >= 1000000: result = 1                                  *)
Inductive karg := ANone | AMinus | ANum (z : Z).
(* the constants are regenerated from the source of KeyPressEvent.arg
   (Gen/C14_Handlers.v; as of 7b1fd9f: "-" -> -1, none -> 1, more than 7
   significant digits -> -1 / 1 by sign, a million or more -> 1) *)
Definition event_arg (a : karg) : Z :=
  match a with
  | ANone => arg_default
  | AMinus => arg_minus
  | ANum z =>
      (* more than arg_digits significant digits: decided on their number *)
      if 10 ^ arg_digits <=? Z.abs z then (if z <? 0 then arg_long_neg else arg_long_pos)
      else if arg_limit <=? z then arg_over else z
  end.

(* The history-related key handlers.  What each one does is NOT written here:
   Gen/C14_Handlers.v ([handlers]) is regenerated on every run from the source
   of the handler functions of /repo (gen/gen_t_c14.py, AST translation, fail
   closed): named_commands previous-history (1), next-history (2),
   beginning-of-history (3), end-of-history (4); vi navigation mode k (5), j (6),
   <n>G (7), up/c-p (8), down/c-n (9); emacs c-p (10), c-n (11); basic up (12),
   down (13).  Here: the meaning of the call language as operations of the
   model. *)
Definition count_of (c : hcount) (a : karg) : option Z :=
  match c with
  | CArg k => Some (event_arg a - k)
  | CConst z => Some z
  | CLast => None       (* len(_working_lines) - 1: only inside end-of-history *)
  end.

Definition call_op (k : hcall) (a : karg) : option op :=
  match k with
  | HBack c => match count_of c a with Some n => Some (OBack n) | None => None end
  | HFwd c => match count_of c a with Some n => Some (OFwd n) | None => None end
  | HGoto c => match count_of c a with Some n => Some (OGoto n) | None => None end
  | HAutoUp c g => match count_of c a with Some n => Some (OAutoUp n g) | None => None end
  | HAutoDown c g => match count_of c a with Some n => Some (OAutoDown n g) | None => None end
  end.

(* a body is one call, or exactly the two calls of end-of-history
   (history_forward(count=10**100); go_to_history(len(_working_lines) - 1)),
   which is the operation OEnd; anything else is not modelled (bad case) *)
Definition is_end_of_history (cs : list hcall) : bool :=
  match cs with
  | [HFwd (CConst z); HGoto CLast] => z =? 10 ^ 100
  | _ => false
  end.
Definition calls_op (cs : list hcall) (a : karg) : option op :=
  if is_end_of_history cs then Some OEnd
  else match cs with
       | [k] => call_op k a
       | _ => None
       end.

Fixpoint find_handler (h : Z) (rows : list hrow) : option hrow :=
  match rows with
  | [] => None
  | r :: rest => if h_id r =? h then Some r else find_handler h rest
  end.

Definition handler_op (h : Z) (a : karg) : option op :=
  match find_handler h handlers with
  | Some r =>
      match a with
      | ANone => if h_needs_arg r then None else calls_op (h_calls r) a
      | _ => calls_op (h_calls r) a
      end
  | None => None
  end.

Definition dec_karg (x : sx) : option karg :=
  match x with
  | L [] => Some ANone
  | L [A 0] => Some AMinus
  | L [A 1; A z] => Some (ANum z)
  | _ => None
  end.

(* ---------------------------------------------------------------------- *)
(* Wire format *)
Definition dec_op (x : sx) : option op :=
  match x with
  | L [A 1; A n] => Some (OBack n)
  | L [A 2; A n] => Some (OFwd n)
  | L [A 3; A i] => Some (OGoto i)
  | L [A 4; A n; A g] => Some (OAutoUp n (g =? 1))
  | L [A 5; A n; A g] => Some (OAutoDown n (g =? 1))
  | L [A 6] => Some OEnd
  | L [A 7; d] => match as_str d with Some d' => Some (OInsert d') | None => None end
  | L [A 8; A n] => Some (ODelBefore n)
  | L [A 9; A n] => Some (ODel n)
  | L [A 10; d] => match as_str d with Some d' => Some (OSetText d') | None => None end
  | L [A 11; A v] => Some (OSetCursor v)
  | L [A 12; A n] => Some (OLeft n)
  | L [A 13; A n] => Some (ORight n)
  | L [A 14; A sc] => Some (OValidate (sc =? 1))
  | L [A 15] => Some OAccept
  | L [A 16; d; A cp; A app] =>
      match as_str d with
      | Some d' => if (0 <=? cp) && (cp <=? len d') then Some (OReset d' cp (app =? 1)) else None
      | None => None
      end
  | L [A 17] => Some OLoadStart
  | L [A 18] => Some OPop
  | L [A 19] => Some OPopAll
  | L [A 20; A b] => Some (OSetEhs (b =? 1))
  | L [A 21] => Some OAppend
  | L [A 22] => Some OReopen
  | L [A 23; A i; A p] => Some (OJump i p)
  | L [A 25; A b] => Some (OSelect (b =? 1))
  | L [A 26] => Some OThread
  | L [A 27; A h; a] => match dec_karg a with Some a' => handler_op h a' | None => None end
  | _ => None
  end.

(* an op with its flags: (flag op); flag bit 0 = the state after the op is
   observed (emitted), bit 1 = the next operation is processed before the event
   loop runs again (type-ahead), so a scheduled validation stays pending *)
Definition dec_oop (x : sx) : option (bool * bool * op) :=
  match x with
  | L [A f; o] =>
      match dec_op o with
      | Some o' => if (0 <=? f) && (f <=? 3) then Some (Z.odd f, 2 <=? f, o') else None
      | None => None
      end
  | _ => None
  end.

Definition dec_vcond (x : sx) : option vcond :=
  match x with
  | L [A 1] => Some VAlways
  | L [A 2; A ch] => Some (VContains ch)
  | L [A 3; A n] => Some (VShorter n)
  | L [A 4; p] => match as_str p with Some p' => Some (VStarts p') | None => None end
  | L [A 5; p] => match as_str p with Some p' => Some (VEquals p') | None => None end
  | L [A 6; A n] => Some (VCursorAt n)
  | _ => None
  end.
Definition dec_vpos (x : sx) : option vpos :=
  match x with
  | L [A 0; A z] => Some (PAbs z)
  | L [A 1; A z] => Some (PEnd z)
  | L [A 2; A z] => Some (PCur z)
  | _ => None
  end.
Definition dec_rule (x : sx) : option (vcond * vpos) :=
  match x with
  | L [k; p] => match dec_vcond k, dec_vpos p with
                | Some k', Some p' => Some (k', p')
                | _, _ => None
                end
  | _ => None
  end.

Definition enc_state (s : hs) : list sx :=
  [ sx_list sx_str (wl s); A (wi s); A (cur s); sx_opt sx_str (hst s); sx_opt sx_Z (pref s);
    A (vst s); sx_list sx_str (loaded_view (store s)); sx_list sx_str (sto (store s)); sx_bool (sel s) ].

Definition enc_outcome (x : outcome) : sx :=
  let '(st, s, r) := x in L (A st :: sx_opt sx_str r :: enc_state s).

Fixpoint run_ops (c : cfg) (s : hs) (ops : list (bool * bool * op)) : list sx :=
  match ops with
  | [] => []
  | (f, defer, o) :: r =>
      let x := if defer then step_core c s o else step c s o in
      let rest := run_ops c (snd (fst x)) r in
      if f then enc_outcome x :: rest else rest
  end.

(* case = ((storage ...) ehs vwt keep validator (op ...))
   validator = () for "no validator", ((rule ...)) otherwise *)
Definition run_C14_k (k : bool) (storage : list sx) (e w kp : Z) (v : sx) (ops : list sx) : sx :=
  match map_opt as_str storage, as_opt (fun y => match y with L rs => map_opt dec_rule rs | _ => None end) v,
        map_opt dec_oop ops with
  | Some storage', Some v', Some ops' =>
      let c := mkcfg (w =? 1) (kp =? 1)
                     (match v' with Some rules => Some (run_validator rules) | None => None end) in
      L (run_ops c (init_k storage' (e =? 1) k) ops')
  | _, _, _ => bad_case
  end.

(* case = ((storage ...) ehs vwt keep validator (op ...)) for an
   InMemoryHistory/FileHistory, with a trailing 1 for ThreadedHistory over it;
   validator = () for "no validator", ((rule ...)) otherwise *)
Definition run_C14 (x : sx) : sx :=
  match x with
  | L [L storage; A e; A w; A k; v; L ops] => run_C14_k false storage e w k v ops
  | L [L storage; A e; A w; A k; v; L ops; A 1] => run_C14_k true storage e w k v ops
  | _ => bad_case
  end.
