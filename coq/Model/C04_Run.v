(* C04 - entry point of the extracted model: a case is (tag . payload) with
   tag 1 = key processor run, 2 = filter construction history, 3 = registry
   (KeyBindings + wrappers) history, 4 = global-only wrapper with dynamic is_global,
   5 = key processor run with handlers that mutate the registry.  *)
From Coq Require Import ZArith List Bool.
From PTK Require Import Lib.Sx Model.C04_KeyProc Model.C04_Filters Model.C04_Registry Model.C04_GlobalDyn Model.C04_KeyProcMut.
Import ListNotations.
Open Scope Z_scope.

Definition run_C04 (c : sx) : sx :=
  match c with
  | L (A 1 :: r) => run_keyproc r
  | L (A 2 :: r) => run_filters r
  | L (A 3 :: r) => run_registry r
  | L (A 4 :: r) => run_globaldyn r
  | L (A 5 :: r) => run_keyproc_mut r
  | _ => bad_case
  end.
