(* C18 - what a SEQUENCE of ANSI tokens means (round 6): a denotational
   semantics over the grammar-level tokens of Model/C18_AnsiGrammar.v that
   threads the SGR state through the whole input - an SGR sequence changes the
   state for everything after it, cursor-forward shows spaces in the style in
   effect, a zero-width region or an unsupported sequence leaves the state
   alone.  It knows nothing of the coroutine's modes.  Proofs/C18_AnsiSeq.v
   proves that ANSI(s) yields exactly [ansi_sem s], fragment for fragment
   (styles included), for every string s; the harness compares [ansi_sem]
   with the real ANSI(s) directly (case kind 14).  Definitions only. *)
From Coq Require Import ZArith List Bool.
From PTK Require Import Lib.Sx Lib.Py Model.C18_Fragments Model.C18_Ansi Model.C18_AnsiGrammar.
Import ListNotations.
Open Scope Z_scope.

(* the parameter fields of a control sequence: the text between the ';' *)
Fixpoint split_fields (ps : str) (cur : str) : list str :=
  match ps with
  | [] => [cur]
  | c :: r => if c =? 59 then cur :: split_fields r [] else split_fields r (cur ++ [c])
  end.

(* params at the final character: min(int(field.lstrip("0")[:5] or 0), 9999) per field *)
Definition csi_params (ps : str) : list Z := map conv (split_fields ps []).

(* what one token emits when the SGR state is g *)
Definition tok_out (g : sgr) (t : token) : list frag :=
  match t with
  | TChar c => [mkfrag (create_style_string g) [c] []]
  | TCsi _ ps fin =>
      if fin =? 67 then spaces (create_style_string g) (Z.to_nat (hd 0 (csi_params ps))) else []
  | TZw b => [mkfrag ZWE b []]
  | TEsc2 _ => []
  | TTail _ => []
  end.

(* the SGR state after it *)
Definition tok_sgr (g : sgr) (t : token) : sgr :=
  match t with
  | TCsi _ ps fin => if fin =? 109 then select_graphic_rendition (csi_params ps) g else g
  | _ => g
  end.

Fixpoint sem (g : sgr) (ts : list token) : list frag :=
  match ts with
  | [] => []
  | t :: r => tok_out g t ++ sem (tok_sgr g t) r
  end.

Fixpoint sgr_after (g : sgr) (ts : list token) : sgr :=
  match ts with
  | [] => g
  | t :: r => sgr_after (tok_sgr g t) r
  end.

Definition ansi_sem (s : str) : list frag := sem sgr0 (tokens s).
