(* C19 - Style.from_dict(style_dict, priority) as coded: DICT_KEY_ORDER keeps
   the item order; MOST_PRECISE is sorted(items, key) with
   key = sum(len(i.split(".")) for i in item[0].split()) - a stable sort.
   Definitions only. *)
From Coq Require Import ZArith List Bool.
From PTK Require Import Lib.Py Lib.C19_Str Model.C19_Style.
Import ListNotations.
Open Scope Z_scope.

Definition precision_key (item : str * str) : Z :=
  fold_left (fun acc i => acc + len (split_on 46 i)) (split_ws (fst item)) 0.

(* sorted(l, key=k): stable (insertion from the right, before equal keys) *)
Fixpoint insert_by {T} (k : T -> Z) (x : T) (l : list T) : list T :=
  match l with
  | [] => [x]
  | y :: r => if k x <=? k y then x :: y :: r else y :: insert_by k x r
  end.
Fixpoint sorted_by {T} (k : T -> Z) (l : list T) : list T :=
  match l with
  | [] => []
  | x :: r => insert_by k x (sorted_by k r)
  end.

Definition from_dict_rules (most_precise : bool) (items : list (str * str)) : list (str * str) :=
  if most_precise then sorted_by precision_key items else items.

(* Style.from_dict(dict(items), priority).get_attrs_for_style_str(style_str, default) *)
Definition from_dict_get (most_precise : bool) (items : list (str * str)) (style_str : str)
           (default : attrs) : res attrs :=
  style_get (from_dict_rules most_precise items) style_str default.
