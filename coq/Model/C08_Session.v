(* C08 - a Vi navigation-mode key session: count digits, operator keys,
   Escape, text-object keys.  Models the count bookkeeping around the
   operators (key_processor.arg / KeyPressEvent.arg, vi_state.operator_func /
   operator_arg, the ViState.input_mode setter on Escape, the wrapper
   _apply_operator_to_text_object, the move handler _move_in_navigation_mode,
   the digit bindings including the "0 extends a count" binding _0_arg) on
   top of the single-command model of C08_TextObjects.v.

   Well-formed sessions only: an operator key is typed in navigation mode
   (not while another operator is pending); nothing is typed after a change
   operator entered insert mode. *)
From Coq Require Import ZArith List Bool.
From PTK Require Import Lib.Sx Lib.Py Gen.Whitespace Model.Document Model.BufferEdit
  Model.C02_DocQueries Model.C08_ViOps Model.C08_TextObjects.
Import ListNotations.
Open Scope Z_scope.

Inductive kkey :=
| KD (d : Z)                         (* a digit 0..9 *)
| KO (k : opk) (keys : list Z)       (* the key sequence of an operator *)
| KE                                 (* Escape (also f<Esc>, t<Esc> ... while an operator is pending) *)
| KM (m : tok).                      (* the key sequence of a text object / motion *)

Record kst := mkks {
  ks_vst : vst;
  ks_arg : option Z;                   (* key_processor.arg, as a number *)
  ks_oparg : option Z;                 (* vi_state.operator_arg *)
  ks_op : option (opk * list Z);       (* vi_state.operator_func *)
  ks_last : option (tobj * bool);      (* text object given to the last operator applied (ghost) *)
  ks_find : option (Z * bool)          (* vi_state.last_character_find: (character, backwards) *)
}.

(* f F t T store the search BEFORE searching, whether or not the character is
   found (under an operator and as plain motions alike); nothing else touches it *)
Definition upd_find (f : option (Z * bool)) (m : tok) : option (Z * bool) :=
  match m with
  | T_f ch | T_t ch => Some (ch, false)
  | T_F ch | T_T ch => Some (ch, true)
  | _ => f
  end.

(* ; and , repeat the stored search (no stored search: TextObject(0)) *)
Definition resolve_tok (f : option (Z * bool)) (m : tok) : tok :=
  match m with
  | T_rep rv => match f with
                | Some (ch, bw) => T_repeat rv true ch bw
                | None => T_repeat rv false 0 false
                end
  | _ => m
  end.

(* KeyPressEvent.arg: int(_arg or 1), a million or more counts as 1 *)
Definition ev_arg (a : option Z) : Z :=
  match a with None => 1 | Some v => if 1000000 <=? v then 1 else v end.

Definition is_some {T} (o : option T) : bool := match o with Some _ => true | None => false end.
Definition or1 (o : option Z) : Z := match o with Some v => if v =? 0 then 1 else v | None => 1 end.

(* Since fix ced036e the text-object functions e E ge gE g_ j k return None
   when they fail (modelled as TO o true: the ghost object is what they
   returned before), and the wrapper treats None and an exclusive object with
   equal ends as "cancel the operator" *)
Definition cancelled (o : tobj) (failed : bool) : bool :=
  failed || (is_excl (ttype o) && (tstart o =? tend o)).

(* status 3 = outside the modelled sessions.  [patched] = true is /repo as it
   is (fix ced036e); false is the wrapper of the commit before it, kept for
   the _pinned_refuted theorem only *)
Definition key_step_gen (patched : bool) (s : kst) (key : kkey) : Z * kst :=
  let st := ks_vst s in
  let b := vbuf st in
  let motion (m0 : tok) : Z * kst :=
    let m := resolve_tok (ks_find s) m0 in
    let fd := upd_find (ks_find s) m0 in
    match ks_op s with
    | Some (k, keys) =>
        (* _apply_operator_to_text_object *)
        let hc := is_some (ks_oparg s) || is_some (ks_arg s) in
        let n := if hc then ev_arg (Some (or1 (ks_oparg s) * ev_arg (ks_arg s))) else 1 in
        match text_object m (bdoc b) n hc with
        | TOErr => (1, mkks st None (ks_oparg s) (ks_op s) (ks_last s) fd)   (* raised before the try/finally *)
        | TO o failed =>
            if patched && cancelled o failed
            then (0, mkks (with_buf st (fix_vi_cursor b)) None None None (ks_last s) fd)   (* _fix_vi_cursor_position runs after every handler *)
            else
            let '(status, st1) := run_op k st o (mkev n keys) in
            let st2 := if (status =? 0) && negb (vins st1)
                       then with_buf st1 (fix_vi_cursor (vbuf st1)) else st1 in
            (status, mkks st2 None None None (Some (o, failed)) fd)
        end
    | None =>
        (* _move_in_navigation_mode: cursor_position += text_object.start *)
        let n := ev_arg (ks_arg s) in
        match text_object m (bdoc b) n (is_some (ks_arg s)) with
        | TOErr => (1, mkks st None (ks_oparg s) None (ks_last s) fd)
        | TO o failed =>
            let b1 := fix_vi_cursor (if patched && failed then b
                                     else set_cursor b (bcur b + tstart o)) in
            (0, mkks (with_buf st b1) None (ks_oparg s) None (ks_last s) fd)
        end
    end in
  match key with
  | KD d =>
      (* the cursor fix-up runs after the digit handler too, but only in
         navigation mode, i.e. not while an operator is pending *)
      let st' := match ks_op s with None => with_buf st (fix_vi_cursor b) | Some _ => st end in
      match ks_arg s with
      | Some a => (0, mkks st' (Some (10 * a + d)) (ks_oparg s) (ks_op s) (ks_last s) (ks_find s))
      | None =>
          if d =? 0 then motion T_zero     (* no count yet: 0 is the start-of-line motion *)
          else (0, mkks st' (Some d) (ks_oparg s) (ks_op s) (ks_last s) (ks_find s))
      end
  | KO k keys =>
      match ks_op s with
      | Some _ => (3, s)
      | None =>
          (0, mkks st None (if is_some (ks_arg s) then Some (ev_arg (ks_arg s)) else None)
                   (Some (k, keys)) (ks_last s) (ks_find s))
      end
  | KE => (0, mkks (with_buf st (fix_vi_cursor b)) None None None (ks_last s) (ks_find s))
  | KM m => motion m
  end.

Definition key_step := key_step_gen true.
Definition key_step_pinned := key_step_gen false.

Fixpoint run_keys_gen (patched : bool) (s : kst) (keys : list kkey) : Z * kst :=
  match keys with
  | [] => (0, s)
  | k :: r =>
      let '(status, s') := key_step_gen patched s k in
      if (status =? 0) && negb (vins (ks_vst s')) then run_keys_gen patched s' r
      else match r with [] => (status, s') | _ => (if status =? 0 then 3 else status, s') end
  end.
Definition run_keys := run_keys_gen true.

Definition init_ks (text : str) (cur : Z) : kst :=
  mkks (mkvst (mkbuf text cur) None None false) None None None None None.

(* ---------------------------------------------------------------------- *)
(* Wire: session case = (text cursor (key ...)); key = (1 d) | (2 op (k ...)) | (3) | (4 tok) *)

Definition dec_key (s : sx) : option kkey :=
  match s with
  | L [A 1; A d] => if (0 <=? d) && (d <=? 9) then Some (KD d) else None
  | L [A 2; op; ks] =>
      match dec_opk op, as_str ks with Some k, Some keys => Some (KO k keys) | _, _ => None end
  | L [A 3] => Some KE
  | L [A 4; m] => match dec_tok m with Some m' => Some (KM m') | None => None end
  | _ => None
  end.

Definition run_session_gen (patched : bool) (text : str) (cur : Z) (keys : list kkey) : sx :=
  let '(status, s) := run_keys_gen patched (init_ks text cur) keys in
  enc_vres (status, ks_vst s)
           (match ks_last s with Some (o, _) => Some o | None => None end)
           (match ks_last s with Some (_, f) => f | None => false end).

Definition run_C08_gen (patched : bool) (c : sx) : sx :=
  match c with
  | L [t; A cur; L ks] =>
      match as_str t, map_opt dec_key ks with
      | Some t', Some keys =>
          if (0 <=? cur) && (cur <=? len t') then run_session_gen patched t' cur keys else bad_case
      | _, _ => bad_case
      end
  | _ => run_C08_cmd c
  end.

(* /repo as it is *)
Definition run_C08 : sx -> sx := run_C08_gen true.
