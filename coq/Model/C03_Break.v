(* C03 - the variant of Vt100Parser._input_parser_generator whose shift loop
   leaves at the first match:

       for i in range(len(prefix), 0, -1):
           match = self._get_match(prefix[:i])
           if match:
               self._call_handler(match, prefix[:i])
               prefix = prefix[i:]
               found = True
               break                      # <- not in /repo

   /repo's loop has no "break": after the longest matching slice it goes on
   with the remainder and the smaller lengths (Model/C03_Vt100Parser.v
   [match_loop]).  This file is the whole parser with the break
   ([run_ops_brk]); Proofs/C03_Break.v shows that on the current table the two
   parsers are the same function of the schedule (C03_shift_break_equiv), i.e.
   the missing break is not observable.  Definitions only. *)
From Coq Require Import ZArith List Bool.
From PTK Require Import Lib.Sx Lib.Py Gen.C03_AnsiSequences Model.C03_Vt100Parser.
Import ListNotations.
Open Scope Z_scope.

Fixpoint match_loop_brk (i : nat) (st : pstate) : pstate * bool :=
  match i with
  | O => (st, false)
  | S i' =>
      match get_match (firstn i (prefix st)) with
      | Some ks => (set_prefix (skipn i (prefix st)) (call_handler ks (firstn i (prefix st)) st), true)
      | None => match_loop_brk i' st
      end
  end.

Definition no_match_step_brk (st : pstate) : pstate :=
  let (st1, found) := match_loop_brk (length (prefix st)) st in
  if found then st1
  else match prefix st1 with
       | c :: tl => set_prefix tl (push (KChar c, [c]) st1)
       | [] => st1
       end.

Fixpoint process_brk (fuel : nat) (flush : bool) (st : pstate) : pstate :=
  match prefix st with
  | [] => st
  | _ :: _ =>
      match fuel with
      | O => set_oof st
      | S f =>
          if flush || negb (is_prefix_longer (prefix st)) then
            match get_match (prefix st) with
            | Some ks => set_prefix [] (call_handler ks (prefix st) st)
            | None => process_brk f flush (no_match_step_brk st)
            end
          else st
      end
  end.

Definition send_char_brk (c : Z) (st : pstate) : pstate :=
  process_brk (S (length (prefix st))) false (set_prefix (prefix st ++ [c]) st).
Definition flush_brk (st : pstate) : pstate :=
  process_brk (length (prefix st)) true st.

(* feed() is unchanged; copied because it calls the coroutine *)
Fixpoint feed_chars_brk (k : str -> pstate -> pstate) (d : str) (st : pstate) : pstate :=
  match d with
  | [] => st
  | c :: r => if in_paste st then k d st else feed_chars_brk k r (send_char_brk c st)
  end.

Fixpoint feed_fuel_brk (fuel : nat) (data : str) (st : pstate) : pstate :=
  match fuel with
  | O => set_oof st
  | S f =>
      if in_paste st then
        let buf := paste_buf st ++ data in
        match cut end_mark buf with
        | Some (content, remaining) =>
            feed_fuel_brk f remaining (leave_paste (push (KKey key_BracketedPaste, content) st))
        | None => set_paste_buf buf st
        end
      else feed_chars_brk (feed_fuel_brk f) data st
  end.

Definition feed_brk (data : str) (st : pstate) : pstate := feed_fuel_brk (S (mu st data)) data st.

Definition apply_op_brk (st : pstate) (o : op) : pstate :=
  match o with Feed d => feed_brk d st | Flush => flush_brk st end.
Definition run_ops_brk (ops : list op) (st : pstate) : pstate := fold_left apply_op_brk ops st.
