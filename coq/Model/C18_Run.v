(* C18 - wire format: run_C18 : sx -> sx.
     (1 frags)                 split_lines            -> ((frag ...) ...)
     (2 style frags)           to_text, len, explode, to_formatted_text(style=) -> (text len (frag ...) (frag ...))
     (3 cfg s)                 ANSI(s)                -> (0 (frag ...)) | (err)
     (4 cfg (part ...) (v ...))  ANSI template        -> likewise
     (5 cfg s)                 ansi_escape / html_escape -> (str str)
     (6 cfg s)                 HTML(s)                -> (0 (frag ...)) | (err)
     (7 cfg (part ...) (v ...))  HTML template        -> likewise
   cfg = (b b b b b b); frag = (style text rest). *)
From Coq Require Import ZArith List Bool.
From PTK Require Import Lib.Sx Lib.Py Model.C18_Fragments Model.C18_Ansi Model.C18_Html.
Import ListNotations.
Open Scope Z_scope.

Definition dec_cfg (s : sx) : option cfg :=
  match s with
  | L [a; b; c; d; e; f] =>
      match as_bool a, as_bool b, as_bool c, as_bool d, as_bool e, as_bool f with
      | Some a', Some b', Some c', Some d', Some e', Some f' => Some (mkcfg a' b' c' d' e' f')
      | _, _, _, _, _, _ => None
      end
  | _ => None
  end.

Definition dec_strs (s : sx) : option (list str) :=
  match s with L l => map_opt as_str l | _ => None end.
Definition dec_frags (s : sx) : option (list frag) :=
  match s with L l => map_opt dec_frag l | _ => None end.

Definition run_C18 (c : sx) : sx :=
  match c with
  | L [A 1; fs] =>
      match dec_frags fs with
      | Some frs => L (map enc_frags (split_lines frs))
      | None => bad_case
      end
  | L [A 2; st; fs] =>
      match as_str st, dec_frags fs with
      | Some st', Some frs =>
          L [sx_str (fragment_list_to_text frs); A (fragment_list_len frs); enc_frags (explode frs);
             enc_frags (apply_style st' frs)]
      | _, _ => bad_case
      end
  | L [A 3; k; s] =>
      match dec_cfg k, as_str s with
      | Some k', Some s' => enc_res (ansi_parse k' s')
      | _, _ => bad_case
      end
  | L [A 4; k; ps; vs] =>
      match dec_cfg k, dec_strs ps, dec_strs vs with
      | Some k', Some ps', Some vs' =>
          if len ps' =? len vs' + 1 then enc_res (ansi_template k' ps' vs') else bad_case
      | _, _, _ => bad_case
      end
  | L [A 5; k; s] =>
      match dec_cfg k, as_str s with
      | Some k', Some s' => L [sx_str (ansi_escape k' s'); sx_str (html_escape k' s')]
      | _, _ => bad_case
      end
  | L [A 6; k; s] =>
      match dec_cfg k, as_str s with
      | Some k', Some s' => enc_res (html_parse k' s')
      | _, _ => bad_case
      end
  | L [A 7; k; ps; vs] =>
      match dec_cfg k, dec_strs ps, dec_strs vs with
      | Some k', Some ps', Some vs' =>
          if len ps' =? len vs' + 1 then enc_res (html_template k' ps' vs') else bad_case
      | _, _, _ => bad_case
      end
  | _ => bad_case
  end.
