(* C18 - wire format: run_C18 : sx -> sx, for the code that is in /repo now
   (cfg_now; there is no variant selector on the wire).
     (1 frags)                 split_lines            -> ((frag ...) ...)
     (2 style frags)           to_text, len, explode, to_formatted_text(style=) -> (text len (frag ...) (frag ...))
     (3 s)                     ANSI(s)                -> (0 (frag ...)) | (err)
     (4 (part ...) (v ...))    ANSI template          -> likewise
     (5 s)                     ansi_escape / html_escape -> (str str)
     (6 s)                     HTML(s)                -> (0 (frag ...)) | (err)
     (7 (part ...) (v ...))    HTML template          -> likewise
     (8 style ac value)        to_formatted_text(value, style, auto_convert) -> likewise (value: see Model/C18_Convert.v)
     (9 s)                     ansi_strip s, ansi_zero_width s (the grammar-level specification) -> (text (payload ...))
     (10 frags (op ...))       _ExplodedList: explode_text_fragments(frags), then item/slice assignment, append, extend, += -> the list after each op
     (11 ((c w) ...) frags)    fragment_list_width with the given per-character widths (others 1) -> width
     (12 (((part ...) text) ...))  PygmentsTokens -> (frag ...)
     (13 (part ...) (v ...))   HTML template by the values-as-data specification (Model/C18_HtmlAny.v) -> like 7 | (5) = no claim
     (14 s)                    ANSI(s) by the token-sequence semantics (Model/C18_AnsiSeq.v) -> like 3
   frag = (style text rest). *)
From Coq Require Import ZArith List Bool.
From PTK Require Import Lib.Sx Lib.Py Model.C18_Fragments Model.C18_Ansi Model.C18_Html Model.C18_Convert Model.C18_AnsiGrammar Model.C18_Exploded Model.C18_Width Model.C18_HtmlAny Model.C18_AnsiSeq.
Import ListNotations.
Open Scope Z_scope.

Definition dec_strs (s : sx) : option (list str) :=
  match s with L l => map_opt as_str l | _ => None end.
Definition dec_frags (s : sx) : option (list frag) :=
  match s with L l => map_opt dec_frag l | _ => None end.

Definition run_C18 (c : sx) : sx :=
  match c with
  | L [A 1; fs] =>
      match dec_frags fs with
      | Some frs => L (map enc_frags (split_lines frs))
      | None => bad_case
      end
  | L [A 2; st; fs] =>
      match as_str st, dec_frags fs with
      | Some st', Some frs =>
          L [sx_str (fragment_list_to_text frs); A (fragment_list_len frs); enc_frags (explode frs);
             enc_frags (apply_style st' frs)]
      | _, _ => bad_case
      end
  | L [A 3; s] =>
      match as_str s with
      | Some s' => enc_res (ansi_parse cfg_now s')
      | None => bad_case
      end
  | L [A 4; ps; vs] =>
      match dec_strs ps, dec_strs vs with
      | Some ps', Some vs' =>
          if len ps' =? len vs' + 1 then enc_res (ansi_template cfg_now ps' vs') else bad_case
      | _, _ => bad_case
      end
  | L [A 5; s] =>
      match as_str s with
      | Some s' => L [sx_str (ansi_escape cfg_now s'); sx_str (html_escape cfg_now s')]
      | None => bad_case
      end
  | L [A 6; s] =>
      match as_str s with
      | Some s' => enc_res (html_parse cfg_now s')
      | None => bad_case
      end
  | L [A 7; ps; vs] =>
      match dec_strs ps, dec_strs vs with
      | Some ps', Some vs' =>
          if len ps' =? len vs' + 1 then enc_res (html_template cfg_now ps' vs') else bad_case
      | _, _ => bad_case
      end
  | L [A 11; L tb; fs] =>
      match map_opt (fun e => match e with L [A c; A x] => Some (c, x) | _ => None end) tb, dec_frags fs with
      | Some t, Some frs => A (fragment_list_width (table_width t) frs)
      | _, _ => bad_case
      end
  | L [A 12; L toks] =>
      match map_opt (fun e => match e with
                              | L [L ps; tx] => match map_opt as_str ps, as_str tx with
                                                | Some ps', Some tx' => Some (ps', tx')
                                                | _, _ => None
                                                end
                              | _ => None
                              end) toks with
      | Some tl => enc_frags (pygments_frags tl)
      | None => bad_case
      end
  | L [A 10; fs; L ops] =>
      match dec_frags fs, map_opt dec_elop ops with
      | Some frs, Some ops' => L (map enc_frags (el_run (explode frs) ops'))
      | _, _ => bad_case
      end
  | L [A 13; ps; vs] =>
      match dec_strs ps, dec_strs vs with
      | Some ps', Some vs' =>
          if len ps' =? len vs' + 1 then
            match html_values_as_data ps' vs' with
            | Some r => enc_res r
            | None => L [A 5]
            end
          else bad_case
      | _, _ => bad_case
      end
  | L [A 14; s] =>
      match as_str s with
      | Some s' => enc_res (Ok (ansi_sem s'))
      | None => bad_case
      end
  | L [A 9; s] =>
      match as_str s with
      | Some s' => L [sx_str (ansi_strip s'); L (map sx_str (ansi_zero_width s'))]
      | None => bad_case
      end
  | L [A 8; st; ac; v] =>
      match as_str st, as_bool ac, dec_fval v with
      | Some st', Some ac', Some v' => enc_res (to_formatted_text st' ac' v')
      | _, _, _ => bad_case
      end
  | _ => bad_case
  end.
