(* C02 - round 6 additions to the Document model (kept apart from
   Model/C02_DocQueries.v, which models of other properties depend on):

   1. the remaining boolean / list views of Document as named functions
      (is_cursor_at_the_end, is_cursor_at_the_end_of_line, lines_from_current);
   2. the `pattern=` argument of find_start_of_previous_word /
      get_word_before_cursor / _is_word_before_cursor_complete for three
      families of compiled regexes (no flags):
        PRuns s1 s2 :  [s1]+|[s2]+   (s1, s2 disjoint; s2 = [] gives [s1]+)
        PNeg  s1    :  [^s1]+
        PStar s1    :  ^[s1]*        (FuzzyCompleter's default `^[a-zA-Z0-9_]*`)
*)
From Coq Require Import ZArith List Bool.
From PTK Require Import Lib.Sx Lib.Py Model.Document Model.C02_DocQueries.
Import ListNotations.
Open Scope Z_scope.

(* ---------------------------------------------------------------------- *)
(* views *)

(* self.cursor_position == len(self.text) *)
Definition is_cursor_at_the_end (d : doc) : bool := dcur d =? len (dtext d).

(* self.current_char in ("\n", "") *)
Definition is_cursor_at_the_end_of_line (d : doc) : bool :=
  match current_char d with Some c => c =? NL | None => true end.

(* self.lines[self.cursor_position_row:] *)
Definition lines_from_current (d : doc) : list str :=
  slice_from (lines d) (cursor_position_row d).

(* ---------------------------------------------------------------------- *)
(* pattern= *)

Inductive pat : Type :=
| PRuns (s1 s2 : list Z)
| PNeg (s1 : list Z)
| PStar (s1 : list Z).

(* class of a character for the run scanner: 0 = never part of a match *)
Definition pat_cls (p : pat) (c : Z) : Z :=
  match p with
  | PRuns s1 s2 => if mem_Z c s1 then 1 else if mem_Z c s2 then 2 else 0
  | PNeg s1 => if mem_Z c s1 then 0 else 1
  | PStar s1 => if mem_Z c s1 then 1 else 0
  end.

(* pattern.finditer(s) as (start, end) pairs.  `^[s1]*` matches exactly once:
   at 0, the maximal (possibly empty) prefix of s1 characters; `^` fails at
   every later position. *)
Definition pat_iter (p : pat) (s : str) : list (Z * Z) :=
  match p with
  | PStar s1 => [(0, span_len (fun c => mem_Z c s1) s)]
  | _ => runs (pat_cls p) s
  end.

(* s1 and s2 share no character (otherwise the alternation is not a
   classification and the wire decoder rejects the case) *)
Definition pat_wf (p : pat) : bool :=
  match p with
  | PRuns s1 s2 => forallb (fun c => negb (mem_Z c s2)) s1
  | _ => true
  end.

(* find_start_of_previous_word(count, pattern=p) (WORD=False) *)
Definition find_start_of_previous_word_pat (d : doc) (count : Z) (p : pat) : option Z :=
  match nth_match (pat_iter p (rev (text_before_cursor d))) count with
  | Some (_, en) => Some (- en)
  | None => None
  end.

(* _is_word_before_cursor_complete(pattern=p) *)
Definition is_word_before_cursor_complete_pat (d : doc) (p : pat) : bool :=
  match find_start_of_previous_word_pat d 1 p with None => true | Some _ => false end.

(* get_word_before_cursor(pattern=p):
     if complete: return ""
     start = find_start_of_previous_word(pattern=p) or 0
     return text_before_cursor[len(text_before_cursor) + start:] *)
Definition get_word_before_cursor_pat (d : doc) (p : pat) : str :=
  if is_word_before_cursor_complete_pat d p then []
  else
    let tb := text_before_cursor d in
    let start := match find_start_of_previous_word_pat d 1 p with Some s => s | None => 0 end in
    slice_from tb (len tb + start).

(* `assert not (WORD and pattern)`: outer None = AssertionError *)
Definition find_start_of_previous_word_wp (d : doc) (count : Z) (WORD : bool) (p : pat)
  : option (option Z) :=
  if WORD then None else Some (find_start_of_previous_word_pat d count p).
Definition get_word_before_cursor_wp (d : doc) (WORD : bool) (p : pat) : option str :=
  if WORD then None else Some (get_word_before_cursor_pat d p).
