(* C04 - the memoised filter algebra of prompt_toolkit/filters/base.py.
   Filter objects live in a heap (a list; an object's identity is its index).
   [Filter.__and__/__or__/__invert__], [_AndList.create]/[_OrList.create]
   (flatten nested lists of the same kind, remove duplicates by identity,
   collapse a singleton), the per-object [_and_cache]/[_or_cache] dictionaries
   and [_invert_result] are modelled as coded.  The three per-object caches are
   kept as global association lists keyed by (self, other) resp. self - the
   same finite map, laid out differently.  Always/Never override the three
   operators ([Always() & x] is [x], [~Always()] is a NEW [Never()] object).
   Definitions only (proofs: Proofs/C04_FilterFacts.v). *)
From Coq Require Import ZArith List Bool.
From PTK Require Import Lib.Sx Model.C04_KeyProc.
Import ListNotations.
Open Scope Z_scope.

Inductive fnode : Type :=
| NAlways | NNever
| NCond (c : nat)
| NAnd (l : list nat)
| NOr (l : list nat)
| NNot (f : nat).

Record heap : Type := mkheap {
  nodes : list fnode;
  andc : list (nat * nat * nat);   (* (self, other, result) of self._and_cache[other] *)
  orc : list (nat * nat * nat);
  invc : list (nat * nat)          (* (self, result) of self._invert_result *)
}.

Definition node (h : heap) (i : nat) : fnode := nth i (nodes h) NNever.

(* evaluation: objects only refer to older objects, so one left-to-right pass
   computes every object's value *)
Definition eval_node (vals : list bool) (e : env) (n : fnode) : bool :=
  match n with
  | NAlways => true
  | NNever => false
  | NCond c => nth c e false
  | NAnd l => forallb (fun i => nth i vals false) l
  | NOr l => existsb (fun i => nth i vals false) l
  | NNot f => negb (nth f vals false)
  end.

Definition eval_nodes (ns : list fnode) (e : env) : list bool :=
  fold_left (fun vals n => vals ++ [eval_node vals e n]) ns [].

Definition value (h : heap) (e : env) (i : nat) : bool := nth i (eval_nodes (nodes h) e) false.

Fixpoint lookup2 (f g : nat) (c : list (nat * nat * nat)) : option nat :=
  match c with
  | [] => None
  | (f', g', r) :: t => if Nat.eqb f f' && Nat.eqb g g' then Some r else lookup2 f g t
  end.

Fixpoint lookup1 (f : nat) (c : list (nat * nat)) : option nat :=
  match c with
  | [] => None
  | (f', r) :: t => if Nat.eqb f f' then Some r else lookup1 f t
  end.

Fixpoint mem_nat (x : nat) (l : list nat) : bool :=
  match l with [] => false | y :: r => Nat.eqb x y || mem_nat x r end.

(* _remove_duplicates: keeps first occurrences, in order *)
Fixpoint dedupe_acc (acc l : list nat) : list nat :=
  match l with
  | [] => acc
  | x :: r => if mem_nat x acc then dedupe_acc acc r else dedupe_acc (acc ++ [x]) r
  end.
Definition dedupe (l : list nat) : list nat := dedupe_acc [] l.

(* `if isinstance(f, _AndList): filters_2.extend(f.filters) else: filters_2.append(f)` *)
Definition flat_and (h : heap) (f : nat) : list nat :=
  match node h f with NAnd l => l | _ => [f] end.
Definition flat_or (h : heap) (f : nat) : list nat :=
  match node h f with NOr l => l | _ => [f] end.

Definition alloc (h : heap) (n : fnode) : heap * nat :=
  (mkheap (nodes h ++ [n]) (andc h) (orc h) (invc h), length (nodes h)).

(* _AndList.create([self, other]) followed by `self._and_cache[other] = result` *)
Definition create_and (h : heap) (f g : nat) : heap * nat :=
  let l := dedupe (flat_and h f ++ flat_and h g) in
  let '(h1, r) := match l with [x] => (h, x) | _ => alloc h (NAnd l) end in
  (mkheap (nodes h1) ((f, g, r) :: andc h1) (orc h1) (invc h1), r).

Definition create_or (h : heap) (f g : nat) : heap * nat :=
  let l := dedupe (flat_or h f ++ flat_or h g) in
  let '(h1, r) := match l with [x] => (h, x) | _ => alloc h (NOr l) end in
  (mkheap (nodes h1) (andc h1) ((f, g, r) :: orc h1) (invc h1), r).

(* f & g : dispatch on the class of the left operand first *)
Definition mk_and (h : heap) (f g : nat) : heap * nat :=
  match node h f with
  | NAlways => (h, g)                       (* Always.__and__: return other *)
  | NNever => (h, f)                        (* Never.__and__: return self *)
  | _ =>
    match node h g with
    | NAlways => (h, f)
    | NNever => (h, g)
    | _ => match lookup2 f g (andc h) with
           | Some r => (h, r)
           | None => create_and h f g
           end
    end
  end.

Definition mk_or (h : heap) (f g : nat) : heap * nat :=
  match node h f with
  | NAlways => (h, f)                       (* Always.__or__: return self *)
  | NNever => (h, g)                        (* Never.__or__: return other *)
  | _ =>
    match node h g with
    | NAlways => (h, g)
    | NNever => (h, f)
    | _ => match lookup2 f g (orc h) with
           | Some r => (h, r)
           | None => create_or h f g
           end
    end
  end.

Definition mk_not (h : heap) (f : nat) : heap * nat :=
  match node h f with
  | NAlways => alloc h NNever               (* Always.__invert__: return Never() *)
  | NNever => alloc h NAlways
  | _ => match lookup1 f (invc h) with
         | Some r => (h, r)
         | None => let '(h1, r) := alloc h (NNot f) in
                   (mkheap (nodes h1) (andc h1) (orc h1) ((f, r) :: invc h1), r)
         end
  end.

(* construction history *)
Inductive fop : Type :=
| OCond (c : nat)          (* Condition(lambda: env[c]) *)
| OAlways | ONever         (* Always() / Never() *)
| OAnd (f g : nat) | OOr (f g : nat) | ONot (f : nat).

Definition valid_op (h : heap) (o : fop) : bool :=
  match o with
  | OAnd f g | OOr f g => Nat.ltb f (length (nodes h)) && Nat.ltb g (length (nodes h))
  | ONot f => Nat.ltb f (length (nodes h))
  | _ => true
  end.

Definition fstep (h : heap) (o : fop) : heap * nat :=
  match o with
  | OCond c => alloc h (NCond c)
  | OAlways => alloc h NAlways
  | ONever => alloc h NNever
  | OAnd f g => mk_and h f g
  | OOr f g => mk_or h f g
  | ONot f => mk_not h f
  end.

(* filters/utils.py: the two singletons behind to_filter(True/False) *)
Definition heap0 : heap := mkheap [NAlways; NNever] [] [] [].

(* ------------------------------------------------------------- wire format *)
Definition dec_fop (s : sx) : option fop :=
  match s with
  | L [A 0; A c] => if 0 <=? c then Some (OCond (Z.to_nat c)) else None
  | L [A 1] => Some OAlways
  | L [A 2] => Some ONever
  | L [A 3; A f; A g] => if (0 <=? f) && (0 <=? g) then Some (OAnd (Z.to_nat f) (Z.to_nat g)) else None
  | L [A 4; A f; A g] => if (0 <=? f) && (0 <=? g) then Some (OOr (Z.to_nat f) (Z.to_nat g)) else None
  | L [A 5; A f] => if 0 <=? f then Some (ONot (Z.to_nat f)) else None
  | _ => None
  end.

Definition enc_nats (l : list nat) : sx := L (map (fun i => A (Z.of_nat i)) l).
Definition enc_node (n : fnode) : sx :=
  match n with
  | NAlways => L [A 0]
  | NNever => L [A 1]
  | NCond c => L [A 2; A (Z.of_nat c)]
  | NAnd l => L [A 3; enc_nats l]
  | NOr l => L [A 4; enc_nats l]
  | NNot f => L [A 5; A (Z.of_nat f)]
  end.



(* per op: (result identity, the result object's class and children, its truth table);
   an op naming an object that does not exist ends the run with (-1) *)
Fixpoint run_fops (nc : nat) (h : heap) (ops : list fop) : list sx :=
  match ops with
  | [] => []
  | o :: r =>
      if valid_op h o then
        let '(h', i) := fstep h o in
        L [A (Z.of_nat i); enc_node (node h' i);
           L (map (fun e => sx_bool (value h' e i)) (all_envs nc)); A (Z.of_nat (length (nodes h')))]
        :: run_fops nc h' r
      else [L [A (-1)]]
  end.

(* case = (nconds ops) *)
Definition run_filters (c : list sx) : sx :=
  match c with
  | [A nc; L ops] =>
      match map_opt dec_fop ops with
      | Some ops' => if (0 <=? nc) && (nc <=? 6) then L (run_fops (Z.to_nat nc) heap0 ops') else bad_case
      | None => bad_case
      end
  | _ => bad_case
  end.
