(* C08 - the text-object functions of key_binding/bindings/vi.py as functions
   of (document, count, extra) returning the TextObject plus a ghost flag
   [failed]: the underlying Document query returned None / 0-by-default, or
   the object spans nothing (the cases the property says must be no-ops).
   The Document queries are those of Model/C02_DocQueries.v.

   [n] is event.arg as the text-object function sees it and [hc] tells whether
   event._arg is set there: the wrapper _apply_operator_to_text_object
   overwrites event._arg with operator count * motion count only when one of
   the two counts was typed (fix f3ffc71), so without a count % matches
   brackets and gg goes to the first line.

   H, M, L, gm are modelled for window.render_info = None only (no rendered
   window in the harness).  n and N (search) are not modelled. *)
From Coq Require Import ZArith List Bool.
From PTK Require Import Lib.Sx Lib.Py Gen.Whitespace Model.Document Model.BufferEdit
  Model.C02_DocQueries Model.C08_ViOps.
Import ListNotations.
Open Scope Z_scope.

Inductive tores :=
| TO (o : tobj) (failed : bool)
| TOErr.                       (* AssertionError inside the text-object function *)

Definition orz (o : option Z) : Z := match o with Some v => v | None => 0 end.
Definition mk1 (s : Z) : tobj := mkto s 0 EXCL.
(* TextObject(v) with failed := (v = 0) *)
Definition excl0 (v : Z) : tores := TO (mk1 v) (v =? 0).
(* `if match: TextObject(g match, type) else TextObject(0)` *)
Definition if_match (m : option Z) (g : Z -> Z) (t : totype) : tores :=
  match m with
  | Some v => if v =? 0 then TO (mk1 0) true else TO (mkto (g v) 0 t) false
  | None => TO (mk1 0) true
  end.

Inductive tok :=
| T_b (WORD : bool) | T_dollar | T_w (WORD : bool) | T_e (WORD : bool)
| T_word (WORD trail : bool)            (* iw aw iW aW *)
| T_ap | T_caret | T_zero
| T_ci (l r : Z) (inner : bool)
| T_lbrace | T_rbrace
| T_f (ch : Z) | T_F (ch : Z) | T_t (ch : Z) | T_T (ch : Z)
| T_repeat (reverse has : bool) (ch : Z) (backwards : bool)
| T_h | T_j | T_k | T_l
| T_H | T_M | T_L
| T_percent | T_bar | T_gg | T_g_ | T_ge (WORD : bool) | T_gm | T_G
| T_explicit (o : tobj)
| T_rep (reverse : bool).          (* ; and , reading the SESSION's vi_state.last_character_find
                                     (Model/C08_Session.v resolves it to T_repeat); outside a
                                     session there is no stored search *)

Definition text_object (k : tok) (d : doc) (n : Z) (hc : bool) : tores :=
  match k with
  | T_b W => excl0 (orz (find_start_of_previous_word d n W))
  | T_dollar => excl0 (get_end_of_line_position d)
  | T_w W =>
      let r := orz (find_next_word_beginning d n W) in
      excl0 (if r =? 0 then get_end_of_document_position d else r)
  | T_e W =>
      match find_next_word_ending d false n W with
      | Some v => if v =? 0 then TO (mkto 0 0 INCL) true else TO (mkto (v - 1) 0 INCL) false
      | None => TO (mkto 0 0 INCL) true
      end
  | T_word W trail =>
      let '(s, e) := find_boundaries_of_current_word d W false trail in
      TO (mkto s e EXCL) ((s =? 0) && (e =? 0))
  | T_ap =>
      match start_of_paragraph d 1 false, end_of_paragraph d n false with
      | Some s, Some e => TO (mkto s e EXCL) (s =? e)
      | _, _ => TOErr
      end
  | T_caret => excl0 (get_start_of_line_position d true)
  | T_zero => excl0 (get_start_of_line_position d false)
  | T_ci l r inner =>
      let '(s, e) :=
        if l =? r then (dfind_backwards ceq_exact d [l] false 1, dfind ceq_exact d [r] false false 1)
        else (find_enclosing_bracket_left d l r None, find_enclosing_bracket_right d l r None) in
      match s, e with
      | Some s', Some e' =>
          let off := if inner then 0 else 1 in
          TO (mkto (s' + 1 - off) (e' + off) EXCL) (e' + off =? s' + 1 - off)
      | _, _ => TO (mk1 0) true
      end
  | T_lbrace => match start_of_paragraph d n true with Some v => excl0 v | None => TOErr end
  | T_rbrace => match end_of_paragraph d n true with Some v => excl0 v | None => TOErr end
  | T_f ch => if_match (dfind ceq_exact d [ch] true false n) (fun v => v) INCL
  | T_F ch => excl0 (orz (dfind_backwards ceq_exact d [ch] true n))
  | T_t ch => if_match (dfind ceq_exact d [ch] true false n) (fun v => v - 1) INCL
  | T_T ch =>
      match dfind_backwards ceq_exact d [ch] true n with
      | Some v => if v =? 0 then TO (mk1 0) true else excl0 (v + 1)
      | None => TO (mk1 0) true
      end
  | T_repeat reverse has ch backwards =>
      if has then
        if xorb backwards reverse
        then if_match (dfind_backwards ceq_exact d [ch] true n) (fun v => v) EXCL
        else if_match (dfind ceq_exact d [ch] true false n) (fun v => v) INCL
      else TO (mk1 0) true
  | T_h => excl0 (get_cursor_left_position d n)
  | T_l => excl0 (get_cursor_right_position d n)
  | T_j => match get_cursor_down_position d n None with
           | Some v => TO (mkto v 0 LINEW) (on_last_line d)
           | None => TOErr
           end
  | T_k => match get_cursor_up_position d n None with
           | Some v => TO (mkto v 0 LINEW) (on_first_line d)
           | None => TOErr
           end
  | T_H | T_M => TO (mkto (- len (text_before_cursor d)) 0 LINEW) false
  | T_L => TO (mkto (len (text_after_cursor d)) 0 LINEW) false
  | T_percent =>
      if hc then
        if (0 <? n) && (n <=? 100) then
          TO (mkto (translate_row_col_to_index d ((n * line_count d - 1) / 100) 0 - dcur d) 0 LINEW)
             false
        else TO (mk1 0) true
      else
        let m := find_matching_bracket_position d None None in
        if m =? 0 then TO (mk1 0) true else TO (mkto m 0 INCL) false
  | T_bar => excl0 (get_column_cursor_position d (n - 1))
  | T_gg =>
      if hc then TO (mkto (translate_row_col_to_index d (n - 1) 0 - dcur d) 0 LINEW) false
      else TO (mkto (get_start_of_document_position d) 0 LINEW) false
  | T_g_ =>
      TO (mkto (last_non_blank_of_current_line_position d) 0 INCL)
         (len (rstrip_by is_space (current_line d)) =? 0)
  | T_ge W =>
      match find_previous_word_ending d n W with
      | Some v => TO (mkto (v - 1) 0 INCL) false
      | None => TO (mkto 0 0 INCL) true
      end
  | T_gm => TO (mk1 0) true
  | T_G => TO (mkto (translate_row_col_to_index d (line_count d - 1) 0 - dcur d) 0 LINEW) false
  | T_explicit o => TO o false
  | T_rep _ => TO (mk1 0) true
  end.

(* ---------------------------------------------------------------------- *)
(* Wire format *)

Definition dec_type (z : Z) : option totype :=
  match z with 0 => Some EXCL | 1 => Some INCL | 2 => Some LINEW | 3 => Some BLOCKT | _ => None end.
Definition enc_type (t : totype) : Z :=
  match t with EXCL => 0 | INCL => 1 | LINEW => 2 | BLOCKT => 3 end.

Definition dec_tok (s : sx) : option tok :=
  match s with
  | L [A 0; A a; A b; A t] =>
      match dec_type t with Some t' => Some (T_explicit (mkto a b t')) | None => None end
  | L [A 1; A w; A _; A _] => Some (T_b (w =? 1))
  | L [A 2; A _; A _; A _] => Some T_dollar
  | L [A 3; A w; A _; A _] => Some (T_w (w =? 1))
  | L [A 4; A w; A _; A _] => Some (T_e (w =? 1))
  | L [A 5; A w; A tr; A _] => Some (T_word (w =? 1) (tr =? 1))
  | L [A 6; A _; A _; A _] => Some T_ap
  | L [A 7; A _; A _; A _] => Some T_caret
  | L [A 8; A _; A _; A _] => Some T_zero
  | L [A 9; A l; A r; A i] => Some (T_ci l r (i =? 1))
  | L [A 10; A _; A _; A _] => Some T_lbrace
  | L [A 11; A _; A _; A _] => Some T_rbrace
  | L [A 12; A c; A _; A _] => Some (T_f c)
  | L [A 13; A c; A _; A _] => Some (T_F c)
  | L [A 14; A c; A _; A _] => Some (T_t c)
  | L [A 15; A c; A _; A _] => Some (T_T c)
  | L [A 16; A c; A bw; A h] => Some (T_repeat false (h =? 1) c (bw =? 1))
  | L [A 17; A c; A bw; A h] => Some (T_repeat true (h =? 1) c (bw =? 1))
  | L [A 18; A _; A _; A _] => Some T_h
  | L [A 19; A _; A _; A _] => Some T_j
  | L [A 20; A _; A _; A _] => Some T_k
  | L [A 21; A _; A _; A _] => Some T_l
  | L [A 22; A _; A _; A _] => Some T_H
  | L [A 23; A _; A _; A _] => Some T_M
  | L [A 24; A _; A _; A _] => Some T_L
  | L [A 25; A _; A _; A _] => Some T_percent
  | L [A 26; A _; A _; A _] => Some T_bar
  | L [A 27; A _; A _; A _] => Some T_gg
  | L [A 28; A _; A _; A _] => Some T_g_
  | L [A 29; A w; A _; A _] => Some (T_ge (w =? 1))
  | L [A 30; A _; A _; A _] => Some T_gm
  | L [A 31; A _; A _; A _] => Some T_G
  | L [A 32; A rv; A _; A _] => Some (T_rep (rv =? 1))
  | _ => None
  end.

Definition dec_opk (s : sx) : option opk :=
  match s with
  | L [A 1; A d; A r] => Some (OpDelete (d =? 1) (r =? 1))
  | L [A 2; A _; A _] => Some OpYank
  | L [A 3; A _; A _] => Some OpYankReg
  | L [A 4; A f; A _] => Some (OpTransform f)
  | L [A 5; A _; A _] => Some OpIndent
  | L [A 6; A _; A _] => Some OpUnindent
  | L [A 7; A _; A _] => Some OpReshape
  | _ => None
  end.

Definition enc_cd (c : cdata) : sx := L [sx_str (ctext c); A (ctype c)].
Definition enc_tobj (o : tobj) : sx := L [A (tstart o); A (tend o); A (enc_type (ttype o))].

Definition enc_vres (r : vres) (o : option tobj) (failed : bool) : sx :=
  let '(status, st) := r in
  L [A status; sx_str (btext (vbuf st)); A (bcur (vbuf st));
     sx_opt enc_cd (vclip st);
     sx_opt (fun p : Z * cdata => L [A (fst p); enc_cd (snd p)]) (vreg st);
     sx_bool (vins st);
     sx_opt enc_tobj o; sx_bool failed].

(* one Vi command <operator><text object> on (text, cursor) *)
Definition run_cmd (text : str) (cur : Z) (k : opk) (arg : Z) (hc : bool) (keys : list Z) (m : tok)
  (fix_ : bool) : sx :=
  let st0 := mkvst (mkbuf text cur) None None false in
  match text_object m (mkdoc text cur) arg hc with
  | TOErr => enc_vres (1, st0) None false
  | TO o failed =>
      let '(status, st) := run_op k st0 o (mkev arg keys) in
      let st' := if fix_ && (status =? 0) && negb (vins st)
                 then with_buf st (fix_vi_cursor (vbuf st)) else st in
      enc_vres (status, st') (Some o) failed
  end.

(* case = (text cursor (opkind p1 p2) arg count-typed (key data ...) (tok p1 p2 p3) fix);
   key data = the operator's key sequence *)
Definition run_C08_cmd (c : sx) : sx :=
  match c with
  | L [t; A cur; op; A arg; A hc; ks; m; A fx] =>
      match as_str t, dec_opk op, as_str ks, dec_tok m with
      | Some t', Some k, Some keys, Some m' =>
          if (0 <=? cur) && (cur <=? len t') then run_cmd t' cur k arg (hc =? 1) keys m' (fx =? 1)
          else bad_case
      | _, _, _, _ => bad_case
      end
  | _ => bad_case
  end.
