(* Python's str.upper() / str.lower() / str.title() over the whole code space,
   transcribed from CPython 3.12 Objects/unicodeobject.c (do_upper, do_lower,
   lower_ucs4, handle_capital_sigma, do_title) on top of the tables
   Gen/C01_CaseMap.v regenerated from the CPython that runs /repo:
     - _PyUnicode_ToUpperFull / ToLowerFull / ToTitleFull : c01_case_table
       (1 to 3 code points per image; identity when c is not in the table),
     - _PyUnicode_IsCased / _PyUnicode_IsCaseIgnorable : range lists.
   Definitions only; the finite facts about the tables (keys strictly
   increasing, ranges sorted and disjoint, ...) are in
   Proofs/C01_CaseMapFacts.v.  A str is a [list Z] of code points. *)
From Coq Require Import ZArith List Bool.
From PTK Require Import Lib.Py Gen.C01_CaseMap.
Import ListNotations.
Open Scope Z_scope.

Definition case_images := (list Z * (list Z * list Z))%type.

(* The table is sorted by key (C01_CaseMapFacts.case_table_sorted): stop at
   the first key above c. *)
Fixpoint case_lookup_in (t : list (Z * case_images)) (c : Z) : option case_images :=
  match t with
  | [] => None
  | (k, v) :: r =>
      if k =? c then Some v
      else if c <? k then None
      else case_lookup_in r c
  end.

Definition case_lookup (c : Z) : option case_images := case_lookup_in c01_case_table c.

(* inclusive ranges, sorted and disjoint (C01_CaseMapFacts.*_ranges_sorted) *)
Fixpoint in_ranges (rs : list (Z * Z)) (c : Z) : bool :=
  match rs with
  | [] => false
  | (a, b) :: r =>
      if c <? a then false
      else if c <=? b then true
      else in_ranges r c
  end.

(* _PyUnicode_IsCased, _PyUnicode_IsCaseIgnorable *)
Definition is_cased (c : Z) : bool := in_ranges c01_cased_ranges c.
Definition is_case_ignorable (c : Z) : bool := in_ranges c01_case_ignorable_ranges c.

(* _PyUnicode_ToUpperFull, _PyUnicode_ToLowerFull, _PyUnicode_ToTitleFull *)
Definition to_upper_full (c : Z) : str :=
  match case_lookup c with Some (u, _) => u | None => [c] end.
Definition to_lower_full (c : Z) : str :=
  match case_lookup c with Some (_, (l, _)) => l | None => [c] end.
Definition to_title_full (c : Z) : str :=
  match case_lookup c with Some (_, (_, t)) => t | None => [c] end.

Definition CAPITAL_SIGMA : Z := 931.   (* U+03A3 *)
Definition SMALL_SIGMA : Z := 963.     (* U+03C3 *)
Definition FINAL_SIGMA : Z := 962.     (* U+03C2 *)

(* for (j = ...; ...; j±1) { c = s[j]; if (!_PyUnicode_IsCaseIgnorable(c)) break; } *)
Fixpoint skip_case_ignorable (s : str) : str :=
  match s with
  | [] => []
  | c :: r => if is_case_ignorable c then skip_case_ignorable r else s
  end.

(* handle_capital_sigma(kind, data, length, i): [before] is data[0:i]
   REVERSED (so that its head is data[i-1]), [after] is data[i+1:length].
     backwards: skip case-ignorable characters; final_sigma = (one is left,
                j >= 0) && it is cased
     forwards:  skip case-ignorable characters; final_sigma = end of string
                || the character reached is not cased
   Note that a character can be both cased and case-ignorable (U+02B0,
   U+0345, ...): it is skipped, as in C. *)
Definition final_sigma (before after : str) : bool :=
  match skip_case_ignorable before with
  | [] => false
  | c :: _ =>
      if is_cased c then
        match skip_case_ignorable after with
        | [] => true
        | d :: _ => negb (is_cased d)
        end
      else false
  end.

Definition handle_capital_sigma (before after : str) : Z :=
  if final_sigma before after then FINAL_SIGMA else SMALL_SIGMA.

(* lower_ucs4(kind, data, length, i, c, mapped) *)
Definition lower_ucs4 (before : str) (c : Z) (after : str) : str :=
  if c =? CAPITAL_SIGMA then [handle_capital_sigma before after]
  else to_lower_full c.

(* do_upper: no context *)
Definition do_upper (s : str) : str := flat_map to_upper_full s.

(* do_lower, from position i = length before *)
Fixpoint do_lower_from (before s : str) : str :=
  match s with
  | [] => []
  | c :: r => lower_ucs4 before c r ++ do_lower_from (c :: before) r
  end.
Definition do_lower (s : str) : str := do_lower_from [] s.

(* do_title: previous_is_cased ? lower_ucs4 : _PyUnicode_ToTitleFull, then
   previous_is_cased = _PyUnicode_IsCased(c) *)
Fixpoint do_title_from (previous_is_cased : bool) (before s : str) : str :=
  match s with
  | [] => []
  | c :: r =>
      (if previous_is_cased then lower_ucs4 before c r else to_title_full c)
        ++ do_title_from (is_cased c) (c :: before) r
  end.
Definition do_title (s : str) : str := do_title_from false [] s.

Definition py_upper (s : list Z) : list Z := do_upper s.
Definition py_lower (s : list Z) : list Z := do_lower s.
Definition py_title (s : list Z) : list Z := do_title s.

(* kind: 0 upper, 1 lower, otherwise title (as Model/C01_CaseWord.case_F) *)
Definition case_F' (kind : Z) (s : list Z) : list Z :=
  match kind with
  | 0 => py_upper s
  | 1 => py_lower s
  | _ => py_title s
  end.
