(* C13 - why `done = self._loaded` must be read inside the same lock region as
   `new_items`.  [CItems i] / [CDone i] split consumer i's read into its two
   statements; in the code of /repo they are adjacent (one `with self._lock:`
   block), which is [CRead i].  A variant that reads the flag later - after the
   lock is released / after the items were yielded (seeded change C13-3) - can
   have loader steps in between. *)
From Coq Require Import ZArith List Bool.
From PTK Require Import Lib.Sx Lib.Py Model.C13_Threaded.
Import ListNotations.
Open Scope Z_scope.

Inductive label3 := Base (l : label) | CItems (i : nat) | CDone (i : nat).

Definition read_items (st : tstate) (c : consumer) : consumer :=
  if c_fin c then c else
  let skip := (t_np st - c_p0 c)%nat in
  let new := skipn (skip + c_iy c) (t_ls st) in
  mkc (c_iy c + length new) (c_p0 c) (c_out c ++ new) false false (c_start c).

Definition check_done (st : tstate) (c : consumer) : consumer :=
  if c_fin c then c else mkc (c_iy c) (c_p0 c) (c_out c) (t_loaded st) (c_ev c) (c_start c).

Definition with_cons (st : tstate) (cs : list consumer) : tstate :=
  mkt (t_store st) (t_ls st) (t_loaded st) (t_np st) (t_ph st) cs (t_fly st) (t_base st).

Definition tstep3 (st : tstate) (l : label3) : tstate :=
  match l with
  | Base l => tstep st l
  | CItems i => with_cons st (upd_nth (t_cons st) i (read_items st))
  | CDone i => with_cons st (upd_nth (t_cons st) i (check_done st))
  end.

Definition trun3 (st : tstate) (sched : list label3) : tstate := fold_left tstep3 sched st.

(* masked observation list for the harness's held reads: (6 S0 labels mask) *)
Fixpoint mask_obs (os : list sx) (mask : list Z) : list sx :=
  match os, mask with
  | o :: r, m :: mr => if m =? 0 then mask_obs r mr else o :: mask_obs r mr
  | _, _ => []
  end.
Definition run_threaded_masked (s0 : sx) (labels : list sx) (mask : sx) : sx :=
  match dec_strs s0, map_opt dec_label labels, as_str mask with
  | Some S0, Some ls, Some m => L (mask_obs (trun_obs (tinit S0) ls) m)
  | _, _, _ => bad_case
  end.
