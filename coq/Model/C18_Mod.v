(* C18 - HTML.__mod__ / ANSI.__mod__ around the % operator.  The % engine is
   outside the model: a conversion is an arbitrary function [conv spec s] from
   the value's string to the conversion's output (%s: identity; %5s: padding;
   %.3s: truncation; ...).  Definitions only.

     as coded:   value = tuple(escape(i) for i in value);  template % value
                 -> each conversion is applied to the ESCAPED value
     SPECIFICATION ([*_spec]; what inert interpolation under % means, and what
                 fixes/C18-html-mod-conversions.patch would compute):
                 -> each conversion's OUTPUT is escaped.  A specification is tied
                 to no code by nature; the theorems relate the code to it.     *)
From Coq Require Import ZArith List Bool.
From PTK Require Import Lib.Sx Lib.Py Model.C18_Fragments Model.C18_Ansi Model.C18_Html.
Import ListNotations.
Open Scope Z_scope.

Section Mod.
  Variable conv : Z -> str -> str.

  Fixpoint map2_conv (specs : list Z) (vals : list str) : list str :=
    match specs, vals with
    | sp :: ss, v :: vs => conv sp v :: map2_conv ss vs
    | _, _ => []
    end.

  Definition html_mod_markup (parts : list str) (specs : list Z) (vals : list str) : str :=
    fill parts (map2_conv specs (map (html_escape cfg_now) vals)).
  Definition html_mod_markup_spec (parts : list str) (specs : list Z) (vals : list str) : str :=
    fill parts (map (html_escape cfg_now) (map2_conv specs vals)).

  Definition ansi_mod_text (parts : list str) (specs : list Z) (vals : list str) : str :=
    fill parts (map2_conv specs (map (ansi_escape cfg_now) vals)).
  Definition ansi_mod_text_spec (parts : list str) (specs : list Z) (vals : list str) : str :=
    fill parts (map (ansi_escape cfg_now) (map2_conv specs vals)).
End Mod.
