(* C13 - the loader thread's event loops, statement by statement.

   After each `with self._lock: _loaded_strings.append(item)` and after the
   final `with self._lock: _loaded = True` the loader runs, OUTSIDE the lock,

       for event in list(self._string_load_events):      (fixes/C13-set-events-over-copy.patch)
           event.set()

   while consumers finish (`_string_load_events.remove(event)`) and new
   load() calls register (`.append(event)`) on the event-loop thread.
   Model/C13_Threaded.v takes push + whole loop as one [LStep] (enough for the
   safety theorems: they never look at the event flags).  Here the loop is
   split: [ESub] = the loader's next statement, where one `event.set()` call
   is one statement and the loader can be stopped on entering each call.
   [e_loop] = the events (consumer numbers) the current loop still has to set:
   the COPY taken when the loop started.

   [esub_pinned] is the code before the patch: `for event in
   self._string_load_events` is a list iterator = an index into the LIVE list
   of registered events ([pl_next]), with the event already fetched ([pl_cur]). *)
From Coq Require Import ZArith List Bool.
From PTK Require Import Lib.Sx Lib.Py Model.C13_Threaded.
Import ListNotations.
Open Scope Z_scope.

Definition set_cons (st : tstate) (cs : list consumer) : tstate :=
  mkt (t_store st) (t_ls st) (t_loaded st) (t_np st) (t_ph st) cs (t_fly st) (t_base st).

(* numbers of the consumers whose event is registered, in list order *)
Fixpoint active_from (n : nat) (cs : list consumer) : list nat :=
  match cs with
  | [] => []
  | c :: r => if c_fin c then active_from (S n) r else n :: active_from (S n) r
  end.
Definition active_ids (st : tstate) : list nat := active_from 0 (t_cons st).

(* the loader's locked statement, without the event loop that follows it *)
Definition loader_action (st : tstate) : tstate :=
  match t_ph st with
  | P0 | P4 => st
  | P2 => tstep st LStep
  | P3 (x :: r) => mkt (t_store st) (t_ls st ++ [x]) (t_loaded st) (t_np st) (P3 r) (t_cons st)
                       (t_fly st) (t_base st)
  | P3 [] => mkt (t_store st) (t_ls st) true (t_np st) P4 (t_cons st) (t_fly st) (t_base st)
  end.
Definition has_loop (p : phase) : bool := match p with P3 _ => true | _ => false end.

Record estate := mke { e_st : tstate; e_loop : option (list nat) }.

Definition some_if_nonempty (l : list nat) : option (list nat) :=
  match l with [] => None | _ => Some l end.

Definition esub (es : estate) : estate :=
  let st := e_st es in
  match e_loop es with
  | Some (i :: r) => mke (set_cons st (upd_nth (t_cons st) i set_ev)) (some_if_nonempty r)
  | Some [] => mke st None
  | None =>
      let st' := loader_action st in
      if has_loop (t_ph st) then mke st' (some_if_nonempty (active_ids st')) else mke st' None
  end.

Inductive elabel := ESub | EBase (l : label).

Fixpoint drain (fuel : nat) (es : estate) : estate :=
  match fuel with
  | O => es
  | S f => match e_loop es with Some _ => drain f (esub es) | None => es end
  end.

Definition estep (es : estate) (l : elabel) : estate :=
  match l with
  | ESub => esub es
  | EBase LStep =>   (* the loader runs on to its next locked statement's end *)
      let es1 := match e_loop es with Some _ => es | None => esub es end in
      drain (S (length (t_cons (e_st es1)))) es1
  | EBase l => mke (tstep (e_st es) l) (e_loop es)
  end.

Definition erun (es : estate) (sched : list elabel) : estate := fold_left estep sched es.
Definition einit (S0 : list str) : estate := mke (tinit S0) None.

Definition eok_label (es : estate) (l : elabel) : bool :=
  match l with ESub => true | EBase l => ok_label (e_st es) l end.
Fixpoint eok_sched (es : estate) (sched : list elabel) : bool :=
  match sched with
  | [] => true
  | l :: r => eok_label es l && eok_sched (estep es l) r
  end.

(* ---- the code before the patch: a live list iterator ----------------------- *)
Record pstate := mkp { p_st : tstate; p_cur : option nat; p_next : nat }.
   (* p_cur = Some i: stopped on entering set() of consumer i's event; p_next = iterator index *)

Definition fetch (st : tstate) (j : nat) : option nat := nth_error (active_ids st) j.

Definition psub (ps : pstate) : pstate :=
  let st := p_st ps in
  match p_cur ps with
  | Some i =>
      let st' := set_cons st (upd_nth (t_cons st) i set_ev) in
      match fetch st' (p_next ps) with
      | Some i' => mkp st' (Some i') (S (p_next ps))
      | None => mkp st' None 0
      end
  | None =>
      let st' := loader_action st in
      if has_loop (t_ph st) then
        match fetch st' 0 with
        | Some i' => mkp st' (Some i') 1
        | None => mkp st' None 0
        end
      else mkp st' None 0
  end.

Definition pstep (ps : pstate) (l : elabel) : pstate :=
  match l with
  | ESub => psub ps
  | EBase LStep => ps
  | EBase l => mkp (tstep (p_st ps) l) (p_cur ps) (p_next ps)
  end.
Definition prun (ps : pstate) (sched : list elabel) : pstate := fold_left pstep sched ps.
Definition pinit (S0 : list str) : pstate := mkp (tinit S0) None 0.

(* ---- schedules the harness can force (gated Event.set on the loader thread) -- *)
Definition ereplayable (maxc : nat) (es : estate) (l : elabel) : bool :=
  let st := e_st es in
  match l with
  | ESub => match e_loop es with
            | Some _ => true
            | None => match t_ph st with P0 | P4 => false | _ => true end
            end
  | EBase LStep => false
  | EBase CStart =>
      (* a load() registering its event WHILE a loop runs is covered by the theorems only: before the
         patch the live iterator also sets the new event (harmless, but one statement more), so such
         schedules cannot be forced identically on both versions of the code *)
      match e_loop es with None => replayable maxc st CStart | Some _ => false end
  | EBase l => replayable maxc st l
  end.

Definition ecandidates : list elabel :=
  [ESub; EBase CStart; EBase (CRead 0); EBase (CRead 1); EBase (CRead 2)].

Fixpoint eenum (fuel : nat) (maxc : nat) (es : estate) : list (list elabel) :=
  match fuel with
  | O => [[]]
  | S f =>
      match filter (ereplayable maxc es) ecandidates with
      | [] => [[]]
      | en => flat_map (fun l => map (cons l) (eenum f maxc (estep es l))) en
      end
  end.

Fixpoint ewalk (choices : list Z) (maxc : nat) (es : estate) : list elabel :=
  match choices with
  | [] => []
  | c :: r =>
      match filter (ereplayable maxc es) ecandidates with
      | [] => []
      | en =>
          match nth_error en (Z.to_nat (c mod (len en))) with
          | Some l => l :: ewalk r maxc (estep es l)
          | None => []
          end
      end
  end.

(* wire: labels as in Model/C13_Threaded.v, plus (8) = ESub *)
Definition dec_elabel (s : sx) : option elabel :=
  match s with
  | L [A 8] => Some ESub
  | _ => match dec_label s with Some l => Some (EBase l) | None => None end
  end.
Definition enc_elabel (l : elabel) : sx :=
  match l with ESub => L [A 8] | EBase l => enc_label l end.

Fixpoint erun_obs (es : estate) (sched : list elabel) : list sx :=
  match sched with
  | [] => []
  | l :: r => let es' := estep es l in obs (e_st es') :: erun_obs es' r
  end.

Definition run_ev (s0 : sx) (labels : list sx) : sx :=
  match dec_strs s0, map_opt dec_elabel labels with
  | Some S0, Some ls => L (erun_obs (einit S0) ls)
  | _, _ => bad_case
  end.
Definition run_eenum (s0 : sx) (maxc fuel : Z) : sx :=
  match dec_strs s0 with
  | Some S0 =>
      if (0 <=? maxc) && (maxc <=? 3) && (0 <=? fuel) && (fuel <=? 40)
      then L (map (fun sch => L (map enc_elabel sch)) (eenum (Z.to_nat fuel) (Z.to_nat maxc) (einit S0)))
      else bad_case
  | None => bad_case
  end.
Definition run_ewalk (s0 : sx) (maxc : Z) (choices : sx) : sx :=
  match dec_strs s0, as_str choices with
  | Some S0, Some ch =>
      if (0 <=? maxc) && (maxc <=? 3) then L (map enc_elabel (ewalk ch (Z.to_nat maxc) (einit S0)))
      else bad_case
  | _, _ => bad_case
  end.
