(* C02 - the remaining queries of prompt_toolkit.document.Document (the basic
   views and the coordinate translation are in Model/Document.v).  Written
   statement by statement after /repo/src/prompt_toolkit/document.py.

   `re` is replaced by hand scanners for exactly the six patterns of
   document.py (their pattern strings are regenerated into Gen/C02_Patterns.v
   and compared in Proofs/C02_Patterns.v on every run):
     _FIND_WORD_RE      ([a-zA-Z0-9_]+|[^a-zA-Z0-9_\s]+)   finditer = maximal runs of one non-blank class
     _FIND_BIG_WORD_RE  ([^\s]+)                           finditer = maximal runs of non-blanks
     _FIND_CURRENT_*    ^( run )  / ^( run \s* )           search   = run at offset 0 (+ following blanks)
   and `re.finditer(re.escape(sub), text, flags)` by leftmost non-overlapping
   literal search ([lit_matches]) under a character equivalence [ceq]: the
   identity, or for re.IGNORECASE the per-character relation regenerated from
   CPython's re ([ceq_fold] in Model/C02_Run.v, table Gen/C02_CaseFold.v;
   [ceq_ascii] below is only a convenience instance and is not what run_C02
   uses).  The queries here are cache-free; the module-level line cache
   (_text_to_document_cache) is modelled in Model/C02_Cache.v. *)
From Coq Require Import ZArith List Bool.
From PTK Require Import Lib.Sx Lib.Py Gen.Whitespace Model.Document.
Import ListNotations.
Open Scope Z_scope.

(* ---------------------------------------------------------------------- *)
(* Character classes *)

Definition is_wordch (c : Z) : bool :=
  ((97 <=? c) && (c <=? 122)) || ((65 <=? c) && (c <=? 90)) ||
  ((48 <=? c) && (c <=? 57)) || (c =? 95).
Definition re_space (c : Z) : bool := mem_Z c re_space_table.

(* 0 = blank (never part of a match), 1 = word, 2 = other *)
Definition cls_word (c : Z) : Z := if is_wordch c then 1 else if re_space c then 0 else 2.
Definition cls_big (c : Z) : Z := if re_space c then 0 else 1.
Definition word_cls (WORD : bool) : Z -> Z := if WORD then cls_big else cls_word.

(* regex.finditer(s) for the two run patterns: list of (start, end) *)
Fixpoint runs_aux (cls : Z -> Z) (s : str) (i : Z) (cur : option (Z * Z)) : list (Z * Z) :=
  match s with
  | [] => match cur with Some (st, _) => [(st, i)] | None => [] end
  | c :: r =>
      let k := cls c in
      let nxt := if k =? 0 then None else Some (i, k) in
      match cur with
      | None => runs_aux cls r (i + 1) nxt
      | Some (st, k0) =>
          if k =? k0 then runs_aux cls r (i + 1) cur
          else (st, i) :: runs_aux cls r (i + 1) nxt
      end
  end.
Definition runs (cls : Z -> Z) (s : str) : list (Z * Z) := runs_aux cls s 0 None.

(* `for i, match in enumerate(it): if i + 1 == count: return match` *)
Definition nth_match {T} (ms : list T) (count : Z) : option T :=
  if count <? 1 then None else nth_error ms (Z.to_nat (count - 1)).

(* `if i == 0 and match.start(1) == 0: count += 1` *)
Definition bump (ms : list (Z * Z)) (count : Z) : Z :=
  match ms with
  | (st, _) :: _ => if st =? 0 then count + 1 else count
  | [] => count
  end.

(* length of the maximal prefix satisfying p *)
Fixpoint span_len (p : Z -> bool) (s : str) : Z :=
  match s with
  | [] => 0
  | c :: r => if p c then 1 + span_len p r else 0
  end.

(* _FIND_CURRENT_[BIG_]WORD[_INCLUDE_TRAILING_WHITESPACE]_RE.search(s).end(1) *)
Definition cur_word_end (WORD incl_ws : bool) (s : str) : option Z :=
  match s with
  | [] => None
  | c :: _ =>
      let k := word_cls WORD c in
      if k =? 0 then None
      else
        let n := span_len (fun x => word_cls WORD x =? k) s in
        Some (if incl_ws then n + span_len re_space (skipn (Z.to_nat n) s) else n)
  end.

(* ---------------------------------------------------------------------- *)
(* Literal search *)

Definition ceq_exact (a b : Z) : bool := a =? b.
Definition lower_ascii (c : Z) : Z := if (65 <=? c) && (c <=? 90) then c + 32 else c.
Definition ceq_ascii (a b : Z) : bool := lower_ascii a =? lower_ascii b.
(* the equivalence used for re.IGNORECASE by run_C02 is in Model/C02_Run.v (regenerated table) *)

Fixpoint startswith_by (ceq : Z -> Z -> bool) (s p : str) : bool :=
  match p, s with
  | [], _ => true
  | y :: p', x :: s' => ceq x y && startswith_by ceq s' p'
  | _ :: _, [] => false
  end.

(* start offsets of re.finditer(re.escape(sub), s): leftmost, non-overlapping;
   the empty needle matches at every offset 0..len(s). *)
Fixpoint lit_matches (ceq : Z -> Z -> bool) (sub s : str) (i : Z) (skip : nat) : list Z :=
  match s with
  | [] => match skip with
          | O => if startswith_by ceq [] sub then [i] else []
          | S _ => []
          end
  | _ :: r =>
      match skip with
      | S k => lit_matches ceq sub r (i + 1) k
      | O => if startswith_by ceq s sub
             then i :: lit_matches ceq sub r (i + 1) (pred (length sub))
             else lit_matches ceq sub r (i + 1) O
      end
  end.
Definition find_iter (ceq : Z -> Z -> bool) (sub s : str) : list Z := lit_matches ceq sub s 0 O.

Definition dfind (ceq : Z -> Z -> bool) (d : doc) (sub : str) (in_line incl : bool) (count : Z)
  : option Z :=
  let text := if in_line then current_line_after_cursor d else text_after_cursor d in
  if negb incl && (len text =? 0) then None
  else
    let text' := if incl then text else slice_from text 1 in
    match nth_match (find_iter ceq sub text') count with
    | Some p => Some (if incl then p else p + 1)
    | None => None
    end.

Definition dfind_all (ceq : Z -> Z -> bool) (d : doc) (sub : str) : list Z :=
  find_iter ceq sub (dtext d).

Definition dfind_backwards (ceq : Z -> Z -> bool) (d : doc) (sub : str) (in_line : bool) (count : Z)
  : option Z :=
  let before := rev (if in_line then current_line_before_cursor d else text_before_cursor d) in
  match nth_match (find_iter ceq (rev sub) before) count with
  | Some p => Some (- p - len sub)
  | None => None
  end.

(* self.text.find(sub, cursor) == cursor *)
Definition has_match_at_current_position (d : doc) (sub : str) : bool :=
  startswith (text_after_cursor d) sub.

(* ---------------------------------------------------------------------- *)
(* Word motions *)

Definition find_start_of_previous_word (d : doc) (count : Z) (WORD : bool) : option Z :=
  match nth_match (runs (word_cls WORD) (rev (text_before_cursor d))) count with
  | Some (_, en) => Some (- en)
  | None => None
  end.

Definition next_word_beginning_core (d : doc) (count : Z) (WORD : bool) : option Z :=
  let ms := runs (word_cls WORD) (text_after_cursor d) in
  match nth_match ms (bump ms count) with
  | Some (st, _) => Some st
  | None => None
  end.

Definition previous_word_beginning_core (d : doc) (count : Z) (WORD : bool) : option Z :=
  match nth_match (runs (word_cls WORD) (rev (text_before_cursor d))) count with
  | Some (_, en) => Some (- en)
  | None => None
  end.

Definition find_next_word_beginning (d : doc) (count : Z) (WORD : bool) : option Z :=
  if count <? 0 then previous_word_beginning_core d (- count) WORD
  else next_word_beginning_core d count WORD.

Definition find_previous_word_beginning (d : doc) (count : Z) (WORD : bool) : option Z :=
  if count <? 0 then next_word_beginning_core d (- count) WORD
  else previous_word_beginning_core d count WORD.

Definition next_word_ending_core (d : doc) (incl : bool) (count : Z) (WORD : bool) : option Z :=
  let text := if incl then text_after_cursor d else slice_from (text_after_cursor d) 1 in
  match nth_match (runs (word_cls WORD) text) count with
  | Some (_, en) => Some (if incl then en else en + 1)
  | None => None
  end.

Definition previous_word_ending_core (d : doc) (count : Z) (WORD : bool) : option Z :=
  let text := slice_to (text_after_cursor d) 1 ++ rev (text_before_cursor d) in
  let ms := runs (word_cls WORD) text in
  match nth_match ms (bump ms count) with
  | Some (st, _) => Some (- st + 1)
  | None => None
  end.

Definition find_next_word_ending (d : doc) (incl : bool) (count : Z) (WORD : bool) : option Z :=
  if count <? 0 then previous_word_ending_core d (- count) WORD
  else next_word_ending_core d incl count WORD.

Definition find_previous_word_ending (d : doc) (count : Z) (WORD : bool) : option Z :=
  if count <? 0 then next_word_ending_core d false (- count) WORD
  else previous_word_ending_core d count WORD.

Definition find_boundaries_of_current_word (d : doc) (WORD lead trail : bool) : Z * Z :=
  let mb := cur_word_end WORD lead (rev (current_line_before_cursor d)) in
  let ma := cur_word_end WORD trail (current_line_after_cursor d) in
  let mb' :=
    match mb, ma with
    | Some _, Some _ =>
        if WORD then mb
        else match index (dtext d) (dcur d - 1), index (dtext d) (dcur d) with
             | Some c1, Some c2 => if xorb (is_wordch c1) (is_wordch c2) then None else mb
             | _, _ => mb
             end
    | _, _ => mb
    end in
  (match mb' with Some e => - e | None => 0 end,
   match ma with Some e => e | None => 0 end).

Definition get_word_before_cursor (d : doc) (WORD : bool) : str :=
  let tb := text_before_cursor d in
  if (len tb =? 0) || forallb is_space (slice_from tb (-1)) then []
  else
    let start := match find_start_of_previous_word d 1 WORD with Some s => s | None => 0 end in
    slice_from tb (len tb + start).

Definition get_word_under_cursor (d : doc) (WORD : bool) : str :=
  let '(s, e) := find_boundaries_of_current_word d WORD false false in
  slice2 (dtext d) (dcur d + s) (dcur d + e).

(* ---------------------------------------------------------------------- *)
(* Brackets *)

Definition current_char (d : doc) : option Z := index (dtext d) (dcur d).
Definition char_before_cursor (d : doc) : option Z := index (dtext d) (dcur d - 1).
Definition opt_is (o : option Z) (c : Z) : bool :=
  match o with Some x => x =? c | None => false end.

Fixpoint scan_right (l r : Z) (s : str) (i : Z) (stack : Z) : option Z :=
  match s with
  | [] => None
  | c :: rest =>
      let stack' := if c =? l then stack + 1 else if c =? r then stack - 1 else stack in
      if stack' =? 0 then Some i else scan_right l r rest (i + 1) stack'
  end.

Definition find_enclosing_bracket_right (d : doc) (l r : Z) (end_pos : option Z) : option Z :=
  if opt_is (current_char d) r then Some 0
  else
    let n := len (dtext d) in
    let e := match end_pos with None => n | Some e => Z.min n e end in
    (* for i in range(cursor + 1, e) *)
    let span := if e <? 0 then [] else slice2 (dtext d) (dcur d + 1) e in
    scan_right l r span 1 1.

Fixpoint scan_left (l r : Z) (s : str) (k : Z) (stack : Z) : option Z :=
  match s with
  | [] => None
  | c :: rest =>
      let stack' := if c =? r then stack + 1 else if c =? l then stack - 1 else stack in
      if stack' =? 0 then Some (- k) else scan_left l r rest (k + 1) stack'
  end.

Definition find_enclosing_bracket_left (d : doc) (l r : Z) (start_pos : option Z) : option Z :=
  if opt_is (current_char d) l then Some 0
  else
    let sp := match start_pos with None => 0 | Some s => Z.max 0 s end in
    (* for i in range(cursor - 1, sp - 1, -1) *)
    scan_left l r (rev (slice2 (dtext d) sp (dcur d))) 1 1.

Definition bracket_pairs : list (Z * Z) := [(40, 41); (91, 93); (123, 125); (60, 62)].

Fixpoint matching_bracket_loop (d : doc) (sp ep : option Z) (pairs : list (Z * Z)) : Z :=
  match pairs with
  | [] => 0
  | (a, b) :: rest =>
      if opt_is (current_char d) a then
        match find_enclosing_bracket_right d a b ep with Some v => v | None => 0 end
      else if opt_is (current_char d) b then
        match find_enclosing_bracket_left d a b sp with Some v => v | None => 0 end
      else matching_bracket_loop d sp ep rest
  end.
Definition find_matching_bracket_position (d : doc) (sp ep : option Z) : Z :=
  matching_bracket_loop d sp ep bracket_pairs.

(* ---------------------------------------------------------------------- *)
(* Lines: up / down / column / paragraphs *)

Definition up_pos (d : doc) (count : Z) (pc : option Z) : Z :=
  let column := match pc with None => cursor_position_col d | Some c => c end in
  translate_row_col_to_index d (Z.max 0 (cursor_position_row d - count)) column - dcur d.
Definition down_pos (d : doc) (count : Z) (pc : option Z) : Z :=
  let column := match pc with None => cursor_position_col d | Some c => c end in
  translate_row_col_to_index d (cursor_position_row d + count) column - dcur d.

(* A negative count moves the other way (fix 46fed32; before it: assert
   count >= 1).  The result type stays an option (None = AssertionError) for
   the callers in other models; it is never None any more
   (Proofs/C02_Lines.v: up_down_total). *)
Definition get_cursor_up_position (d : doc) (count : Z) (pc : option Z) : option Z :=
  if count <? 0 then Some (down_pos d (- count) pc) else Some (up_pos d count pc).
Definition get_cursor_down_position (d : doc) (count : Z) (pc : option Z) : option Z :=
  if count <? 0 then Some (up_pos d (- count) pc) else Some (down_pos d count pc).

(* fix 1019c4b: max(0, len(rstrip) - 1) - col *)
Definition last_non_blank_of_current_line_position (d : doc) : Z :=
  Z.max 0 (len (rstrip_by is_space (current_line d)) - 1) - cursor_position_col d.
(* the function as it stood before the fix (finding C02-F1) *)
Definition last_non_blank_of_current_line_position_pinned (d : doc) : Z :=
  len (rstrip_by is_space (current_line d)) - cursor_position_col d - 1.

Definition get_column_cursor_position (d : doc) (column : Z) : Z :=
  Z.max 0 (Z.min (len (current_line d)) column) - cursor_position_col d.

Definition get_start_of_document_position (d : doc) : Z := - dcur d.
Definition get_end_of_document_position (d : doc) : Z := len (dtext d) - dcur d.

(* match_func: not text or text.isspace() *)
Definition blank_line (l : str) : bool := forallb is_space l.

(* the loop shared by find_next_matching_line / find_previous_matching_line:
   result is 1 + index of the last matching line seen before count hit 0 *)
Fixpoint matching_line_loop (ls : list str) (index : Z) (count : Z) (result : option Z) : option Z :=
  match ls with
  | [] => result
  | l :: r =>
      let result' := if blank_line l then Some (1 + index) else result in
      let count' := if blank_line l then count - 1 else count in
      if count' =? 0 then result' else matching_line_loop r (index + 1) count' result'
  end.

Definition find_next_matching_line (d : doc) (count : Z) : option Z :=
  matching_line_loop (slice_from (lines d) (cursor_position_row d + 1)) 0 count None.
Definition find_previous_matching_line (d : doc) (count : Z) : option Z :=
  match matching_line_loop (rev (slice_to (lines d) (cursor_position_row d))) 0 count None with
  | Some v => Some (- v)
  | None => None
  end.

(* outer None = AssertionError from get_cursor_up/down_position (cannot happen any more) *)
Definition start_of_paragraph (d : doc) (count : Z) (before : bool) : option Z :=
  match find_previous_matching_line d count with
  | Some li =>
      if li =? 0 then Some (- dcur d)
      else match get_cursor_up_position d (- li) None with
           | Some u => Some (Z.min 0 (u + (if before then 0 else 1)))
           | None => None
           end
  | None => Some (- dcur d)
  end.

Definition end_of_paragraph (d : doc) (count : Z) (after : bool) : option Z :=
  match find_next_matching_line d count with
  | Some li =>
      if li =? 0 then Some (len (text_after_cursor d))
      else match get_cursor_down_position d li None with
           | Some u => Some (Z.max 0 (u - (if after then 0 else 1)))
           | None => None
           end
  | None => Some (len (text_after_cursor d))
  end.

Fixpoint count_leading (p : str -> bool) (ls : list str) : Z :=
  match ls with
  | [] => 0
  | l :: r => if p l then 1 + count_leading p r else 0
  end.
Definition empty_line_count_at_the_end (d : doc) : Z :=
  count_leading blank_line (rev (lines d)).

