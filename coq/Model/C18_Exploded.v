(* C18 - layout/utils.py: _ExplodedList, the list type explode_text_fragments
   returns ("as soon as items are added or the list is extended, the new items
   are automatically exploded as well").  Definitions only; the code as it is
   in /repo, plus the SPECIFICATION the two deviating methods are measured
   against: the semantics of a plain Python list (suffix _listsem; it is also
   what fixes/C18-exploded-list-index-iadd.patch would make them do). *)
From Coq Require Import ZArith List Bool.
From PTK Require Import Lib.Sx Lib.Py Model.C18_Fragments Model.C18_Ansi.
Import ListNotations.
Open Scope Z_scope.

(* list.__setitem__(slice(lo, hi), vals): PySlice_AdjustIndices, then stop = max(start, stop) *)
Definition list_set_slice {T} (l : list T) (lo hi : Z) (vals : list T) : list T :=
  let n := len l in
  let a := adj_index n lo in
  let b := Z.max a (adj_index n hi) in
  firstn (Z.to_nat a) l ++ vals ++ skipn (Z.to_nat b) l.

(* __setitem__(index, value) with an int index:
     index = slice(int_index, int_index + 1); super().__setitem__(index, explode_text_fragments([value])) *)
Definition setitem_int (l : list frag) (i : Z) (v : frag) : list frag :=
  list_set_slice l i (i + 1) (explode [v]).

(* __setitem__(slice, values) *)
Definition setitem_slice (l : list frag) (lo hi : Z) (vs : list frag) : list frag :=
  list_set_slice l lo hi (explode vs).

(* append(item) = extend([item]);  extend(lst) = super().extend(explode_text_fragments(lst)) *)
Definition el_extend (l : list frag) (vs : list frag) : list frag := l ++ explode vs.
Definition el_append (l : list frag) (v : frag) : list frag := el_extend l [v].

(* `lst += values`: list.__iadd__ is NOT overridden - the values are added as they are,
   the result is still an _ExplodedList *)
Definition el_iadd (l : list frag) (vs : list frag) : list frag := l ++ vs.

(* explode_text_fragments(lst) for an _ExplodedList: returned as it is *)
Definition explode_exploded (l : list frag) : list frag := l.

(* plain-list semantics of `lst[i] = v` / `lst += vs` (with exploding): negative
   indices count from the end, an index outside the list raises IndexError (None) *)
Definition setitem_int_listsem (l : list frag) (i : Z) (v : frag) : option (list frag) :=
  let n := len l in
  let j := if i <? 0 then i + n else i in
  if (j <? 0) || (n <=? j) then None
  else Some (list_set_slice l j (j + 1) (explode [v])).
Definition el_iadd_listsem (l : list frag) (vs : list frag) : list frag := el_extend l vs.

Inductive elop :=
| ESetInt (i : Z) (v : frag)
| ESetSlice (lo hi : Z) (vs : list frag)
| EAppend (v : frag)
| EExtend (vs : list frag)
| EIadd (vs : list frag).

Definition el_step (l : list frag) (o : elop) : list frag :=
  match o with
  | ESetInt i v => setitem_int l i v
  | ESetSlice lo hi vs => setitem_slice l lo hi vs
  | EAppend v => el_append l v
  | EExtend vs => el_extend l vs
  | EIadd vs => el_iadd l vs
  end.

Fixpoint el_run (l : list frag) (ops : list elop) : list (list frag) :=
  match ops with
  | [] => []
  | o :: r => let l' := el_step l o in l' :: el_run l' r
  end.

Definition dec_elop (s : sx) : option elop :=
  match s with
  | L [A 1; A i; f] => match dec_frag f with Some v => Some (ESetInt i v) | None => None end
  | L [A 2; A lo; A hi; L fs] => match map_opt dec_frag fs with Some v => Some (ESetSlice lo hi v) | None => None end
  | L [A 3; f] => match dec_frag f with Some v => Some (EAppend v) | None => None end
  | L [A 4; L fs] => match map_opt dec_frag fs with Some v => Some (EExtend v) | None => None end
  | L [A 5; L fs] => match map_opt dec_frag fs with Some v => Some (EIadd v) | None => None end
  | _ => None
  end.
