(* C19 - run_C19 : sx -> sx, the entry point run extracted (OCaml) and in Coq
   (vm_compute) by harness/c19.py.  Case = L (A op :: args). *)
From Coq Require Import ZArith List Bool String.
From PTK Require Import Lib.Sx Lib.Py Lib.C19_Str Gen.C19_Palette
     Model.C19_Palette Model.C19_Style Model.C19_Sgr Model.C19_FromDict Model.C19_Transform Model.C19_Cache Model.C19_Merged Model.C19_Float Model.C19_Nested.
Import ListNotations.
Open Scope Z_scope.

Definition enc_attrs (a : attrs) : sx :=
  L [sx_opt sx_str (a_color a); sx_opt sx_str (a_bgcolor a);
     sx_opt sx_bool (a_bold a); sx_opt sx_bool (a_underline a); sx_opt sx_bool (a_strike a);
     sx_opt sx_bool (a_italic a); sx_opt sx_bool (a_blink a); sx_opt sx_bool (a_reverse a);
     sx_opt sx_bool (a_hidden a)].

Definition dec_attrs (s : sx) : option attrs :=
  match s with
  | L [c; b; f1; f2; f3; f4; f5; f6; f7] =>
      match as_opt as_str c, as_opt as_str b,
            as_opt as_bool f1, as_opt as_bool f2, as_opt as_bool f3, as_opt as_bool f4,
            as_opt as_bool f5, as_opt as_bool f6, as_opt as_bool f7 with
      | Some c', Some b', Some x1, Some x2, Some x3, Some x4, Some x5, Some x6, Some x7 =>
          Some (mkA c' b' x1 x2 x3 x4 x5 x6 x7)
      | _, _, _, _, _, _, _, _, _ => None
      end
  | _ => None
  end.

Definition enc_res (r : res attrs) : sx :=
  match r with
  | Ok a => L [A 0; enc_attrs a]
  | Err e => L [A e]
  end.

Definition dec_rule (s : sx) : option (str * str) :=
  match s with
  | L [n; st] => match as_str n, as_str st with
                 | Some n', Some st' => Some (n', st')
                 | _, _ => None
                 end
  | _ => None
  end.
Definition dec_sheet (s : sx) : option (list (str * str)) :=
  match s with L l => map_opt dec_rule l | _ => None end.
Definition dec_sheets (s : sx) : option (list (list (str * str))) :=
  match s with L l => map_opt dec_sheet l | _ => None end.

Definition enc_state (s : sgr_state) : sx :=
  L [sx_opt sx_str (d_color s); sx_opt sx_str (d_bgcolor s);
     sx_bool (d_bold s); sx_bool (d_underline s); sx_bool (d_strike s); sx_bool (d_italic s);
     sx_bool (d_blink s); sx_bool (d_reverse s); sx_bool (d_hidden s)].

Definition enc_fragment (f : fragment) : sx := L [sx_str (fst f); sx_str (snd f)].

(* transformation trees: [0] swap, [1] reverse, [2 fg bg], [3 valid identity min max],
   [4] dummy, [5 filter t], [6 [t...]], [7 [] | [t]] *)
Fixpoint dec_transf (s : sx) : option transf :=
  match s with
  | L [A 0] => Some TSwap
  | L [A 1] => Some TReverse
  | L [A 2; fg; bg] =>
      match as_str fg, as_str bg with Some f, Some b => Some (TSetDefault f b) | _, _ => None end
  | L [A 3; v; i; A mn; A mx] =>
      match as_bool v, as_bool i with Some v', Some i' => Some (TAdjust v' i' mn mx) | _, _ => None end
  | L [A 4] => Some TDummy
  | L [A 5; f; t] =>
      match as_bool f, dec_transf t with Some f', Some t' => Some (TCond f' t') | _, _ => None end
  | L [A 6; L ts] =>
      match (fix go (l : list sx) : option (list transf) :=
               match l with
               | [] => Some []
               | x :: r => match dec_transf x, go r with
                           | Some y, Some r' => Some (y :: r')
                           | _, _ => None
                           end
               end) ts with
      | Some l => Some (TMerged l)
      | None => None
      end
  | L [A 7; L []] => Some (TDynamic None)
  | L [A 7; L [t]] => match dec_transf t with Some t' => Some (TDynamic (Some t')) | None => None end
  | _ => None
  end.

Definition dec_kernel (s : sx) : option (list (str * str)) :=
  match s with L l => map_opt dec_rule l | _ => None end.

Definition dec_query (s : sx) : option query :=
  match s with
  | L [A 0; A depth; a] => match dec_attrs a with Some a' => Some (QEsc depth a') | None => None end
  | L [A 1; A bg; A r; A g; A b; L ex] =>
      match map_opt as_str ex with Some ex' => Some (Q16 (negb (bg =? 0)) r g b ex') | None => None end
  | L [A 2; A r; A g; A b] => Some (Q256 r g b)
  | _ => None
  end.

Definition enc_answer (a : answer) : sx :=
  match a with
  | AStr s => sx_str s
  | A16 c n => L [A c; sx_str n]
  | A256 i => A i
  end.

(* style objects: [0 id] Style, [1] Dummy, [2 slot] Dynamic, [3 [children]] merged *)
Fixpoint dec_sty (s : sx) : option sty :=
  match s with
  | L [A 0; A id] => Some (SStyle id)
  | L [A 1] => Some SDummy
  | L [A 2; A slot] => Some (SDynamic slot)
  | L [A 3; L ts] =>
      match (fix go (l : list sx) : option (list sty) :=
               match l with
               | [] => Some []
               | x :: r => match dec_sty x, go r with
                           | Some y, Some r' => Some (y :: r')
                           | _, _ => None
                           end
               end) ts with
      | Some l => Some (SMerged l)
      | None => None
      end
  | _ => None
  end.

Definition dec_pool_entry (s : sx) : option (Z * rules_t) :=
  match s with
  | L [A id; rules] => match dec_sheet rules with Some r => Some (id, r) | None => None end
  | _ => None
  end.

Definition dec_event (s : sx) : option event :=
  match s with
  | L [A 0; A slot; L []] => Some (ESwitch slot None)
  | L [A 0; A slot; L [A id]] => Some (ESwitch slot (Some id))
  | L [A 1; A k; st] =>
      match as_str st with Some st' => if k <? 0 then None else Some (ELookup (Z.to_nat k) st') | None => None end
  | L [A 2; A k] => if k <? 0 then None else Some (ERules (Z.to_nat k))
  | _ => None
  end.

Definition enc_eanswer (a : eanswer) : sx :=
  match a with
  | ANone => L []
  | AAttrs r => enc_res r
  | ARules r => L [A 5; sx_list (fun nr : str * str => L [sx_str (fst nr); sx_str (snd nr)]) r]
  end.

(* outer style objects (Model/C19_Nested.v): same shapes as dec_sty *)
Fixpoint dec_sty1 (s : sx) : option sty1 :=
  match s with
  | L [A 0; A id] => Some (N1Style id)
  | L [A 1] => Some N1Dummy
  | L [A 2; A slot] => Some (N1Dynamic slot)
  | L [A 3; L ts] =>
      match (fix go (l : list sx) : option (list sty1) :=
               match l with
               | [] => Some []
               | x :: r => match dec_sty1 x, go r with
                           | Some y, Some r' => Some (y :: r')
                           | _, _ => None
                           end
               end) ts with
      | Some l => Some (N1Merged l)
      | None => None
      end
  | _ => None
  end.

(* [0 slot []|[id]] inner switch, [3 slot []|[0 id]|[1 k]] outer switch, [1 k s] outer look-up,
   [2 k] outer style_rules, [4 k s] look-up on inner object k *)
Definition dec_event1 (s : sx) : option event1 :=
  match s with
  | L [A 0; A slot; L []] => Some (E1Switch0 slot None)
  | L [A 0; A slot; L [A id]] => Some (E1Switch0 slot (Some id))
  | L [A 3; A slot; L []] => Some (E1Switch1 slot TNone)
  | L [A 3; A slot; L [A 0; A id]] => Some (E1Switch1 slot (TSheet id))
  | L [A 3; A slot; L [A 1; A k]] => if k <? 0 then None else Some (E1Switch1 slot (TObj (Z.to_nat k)))
  | L [A 1; A k; st] =>
      match as_str st with Some st' => if k <? 0 then None else Some (E1Lookup (Z.to_nat k) st') | None => None end
  | L [A 2; A k] => if k <? 0 then None else Some (E1Rules (Z.to_nat k))
  | L [A 4; A k; st] =>
      match as_str st with Some st' => if k <? 0 then None else Some (E1Lookup0 (Z.to_nat k) st') | None => None end
  | _ => None
  end.

Definition run_C19 (c : sx) : sx :=
  match c with
  | L [A 1; A mode; sheets; style_str; default] =>
      match dec_sheets sheets, as_str style_str, dec_attrs default with
      | Some sh, Some s, Some d =>
          if mode =? 0 then
            match sh with
            | [rules] => enc_res (style_get rules s d)
            | _ => bad_case
            end
          else if mode =? 1 then enc_res (merged_get sh s d)
          else bad_case
      | _, _, _ => bad_case
      end
  | L [A 2; A depth; a] =>
      match dec_attrs a with
      | Some a' => L [A 0; sx_str (escape_code depth a')]
      | None => bad_case
      end
  | L [A 3; params] =>
      match as_str params with
      | Some ps =>
          let st := select_graphic_rendition ps RESET in
          L [enc_state st; sx_str (create_style_string st)]
      | None => bad_case
      end
  | L [A 4; text] =>
      match as_str text with
      | Some t =>
          match ansi_fragments t with
          | Some fs => L [A 0; sx_list enc_fragment fs]
          | None => L [A 1]
          end
      | None => bad_case
      end
  | L [A 5; A r; A g; A b] => A (color256 r g b)
  | L [A 6; A bg; A r; A g; A b; exclude] =>
      match as_list exclude with
      | Some ex =>
          match map_opt as_str ex with
          | Some ex' =>
              let cn := get16 (negb (bg =? 0)) r g b ex' in
              L [A (fst cn); sx_str (snd cn)]
          | None => bad_case
          end
      | None => bad_case
      end
  | L [A 7; s] =>
      match as_str s with Some s' => sx_opt sx_Z (py_int16 s') | None => bad_case end
  | L [A 8; s] =>
      match as_str s with Some s' => sx_opt sx_str (parse_color s') | None => bad_case end
  | L [A 9; s] =>
      match as_str s with Some s' => sx_opt enc_attrs (parse_style_str s') | None => bad_case end
  | L [A 10; s] =>
      match as_str s with Some s' => sx_list sx_str (expand_classname s') | None => bad_case end
  | L [A 11; s] =>
      match as_str s with Some s' => sx_list sx_str (split_ws s') | None => bad_case end
  | L [A 12; A n] => L [sx_str (str_of_int n); sx_str (hex02 n)]
  | L [A 14; A mp; items; style_str] =>
      match dec_sheet items, as_str style_str with
      | Some it, Some st => enc_res (from_dict_get (negb (mp =? 0)) it st DEFAULT_ATTRS)
      | _, _ => bad_case
      end
  | L [A 15; t; a; opp; adj] =>
      match dec_transf t, dec_attrs a, dec_kernel opp, dec_kernel adj with
      | Some t', Some a', Some ko, Some ka =>
          enc_res (transform (fun k => assoc k ko) (fun _ _ k => assoc k ka) t' a')
      | _, _, _, _ => bad_case
      end
  | L [A 18; L calls] =>  (* ONE Vt100_Output: set_attributes(attrs, depth) in sequence; what each call writes *)
      match map_opt (fun c => match c with
                              | L [A depth; a] => match dec_attrs a with Some a' => Some (QEsc depth a') | None => None end
                              | _ => None end) calls with
      | Some qs => sx_list enc_answer (run_queries EMPTY_W qs)
      | None => bad_case
      end
  | L [A 20; t; a] =>     (* the same on the real float kernels; the flags of the tree are recomputed *)
      match dec_transf t, dec_attrs a with
      | Some t', Some a' => enc_res (transform_real t' a')
      | _, _ => bad_case
      end
  | L [A 21; A mn; A mx; A r; A g; A b] =>     (* the float kernels on three channel bytes *)
      L [sx_opt sx_str (opp_bytes r g b); sx_opt sx_str (adj_bytes mn mx r g b);
         sx_bool (valid_real mn mx); sx_bool (valid_real mn mx && identity_real mn mx)]
  | L [A 22; A mn; A mx; A r] =>               (* ... digest over the plane r x 0..255 x 0..255 *)
      let ks := map Z.of_nat (seq 0 256) in
      let num := fun o : option rgb => match o with
                                       | Some (x, y, z) =>
                                           if (0 <=? x) && (x <? 256) && (0 <=? y) && (y <? 256) && (0 <=? z) && (z <? 256)
                                           then x * 65536 + y * 256 + z + 1 else -1
                                       | None => 0 end in
      let row := fun (g : Z) =>
                   fold_left (fun (acc : Z * Z) (b : Z) =>
                                (fst acc + (b + 1) * num (opp_bytes_n r g b),
                                 snd acc + (b + 1) * num (adj_bytes_n mn mx r g b))) ks (0, 0) in
      let d := fold_left (fun (acc : Z * Z) (g : Z) =>
                            let w := row g in
                            ((fst acc * 1000003 + fst w) mod 2305843009213693951,
                             (snd acc * 1000003 + snd w) mod 2305843009213693951)) ks (0, 0) in
      L [A (fst d); A (snd d)]
  | L [A 16; L qs] =>
      match map_opt dec_query qs with
      | Some qs' => sx_list enc_answer (run_queries EMPTY_W qs')
      | None => bad_case
      end
  | L [A 19; L pool; L inner; L objs; L events] =>
      match map_opt dec_pool_entry pool, map_opt dec_sty inner, map_opt dec_sty1 objs, map_opt dec_event1 events with
      | Some p, Some i, Some o, Some es => sx_list enc_eanswer (run_events1 p i o (EMPTY_NS i o) es)
      | _, _, _, _ => bad_case
      end
  | L [A 17; L pool; L objs; L events] =>
      match map_opt dec_pool_entry pool, map_opt dec_sty objs, map_opt dec_event events with
      | Some p, Some o, Some es =>
          sx_list enc_eanswer (run_events p o ([], map (fun _ => None) o) es)
      | _, _, _ => bad_case
      end
  | L [A 13; rules; style_str] =>
      match dec_sheet rules, as_str style_str with
      | Some rs, Some s =>
          match style_get rs s DEFAULT_ATTRS with
          | Err e => L [A e]
          | Ok a =>
              let seq := escape_code 24 a in
              match decode_seq seq with
              | Ok back => L [A 0; enc_attrs a; sx_str seq; enc_attrs back]
              | Err e => L [A e]
              end
          end
      | _, _ => bad_case
      end
  | _ => bad_case
  end.
