(* C13 - ThreadedHistory at the granularity of thread switches: ONE model for
   safety, progress and the composition with the file (round 6).

   Compared with Model/C13_Threaded.v ([LStep] = locked statement + whole event
   loop; a consumer's read + yields + unregistering = one step) and
   Model/C13_ThreadedEv.v (loop split into set() calls, copy taken with the
   locked statement) every point where another thread can run is a step here:

   loader thread  [GL] = its next statement
       LNone, P2          strings = self.history.load_history_strings()   (snapshot)
       LNone, P3 (x::r)   with self._lock: self._loaded_strings.append(x)      -> LCopy
       LNone, P3 []       with self._lock: self._loaded = True                 -> LCopy
       LCopy              list(self._string_load_events)   (evaluated AFTER the lock is released:
                          load() calls that registered / finished since are in / out)  -> LSet ids
       LSet (i :: r)      event_i.set()        (also when load() i has finished or unregistered meanwhile)
   load() number i
       [GStart]           the call up to its first await (first one: cache reset, thread started)
       [GRead i]          the executor job `in_executor`: the lock region only (new_items, done, event.clear())
                          - its result is PENDING until
       [GCont i]          the coroutine goes on on the event-loop thread: items_yielded += ..., the yields,
                          and, if done, `finally: self._string_load_events.remove(event)`
                          (so a consumer's finish is NOT atomic with its last read: the loader, other
                          load() calls and append_string run in between)
   append_string          [GIns s] / [GSto s] as in Model/C13_Threaded.v
   another History instance (or process) on the same storage
       [GOther s]         its store_string(s): the storage grows, this object's cache does not.

   State: [g_st] is the tstate of Model/C13_Threaded.v in which consumer i is
   the LOGICAL consumer (a pending read result already applied) and [t_store]
   is the storage AS THIS OBJECT KNOWS IT (what was there when the loader read
   it + its own stores); [g_hold] keeps, for a consumer with a pending result,
   what the event-loop side still sees; [g_real] is the real storage: every
   stored string in order, tagged [true] when another instance stored it after
   the loader had read the storage (never seen by this object). *)
From Coq Require Import ZArith List Bool.
From PTK Require Import Lib.Sx Lib.Py Model.C13_Threaded Model.C13_ThreadedEv.
Import ListNotations.
Open Scope Z_scope.

Inductive gloop := LNone | LCopy | LSet (l : list nat).

Record gstate := mkg {
  g_st : tstate; g_loop : gloop; g_hold : list (nat * consumer); g_real : list (bool * str) }.

Inductive glabel :=
| GL | GStart | GRead (i : nat) | GCont (i : nat) | GIns (s : str) | GSto (s : str) | GOther (s : str).

Definition gset_ev (c : consumer) : consumer :=
  mkc (c_iy c) (c_p0 c) (c_out c) (c_fin c) true (c_start c).

Fixpoint held (h : list (nat * consumer)) (i : nat) : option consumer :=
  match h with
  | [] => None
  | (j, c) :: r => if Nat.eqb j i then Some c else held r i
  end.
Definition unhold (h : list (nat * consumer)) (i : nat) : list (nat * consumer) :=
  filter (fun p => negb (Nat.eqb (fst p) i)) h.

(* what the event-loop side sees of load() number i *)
Definition vis (gs : gstate) (i : nat) : option consumer :=
  match held (g_hold gs) i with
  | Some c => Some c
  | None => nth_error (t_cons (g_st gs)) i
  end.

(* the events in self._string_load_events, in order: a load() is registered
   until its continuation has seen done = True *)
Fixpoint reg_from (n : nat) (h : list (nat * consumer)) (cs : list consumer) : list nat :=
  match cs with
  | [] => []
  | c :: r =>
      if negb (c_fin c) || (match held h n with Some _ => true | None => false end)
      then n :: reg_from (S n) h r else reg_from (S n) h r
  end.
Definition reg_ids (gs : gstate) : list nat := reg_from 0 (g_hold gs) (t_cons (g_st gs)).

(* another instance stores [s] before the loader has read the storage: the
   storage grows, and so does the ghost [c_start] of every load() that is
   already waiting - it is going to yield that entry too ([c_start] = the
   entries stored or being stored when the load() started, plus those other
   instances stored between then and the loader's read) *)
Definition add_start (s : str) (c : consumer) : consumer :=
  if c_fin c then c else mkc (c_iy c) (c_p0 c) (c_out c) (c_fin c) (c_ev c) (c_start c ++ [s]).
Definition set_store (st : tstate) (s : str) : tstate :=
  mkt (t_store st ++ [s]) (t_ls st) (t_loaded st) (t_np st) (t_ph st) (map (add_start s) (t_cons st))
      (t_fly st) (t_base st).

Definition lset_of (l : list nat) : gloop := match l with [] => LNone | _ => LSet l end.

Definition gstep (gs : gstate) (l : glabel) : gstate :=
  let st := g_st gs in
  match l with
  | GL =>
      match g_loop gs with
      | LSet (i :: r) => mkg (set_cons st (upd_nth (t_cons st) i gset_ev)) (lset_of r) (g_hold gs) (g_real gs)
      | LSet [] => mkg st LNone (g_hold gs) (g_real gs)
      | LCopy => mkg st (lset_of (reg_ids gs)) (g_hold gs) (g_real gs)
      | LNone => mkg (loader_action st) (if has_loop (t_ph st) then LCopy else LNone) (g_hold gs) (g_real gs)
      end
  | GStart => mkg (tstep st CStart) (g_loop gs) (g_hold gs) (g_real gs)
  | GRead i =>
      match nth_error (t_cons st) i, held (g_hold gs) i with
      | Some c, None =>
          if c_fin c then gs
          else mkg (tstep st (CRead i)) (g_loop gs) ((i, c) :: g_hold gs) (g_real gs)
      | _, _ => gs
      end
  | GCont i => mkg st (g_loop gs) (unhold (g_hold gs) i) (g_real gs)
  | GIns s => mkg (tstep st (AIns s)) (g_loop gs) (g_hold gs) (g_real gs)
  | GSto s => mkg (tstep st (ASto s)) (g_loop gs) (g_hold gs) (g_real gs ++ [(false, s)])
  | GOther s =>
      match t_ph st with
      | P0 | P2 => mkg (set_store st s) (g_loop gs) (g_hold gs) (g_real gs ++ [(false, s)])
      | _ => mkg st (g_loop gs) (g_hold gs) (g_real gs ++ [(true, s)])
      end
  end.

Definition grun (gs : gstate) (sched : list glabel) : gstate := fold_left gstep sched gs.
Definition ginit (S0 : list str) : gstate := mkg (tinit S0) LNone [] (map (fun s => (false, s)) S0).

Definition real_store (gs : gstate) : list str := map snd (g_real gs).
Definition own_view (r : list (bool * str)) : list str := map snd (filter (fun p => negb (fst p)) r).

(* The schedules the safety theorem covers: [ok_label] of Model/C13_Threaded.v
   for load() / append_string (one append_string at a time, none of its halves
   between the first load()'s reset and the loader's reading of the storage,
   the first load() not inside one); another instance's store at ANY moment
   (round 7: in that window it is part of what the loader reads, and the
   waiting load() calls' ghost [c_start] follows, see [add_start]). *)
Definition gok_label (gs : gstate) (l : glabel) : bool :=
  let st := g_st gs in
  match l with
  | GStart => ok_label st CStart
  | GIns s => ok_label st (AIns s)
  | GSto s => ok_label st (ASto s)
  | _ => true
  end.
Fixpoint gok_sched (gs : gstate) (sched : list glabel) : bool :=
  match sched with
  | [] => true
  | l :: r => gok_label gs l && gok_sched (gstep gs l) r
  end.

(* ---- observation -------------------------------------------------------- *)
Fixpoint obs_cons_from (n : nat) (h : list (nat * consumer)) (cs : list consumer) : list sx :=
  match cs with
  | [] => []
  | c :: r => obs_cons (match held h n with Some c' => c' | None => c end) :: obs_cons_from (S n) h r
  end.
Fixpoint ev_from (n : nat) (h : list (nat * consumer)) (cs : list consumer) : list sx :=
  match cs with
  | [] => []
  | c :: r =>
      if negb (c_fin c) || (match held h n with Some _ => true | None => false end)
      then sx_bool (c_ev c) :: ev_from (S n) h r else ev_from (S n) h r
  end.
Definition gobs (gs : gstate) : sx :=
  let st := g_st gs in
  L [sx_strl (real_store gs); sx_strl (t_ls st); sx_bool (t_loaded st);
     L (obs_cons_from 0 (g_hold gs) (t_cons st));
     L (ev_from 0 (g_hold gs) (t_cons st));
     A (Z.of_nat (t_np st))].

Fixpoint grun_obs (gs : gstate) (sched : list glabel) : list sx :=
  match sched with
  | [] => []
  | l :: r => let gs' := gstep gs l in gobs gs' :: grun_obs gs' r
  end.

(* ---- schedules the harness can force -------------------------------------- *)
(* gates: the inner generator (before the snapshot / each item / the end), the
   loader leaving a lock region, the loader entering a set(), the consumer's
   executor job leaving its lock region, the inner store_string.  A read is
   asked for when the load()'s event is set (it would not block) - also when
   there is nothing new to read. *)
Definition greplayable (maxc : nat) (gs : gstate) (l : glabel) : bool :=
  let st := g_st gs in
  match l with
  | GL => match g_loop gs with
          | LNone => match t_ph st with P0 | P4 => false | _ => true end
          | _ => true
          end
  | GStart => fly_nil st && (length (t_cons st) <? maxc)%nat
  | GRead i =>
      match nth_error (t_cons st) i, held (g_hold gs) i with
      | Some c, None => negb (c_fin c) && c_ev c
      | _, _ => false
      end
  | GCont i => match held (g_hold gs) i with Some _ => true | None => false end
  | GIns _ => fly_nil st
  | GSto s => match t_fly st with [x] => str_eqb x s | _ => false end
  | GOther _ => true
  end.

Definition gcandidates (st : tstate) (pool opool : list str) : list glabel :=
  [GL; GStart; GRead 0; GRead 1; GRead 2; GCont 0; GCont 1; GCont 2]
  ++ match pool with [] => [] | s :: _ => [GIns s] end
  ++ match t_fly st with [] => [] | s :: _ => [GSto s] end
  ++ match opool with [] => [] | s :: _ => [GOther s] end.

Fixpoint genum (fuel : nat) (maxc : nat) (gs : gstate) (pool opool : list str) : list (list glabel) :=
  match fuel with
  | O => [[]]
  | S f =>
      match filter (greplayable maxc gs) (gcandidates (g_st gs) pool opool) with
      | [] => [[]]
      | en => flat_map (fun l => map (cons l)
                 (genum f maxc (gstep gs l)
                    (match l with GIns _ => tl pool | _ => pool end)
                    (match l with GOther _ => tl opool | _ => opool end))) en
      end
  end.

Fixpoint gwalk (choices : list Z) (maxc : nat) (gs : gstate) (pool opool : list str) : list glabel :=
  match choices with
  | [] => []
  | c :: r =>
      match filter (greplayable maxc gs) (gcandidates (g_st gs) pool opool) with
      | [] => []
      | en =>
          match nth_error en (Z.to_nat (c mod (len en))) with
          | Some l => l :: gwalk r maxc (gstep gs l)
                        (match l with GIns _ => tl pool | _ => pool end)
                        (match l with GOther _ => tl opool | _ => opool end)
          | None => []
          end
      end
  end.

(* a fair completion of a schedule: deliver, read, store, else let the loader go on *)
Fixpoint gfinish (fuel : nat) (gs : gstate) : list glabel :=
  match fuel with
  | O => []
  | S f =>
      let cands := [GCont 0; GCont 1; GCont 2; GRead 0; GRead 1; GRead 2]
                   ++ match t_fly (g_st gs) with [] => [] | s :: _ => [GSto s] end ++ [GL] in
      match filter (greplayable 3 gs) cands with
      | [] => []
      | l :: _ => l :: gfinish f (gstep gs l)
      end
  end.

(* wire: (8) GL, (2) GStart, (3 i) GRead, (9 i) GCont, (4 s) GIns, (5 s) GSto, (11 s) GOther *)
Definition dec_glabel (s : sx) : option glabel :=
  match s with
  | L [A 8] => Some GL
  | L [A 2] => Some GStart
  | L [A 3; A i] => if 0 <=? i then Some (GRead (Z.to_nat i)) else None
  | L [A 9; A i] => if 0 <=? i then Some (GCont (Z.to_nat i)) else None
  | L [A 4; e] => match as_str e with Some e' => Some (GIns e') | None => None end
  | L [A 5; e] => match as_str e with Some e' => Some (GSto e') | None => None end
  | L [A 11; e] => match as_str e with Some e' => Some (GOther e') | None => None end
  | _ => None
  end.
Definition enc_glabel (l : glabel) : sx :=
  match l with
  | GL => L [A 8]
  | GStart => L [A 2]
  | GRead i => L [A 3; A (Z.of_nat i)]
  | GCont i => L [A 9; A (Z.of_nat i)]
  | GIns s => L [A 4; sx_str s]
  | GSto s => L [A 5; sx_str s]
  | GOther s => L [A 11; sx_str s]
  end.

Definition run_fine (s0 : sx) (labels : list sx) : sx :=
  match dec_strs s0, map_opt dec_glabel labels with
  | Some S0, Some ls => L (grun_obs (ginit S0) ls)
  | _, _ => bad_case
  end.
Definition run_genum (s0 pool opool : sx) (maxc fuel : Z) : sx :=
  match dec_strs s0, dec_strs pool, dec_strs opool with
  | Some S0, Some p, Some q =>
      if (0 <=? maxc) && (maxc <=? 3) && (0 <=? fuel) && (fuel <=? 40)
      then L (map (fun sch => L (map enc_glabel sch)) (genum (Z.to_nat fuel) (Z.to_nat maxc) (ginit S0) p q))
      else bad_case
  | _, _, _ => bad_case
  end.
Definition run_gwalk (s0 pool opool : sx) (maxc : Z) (choices : sx) : sx :=
  match dec_strs s0, dec_strs pool, dec_strs opool, as_str choices with
  | Some S0, Some p, Some q, Some ch =>
      if (0 <=? maxc) && (maxc <=? 3) then L (map enc_glabel (gwalk ch (Z.to_nat maxc) (ginit S0) p q))
      else bad_case
  | _, _, _, _ => bad_case
  end.
Definition run_gfinish (s0 : sx) (labels : list sx) (fuel : Z) : sx :=
  match dec_strs s0, map_opt dec_glabel labels with
  | Some S0, Some ls =>
      if (0 <=? fuel) && (fuel <=? 200)
      then L (map enc_glabel (ls ++ gfinish (Z.to_nat fuel) (grun (ginit S0) ls)))
      else bad_case
  | _, _ => bad_case
  end.
