(* C19 - palette searches of output/vt100.py as coded:
   _256ColorCache.__missing__, _get_closest_ansi_color, _16ColorCache._get.
   Definitions only. *)
From Coq Require Import ZArith List Bool String.
From PTK Require Import Lib.Py Lib.C19_Str Gen.C19_Palette.
Import ListNotations.
Open Scope Z_scope.

(* The loop shared by both searches:
       for x in items:
           if eligible(x):
               d = cost(x)
               if d < distance: match = key(x); distance = d          *)
Fixpoint scan {T R} (elig : T -> bool) (cost : T -> Z) (key : T -> R)
         (l : list T) (m : R) (d : Z) : R * Z :=
  match l with
  | [] => (m, d)
  | x :: r =>
      if elig x then
        (if cost x <? d then scan elig cost key r (key x) (cost x)
         else scan elig cost key r m d)
      else scan elig cost key r m d
  end.

Definition rgb := (Z * Z * Z)%type.

Definition dist (r g b : Z) (c : rgb) : Z :=
  let '(r2, g2, b2) := c in
  (r - r2) * (r - r2) + (g - g2) * (g - g2) + (b - b2) * (b - b2).

(* "infinity" (> distance from #000000 to #ffffff) *)
Definition INF : Z := 257 * 257 * 3.

Fixpoint enumerate_from {T} (i : Z) (l : list T) : list (Z * T) :=
  match l with
  | [] => []
  | x :: r => (i, x) :: enumerate_from (i + 1) r
  end.

(* _256ColorCache.__missing__((r, g, b)) over an arbitrary table *)
Definition color256_in (table : list rgb) (r g b : Z) : Z :=
  fst (scan (fun ic : Z * rgb => 16 <=? fst ic)
            (fun ic => dist r g b (snd ic))
            (fun ic => fst ic)
            (enumerate_from 0 table) 0 INF).
Definition color256 : Z -> Z -> Z -> Z := color256_in colors_256.

(* _get_closest_ansi_color(r, g, b, exclude) *)
Definition s_ansidefault : str := Eval vm_compute in zs "ansidefault".
Definition stale_excludes : list str :=
  Eval vm_compute in [zs "ansilightgray"; zs "ansidarkgray"; zs "ansiwhite"; zs "ansiblack"].

Definition saturation (r g b : Z) : Z := Z.abs (r - g) + Z.abs (g - b) + Z.abs (b - r).

Definition exclude_list (r g b : Z) (exclude : list str) : list str :=
  if 30 <? saturation r g b then exclude ++ stale_excludes else exclude.

Definition closest_ansi_in (table : list (str * rgb)) (r g b : Z) (exclude : list str) : str :=
  let excl := exclude_list r g b exclude in
  fst (scan (fun nc : str * rgb => negb (str_eqb (fst nc) s_ansidefault) && negb (mem_str (fst nc) excl))
            (fun nc => dist r g b (snd nc))
            (fun nc => fst nc)
            table s_ansidefault INF).
Definition closest_ansi : Z -> Z -> Z -> list str -> str := closest_ansi_in ansi_colors_to_rgb.

(* _16ColorCache(bg)._get((r, g, b), exclude) -> (code, name); a KeyError of
   the code table would be code -1 (Proofs: cannot happen) *)
Definition code_of (bg : bool) (name : str) : Z :=
  match assoc name (if bg then bg_ansi_colors else fg_ansi_colors) with
  | Some c => c
  | None => -1
  end.
Definition get16 (bg : bool) (r g b : Z) (exclude : list str) : Z * str :=
  let m := closest_ansi r g b exclude in (code_of bg m, m).
