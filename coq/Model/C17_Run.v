(* C17 - harness entry point of the accept-boundary model.
   case   = (flags (label ...))     flags = (1 if output.responds_to_cpr) + (2 if the session has the
                                     user binding ('c-c', 'c-c'))
            label = (0 data) Write | (1 n) Read | (2) FlushInput | (3) FlushKeys | (4) Start
                  | (5) Exit | (6) ExitEnd | (7) CprRequest | (8) Close | (9) CprTimeout
   result = (snapshot ...) one per label:
            (phase queue kbuf store text cursor quoted wcpr results prefix events flags)
            phase  = 0 detached | 1 running | 2 result set, still attached | 3 in the finally block
                     waiting for cursor position reports | 4 exit() called twice
            item   = (keycode data), keycode = index in list(Keys) | 1000 + code point; _Flush = (-2 ())
            event  = (0) start | (1 late effect (key ...)) handler call | (2 late key) dropped
                   | (3 (key ...) (item ...)) thrown away by reset()
            result = (0 text) | (1) EOFError | (2) KeyboardInterrupt
            flags  = (out_of_fuel_or_nested_feed unmodelled_handler) *)
From Coq Require Import ZArith List Bool.
From PTK Require Import Lib.Sx Lib.Py Model.C03_Vt100Parser Model.C17_Typeahead Model.C17_Emacs.
Import ListNotations.
Open Scope Z_scope.

Definition sx_kp (k : kp) : sx := L [A (key_code k); sx_str (snd k)].
Definition sx_item (i : item) : sx :=
  match i with IKey k => sx_kp k | IFlush => L [A (-2); L []] end.
Definition sx_res (r : result) : sx :=
  match r with RText t => L [A 0; sx_str t] | REof => L [A 1] | RInt => L [A 2] end.
Definition sx_ev (e : ev bid) : sx :=
  match e with
  | EStart _ => L [A 0]
  | EInvoke lt b ks => L [A 1; sx_bool lt; A (snd b); sx_list sx_kp ks]
  | EDrop _ lt k => L [A 2; sx_bool lt; sx_kp k]
  | ELost _ ks q => L [A 3; sx_list sx_kp ks; sx_list sx_item q]
  end.

Definition phase_code (s : esys) : Z :=
  match cph (co s), at_ s with
  | CBroken _, _ => 4
  | _, Detached => 0
  | CRun _, _ => 1
  | CDone _, Attached => 2
  | CDone _, Exiting => 3
  end.

Definition snapshot (nlog : nat) (s : esys) : sx :=
  let c := co s in
  let e := est c in
  L [ A (phase_code s);
      sx_list sx_item (queue s);
      sx_list sx_kp (kbuf c);
      sx_list sx_item (store s);
      sx_str (etext e); A (Z.of_nat (ecur e)); sx_bool (equoted e);
      A (Z.of_nat (wcpr c));
      sx_list sx_res (results s);
      sx_str (prefix (par s));
      sx_list sx_ev (skipn nlog (rev (rlog c)));
      L [sx_bool (oof c || C03_Vt100Parser.oof (par s) || deep c); sx_bool (unmod e);
         sx_list sx_kp (fedl c)] ].   (* every key press handlers fed with first=True so far *)

Definition dec_label (s : sx) : option label :=
  match s with
  | L [A 0; d] => match as_str d with Some x => Some (LWrite x) | None => None end
  | L [A 1; A n] => if 0 <? n then Some (LRead n) else None
  | L [A 2] => Some LFlushInput
  | L [A 3] => Some LFlushKeys
  | L [A 4] => Some LStart
  | L [A 5] => Some LExit
  | L [A 6] => Some LExitEnd
  | L [A 7] => Some LCprRequest
  | L [A 8] => Some LClose
  | L [A 9] => Some LCprTimeout
  | _ => None
  end.

Fixpoint run_snap (ls : list label) (s : esys) : list sx :=
  match ls with
  | [] => []
  | l :: r =>
      let s' := e_step s l in
      snapshot (length (rlog (co s))) s' :: run_snap r s'
  end.

Definition run_C17 (c : sx) : sx :=
  match c with
  | L [r; L ls] =>
      match r, map_opt dec_label ls with
      | A f, Some labels =>
          if (0 <=? f) && (f <=? 3) then L (run_snap labels (e_init_sys (Z.testbit f 0) (Z.testbit f 1)))
          else bad_case
      | _, _ => bad_case
      end
  | _ => bad_case
  end.
