(* C19 - cache.memoized(maxsize=1024) around get_opposite_color: a SimpleCache
   keyed by the argument value, first-in first-out eviction, exceptions are
   not stored.  SwapLightAndDarkStyleTransformation restated over it.
   Definitions only. *)
From Coq Require Import ZArith List Bool.
From PTK Require Import Lib.Py Lib.C19_Str Model.C19_Style Model.C19_Transform Model.C19_Cache.
Import ListNotations.
Open Scope Z_scope.

(* SimpleCache.get(key, getter): newest entry first; when the size is
   exceeded the oldest key goes *)
Definition bounded_get {K V} (eqb : K -> K -> bool) (maxsize : nat) (f : K -> res V)
           (c : list (K * V)) (k : K) : res V * list (K * V) :=
  match lookup eqb k c with
  | Some v => (Ok v, c)
  | None =>
      match f k with
      | Err e => (Err e, c)                               (* the exception propagates *)
      | Ok v =>
          let c' := (k, v) :: c in
          (Ok v, if Nat.ltb maxsize (List.length c') then removelast c' else c')
      end
  end.

Definition opp_key_eqb (a b : option str) : bool := opt_eqb str_eqb a b.
Definition opp_cache : Type := list (option str * option str).
Definition MEMO_SIZE : nat := 1024.

Definition get_opposite_color_m (opp : kernel) (c : opp_cache) (x : option str)
  : res (option str) * opp_cache :=
  bounded_get opp_key_eqb MEMO_SIZE (get_opposite_color opp) c x.

(* SwapLightAndDarkStyleTransformation.transform_attrs over the memo *)
Definition swap_m (opp : kernel) (c : opp_cache) (a : attrs) : res attrs * opp_cache :=
  match get_opposite_color_m opp c (a_color a) with
  | (Err e, c1) => (Err e, c1)
  | (Ok col, c1) =>
      let a1 := set_color col a in
      match get_opposite_color_m opp c1 (a_bgcolor a1) with
      | (Err e, c2) => (Err e, c2)
      | (Ok b, c2) => (Ok (set_bgcolor b a1), c2)
      end
  end.

Fixpoint swap_history (opp : kernel) (c : opp_cache) (l : list attrs) : list (res attrs) :=
  match l with
  | [] => []
  | a :: r => let '(x, c') := swap_m opp c a in x :: swap_history opp c' r
  end.
