(* C11 - scrolling arithmetic of layout/containers.py Window and the wrapped
   height estimate of layout/controls.py UIContent.get_height_for_line.
   Definitions only; statement by statement after the code as it is. *)
From Coq Require Import ZArith List Bool.
From PTK Require Import Lib.Sx Lib.Py.
Import ListNotations.
Open Scope Z_scope.

(* ---------------------------------------------------------------------- *)
(* Window._scroll_without_linewrapping.do_scroll.
   int(min(a, window_size / 2, c)) with a float middle argument is
   min(a, trunc(window_size / 2), c) for ints a, c: Z.quot. *)
Definition do_scroll (allow_beyond : bool)
    (current_scroll so_start so_end cursor_pos window_size content_size : Z) : Z :=
  let so_start := Z.min so_start (Z.min (Z.quot window_size 2) cursor_pos) in
  let so_end := Z.min so_end (Z.min (Z.quot window_size 2) (content_size - 1 - cursor_pos)) in
  let cur := if current_scroll <? 0 then 0 else current_scroll in
  let cur := if negb allow_beyond && (content_size - window_size <? cur)
             then Z.max 0 (content_size - window_size) else cur in
  let cur := if cursor_pos - so_start <? cur then Z.max 0 (cursor_pos - so_start) else cur in
  let cur := if cur <? cursor_pos + 1 - window_size + so_end
             then cursor_pos + 1 - window_size + so_end else cur in
  cur.

(* ---------------------------------------------------------------------- *)
(* get_cwidth of a string = sum over its characters ([sw] = width of one
   source character, max(0, wcwidth)). *)
Fixpoint strw (sw : Z -> Z) (s : str) : Z :=
  match s with [] => 0 | c :: r => sw c + strw sw r end.

Definition BIG : Z := 100000000.   (* 10**8 *)

(* the `while text_width > width` loop of the prefix path; -1 = out of fuel *)
Fixpoint hfl_loop (fuel : nat) (pfxw : Z -> Z) (width h tw : Z) : Z :=
  match fuel with
  | O => -1
  | S f =>
      if width <? tw then
        let h := h + 1 in
        let tw := tw - width in
        let pw := pfxw (h - 1) in
        if width <=? pw then BIG else hfl_loop f pfxw width h (tw + pw)
      else h
  end.

(* UIContent.get_height_for_line(lineno, width, get_line_prefix, slice_stop)
   [line] is the text of line [lineno]; [pfx] = get_line_prefix. *)
Definition height_for_line (sw : Z -> Z) (haspfx : bool) (pfx : Z -> Z -> str)
    (line : str) (lineno width : Z) (slice_stop : option Z) : Z :=
  if width =? 0 then BIG else
  let line' := match slice_stop with None => line | Some s => slice_to line s end in
  let tw := strw sw line' in
  if haspfx then
    let tw := tw + strw sw (pfx lineno 0) in
    hfl_loop (S (Z.to_nat tw)) (fun k => strw sw (pfx lineno k)) width 1 tw
  else
    let q := tw / width in
    let r := tw mod width in
    Z.max 1 (if r =? 0 then q else q + 1).

(* ---------------------------------------------------------------------- *)
(* The three downward loops of _scroll_when_linewrapping: lines n-1, n-2 .. 0,
   accumulate heights, return the previous line number as soon as the sum
   exceeds [bound]; [at_end] is what is returned when the loop runs out. *)
Fixpoint down_loop (Hf : Z -> Z) (bound : Z) (at_end : Z -> Z) (n : nat) (used prev : Z) : Z :=
  match n with
  | O => at_end prev
  | S k =>
      let lineno := Z.of_nat k in
      let used := used + Hf lineno in
      if bound <? used then prev else down_loop Hf bound at_end k used lineno
  end.

Definition get_min_vertical_scroll (Hf : Z -> Z) (height bottom cy : Z) : Z :=
  down_loop Hf (height - bottom) (fun _ => 0) (Z.to_nat (cy + 1)) 0 cy.
Definition get_max_vertical_scroll (Hf : Z -> Z) (top cy : Z) : Z :=
  down_loop Hf top (fun p => p) (Z.to_nat cy) 0 cy.
Definition get_topmost_visible (Hf : Z -> Z) (height nlines : Z) : Z :=
  down_loop Hf height (fun p => p) (Z.to_nat nlines) 0 (nlines - 1).

Record sstate := mkss { vs : Z; vs2 : Z; hs : Z }.

(* Window._scroll_when_linewrapping.  [Hf] = get_line_height, [tbh slice] =
   get_height_for_line(cursor line, slice_stop=slice).  [fixed = true] is the
   code as it is now (slice_stop = cursor column + 1, /repo commit f4b07a8);
   [fixed = false] is the pinned snapshot (slice_stop = cursor column), kept
   only for the _pinned_refuted theorem. *)
Definition scroll_wrap_gen (fixed allow_beyond : bool) (Hf : Z -> Z) (tbh : Z -> Z)
    (width height top bottom cy cx nlines : Z) (st : sstate) : sstate :=
  if width <=? 0 then mkss cy 0 0 else
  let line_height := Hf cy in
  if height - top <? line_height then
    let text_before_height := tbh (if fixed then cx + 1 else cx) in
    let v2 := Z.min (text_before_height - 1) (Z.min (line_height - height) (vs2 st)) in
    let v2 := Z.max 0 (Z.max (text_before_height - height) v2) in
    mkss cy v2 0
  else
    let topmost := get_topmost_visible Hf height nlines in
    let v := Z.max (vs st) (Z.min topmost (get_min_vertical_scroll Hf height bottom cy)) in
    let v := Z.min v (get_max_vertical_scroll Hf top cy) in
    let v := if allow_beyond then v else Z.min v topmost in
    mkss v 0 0.

(* the code as it is in /repo, and the pinned snapshot *)
Definition scroll_wrap := scroll_wrap_gen true.
Definition scroll_wrap_pinned := scroll_wrap_gen false.

(* Window._scroll_without_linewrapping (line_count > 0, no get_*_scroll hooks).
   [line] = text of the cursor line, [pw] = width of get_line_prefix(cy, 0). *)
Definition scroll_nowrap (allow_beyond : bool) (sw : Z -> Z) (line : str) (pw : Z)
    (width height top bottom left right cy cx nlines : Z) (st : sstate) : sstate :=
  let v := do_scroll allow_beyond (vs st) top bottom cy height nlines in
  let h := do_scroll allow_beyond (hs st) left right (strw sw (slice_to line cx))
             (width - pw) (Z.max (strw sw line) (hs st + width)) in
  mkss v 0 h.
