(* C06 - Renderer.render / reset / erase WITH the terminal-mode toggles that
   Model/C06_Renderer.v leaves out: mouse support (Renderer._mouse_support_enabled,
   the mouse_support filter evaluated at every render) and cursor shapes
   (Renderer._last_cursor_shape, Vt100_Output._cursor_shape_changed,
   set_cursor_shape / reset_cursor_shape).  Alternate screen, bracketed paste and
   cursor-key mode are in the core already.  This is the function the harness
   runs against the real Renderer; Proofs/C06_ModesFacts.v shows it emits exactly
   the core's tokens plus raw mode sequences (which the terminal ignores), so
   every theorem about the core transfers, and that the mode state it leaves is
   the one a fresh renderer would leave.
   Raw ids: 7..10 = ESC[?1000h ?1003h ?1015h ?1006h (enable_mouse_support),
   11..14 = ESC[?1000l ?1015l ?1006l ?1003l (disable), 20+n = ESC[n q (cursor
   shape n; 20 = reset_cursor_shape).  A shape is given by its escape parameter;
   0 stands for CursorShape._NEVER_CHANGE. *)
From Coq Require Import ZArith List Bool.
From PTK Require Import Lib.Sx Lib.Py Model.C06_Terminal Model.C06_Renderer.
Import ListNotations.
Open Scope Z_scope.

Record mst := mkm {
  mcore : rst;
  mmouse : bool;            (* Renderer._mouse_support_enabled *)
  mlcs : option Z;          (* Renderer._last_cursor_shape *)
  mcsc : bool               (* Vt100_Output._cursor_shape_changed *)
}.

Definition mouse_on : list tok := [TRaw 7; TRaw 8; TRaw 9; TRaw 10].
Definition mouse_off : list tok := [TRaw 11; TRaw 12; TRaw 13; TRaw 14].

Definition m_reset (m : mst) : mst * list tok :=
  let r := mcore m in
  let t1 := if ralt r then [TRaw 5] else [] in
  let tm := if mmouse m then mouse_off else [] in
  let t2 := if rbp r then [TRaw 2] else [] in
  let tcs := if mcsc m then [TRaw 20] else [] in
  let '(cv, t3) := show_cursor (rcv r) in
  (mkm (mkr (0, 0) None None (rcfg r) cv false false (rckm r)) false None false,
   t1 ++ tm ++ t2 ++ tcs ++ t3).

Definition m_new : mst * list tok :=
  m_reset (mkm (mkr (0, 0) None None None None false false false) false None false).

Definition m_render (tbs : Z -> tabs) (fs : bool) (m : mst) (cfg : Z) (done : bool) (W H : Z) (scr : screen)
           (needs_mouse : bool) (shape : Z) : mst * list tok :=
  let r := mcore m in
  let ta := if fs && negb (ralt r) then [TRaw 4; THome] else [] in
  let tb1 := if rbp r then [] else [TRaw 1] in
  let tc := if rckm r then [] else [TRaw 3] in
  let '(mouse', tm) :=
    if needs_mouse && negb (mmouse m) then (true, mouse_on)
    else if negb needs_mouse && mmouse m then (false, mouse_off)
    else (mmouse m, []) in
  let last1 := if size_eqb (rsize r) W H then rlast r else None in
  let last2 := if cfg_eqb (rcfg r) cfg then last1 else None in
  let prevW := match rsize r with Some (w, _) => w | None => 0 end in
  let '(pos, cv, td) := screen_diff (tbs cfg) W H fs done scr last2 (rpos r) None prevW (rcv r) in
  let changed := match mlcs m with None => true | Some s => negb (s =? shape) end in
  let '(csc', tsh) :=
    if changed then (if shape =? 0 then (mcsc m, []) else (true, [TRaw (20 + shape)]))
    else (mcsc m, []) in
  let m1 := mkm (mkr pos (Some scr) (Some (W, H)) (Some cfg) cv (ralt r || fs) true true) mouse' (Some shape) csc' in
  if done then
    let '(m2, te) := m_reset m1 in (m2, ta ++ tb1 ++ tc ++ tm ++ td ++ tsh ++ te)
  else (m1, ta ++ tb1 ++ tc ++ tm ++ td ++ tsh).

Definition m_erase (m : mst) : mst * list tok :=
  let '(x, y) := rpos (mcore m) in
  let '(m2, t) := m_reset m in
  (m2, cub x ++ cuu y ++ [TED; TSGR 0; TAW true] ++ t).

Inductive mop :=
| MRender (cfg : Z) (done : bool) (W H : Z) (scr : screen) (needs_mouse : bool) (shape : Z)
| MErase
| MReset.

Definition core_op (o : mop) : op :=
  match o with
  | MRender cfg d W H scr _ _ => ORender cfg d W H scr
  | MErase => OErase
  | MReset => OReset
  end.

Definition m_step (tbs : Z -> tabs) (fs : bool) (m : mst) (o : mop) : mst * list tok :=
  match o with
  | MRender cfg done W H scr nm sh => m_render tbs fs m cfg done W H scr nm sh
  | MErase => m_erase m
  | MReset => m_reset m
  end.

(* raw sequences removed *)
Definition is_raw (k : tok) : bool := match k with TRaw _ => true | _ => false end.
Definition noraw (ks : list tok) : list tok := filter (fun k => negb (is_raw k)) ks.

(* the mode state of the terminal as far as these sequences define it *)
Record modes := mkmodes { md_alt : bool; md_bp : bool; md_mouse : bool; md_shape : Z }.
Definition mode_tok (s : modes) (k : tok) : modes :=
  match k with
  | TRaw 4 => mkmodes true (md_bp s) (md_mouse s) (md_shape s)
  | TRaw 5 => mkmodes false (md_bp s) (md_mouse s) (md_shape s)
  | TRaw 1 => mkmodes (md_alt s) true (md_mouse s) (md_shape s)
  | TRaw 2 => mkmodes (md_alt s) false (md_mouse s) (md_shape s)
  | TRaw 7 => mkmodes (md_alt s) (md_bp s) true (md_shape s)
  | TRaw 11 => mkmodes (md_alt s) (md_bp s) false (md_shape s)
  | TRaw i => if (20 <=? i) && (i <=? 26) then mkmodes (md_alt s) (md_bp s) (md_mouse s) (i - 20) else s
  | _ => s
  end.
Definition mode_run (s : modes) (ks : list tok) : modes := fold_left mode_tok ks s.
