(* C06 - wire decoding and the executable entry point run_C06.
   case   = [fs, cfgs, ops]
   cfgs   = [[ [style, attrs]... ], [ [attrs, pen, [color, bgcolor, underline, strike, blink, reverse]]... ]] ...
            (the six flags say which fields of the Attrs tuple are truthy)
   op     = [0, cfg, done, W, H, screen, needs_mouse, cursor_shape] | [1] (erase) | [2] (reset)
            (cursor_shape = the parameter n of ESC[n q, 0 = CursorShape._NEVER_CHANGE)
   screen = [height, show_cursor, cur_x, cur_y, [[y, [[x, chars, style, width]...]]...], [[y, x, id]...]]
   result = [[tokens, terminal dump] for the constructor and for every op] *)
From Coq Require Import ZArith List Bool.
From PTK Require Import Lib.Sx Lib.Py Model.C06_Terminal Model.C06_Renderer Model.C06_Modes.
Import ListNotations.
Open Scope Z_scope.

Definition bind {A B} (o : option A) (f : A -> option B) : option B :=
  match o with Some x => f x | None => None end.

Definition dec_cell (s : sx) : option (Z * cell) :=
  match s with
  | L [A x; c; A sid; A w] =>
      bind (as_str c) (fun cs =>
      if (0 <=? w) && (w <=? 2) then Some (x, mkc cs sid w) else None)
  | _ => None
  end.

Definition dec_row (s : sx) : option (Z * row) :=
  match s with
  | L [A y; L cells] => bind (map_opt dec_cell cells) (fun cs => Some (y, cs))
  | _ => None
  end.

Definition dec_zwe (s : sx) : option (Z * Z * Z) :=
  match s with L [A y; A x; A i] => Some (y, x, i) | _ => None end.

Definition dec_screen (s : sx) : option screen :=
  match s with
  | L [A h; sc; A x; A y; L rows; L zw] =>
      bind (as_bool sc) (fun b =>
      bind (map_opt dec_row rows) (fun rs =>
      bind (map_opt dec_zwe zw) (fun zs => Some (mks h b x y rs zs))))
  | _ => None
  end.

Definition dec_op (s : sx) : option mop :=
  match s with
  | L [A 0; A cfg; d; A W; A H; scr; nm; A shape] =>
      bind (as_bool d) (fun db => bind (dec_screen scr) (fun sc => bind (as_bool nm) (fun nmb =>
      if (1 <=? W) && (0 <=? H) && (0 <=? shape) && (shape <=? 6) then Some (MRender cfg db W H sc nmb shape) else None)))
  | L [A 1] => Some MErase
  | L [A 2] => Some MReset
  | _ => None
  end.

Definition dec_pair (s : sx) : option (Z * Z) :=
  match s with L [A a; A b] => Some (a, b) | _ => None end.
(* _StyleStringHasStyleCache.__missing__:
   bool(attrs.color or attrs.bgcolor or attrs.underline or attrs.strike or attrs.blink or attrs.reverse) *)
Definition has_style (color bgcolor underline strike blink reverse : bool) : bool :=
  color || bgcolor || underline || strike || blink || reverse.

Definition dec_attr (s : sx) : option (Z * (Z * bool)) :=
  match s with
  | L [A a; A p; L [c; b; u; k; bl; r]] =>
      match as_bool c, as_bool b, as_bool u, as_bool k, as_bool bl, as_bool r with
      | Some c', Some b', Some u', Some k', Some bl', Some r' => Some (a, (p, has_style c' b' u' k' bl' r'))
      | _, _, _, _, _, _ => None
      end
  | _ => None
  end.

Fixpoint alookup {T} (l : list (Z * T)) (k : Z) (d : T) : T :=
  match l with [] => d | (i, v) :: r => if i =? k then v else alookup r k d end.

Definition mk_tabs (stab : list (Z * Z)) (atab : list (Z * (Z * bool))) : tabs :=
  mkt (fun s => alookup stab s 0)
      (fun a => fst (alookup atab a (0, false)))
      (fun a => snd (alookup atab a (0, false))).

Definition dec_cfg (s : sx) : option tabs :=
  match s with
  | L [L st; L at_] =>
      bind (map_opt dec_pair st) (fun s1 => bind (map_opt dec_attr at_) (fun a1 => Some (mk_tabs s1 a1)))
  | _ => None
  end.

Definition tabs0 : tabs := mkt (fun _ => 0) (fun _ => 0) (fun _ => false).

Definition op_H (o : mop) : Z := match o with MRender _ _ _ H _ _ _ => H | _ => 0 end.

Fixpoint run_ops (tbs : Z -> tabs) (fs : bool) (nrows : Z) (r : mst) (t : term * Z) (curW curB : Z) (ops : list mop)
  : list sx :=
  match ops with
  | [] => []
  | o :: rest =>
      let '(r', ks) := m_step tbs fs r o in
      let W := op_width curW (core_op o) in
      let B := match o with MRender _ _ _ H _ _ _ => H | _ => curB end in
      let '(t1, n1) := trunB B W t ks in
      let t' := if op_shifts (core_op o) then tshift t1 (cy t1) else t1 in
      L [sx_toks ks; dump t' n1 W nrows] :: run_ops tbs fs nrows r' (t', n1) W B rest
  end.

Definition big : Z := 1073741824.

Definition run_C06 (s : sx) : sx :=
  match s with
  | L [f; L cfgs; L ops] =>
      match as_bool f, map_opt dec_cfg cfgs, map_opt dec_op ops with
      | Some fs, Some cs, Some os =>
          let tbs := fun c => nth (Z.to_nat c) cs tabs0 in
          let nrows := fold_left (fun m o => Z.max m (op_H o)) os 0 + 2 in
          let '(r0, k0) := m_new in
          let t0 := trun 1 term0 k0 in
          L (L [sx_toks k0; dump t0 0 1 nrows] :: run_ops tbs fs nrows r0 (t0, 0) 1 big os)
      | _, _, _ => bad_case
      end
  | _ => bad_case
  end.
