(* C17 - model of the accept boundary: Application.run_async._run_async
   (type-ahead replay at start, read_from_input with its guard, flush_input,
   the [finally] block), KeyProcessor.process_keys with the [app.is_done] gate,
   KeyProcessor._process (the coroutine), empty_queue, input/typeahead.py.
   Definitions only; proofs are in Proofs/C17_*.v.

   The model is a labelled transition system.  It is generic in
     - the terminal parser            (PS, pfeed, pflush)   instance: Model/C03_Vt100Parser
     - the key-binding dispatch       (lookup, lookup_scan, waits)
     - the handlers                   (eff, is_cprh), the per-prompt edit state E
   and is instantiated in Model/C17_Emacs.v with the binding table of a real
   PromptSession (regenerated from /repo).

   Python                                         here
   ------                                         ----
   KeyProcessor.input_queue                       queue     (items: key press | _Flush)
   KeyProcessor.key_buffer                        kbuf (in [core])
   typeahead._buffer[input.typeahead_hash()]      store
   app.future.done() / app.is_done                cph = CDone r
   app._is_running, input attached                att = Attached; Exiting = in the finally block,
                                                  awaiting renderer.wait_for_cpr_responses()
   len(renderer._waiting_for_cpr_futures)         wcpr
   OS pipe between writer and PosixStdinReader    pipe, wclosed
   matches[-1] after eager filtering              lookup e buffer
   matches[-1] in the retry scan                  lookup_scan e buffer[:i]
   is_prefix_of_longer_match and no eager match   waits e buffer
   handler.call(event)                            eff b key_sequence e = (e', Some r) when it calls app.exit(r)
   _handle_cpr_response: the last active binding   cpr_lookup e
     whose keys are exactly (CPRResponse,)
   "if retry and get_app().is_done": the keys     pb (push-back), put in front of the queue by process_q
     left in the buffer go back to input_queue
   event.key_processor.feed(k, first=True)         feeds b key_sequence e (joins pb in call)
*)
From Coq Require Import ZArith List Bool.
From PTK Require Import Lib.Py Gen.C03_AnsiSequences Model.C03_Vt100Parser.
Import ListNotations.
Open Scope Z_scope.
Set Implicit Arguments.

(* A key press is a C03 parser event: (key, data). *)
Definition kp := event.
Definition is_cpr (k : kp) : bool :=
  match fst k with KKey i => i =? key_CPRResponse | KChar _ => false end.

Inductive item := IKey (k : kp) | IFlush.
Definition item_is_cpr (i : item) : bool := match i with IKey k => is_cpr k | IFlush => false end.
Fixpoint ikeys (l : list item) : list kp :=
  match l with [] => [] | IKey k :: r => k :: ikeys r | IFlush :: r => ikeys r end.

(* get_next() when app.is_done: the first CPRResponse of the queue, removed *)
Fixpoint extract_cpr (q : list item) : option (kp * list item) :=
  match q with
  | [] => None
  | IKey k :: r =>
      if is_cpr k then Some (k, r)
      else match extract_cpr r with Some (c, r') => Some (c, IKey k :: r') | None => None end
  | IFlush :: r =>
      match extract_cpr r with Some (c, r') => Some (c, IFlush :: r') | None => None end
  end.

Inductive att := Detached | Attached | Exiting.

Inductive label :=
| LWrite (d : str)      (* the other end writes bytes into the pipe *)
| LRead (n : Z)         (* the reader callback fires; os.read(fd, n) *)
| LFlushInput           (* auto_flush_input: ttimeoutlen elapsed *)
| LFlushKeys            (* KeyProcessor._start_timeout: timeoutlen elapsed *)
| LStart                (* run_async: reset, replay type-ahead, attach *)
| LExit                 (* "await f" returns: the finally block up to wait_for_cpr_responses *)
| LExitEnd              (* all awaited reports arrived: store type-ahead, detach *)
| LCprRequest           (* the renderer asked for a cursor position report *)
| LClose                (* the write end is closed *)
| LCprTimeout.          (* wait_for_cpr_responses timed out: store type-ahead, detach *)

Section Sys.
Variables E bid res PS : Type.
Variable lookup : E -> list kp -> option bid.
Variable lookup_scan : E -> list kp -> option bid.
Variable waits : E -> list kp -> bool.
Variable eff : bid -> list kp -> E -> E * option res.
Variable is_cprh : bid -> bool.          (* the binding of bindings/cpr.py *)
Variable cpr_lookup : E -> option bid.   (* _handle_cpr_response: the binding a report is delivered to *)
Variable feeds : bid -> list kp -> E -> list kp.
  (* the key presses the handler puts at the FRONT of input_queue: event.key_processor.feed(k, first=True)
     (the C-j binding of basic.py feeds KeyPress(ControlM)); the first element ends up first *)
Variable restart : E -> E.               (* what a new prompt() resets *)
Variable pfeed : str -> PS -> PS * list kp.
Variable pflush : PS -> PS * list kp.
Variable res_eof : res.

Inductive cphase := CRun | CDone (r : res) | CBroken.

(* what reached a handler, what was dropped, what a reset threw away *)
Inductive ev :=
| EStart
| EInvoke (late : bool) (b : bid) (ks : list kp)   (* late: the result was already set *)
| EDrop (late : bool) (k : kp)
| ELost (ks : list kp) (q : list item).

(* KeyProcessor + the application state its handlers touch *)
Record core := mkcore {
  est : E;
  kbuf : list kp;
  cph : cphase;
  wcpr : nat;
  rlog : list ev;           (* newest first *)
  oof : bool;               (* a fuelled loop ran out (never: C17_fuel) *)
  pb : list kp;             (* keys put at the front of input_queue during this activation: fed by
                               a handler with first=True, or pushed back by the coroutine *)
  deep : bool;              (* a key fed by a handler was handled by a handler that feeds again: outside the model *)
  rpops : list kp;          (* ghost: key presses popped from input_queue, in order *)
  fedl : list kp            (* ghost: key presses fed by handlers (first=True), in the order of the calls *)
}.

Definition late (c : core) : bool := match cph c with CRun => false | _ => true end.
Definition set_kbuf (b : list kp) (c : core) := mkcore (est c) b (cph c) (wcpr c) (rlog c) (oof c) (pb c) (deep c) (rpops c) (fedl c).
Definition set_oof (c : core) := mkcore (est c) (kbuf c) (cph c) (wcpr c) (rlog c) true (pb c) (deep c) (rpops c) (fedl c).
Definition clear_pb (c : core) := mkcore (est c) (kbuf c) (cph c) (wcpr c) (rlog c) (oof c) [] (deep c) (rpops c) (fedl c).
Definition set_pb (l : list kp) (c : core) := mkcore (est c) (kbuf c) (cph c) (wcpr c) (rlog c) (oof c) l (deep c) (rpops c) (fedl c).
Definition set_deep (c : core) := mkcore (est c) (kbuf c) (cph c) (wcpr c) (rlog c) (oof c) (pb c) true (rpops c) (fedl c).
Definition add_pop (k : kp) (c : core) := mkcore (est c) (kbuf c) (cph c) (wcpr c) (rlog c) (oof c) (pb c) (deep c) (rpops c ++ [k]) (fedl c).
(* self.input_queue.extendleft(reversed(buffer)); del buffer[:] *)
Definition push_back (c : core) := mkcore (est c) [] (cph c) (wcpr c) (rlog c) (oof c) (kbuf c ++ pb c) (deep c) (rpops c) (fedl c).
Definition set_cph (p : cphase) (c : core) := mkcore (est c) (kbuf c) p (wcpr c) (rlog c) (oof c) (pb c) (deep c) (rpops c) (fedl c).
Definition set_wcpr (n : nat) (c : core) := mkcore (est c) (kbuf c) (cph c) n (rlog c) (oof c) (pb c) (deep c) (rpops c) (fedl c).
Definition add_ev (e : ev) (c : core) := mkcore (est c) (kbuf c) (cph c) (wcpr c) (e :: rlog c) (oof c) (pb c) (deep c) (rpops c) (fedl c).

(* _call_handler: Application.exit raises when the result is already set *)
Definition call (b : bid) (ks : list kp) (c : core) : core :=
  let er := eff b ks (est c) in
  mkcore (fst er) (kbuf c)
         (match snd er with
          | None => cph c
          | Some x => match cph c with CRun => CDone x | _ => CBroken end
          end)
         (if is_cprh b then pred (wcpr c) else wcpr c)
         (EInvoke (late c) b ks :: rlog c) (oof c) (feeds b ks (est c) ++ pb c) (deep c) (rpops c)
         (fedl c ++ feeds b ks (est c)).

(* for i in range(len(buffer), 0, -1): matches = _get_matches(buffer[:i]) ... break *)
Fixpoint scan (i : nat) (c : core) : option (bid * nat) :=
  match i with
  | O => None
  | S i' => match lookup_scan (est c) (firstn i (kbuf c)) with
            | Some b => Some (b, i)
            | None => scan i' c
            end
  end.

(* One activation of KeyProcessor._process from "key = yield" to the next
   yield: the body of "while True" repeated while retry is set; retries run
   with flush = False.  At the top of a retry pass, when a handler has set the
   application result, the keys left in the buffer are pushed back to the
   front of the input queue and the coroutine yields. *)
Definition retry (k : core -> core) (c1 : core) : core :=
  if late c1 then push_back c1 else k c1.

Fixpoint loop (fuel : nat) (flush : bool) (c : core) : core :=
  match kbuf c with
  | [] => c
  | k0 :: tl0 =>
      match fuel with
      | O => set_oof c
      | S f =>
          match cph c with
          | CBroken => c
          | _ =>
            if negb flush && waits (est c) (kbuf c) then c
            else match lookup (est c) (kbuf c) with
                 | Some b => set_kbuf [] (call b (kbuf c) c)     (* del buffer[:] after the call *)
                 | None =>
                     match scan (length (kbuf c)) c with
                     | Some (b, i) =>
                         retry (loop f false) (set_kbuf (skipn i (kbuf c)) (call b (firstn i (kbuf c)) c))
                     | None => retry (loop f false) (set_kbuf tl0 (add_ev (EDrop (late c) k0) c))
                     end
                 end
          end
      end
  end.

Definition send (it : item) (c : core) : core :=
  match it with
  | IKey k => loop (S (S (length (kbuf c)))) false (set_kbuf (kbuf c ++ [k]) c)
  | IFlush => loop (S (length (kbuf c))) true c
  end.

(* _handle_cpr_response: binding.call(event) on the report binding; the key
   buffer, the repetition argument and the previous-key bookkeeping are not
   touched *)
Definition handle_cpr (k : kp) (c : core) : core :=
  match cpr_lookup (est c) with
  | Some b => call b [k] c
  | None => c
  end.

(* process_keys: "if is_cpr: self._handle_cpr_response(key_press) else: self._process_coroutine.send(key_press)" *)
Definition deliver (it : item) (c : core) : core :=
  match it with
  | IKey k => if is_cpr k then handle_cpr k c else send it c
  | IFlush => send it c
  end.

Record sys := mksys {
  co : core;
  par : PS;
  pipe : str;
  wclosed : bool;
  queue : list item;
  store : list item;
  at_ : att;
  results : list res;
  decoded : list kp;        (* ghost: every key press the parser produced, in order *)
  rcpr : bool;              (* output.responds_to_cpr *)
  soof : bool
}.

Definition with_co (c : core) (s : sys) :=
  mksys c (par s) (pipe s) (wclosed s) (queue s) (store s) (at_ s) (results s) (decoded s) (rcpr s) (soof s).
Definition with_queue (q : list item) (s : sys) :=
  mksys (co s) (par s) (pipe s) (wclosed s) q (store s) (at_ s) (results s) (decoded s) (rcpr s) (soof s).

(* The key presses a handler fed with first=True are the next ones process_keys
   pops, before anything that was already waiting: as long as the result is not
   set they are delivered at once, one after the other.  What is left when the
   result gets set (fed keys not yet delivered, keys the coroutine pushed back)
   stays in [pb], to go to the front of the queue.  One level: a fed key whose
   own handler feeds again sets [deep] (and the model stops following). *)
Fixpoint drain (l : list kp) (c : core) : core :=
  match l with
  | [] => c
  | k :: l' =>
      let c' := deliver (IKey k) c in
      match cph c' with
      | CRun => match pb c' with
                | [] => drain l' c'
                | _ :: _ => set_deep (clear_pb c')     (* the model gives up: flagged *)
                end
      | _ => set_pb (pb c' ++ l') c'
      end
  end.
Definition deliver_d (it : item) (c : core) : core :=
  let c' := deliver it c in
  match cph c' with
  | CRun => drain (pb c') (clear_pb c')
  | _ => c'
  end.

(* process_keys: not_empty()/get_next() re-test app.is_done on every turn.
   While the result is not set the queue is popped from the left; once it is
   set only CPRResponse key presses are taken out (first one first), the other
   items stay where they are.  Written as one pass over the queue: the items
   skipped in the second mode are returned in order; keys left in [pb] (the
   result is set then) go in front of them. *)
Definition pop (it : item) (c : core) : core :=
  match it with IKey k => add_pop k c | IFlush => c end.
Fixpoint process_q (q : list item) (c : core) : core * list item :=
  match q with
  | [] => (c, [])
  | it :: q' =>
      match cph c with
      | CBroken => (c, q)
      | CRun =>
          let c' := deliver_d it (pop it c) in
          let r := process_q q' (clear_pb c') in
          (fst r, map IKey (pb c') ++ snd r)
      | CDone _ =>
          if item_is_cpr it then
            let c' := deliver it (pop it c) in
            let r := process_q q' (clear_pb c') in
            (fst r, map IKey (pb c') ++ snd r)
          else let r := process_q q' c in (fst r, it :: snd r)
      end
  end.
Definition pk (s : sys) : sys :=
  let r := process_q (queue s) (co s) in with_co (fst r) (with_queue (snd r) s).

(* feed_multiple(keys); process_keys() *)
Definition feed_keys (p : PS) (ks : list kp) (s : sys) : sys :=
  pk (mksys (co s) p (pipe s) (wclosed s) (queue s ++ map IKey ks) (store s) (at_ s) (results s)
            (decoded s ++ ks) (rcpr s) (soof s)).

(* empty_queue() + store_typeahead(); detach *)
Definition finish (r : res) (s : sys) : sys :=
  mksys (co s) (par s) (pipe s) (wclosed s) []
        (store s ++ filter (fun i => negb (item_is_cpr i)) (queue s))
        Detached (results s ++ [r]) (decoded s) (rcpr s) (soof s).

Definition do_read (n : Z) (s : sys) : sys :=
  match pipe s with
  | [] =>
      (* read_keys() returns nothing; process_keys() still runs *)
      let s1 := pk s in
      if wclosed s then
        match cph (co s1) with
        | CRun => with_co (set_cph (CDone res_eof) (co s1)) s1      (* f.set_exception(EOFError) *)
        | _ => s1
        end
      else s1
  | _ =>
      let chunk := firstn (Z.to_nat n) (pipe s) in
      let pr := pfeed chunk (par s) in
      feed_keys (fst pr) (snd pr)
        (mksys (co s) (par s) (skipn (Z.to_nat n) (pipe s)) (wclosed s) (queue s) (store s) (at_ s)
               (results s) (decoded s) (rcpr s) (soof s))
  end.

Definition step (s : sys) (l : label) : sys :=
  match cph (co s), l with
  | CBroken, _ => s
  | _, LWrite d =>
      if wclosed s then s
      else mksys (co s) (par s) (pipe s ++ d) (wclosed s) (queue s) (store s) (at_ s) (results s)
                 (decoded s) (rcpr s) (soof s)
  | _, LClose =>
      mksys (co s) (par s) (pipe s) true (queue s) (store s) (at_ s) (results s) (decoded s) (rcpr s) (soof s)
  | _, LRead n =>
      (* if not self._is_running and not self.renderer.waiting_for_cpr: return *)
      match at_ s with
      | Detached => s
      | Attached => do_read n s
      | Exiting => match wcpr (co s) with O => s | S _ => do_read n s end
      end
  | ph, LFlushInput =>
      match at_ s, ph with
      | Attached, CRun => let pr := pflush (par s) in feed_keys (fst pr) (snd pr) s    (* if not self.is_done *)
      | _, _ => s
      end
  | _, LFlushKeys =>
      match at_ s, kbuf (co s) with
      | Detached, _ => s
      | _, [] => s                                   (* if len(self.key_buffer) > 0 *)
      | _, _ :: _ => pk (with_queue (queue s ++ [IFlush]) s)
      end
  | _, LStart =>
      match at_ s with
      | Detached =>
          let c := co s in
          let lg := match kbuf c, queue s with [], [] => rlog c | _, _ => ELost (kbuf c) (queue s) :: rlog c end in
          pk (mksys (mkcore (restart (est c)) [] CRun (wcpr c) (EStart :: lg) (oof c) (pb c) (deep c) (rpops c) (fedl c))
                    (par s) (pipe s) (wclosed s) (store s) [] Attached (results s) (decoded s) (rcpr s) (soof s))
      | _ => s
      end
  | CDone r, LExit =>
      match at_ s with
      | Attached =>
          if rcpr s && negb (Nat.eqb (wcpr (co s)) 0)
          then mksys (co s) (par s) (pipe s) (wclosed s) (queue s) (store s) Exiting (results s)
                     (decoded s) (rcpr s) (soof s)
          else finish r s
      | _ => s
      end
  | CDone r, LExitEnd =>
      match at_ s, wcpr (co s) with
      | Exiting, O => finish r s
      | _, _ => s
      end
  | CDone r, LCprTimeout =>
      match at_ s with
      | Exiting => finish r (with_co (set_wcpr O (co s)) s)
      | _ => s
      end
  | _, LCprRequest =>
      match at_ s with
      | Attached => with_co (set_wcpr (S (wcpr (co s))) (co s)) s
      | _ => s
      end
  | _, _ => s
  end.

Definition run (ls : list label) (s : sys) : sys := fold_left step ls s.

Definition init_core (e : E) : core := mkcore e [] CRun O [] false [] false [] [].
Definition init (e : E) (p : PS) (r : bool) : sys :=
  mksys (init_core e) p [] false [] [] Detached [] [] r false.

(* ---------------------------------------------------------------------- *)
(* Vocabulary of the theorems *)

Definition nc (l : list kp) : list kp := filter (fun k => negb (is_cpr k)) l.

Definition ev_keys (e : ev) : list kp :=
  match e with
  | EStart => []
  | EInvoke _ _ ks => ks
  | EDrop _ k => [k]
  | ELost ks q => ks ++ ikeys q
  end.
(* every key press that left the queue, oldest first, excluding those still in the key buffer *)
Definition logged (c : core) : list kp := concat (map ev_keys (rev (rlog c))).

(* every key press that went into the key processor and left the key buffer again: handed to a
   handler, dropped, or thrown out of the key buffer by a reset (the queue part of ELost never
   entered the processor) *)
Definition hev_keys (e : ev) : list kp :=
  match e with ELost ks _ => ks | _ => ev_keys e end.
Definition handled (c : core) : list kp := concat (map hev_keys (rev (rlog c))).

(* a list of key presses tagged "fed by a handler" (true) / "popped from input_queue" (false):
   the whole list and its two sub-lists (an interleaving of tl_pop and tl_fed gives tl_all) *)
Definition tl_all (t : list (bool * kp)) : list kp := map snd t.
Definition tl_pop (t : list (bool * kp)) : list kp := map snd (filter (fun x => negb (fst x)) t).
Definition tl_fed (t : list (bool * kp)) : list kp := map snd (filter (fun x => fst x) t).

(* the per-prompt logs: the events between two EStart markers *)
Fixpoint split_prompts (l : list ev) (cur : list ev) : list (list ev) :=
  match l with
  | [] => [rev cur]
  | EStart :: r => rev cur :: split_prompts r []
  | e :: r => split_prompts r (e :: cur)
  end.
Definition prompt_logs (c : core) : list (list ev) := split_prompts (rev (rlog c)) [].

End Sys.
