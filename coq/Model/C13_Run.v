(* C13 - wire entry point: one function for all case kinds.
     (1 (op ...))                     file operations        -> one result per op
     (2 (s ...) (label ...))          ThreadedHistory replay -> one observation per label
     (3 (s ...) (pool ...) maxc fuel) enumerate replayable schedules
     (4 (s ...) (pool ...) maxc (choice ...)) one schedule by a guided walk
     (5 (byte ...))                   utf8_dec alone
     (6 (s ...) (label ...) (mask ...)) as 2, only the observations with mask <> 0
     (7 (s ...) (elabel ...))         replay at the granularity of the loader's single event.set() calls
     (8 (s ...) maxc fuel) / (9 (s ...) maxc (choice ...))   enumerate / walk such schedules
     (10 (s ...) (glabel ...))        replay at thread-switch granularity (Model/C13_ThreadedFine.v)
     (12 (s ...) (pool ...) (opool ...) maxc fuel) / (13 (s ...) (pool ...) (opool ...) maxc (choice ...))  enumerate / walk
     (14 (s ...) (glabel ...) fuel)   the schedule extended by a fair completion *)
From Coq Require Import ZArith List Bool.
From PTK Require Import Lib.Sx Lib.Py Model.C13_Utf8 Model.C13_HistFile Model.C13_Threaded Model.C13_ThreadedLate Model.C13_ThreadedEv Model.C13_ThreadedFine.
Import ListNotations.
Open Scope Z_scope.

Definition run_C13 (c : sx) : sx :=
  match c with
  | L [A 1; L ops] => run_file ops
  | L [A 2; s0; L labels] => run_threaded s0 labels
  | L [A 3; s0; pool; A maxc; A fuel] => run_enum s0 pool maxc fuel
  | L [A 4; s0; pool; A maxc; ch] => run_walk s0 pool maxc ch
  | L [A 7; s0; L labels] => run_ev s0 labels
  | L [A 8; s0; A maxc; A fuel] => run_eenum s0 maxc fuel
  | L [A 9; s0; A maxc; ch] => run_ewalk s0 maxc ch
  | L [A 10; s0; L labels] => run_fine s0 labels
  | L [A 14; s0; L labels; A fuel] => run_gfinish s0 labels fuel
  | L [A 12; s0; pool; opool; A maxc; A fuel] => run_genum s0 pool opool maxc fuel
  | L [A 13; s0; pool; opool; A maxc; ch] => run_gwalk s0 pool opool maxc ch
  | L [A 6; s0; L labels; mask] => run_threaded_masked s0 labels mask
  | L [A 5; b] => match as_str b with Some b' => sx_str (utf8_dec b') | None => bad_case end
  | _ => bad_case
  end.
