(* C18 - formatted_text/base.py: to_formatted_text's dispatch over the kinds
   of AnyFormattedText, merge_formatted_text and Template.  Definitions only.

   A value is described by what it IS (a tree), so evaluating it is a pure
   function: converting the same object any number of times must give the
   same fragments each time.  The harness converts each real object three
   times and compares every conversion (and the earlier returned lists) with
   this one answer. *)
From Coq Require Import ZArith List Bool.
From PTK Require Import Lib.Sx Lib.Py Model.C18_Fragments Model.C18_Ansi.
Import ListNotations.
Open Scope Z_scope.

Inductive fval :=
| VNone                                   (* None *)
| VStr (s : str)                          (* a str *)
| VList (frs : list frag)                 (* a list of tuples / a FormattedText *)
| VMagic (frs : list frag)                (* an object whose __pt_formatted_text__() returns frs (HTML, ANSI, ...) *)
| VCall (v : fval)                        (* a callable returning v *)
| VMerge (items : list fval)              (* merge_formatted_text(items) *)
| VTemplate (text : str) (vals : list fval)  (* Template(text).format( *vals ) *)
| VOther (repr : str).                    (* any other object; f"{value}" = repr *)

(* text.split("{}") *)
Fixpoint split_braces (s : str) (cur : str) : list str :=
  match s with
  | [] => [rev cur]
  | c :: r =>
      match r with
      | d :: r2 => if (c =? 123) && (d =? 125) then rev cur :: split_braces r2 []
                   else split_braces r (c :: cur)
      | [] => split_braces r (c :: cur)
      end
  end.

(* "{0}" in text *)
Definition has_brace0 (s : str) : bool := 0 <=? find_sub [123; 48; 125] s.

Definition res_app (a b : res (list frag)) : res (list frag) :=
  match a with
  | Err e => Err e
  | Ok x => match b with Err e => Err e | Ok y => Ok (x ++ y) end
  end.

(* result.append(("", part)); result.extend(to_formatted_text(val)) for part, val in zip(parts, values);
   result.append(("", parts[-1])) -- [vals] already evaluated *)
Fixpoint template_zip (parts : list str) (vals : list (res (list frag))) : res (list frag) :=
  match parts with
  | [] => Ok []
  | [p] => Ok [mkfrag [] p []]
  | p :: ps =>
      match vals with
      | v :: vs => res_app (res_app (Ok [mkfrag [] p []]) v) (template_zip ps vs)
      | [] => Ok [mkfrag [] p []]          (* unreachable: lengths were asserted equal *)
      end
  end.

(* to_formatted_text(value, style="", auto_convert=ac), before the style is applied.
   Errors: 1 = ValueError, 4 = AssertionError (Template). *)
Fixpoint convert (ac : bool) (v : fval) : res (list frag) :=
  match v with
  | VNone => Ok []
  | VStr s => Ok [mkfrag [] s []]
  | VList frs => Ok frs
  | VMagic frs => Ok frs
  | VCall x => convert false x               (* `return to_formatted_text(value(), style=style)`: auto_convert is not passed on *)
  | VMerge items =>
      (fix go (l : list fval) : res (list frag) :=
         match l with
         | [] => Ok []
         | x :: r => match convert false x with
                     | Err e => Err e       (* the loop stops at the first item that raises *)
                     | Ok a => match go r with Err e => Err e | Ok b => Ok (a ++ b) end
                     end
         end) items
  | VTemplate text vals =>
      let parts := split_braces text [] in
      if has_brace0 text then Err 4               (* Template.__init__: assert "{0}" not in text *)
      else if negb (len parts - 1 =? len vals) then Err 4
      else template_zip parts
             ((fix go (l : list fval) : list (res (list frag)) :=
                 match l with [] => [] | x :: r => convert false x :: go r end) vals)
  | VOther repr => if ac then Ok [mkfrag [] repr []] else Err 1
  end.

(* The zip in Template evaluates values left to right and stops at the first
   that raises; res_app keeps the first error, so the order is the same. *)

Definition to_formatted_text (style : str) (ac : bool) (v : fval) : res (list frag) :=
  match convert ac v with
  | Err e => Err e
  | Ok frs => Ok (apply_style style frs)
  end.

(* ---------------------------------------------------------------------- *)
(* wire format:  (0) None | (1 s) | (2 frags) | (3 frags) | (4 v) | (5 (v ...)) | (6 text (v ...)) | (7 repr) *)

Fixpoint dec_fval (s : sx) : option fval :=
  match s with
  | L [A 0] => Some VNone
  | L [A 1; t] => match as_str t with Some t' => Some (VStr t') | None => None end
  | L [A 2; L fs] => match map_opt dec_frag fs with Some f => Some (VList f) | None => None end
  | L [A 3; L fs] => match map_opt dec_frag fs with Some f => Some (VMagic f) | None => None end
  | L [A 4; x] => match dec_fval x with Some x' => Some (VCall x') | None => None end
  | L [A 5; L items] =>
      match (fix go (l : list sx) : option (list fval) :=
               match l with
               | [] => Some []
               | x :: r => match dec_fval x, go r with
                           | Some x', Some r' => Some (x' :: r')
                           | _, _ => None
                           end
               end) items with
      | Some l => Some (VMerge l)
      | None => None
      end
  | L [A 6; t; L items] =>
      match as_str t,
            (fix go (l : list sx) : option (list fval) :=
               match l with
               | [] => Some []
               | x :: r => match dec_fval x, go r with
                           | Some x', Some r' => Some (x' :: r')
                           | _, _ => None
                           end
               end) items with
      | Some t', Some l => Some (VTemplate t' l)
      | _, _ => None
      end
  | L [A 7; t] => match as_str t with Some t' => Some (VOther t') | None => None end
  | _ => None
  end.
