(* C19 - styles/style_transformation.py as coded.  The two floating point
   kernels (colorsys round trips in get_opposite_color and in
   AdjustBrightnessStyleTransformation) are parameters [opp] and [adj]: maps
   from a colour value to the new 6-digit colour ([adj] also takes the two
   brightness bounds of the node, in thousandths); everything around them is
   modelled statement by statement.  Model/C19_Float.v instantiates them with
   the real colorsys arithmetic over binary64 floats.  Definitions only. *)
From Coq Require Import ZArith List Bool.
From PTK Require Import Lib.Py Lib.C19_Str Gen.C19_Palette Model.C19_Palette Model.C19_Style.
Import ListNotations.
Open Scope Z_scope.

Inductive transf : Type :=
| TSwap                                   (* SwapLightAndDarkStyleTransformation *)
| TReverse                                (* ReverseStyleTransformation *)
| TSetDefault (fg bg : str)               (* SetDefaultColorStyleTransformation(fg, bg) *)
| TAdjust (valid identity : bool) (mn mx : Z)
                                          (* AdjustBrightness(mn / 1000.0, mx / 1000.0); valid: 0<=min,max<=1 ;
                                             identity: min == 0.0 and max == 1.0 *)
| TDummy
| TCond (filter : bool) (t : transf)      (* ConditionalStyleTransformation *)
| TMerged (l : list transf)               (* merge_style_transformations *)
| TDynamic (o : option transf).           (* DynamicStyleTransformation *)

Definition kernel := str -> option str.

Definition is_empty_or_default (c : option str) : bool :=
  match c with Some s => is_nil s || str_eqb s s_default | None => false end.

(* get_opposite_color(colorname); Err 1 = ValueError from int(.., 16),
   Err 7 = the kernel has no value (only possible for a harness mistake) *)
Definition get_opposite_color (opp : kernel) (c : option str) : res (option str) :=
  match c with
  | None => Ok None
  | Some s =>
      if is_nil s || str_eqb s s_default then Ok (Some s)
      else match assoc s opposite_ansi_names with
      | Some n => Ok (Some n)
      | None =>
          if hex6_b s then
            match opp s with Some v => Ok (Some v) | None => Err 7 end
          else Err 1
      end
  end.

Definition s_ansidefault' : str := s_ansidefault.

Definition adjust_brightness (adj : kernel) (valid identity : bool) (a : attrs) : res attrs :=
  if negb valid then Err 2
  else if identity then Ok a
  else
    let no_background :=
      match a_bgcolor a with None => true | Some s => is_nil s || str_eqb s s_default end in
    let has_fgcolor :=
      match a_color a with
      | None => false
      | Some s => negb (is_nil s) && negb (str_eqb s s_ansidefault) && negb (str_eqb s s_default)
      end in
    if has_fgcolor && no_background then
      let color := match a_color a with Some s => s | None => [] end in
      match assoc color ansi_colors_to_rgb with
      | Some _ => match adj color with Some v => Ok (set_color (Some v) a) | None => Err 7 end
      | None =>
          if hex6_b color then
            match adj color with Some v => Ok (set_color (Some v) a) | None => Err 7 end
          else Err 1
      end
    else Ok a.

(* AdjustBrightness as it stood before the fix 65ab1ba: 'default' counted as a foreground colour *)
Definition adjust_brightness_pinned (adj : kernel) (valid identity : bool) (a : attrs) : res attrs :=
  if negb valid then Err 2
  else if identity then Ok a
  else
    let no_background :=
      match a_bgcolor a with None => true | Some s => is_nil s || str_eqb s s_default end in
    let has_fgcolor :=
      match a_color a with
      | None => false
      | Some s => negb (is_nil s) && negb (str_eqb s s_ansidefault)
      end in
    if has_fgcolor && no_background then
      let color := match a_color a with Some s => s | None => [] end in
      match assoc color ansi_colors_to_rgb with
      | Some _ => match adj color with Some v => Ok (set_color (Some v) a) | None => Err 7 end
      | None =>
          if hex6_b color then
            match adj color with Some v => Ok (set_color (Some v) a) | None => Err 7 end
          else Err 1
      end
    else Ok a.

Definition set_default_color (fg bg : str) (a : attrs) : res attrs :=
  let r1 :=
    if is_empty_or_default (a_bgcolor a) then
      match parse_color bg with Some c => Ok (set_bgcolor (Some c) a) | None => Err 1 end
    else Ok a in
  match r1 with
  | Err e => Err e
  | Ok a1 =>
      if is_empty_or_default (a_color a1) then
        match parse_color fg with Some c => Ok (set_color (Some c) a1) | None => Err 1 end
      else Ok a1
  end.

Definition truthy_b (b : option bool) : bool := match b with Some true => true | _ => false end.

Fixpoint transform (opp : kernel) (adj : Z -> Z -> kernel) (t : transf) (a : attrs) {struct t} : res attrs :=
  match t with
  | TSwap =>
      match get_opposite_color opp (a_color a) with
      | Err e => Err e
      | Ok c =>
          let a1 := set_color c a in
          match get_opposite_color opp (a_bgcolor a1) with
          | Err e => Err e
          | Ok b => Ok (set_bgcolor b a1)
          end
      end
  | TReverse => Ok (set_reverse (Some (negb (truthy_b (a_reverse a)))) a)
  | TSetDefault fg bg => set_default_color fg bg a
  | TAdjust valid identity mn mx => adjust_brightness (adj mn mx) valid identity a
  | TDummy => Ok a
  | TCond f t' => if f then transform opp adj t' a else Ok a
  | TMerged l =>
      (fix go (l : list transf) (a : attrs) {struct l} : res attrs :=
         match l with
         | [] => Ok a
         | t' :: r => match transform opp adj t' a with Ok a' => go r a' | Err e => Err e end
         end) l a
  | TDynamic o => match o with Some t' => transform opp adj t' a | None => Ok a end
  end.
