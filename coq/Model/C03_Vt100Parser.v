(* C03 - model of prompt_toolkit/input/vt100_parser.py (Vt100Parser) as it is
   written (at /repo HEAD, i.e. with fix e3d939f): the generator coroutine
   [_input_parser_generator] becomes a state
   machine on the local [prefix]; one activation of the coroutine (from one
   [yield] to the next) is [process].  Definitions only; proofs are in
   Proofs/C03_*.v.  Strings are lists of code points.

   Python                                   here
   ------                                   ----
   prefix (generator local)                 prefix
   self._in_bracketed_paste                 in_paste
   self._paste_buffer                       paste_buf
   feed_key_callback(KeyPress(k, data))     push (k, data)   (rout is the reversed output)
   _IS_PREFIX_OF_LONGER_MATCH_CACHE[p]      is_prefix_longer p   (the cache is semantically transparent)
   self._get_match(p)                       get_match p
   _input_parser.send(c) / send(_Flush())   send_char c / flush
   feed(data)                               feed data
   ANSI_SEQUENCES, Keys, \d                 Gen/C03_AnsiSequences.v (regenerated from /repo) *)
From Coq Require Import ZArith List Bool.
From PTK Require Import Lib.Sx Lib.Py Gen.C03_AnsiSequences.
Import ListNotations.
Open Scope Z_scope.

Definition start_mark : str := [27; 91; 50; 48; 48; 126].   (* "\x1b[200~", the table key of Keys.BracketedPaste *)
Definition end_mark : str := paste_end_mark.                 (* "\x1b[201~", literal in feed() *)

(* ---------------------------------------------------------------------- *)
(* The four hard-coded regexes, as hand recognisers.  gen/gen_t_c03.py fails
   closed when a pattern string or flag changes.
     _cpr_response_re         ^\x1b\[\d+;\d+R\Z
     _mouse_event_re          ^\x1b\[(<?[\d;]+[mM]|M...)\Z
     _cpr_response_prefix_re  ^\x1b\[[\d;]*\Z
     _mouse_event_prefix_re   ^\x1b\[(<?[\d;]*|M.{0,2})\Z
   \d is re's Unicode digit class (680 code points, regenerated); '.' is
   anything but "\n"; ^ and \Z anchor the whole string.  Every greedy
   quantifier is followed by a character outside its class (checked by the
   generator for \d), so no backtracking alternative exists and the
   deterministic scan below is exact. *)

Definition is_digit (c : Z) : bool :=
  existsb (fun r => (fst r <=? c) && (c <=? snd r)) re_digit_ranges.
Definition is_ds (c : Z) : bool := is_digit c || (c =? 59).
Definition not_nl (c : Z) : bool := negb (c =? 10).

Definition strip_csi (p : str) : option str :=
  match p with
  | a :: b :: r => if (a =? 27) && (b =? 91) then Some r else None
  | _ => None
  end.

Fixpoint skip_digits (s : str) : str :=
  match s with
  | c :: r => if is_digit c then skip_digits r else s
  | [] => []
  end.
(* \d+ : the rest after one or more digits *)
Definition digits1 (s : str) : option str :=
  match s with
  | c :: r => if is_digit c then Some (skip_digits r) else None
  | [] => None
  end.

Definition cpr_re (p : str) : bool :=
  match strip_csi p with
  | Some r =>
      match digits1 r with
      | Some (c :: r2) =>
          (c =? 59) &&
          match digits1 r2 with
          | Some [x] => x =? 82
          | _ => false
          end
      | _ => false
      end
  | None => false
  end.

Fixpoint skip_ds (s : str) : str :=
  match s with
  | c :: r => if is_ds c then skip_ds r else s
  | [] => []
  end.
Definition strip_lt (r : str) : str :=
  match r with
  | c :: t => if c =? 60 then t else r
  | [] => r
  end.

Definition mouse_re (p : str) : bool :=
  match strip_csi p with
  | Some r =>
      (match strip_lt r with
       | c :: t => is_ds c && match skip_ds t with
                              | [x] => (x =? 109) || (x =? 77)
                              | _ => false
                              end
       | [] => false
       end)
      || (match r with
          | [m; a; b; c] => (m =? 77) && not_nl a && not_nl b && not_nl c
          | _ => false
          end)
  | None => false
  end.

Definition cpr_prefix_re (p : str) : bool :=
  match strip_csi p with
  | Some r => forallb is_ds r
  | None => false
  end.

Definition mouse_prefix_re (p : str) : bool :=
  match strip_csi p with
  | Some r =>
      forallb is_ds (strip_lt r)
      || (match r with
          | m :: t => (m =? 77) && (Nat.leb (length t) 2) && forallb not_nl t
          | [] => false
          end)
  | None => false
  end.

(* ---------------------------------------------------------------------- *)
(* Table lookups *)

Fixpoint lookup (p : str) (t : list (str * list Z)) : option (list Z) :=
  match t with
  | [] => None
  | (k, v) :: r => if str_eqb k p then Some v else lookup p r
  end.

(* _get_match: a Keys member is a one-element list, a tuple its elements.
   Every table value is truthy (generator fails closed otherwise), so
   "if match:" is "is Some". *)
Definition get_match (p : str) : option (list Z) :=
  if cpr_re p then Some [key_CPRResponse]
  else if mouse_re p then Some [key_Vt100MouseEvent]
  else lookup p ansi_table.

(* _IsPrefixOfLongerMatchCache.__missing__ *)
Definition table_longer (p : str) : bool :=
  existsb (fun kv => startswith (fst kv) p && negb (str_eqb (fst kv) p)) ansi_table.
Definition is_prefix_longer (p : str) : bool :=
  if cpr_prefix_re p || mouse_prefix_re p then true else table_longer p.

(* ---------------------------------------------------------------------- *)
(* State and output *)

Inductive key := KKey (id : Z) | KChar (c : Z).
Definition event := (key * str)%type.

Record pstate := mkst {
  prefix : str;
  in_paste : bool;
  paste_buf : str;
  rout : list event;        (* emitted key presses, newest first *)
  oof : bool                (* a fuelled loop ran out of fuel (never: C03_fuel_suffices) *)
}.

Definition init : pstate := mkst [] false [] [] false.
Definition out (st : pstate) : list event := rev (rout st).

Definition set_prefix (p : str) (st : pstate) := mkst p (in_paste st) (paste_buf st) (rout st) (oof st).
Definition push (e : event) (st : pstate) := mkst (prefix st) (in_paste st) (paste_buf st) (e :: rout st) (oof st).
Definition enter_paste (st : pstate) := mkst (prefix st) true [] (rout st) (oof st).
Definition leave_paste (st : pstate) := mkst (prefix st) false [] (rout st) (oof st).
Definition set_paste_buf (b : str) (st : pstate) := mkst (prefix st) (in_paste st) b (rout st) (oof st).
Definition set_oof (st : pstate) := mkst (prefix st) (in_paste st) (paste_buf st) (rout st) true.

(* _call_handler for one non-tuple key *)
Definition call_handler1 (k : Z) (data : str) (st : pstate) : pstate :=
  if k =? key_BracketedPaste then enter_paste st else push (KKey k, data) st.
Fixpoint call_handler_rest (ks : list Z) (st : pstate) : pstate :=
  match ks with
  | [] => st
  | k :: r => call_handler_rest r (call_handler1 k [] st)
  end.
(* tuple: data goes to the first key press only *)
Definition call_handler (ks : list Z) (data : str) (st : pstate) : pstate :=
  match ks with
  | [] => st
  | k :: r => call_handler_rest r (call_handler1 k data st)
  end.

(* for i in range(len(prefix), 0, -1): -- the range is fixed before the loop,
   [prefix] is re-sliced from its current value, there is no break. *)
Fixpoint match_loop (i : nat) (st : pstate) (found : bool) : pstate * bool :=
  match i with
  | O => (st, found)
  | S i' =>
      let p := firstn i (prefix st) in
      match get_match p with
      | Some ks => match_loop i' (set_prefix (skipn i (prefix st)) (call_handler ks p st)) true
      | None => match_loop i' st found
      end
  end.

(* the "no exact match" branch: returns the state with which the loop retries *)
Definition no_match_step (st : pstate) : pstate :=
  let (st1, found) := match_loop (length (prefix st)) st false in
  if found then st1
  else match prefix st1 with
       | c :: tl => set_prefix tl (push (KChar c, [c]) st1)
       | [] => st1     (* unreachable: prefix is non-empty here *)
       end.

(* One activation of the coroutine after [c = yield] has updated prefix/flush:
   the body of "while True" repeated while retry is set.  Since the fix
   e3d939f ("flush = False" moved next to the yield) the flush flag is kept
   across the retries of one activation. *)
Fixpoint process (fuel : nat) (flush : bool) (st : pstate) : pstate :=
  match prefix st with
  | [] => st
  | _ :: _ =>
      match fuel with
      | O => set_oof st
      | S f =>
          if flush || negb (is_prefix_longer (prefix st)) then
            match get_match (prefix st) with
            | Some ks => set_prefix [] (call_handler ks (prefix st) st)
            | None => process f flush (no_match_step st)
            end
          else st
      end
  end.

Definition send_char (c : Z) (st : pstate) : pstate :=
  process (S (length (prefix st))) false (set_prefix (prefix st ++ [c]) st).
Definition flush (st : pstate) : pstate :=
  process (length (prefix st)) true st.

(* The coroutine as it stood at the pinned commit: "flush = False" was the first
   statement of the loop body, so every retry ran as a non-flush pass
   (finding C03-F1 / DESIGN F2, repaired by e3d939f). *)
Fixpoint process_pinned (fuel : nat) (flush : bool) (st : pstate) : pstate :=
  match prefix st with
  | [] => st
  | _ :: _ =>
      match fuel with
      | O => set_oof st
      | S f =>
          if flush || negb (is_prefix_longer (prefix st)) then
            match get_match (prefix st) with
            | Some ks => set_prefix [] (call_handler ks (prefix st) st)
            | None => process_pinned f false (no_match_step st)
            end
          else st
      end
  end.
Definition flush_pinned (st : pstate) : pstate :=
  process_pinned (length (prefix st)) true st.

(* ---------------------------------------------------------------------- *)
(* feed(data) *)

(* "mark in s", s.index(mark), s[:idx], s[idx+len(mark):] *)
Fixpoint cut (mark s : str) : option (str * str) :=
  if startswith s mark then Some ([], skipn (length mark) s)
  else match s with
       | [] => None
       | x :: r => match cut mark r with
                   | Some (a, b) => Some (x :: a, b)
                   | None => None
                   end
       end.

(* for i, c in enumerate(data): if in_paste: data = data[i:]; break  (-> next loop iteration [k])
                                else: send(c) *)
Fixpoint feed_chars (k : str -> pstate -> pstate) (d : str) (st : pstate) : pstate :=
  match d with
  | [] => st
  | c :: r => if in_paste st then k d st else feed_chars k r (send_char c st)
  end.

(* fuel counts the iterations of feed()'s "while True" loop (before 6a14a13: the
   recursive self.feed(...) calls, see Proofs/C03_Depth.v) *)
Fixpoint feed_fuel (fuel : nat) (data : str) (st : pstate) : pstate :=
  match fuel with
  | O => set_oof st
  | S f =>
      if in_paste st then
        let buf := paste_buf st ++ data in
        match cut end_mark buf with
        | Some (content, remaining) =>
            feed_fuel f remaining (leave_paste (push (KKey key_BracketedPaste, content) st))
        | None => set_paste_buf buf st
        end
      else feed_chars (feed_fuel f) data st
  end.

Definition mu (st : pstate) (data : str) : nat := length (paste_buf st) + length data.
Definition feed (data : str) (st : pstate) : pstate := feed_fuel (S (mu st data)) data st.

(* ---------------------------------------------------------------------- *)
(* The tiny specification the proofs refine [feed] to: one character at a time. *)

Fixpoint ends_with (mark s : str) : bool :=
  str_eqb s mark || match s with [] => false | _ :: r => ends_with mark r end.

Definition paste_char (c : Z) (st : pstate) : pstate :=
  let b := paste_buf st ++ [c] in
  if ends_with end_mark b
  then leave_paste (push (KKey key_BracketedPaste, firstn (length b - length end_mark) b) st)
  else set_paste_buf b st.

Definition step_char (st : pstate) (c : Z) : pstate :=
  if in_paste st then paste_char c st else send_char c st.
Definition feed_spec (data : str) (st : pstate) : pstate := fold_left step_char data st.

(* ---------------------------------------------------------------------- *)
(* Read/flush schedules *)

Inductive op := Feed (data : str) | Flush.
Definition apply_op (st : pstate) (o : op) : pstate :=
  match o with Feed d => feed d st | Flush => flush st end.
Definition run_ops (ops : list op) (st : pstate) : pstate := fold_left apply_op ops st.

Definition fed_of (o : op) : str := match o with Feed d => d | Flush => [] end.
Definition all_fed (ops : list op) : str := concat (map fed_of ops).

(* What a key press carries: its data; a paste event carries the two markers
   and the content. *)
Definition render1 (e : event) : str :=
  match fst e with
  | KKey k => if k =? key_BracketedPaste then start_mark ++ snd e ++ end_mark else snd e
  | KChar _ => snd e
  end.
Definition render (es : list event) : str := concat (map render1 es).
(* characters received and not yet carried by a key press *)
Definition pending (st : pstate) : str :=
  (if in_paste st then start_mark ++ paste_buf st else []) ++ prefix st.

(* ---------------------------------------------------------------------- *)
(* Harness entry point.
   case   = (op ...)          op = (0 data) | (1)
   result = (step ...)        step = ((event ...) prefix in_paste paste_buf oof)   after each op,
            event = ((kind id) data), kind 0 = Keys member (index in list(Keys)), 1 = raw character *)

Definition sx_key (k : key) : sx :=
  match k with KKey i => L [A 0; A i] | KChar c => L [A 1; A c] end.
Definition sx_event (e : event) : sx := L [sx_key (fst e); sx_str (snd e)].

Definition dec_op (s : sx) : option op :=
  match s with
  | L [A 0; d] => match as_str d with Some x => Some (Feed x) | None => None end
  | L [A 1] => Some Flush
  | _ => None
  end.

Fixpoint run_steps (ops : list op) (st : pstate) : list sx :=
  match ops with
  | [] => []
  | o :: r =>
      let st' := apply_op st o in
      L [ sx_list sx_event (skipn (length (rout st)) (out st'));
          sx_str (prefix st'); sx_bool (in_paste st'); sx_str (paste_buf st'); sx_bool (oof st') ]
      :: run_steps r st'
  end.

Definition run_C03 (c : sx) : sx :=
  match c with
  | L l => match map_opt dec_op l with
           | Some ops => L (run_steps ops init)
           | None => bad_case
           end
  | _ => bad_case
  end.
