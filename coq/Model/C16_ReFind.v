(* Round 7: the search loop of `re.finditer` over a compiled sequence of
   one-character ops, and Document.find / find_backwards written the way the
   Python is written - over re.finditer(re.escape(sub), text, flags) and
   `for i, match in enumerate(iterator): if i + 1 == count: return ...`.

   [finditer_ops]: at every position, left to right, try the op sequence
   (anchored, ops run left to right: [match_ops]); a match is yielded and the
   scan resumes where it ended; an empty match is yielded at every position,
   the end of the text included (CPython >= 3.7).  With this in the model the
   only thing still assumed about `re` is that `_sre` executes the scan and
   the single ops (LITERAL, LITERAL_UNI_IGNORE, IN_UNI_IGNORE) as written
   here; the correspondence runs exercise it. *)
From Coq Require Import ZArith List Bool.
From PTK Require Import Lib.Sx Lib.Py Model.Document Model.C16_Regex.
Import ListNotations.
Open Scope Z_scope.

(* start offsets (plus [i]) of the matches; [skip] = characters still covered
   by the previous match *)
Fixpoint finditer_ops (ops : list op) (s : str) (i : Z) (skip : nat) {struct s} : list Z :=
  match skip with
  | S sk => match s with [] => [] | _ :: r => finditer_ops ops r (i + 1) sk end
  | O =>
      if match_ops ops s then
        i :: match s with
             | [] => []
             | _ :: r => finditer_ops ops r (i + 1) (Nat.pred (length ops))
             end
      else match s with [] => [] | _ :: r => finditer_ops ops r (i + 1) O end
  end.

(* re.finditer(pattern, text, flags) -> match.start(0) of every match;
   None: the pattern is outside the parser model (never for re.escape(..)) *)
Definition re_finditer (pattern text : str) (ic : bool) : option (list Z) :=
  match compile_pattern ic pattern with
  | Some ops => Some (finditer_ops ops text 0 O)
  | None => None
  end.

(* for i, match in enumerate(iterator): if i + 1 == count: return match *)
Fixpoint enumerate_pick (l : list Z) (i count : Z) : option Z :=
  match l with
  | [] => None
  | m :: r => if i + 1 =? count then Some m else enumerate_pick r (i + 1) count
  end.

(* Document.find(sub, include_current_position=icp, ignore_case=ic, count) *)
Definition doc_find_re (d : doc) (sub : str) (icp ic : bool) (count : Z) : option (option Z) :=
  let text := text_after_cursor d in
  if negb icp && (len text =? 0) then Some None
  else
    let text' := if icp then text else slice_from text 1 in
    match re_finditer (re_escape sub) text' ic with
    | None => None
    | Some it =>
        Some (match enumerate_pick it 0 count with
              | Some m => Some (if icp then m else m + 1)
              | None => None
              end)
    end.

(* Document.find_backwards(sub, ignore_case=ic, count) *)
Definition doc_find_backwards_re (d : doc) (sub : str) (ic : bool) (count : Z) : option (option Z) :=
  let before := rev (text_before_cursor d) in
  match re_finditer (re_escape (rev sub)) before ic with
  | None => None
  | Some it =>
      Some (match enumerate_pick it 0 count with
            | Some m => Some (- m - len sub)
            | None => None
            end)
  end.
