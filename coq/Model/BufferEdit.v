(* Model of the basic edit operations of prompt_toolkit.buffer.Buffer
   (buffer.py) and of the readline commands that forward a numeric argument to
   them (key_binding/bindings/named_commands.py).  Every function follows the
   Python statement by statement; Python slices are [Lib.Py.slice], so
   out-of-range arguments behave (and misbehave) as they do in CPython. *)
From Coq Require Import ZArith List Bool.
From PTK Require Import Lib.Sx Lib.Py Lib.PyLines Model.Document.
Import ListNotations.
Open Scope Z_scope.

Record buf := mkbuf { btext : str; bcur : Z }.

Definition bdoc (b : buf) : doc := mkdoc (btext b) (bcur b).

(* Error codes *)
Definition E_ASSERT : Z := 1.
Definition E_INDEX : Z := 2.

(* An operation either completes ([Ok] state, returned string) or raises with
   the state it had reached ([Err]). *)
Inductive res :=
| Ok (b : buf) (ret : str)
| Err (code : Z) (b : buf).

Definition res_buf (r : res) : buf := match r with Ok b _ => b | Err _ b => b end.

Definition bind (r : res) (k : buf -> str -> res) : res :=
  match r with Ok b ret => k b ret | Err c b => Err c b end.

(* Buffer.document = Document(text, cpos): the Document constructor asserts
   cpos <= len(text); _set_cursor_position stores max(0, cpos). *)
Definition set_document (b : buf) (t : str) (cpos : Z) : res :=
  if len t <? cpos then Err E_ASSERT b
  else Ok (mkbuf t (Z.max 0 cpos)) [].

(* Buffer.text = v *)
Definition set_text (b : buf) (v : str) : buf :=
  mkbuf v (if len v <? bcur b then len v else bcur b).

(* Buffer.cursor_position = v *)
Definition set_cursor (b : buf) (v : Z) : buf :=
  let v1 := if len (btext b) <? v then len (btext b) else v in
  let v2 := if v1 <? 0 then 0 else v1 in
  mkbuf (btext b) (Z.max 0 v2).

Definition insert_text (b : buf) (data : str) (overwrite move_cursor : bool) : res :=
  let otext := btext b in
  let ocpos := bcur b in
  let text :=
    if overwrite then
      let ov := slice2 otext ocpos (ocpos + len data) in
      let ov' := if mem_Z NL ov then slice_to ov (find_char NL ov) else ov in
      slice_to otext ocpos ++ data ++ slice_from otext (ocpos + len ov')
    else slice_to otext ocpos ++ data ++ slice_from otext ocpos in
  let cpos := if move_cursor then ocpos + len data else ocpos in
  set_document b text cpos.

(* The function as it stands in /repo (after the C01 fix the start of the
   deleted span is clamped at 0). *)
Definition delete_before_cursor (b : buf) (count : Z) : res :=
  if count <? 0 then Err E_ASSERT b
  else if 0 <? bcur b then
    let start := Z.max 0 (bcur b - count) in
    let deleted := slice2 (btext b) start (bcur b) in
    let new_text := slice_to (btext b) start ++ slice_from (btext b) (bcur b) in
    match set_document b new_text (bcur b - len deleted) with
    | Ok b' _ => Ok b' deleted
    | e => e
    end
  else Ok b [].

(* The function as it stood at the pinned commit (finding F1): a count larger
   than the cursor position makes the slice start negative, which Python
   interprets from the end of the string. *)
Definition delete_before_cursor_pinned (b : buf) (count : Z) : res :=
  if count <? 0 then Err E_ASSERT b
  else if 0 <? bcur b then
    let deleted := slice2 (btext b) (bcur b - count) (bcur b) in
    let new_text := slice_to (btext b) (bcur b - count) ++ slice_from (btext b) (bcur b) in
    match set_document b new_text (bcur b - len deleted) with
    | Ok b' _ => Ok b' deleted
    | e => e
    end
  else Ok b [].

(* Buffer.delete as it is in /repo now: text_after_cursor[: max(0, count)] *)
Definition delete (b : buf) (count : Z) : res :=
  if bcur b <? len (btext b) then
    let deleted := slice_to (text_after_cursor (bdoc b)) (Z.max 0 count) in
    Ok (set_text b (slice_to (btext b) (bcur b) ++ slice_from (btext b) (bcur b + len deleted)))
       deleted
  else Ok b [].

(* ... and as it stood before the repair: text_after_cursor[:count], a slice
   relative to the END of the string for a negative count *)
Definition delete_pinned (b : buf) (count : Z) : res :=
  if bcur b <? len (btext b) then
    let deleted := slice_to (text_after_cursor (bdoc b)) count in
    Ok (set_text b (slice_to (btext b) (bcur b) ++ slice_from (btext b) (bcur b + len deleted)))
       deleted
  else Ok b [].

Definition newline (b : buf) (copy_margin : bool) : res :=
  if copy_margin then insert_text b (NL :: leading_whitespace_in_current_line (bdoc b)) false true
  else insert_text b [NL] false true.

Definition insert_line_above (b : buf) (copy_margin : bool) : res :=
  let ins := if copy_margin then leading_whitespace_in_current_line (bdoc b) ++ [NL] else [NL] in
  let b1 := set_cursor b (bcur b + get_start_of_line_position (bdoc b) false) in
  bind (insert_text b1 ins false true) (fun b2 _ => Ok (set_cursor b2 (bcur b2 - 1)) []).

Definition insert_line_below (b : buf) (copy_margin : bool) : res :=
  let ins := if copy_margin then NL :: leading_whitespace_in_current_line (bdoc b) else [NL] in
  let b1 := set_cursor b (bcur b + get_end_of_line_position (bdoc b)) in
  insert_text b1 ins false true.

Definition join_next_line (b : buf) (sep : str) : res :=
  if on_last_line (bdoc b) then Ok b []
  else
    let b1 := set_cursor b (bcur b + get_end_of_line_position (bdoc b)) in
    bind (delete b1 1) (fun b2 _ =>
      Ok (set_text b2 (text_before_cursor (bdoc b2) ++ sep
                       ++ lstrip_by (Z.eqb SP) (text_after_cursor (bdoc b2)))) []).

(* join_selected_lines: [orig] is selection_state.original_cursor_position.
   The new cursor can be -1 (selection starting at 0 on one line); the
   Document constructor accepts it and _set_cursor_position clamps it. *)
Definition join_selected_lines (b : buf) (orig : Z) (sep : str) : res :=
  let from_ := Z.min (bcur b) orig in
  let to := Z.max (bcur b) orig in
  let before := slice_to (btext b) from_ in
  let ls := map (fun l => lstrip_by (Z.eqb SP) l ++ sep) (splitlines (slice2 (btext b) from_ to)) in
  let after := slice_from (btext b) to in
  set_document b (before ++ concat ls ++ after)
               (len (before ++ concat (removelast ls)) - 1).

Definition swap_characters_before_cursor (b : buf) : res :=
  let pos := bcur b in
  if 2 <=? pos then
    match index (btext b) (pos - 2), index (btext b) (pos - 1) with
    | Some a, Some c =>
        Ok (set_text b (slice_to (btext b) (pos - 2) ++ [c; a] ++ slice_from (btext b) pos)) []
    | _, _ => Err E_INDEX b
    end
  else Ok b [].

Definition transform_current_line (F : str -> str) (b : buf) : res :=
  let d := bdoc b in
  let a := dcur d + get_start_of_line_position d false in
  let e := dcur d + get_end_of_line_position d in
  Ok (set_text b (slice_to (dtext d) a ++ F (slice2 (dtext d) a e) ++ slice_from (dtext d) e)) [].

Definition transform_region (F : str -> str) (b : buf) (from_ to : Z) : res :=
  if from_ <? to then
    Ok (set_text b (slice_to (btext b) from_ ++ F (slice2 (btext b) from_ to)
                    ++ slice_from (btext b) to)) []
  else Err E_ASSERT b.

(* lines[i] = F(lines[i]) with Python indexing; IndexError is swallowed *)
Fixpoint update_nth {T} (l : list T) (n : nat) (f : T -> T) : list T :=
  match l, n with
  | [], _ => []
  | x :: r, O => f x :: r
  | x :: r, S k => x :: update_nth r k f
  end.
Definition py_update {T} (l : list T) (i : Z) (f : T -> T) : list T :=
  let n := len l in
  let j := if i <? 0 then i + n else i in
  if (j <? 0) || (n <=? j) then l else update_nth l (Z.to_nat j) f.

(* for index in range(a, b): only the indices in [-n, n) can have an effect,
   so the loop is run over that sub-range. *)
Fixpoint range_from (a : Z) (k : nat) : list Z :=
  match k with O => [] | S k' => a :: range_from (a + 1) k' end.
Definition eff_range (n a b : Z) : list Z :=
  let a' := Z.max a (- n) in
  let b' := Z.min b n in
  range_from a' (Z.to_nat (b' - a')).

Definition transform_lines (F : str -> str) (text : str) (from_row to_row : Z) : str :=
  let ls := split_on NL text in
  join [NL] (fold_left (fun l i => py_update l i F) (eff_range (len ls) from_row to_row) ls).

Definition INDENT : str := [SP; SP; SP; SP].

Definition indent (b : buf) (from_row to_row count : Z) : res :=
  let d := bdoc b in
  let row := cursor_position_row d in
  let col := cursor_position_col d in
  let ic := str_mul INDENT count in
  let new_text := transform_lines (fun l => ic ++ l) (btext b) from_row to_row in
  bind (set_document b new_text (translate_row_col_to_index (mkdoc new_text (len new_text)) row 0))
       (fun b1 _ => Ok (set_cursor b1 (bcur b1 + col + len ic)) []).

Definition unindent_line (ic : str) (l : str) : str :=
  if startswith l ic then slice_from l (len ic) else lstrip_by is_space l.

Definition unindent (b : buf) (from_row to_row count : Z) : res :=
  let d := bdoc b in
  let row := cursor_position_row d in
  let col := cursor_position_col d in
  let ic := str_mul INDENT count in
  let new_text := transform_lines (unindent_line ic) (btext b) from_row to_row in
  bind (set_document b new_text (translate_row_col_to_index (mkdoc new_text (len new_text)) row 0))
       (fun b1 _ => Ok (set_cursor b1 (bcur b1 + col - len ic)) []).

Definition cursor_left (b : buf) (count : Z) : res :=
  Ok (set_cursor b (bcur b + get_cursor_left_position (bdoc b) count)) [].
Definition cursor_right (b : buf) (count : Z) : res :=
  Ok (set_cursor b (bcur b + get_cursor_right_position (bdoc b) count)) [].

(* named_commands.py *)
(* the handlers return None: the deleted text is only used to ring the bell *)
Definition drop_ret (r : res) : res := match r with Ok b _ => Ok b [] | e => e end.
Definition backward_delete_char (b : buf) (arg : Z) : res :=
  drop_ret (if arg <? 0 then delete b (- arg) else delete_before_cursor b arg).
Definition delete_char (b : buf) (arg : Z) : res := drop_ret (delete b arg).
Definition self_insert (b : buf) (data : str) (arg : Z) : res :=
  insert_text b (str_mul data arg) false true.
Definition transpose_chars (b : buf) : res :=
  let p := bcur b in
  if p =? 0 then Ok b []
  else if (p =? len (btext b)) || (match index (btext b) p with Some c => c =? NL | None => false end)
  then swap_characters_before_cursor b
  else swap_characters_before_cursor
         (set_cursor b (p + get_cursor_right_position (bdoc b) 1)).

(* ---------------------------------------------------------------------- *)
(* Callbacks available to the correspondence harness; the theorems quantify
   over an arbitrary F. *)
Definition apply_F (code : Z) (s : str) : str :=
  match code with
  | 1 => rev s
  | 2 => s ++ [33]
  | 3 => []
  | 4 => map (fun c => if (97 <=? c) && (c <=? 122) then c - 32 else c) s
  | _ => s
  end.

Inductive op :=
| OInsert (data : str) (overwrite move : bool)
| ODeleteBefore (n : Z)
| ODelete (n : Z)
| ONewline (cm : bool)
| OLineAbove (cm : bool)
| OLineBelow (cm : bool)
| OJoin (sep : str)
| OSwap
| OTransformLine (f : Z)
| OTransformRegion (a b f : Z)
| OIndent (a b c : Z)
| OUnindent (a b c : Z)
| OSetText (v : str)
| OSetCursor (v : Z)
| OLeft (n : Z)
| ORight (n : Z)
| OBackwardDeleteChar (arg : Z)
| ODeleteChar (arg : Z)
| OSelfInsert (data : str) (arg : Z)
| OTranspose
| OJoinSelected (orig : Z) (sep : str).

Definition step (b : buf) (o : op) : res :=
  match o with
  | OInsert d ow mv => insert_text b d ow mv
  | ODeleteBefore n => delete_before_cursor b n
  | ODelete n => delete b n
  | ONewline cm => newline b cm
  | OLineAbove cm => insert_line_above b cm
  | OLineBelow cm => insert_line_below b cm
  | OJoin sep => join_next_line b sep
  | OSwap => swap_characters_before_cursor b
  | OTransformLine f => transform_current_line (apply_F f) b
  | OTransformRegion a e f => transform_region (apply_F f) b a e
  | OIndent a e c => indent b a e c
  | OUnindent a e c => unindent b a e c
  | OSetText v => Ok (set_text b v) []
  | OSetCursor v => Ok (set_cursor b v) []
  | OLeft n => cursor_left b n
  | ORight n => cursor_right b n
  | OBackwardDeleteChar a => backward_delete_char b a
  | ODeleteChar a => delete_char b a
  | OSelfInsert d a => self_insert b d a
  | OTranspose => transpose_chars b
  | OJoinSelected orig sep => join_selected_lines b orig sep
  end.

(* ---------------------------------------------------------------------- *)
(* Wire format *)
Definition dec_op (s : sx) : option op :=
  match s with
  | L [A 1; d; A ow; A mv] =>
      match as_str d with Some d' => Some (OInsert d' (ow =? 1) (mv =? 1)) | None => None end
  | L [A 2; A n] => Some (ODeleteBefore n)
  | L [A 3; A n] => Some (ODelete n)
  | L [A 4; A cm] => Some (ONewline (cm =? 1))
  | L [A 5; A cm] => Some (OLineAbove (cm =? 1))
  | L [A 6; A cm] => Some (OLineBelow (cm =? 1))
  | L [A 7; d] => match as_str d with Some d' => Some (OJoin d') | None => None end
  | L [A 8] => Some OSwap
  | L [A 9; A f] => Some (OTransformLine f)
  | L [A 10; A a; A b; A f] => Some (OTransformRegion a b f)
  | L [A 11; A a; A b; A c] => Some (OIndent a b c)
  | L [A 12; A a; A b; A c] => Some (OUnindent a b c)
  | L [A 13; d] => match as_str d with Some d' => Some (OSetText d') | None => None end
  | L [A 14; A v] => Some (OSetCursor v)
  | L [A 15; A n] => Some (OLeft n)
  | L [A 16; A n] => Some (ORight n)
  | L [A 17; A n] => Some (OBackwardDeleteChar n)
  | L [A 18; A n] => Some (ODeleteChar n)
  | L [A 19; d; A n] => match as_str d with Some d' => Some (OSelfInsert d' n) | None => None end
  | L [A 20] => Some OTranspose
  | L [A 21; A o; d] => match as_str d with Some d' => Some (OJoinSelected o d') | None => None end
  | _ => None
  end.

Definition enc_res (r : res) : sx :=
  match r with
  | Ok b ret => L [A 0; sx_str (btext b); A (bcur b); sx_str ret]
  | Err c b => L [A c; sx_str (btext b); A (bcur b); L []]
  end.

Fixpoint run_ops (b : buf) (ops : list op) : list sx :=
  match ops with
  | [] => []
  | o :: r => let x := step b o in enc_res x :: run_ops (res_buf x) r
  end.

(* case = (text cursor (op ...)) ; result = one (status text cursor ret) per op *)
Definition run_C01 (c : sx) : sx :=
  match c with
  | L [t; A cur; L ops] =>
      match as_str t, map_opt dec_op ops with
      | Some t', Some ops' =>
          if (0 <=? cur) && (cur <=? len t') then L (run_ops (mkbuf t' cur) ops')
          else bad_case
      | _, _ => bad_case
      end
  | _ => bad_case
  end.
