(* C04 - GlobalOnlyKeyBindings over a KeyBindings whose bindings carry a DYNAMIC
   is_global filter (Binding.is_global is a Filter; Model/C04_Registry.v treats
   it as a constant).  _update_cache evaluates `b.is_global()` only when the
   child's version differs from _last_version:

       expected_version = self.key_bindings._version
       if self._last_version != expected_version:
           bindings2 = KeyBindings()
           for b in self.key_bindings.bindings:
               if b.is_global(): bindings2.bindings.append(b)
           self._bindings2 = bindings2; self._last_version = expected_version

   Definitions only (proofs: Proofs/C04_GlobalDynFacts.v). *)
From Coq Require Import ZArith List Bool.
From PTK Require Import Lib.Sx Model.C04_KeyProc.
Import ListNotations.
Open Scope Z_scope.

Record gb : Type := mkgb { gkeys : list Z; ghandler : Z; gglobal : fexpr }.

Record gst : Type := mkgst {
  gbs : list gb;            (* KeyBindings.bindings *)
  gver : Z;                 (* KeyBindings.__version *)
  glast : option Z;         (* GlobalOnlyKeyBindings._last_version; None = the initial () *)
  gshown : list gb;         (* _bindings2.bindings *)
  genv : env;               (* the condition values now *)
  grebuilt : env            (* ghost: the condition values when _bindings2 was last rebuilt *)
}.

Inductive gop : Type :=
| GAdd (b : gb)             (* kb.add(..., is_global=<filter>)(handler) *)
| GFlip (c : nat)           (* a condition changes *)
| GLook.                    (* global_only.bindings *)

Definition is_glob (e : env) (b : gb) : bool := feval e (gglobal b).

Definition gstep (s : gst) (o : gop) : gst :=
  match o with
  | GAdd b => mkgst (gbs s ++ [b]) (gver s + 1) (glast s) (gshown s) (genv s) (grebuilt s)
  | GFlip c => mkgst (gbs s) (gver s) (glast s) (gshown s) (flip c (genv s)) (grebuilt s)
  | GLook =>
      match glast s with
      | Some v => if v =? gver s then s
                  else mkgst (gbs s) (gver s) (Some (gver s)) (filter (is_glob (genv s)) (gbs s)) (genv s) (genv s)
      | None => mkgst (gbs s) (gver s) (Some (gver s)) (filter (is_glob (genv s)) (gbs s)) (genv s) (genv s)
      end
  end.

Definition gst0 (e : env) : gst := mkgst [] 0 None [] e e.

(* wire: case = (env ops); op = (0 keys handler filter) | (1 c) | (2); every look answers the shown (keys handler) list *)
Definition dec_gop (s : sx) : option gop :=
  match s with
  | L [A 0; ks; A h; f] =>
      match as_str ks, dec_f f with Some ks', Some f' => Some (GAdd (mkgb ks' h f')) | _, _ => None end
  | L [A 1; A c] => if 0 <=? c then Some (GFlip (Z.to_nat c)) else None
  | L [A 2] => Some GLook
  | _ => None
  end.

Fixpoint run_gops (s : gst) (ops : list gop) : list sx :=
  match ops with
  | [] => []
  | o :: r =>
      let s' := gstep s o in
      match o with
      | GLook => L (map (fun b => L [sx_str (gkeys b); A (ghandler b)]) (gshown s')) :: run_gops s' r
      | _ => run_gops s' r
      end
  end.

Definition run_globaldyn (c : list sx) : sx :=
  match c with
  | [L e; L ops] =>
      match map_opt as_bool e, map_opt dec_gop ops with
      | Some e', Some ops' => L (run_gops (gst0 e') ops')
      | _, _ => bad_case
      end
  | _ => bad_case
  end.
