(* C07 - editing sessions whose texts are COMPUTED, not observed.

   In Model/C07_Keys.v a dispatch [Key h n t c] carries the text and cursor the
   handler leaves as a payload.  Here a command names the handler's model
   instead - an operation [op] of Model/BufferEdit.v (C01's model of
   Buffer.insert_text / delete_before_cursor / delete / cursor movement and of
   the named commands self-insert, backward-delete-char, delete-char,
   backward-char, forward-char) - and the text is what that model computes from
   the text the buffer holds.  [to_kev] turns a command into the key event of
   Model/C07_Keys.v, so an editing session IS a key session
   (Proofs/C07_EditFacts.v: erun_is_krun) and every theorem about key sessions
   is a theorem about sessions over real texts.

     EEdit h o      dispatch of binding h whose handler is the edit model o
                    (the decoder only pairs a binding with the model of ITS
                    handler, by the role gen/gen_t_c07.py gives the row)
     EUndoKey h arg an undo key pressed with count arg
     ERedo          a direct Buffer.redo()
     ECpr           a cursor position report *)
From Coq Require Import ZArith List Bool.
From PTK Require Import Lib.Sx Lib.Py Model.Document Model.BufferEdit Model.C07_Undo Model.C07_Keys.
Import ListNotations.
Open Scope Z_scope.

Inductive ecmd :=
| EEdit (h : Z) (o : op)
| EUndoKey (h : Z) (arg : Z)
| ERedo
| ECpr.

(* the edit model's view of the buffer the undo machinery sees *)
Definition as_buf (u : ust) : buf := mkbuf (utext u) (ucur u).

Definition to_kev (tbl : list row) (s : kst) (c : ecmd) : kev :=
  match c with
  | EEdit h o =>
      (* save_to_undo_stack changes neither text nor cursor: the handler runs
         on the text the buffer holds at dispatch time *)
      let b' := res_buf (step (as_buf (kbuf s)) o) in
      Key h 0 (btext b') (bcur b')
  | EUndoKey h arg =>
      let r := r_role (lookup tbl h) in
      UndoKey h (undo_calls r arg) (r =? 4)
  | ERedo => DRedo
  | ECpr => Cpr
  end.

Definition estep (tbl : list row) (s : kst) (c : ecmd) : kst := kstep tbl s (to_kev tbl s c).

Definition erun (tbl : list row) (s : kst) (cs : list ecmd) : kst := fold_left (estep tbl) cs s.

Fixpoint ecompile (tbl : list row) (s : kst) (cs : list ecmd) : list kev :=
  match cs with
  | [] => []
  | c :: r => to_kev tbl s c :: ecompile tbl (estep tbl s c) r
  end.

(* which edit model belongs to which binding (roles of gen/gen_t_c07.py):
   1 self-insert on <any>, 2 backward-delete-char on c-h, 3 delete-char on
   delete / c-delete, 11 backward-char on left / c-b, 12 forward-char on
   right / c-f *)
Definition op_of_role (role : Z) (o : op) : bool :=
  match o with
  | OSelfInsert _ _ => role =? 1
  | OBackwardDeleteChar _ => role =? 2
  | ODeleteChar _ => role =? 3
  | OLeft _ => role =? 11
  | ORight _ => role =? 12
  | _ => false
  end.

Definition dec_ecmd (tbl : list row) (x : sx) : option ecmd :=
  match x with
  | L [A 1; A h; o] =>
      match dec_op o with
      | Some o' =>
          if (0 <=? h) && (h <? len tbl) && op_of_role (r_role (lookup tbl h)) o'
             && (r_act (lookup tbl h) =? 0)
          then Some (EEdit h o') else None
      | None => None
      end
  | L [A 3; A h; A arg] =>
      let r := lookup tbl h in
      if (0 <=? h) && (h <? len tbl) && (r_act r =? 1) && ((r_role r =? 4) || (r_role r =? 5))
      then Some (EUndoKey h arg) else None
  | L [A 2] => Some ERedo
  | L [A 4] => Some ECpr
  | _ => None
  end.

(* per command: (snapshot decision, state) *)
Fixpoint run_ecmds (tbl : list row) (s : kst) (cs : list ecmd) : list sx :=
  match cs with
  | [] => []
  | c :: r =>
      let s' := estep tbl s c in
      let sv := match c with
                | EEdit h _ | EUndoKey h _ => save_before tbl (kprev s) h
                | ERedo | ECpr => false
                end in
      L [sx_bool sv; enc_ust (kbuf s')] :: run_ecmds tbl s' r
  end.

Definition run_C07_edit (tbl : list row) (t : sx) (cur : Z) (cs : list sx) : sx :=
  match as_str t, map_opt (dec_ecmd tbl) cs with
  | Some t', Some cs' =>
      if (0 <=? cur) && (cur <=? len t') then L (run_ecmds tbl (kfresh t' cur) cs')
      else bad_case
  | _, _ => bad_case
  end.
