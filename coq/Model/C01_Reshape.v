(* buffer.reshape_text (the Vi 'gq' operator), on top of the word loop of
   Model/C08_ViOps.v (split_ws = str.split(), reshape_loop), with
   str.splitlines(keepends=True) over EVERY line boundary CPython knows
   (C08 restricts it to "\n") and Buffer.text_width as a parameter
   (`buffer.text_width or 80`).  Definitions only. *)
From Coq Require Import ZArith List Bool.
From PTK Require Import Lib.Sx Lib.Py Lib.PyLines Gen.Whitespace Model.Document Model.BufferEdit
  Model.C02_DocQueries Model.C08_ViOps.
Import ListNotations.
Open Scope Z_scope.

(* str.splitlines(True): a line keeps its boundary; "\r\n" is one boundary *)
Fixpoint splitlines_keepends_aux (s cur : str) : list str :=
  match s with
  | [] => match cur with [] => [] | _ => [rev cur] end
  | x :: r =>
      if is_linebreak x then
        match r with
        | y :: r' =>
            if (x =? 13) && (y =? 10) then rev (y :: x :: cur) :: splitlines_keepends_aux r' []
            else rev (x :: cur) :: splitlines_keepends_aux r []
        | [] => [rev (x :: cur)]
        end
      else splitlines_keepends_aux r (x :: cur)
  end.
Definition splitlines_keepends (s : str) : list str := splitlines_keepends_aux s [].

Definition reshape_text_w (b : buf) (from_row to_row tw : Z) : res :=
  let ls := splitlines_keepends (btext b) in
  let before := slice_to ls from_row in
  let after := slice_from ls (to_row + 1) in
  let mid := slice2 ls from_row (to_row + 1) in
  match mid with
  | [] => Ok b []
  | first :: _ =>
      (* re.search(r"^\s*", first); indent = first[:length].replace("\n", "") *)
      let lead := firstn (Z.to_nat (span_len re_space first)) first in
      let ind := filter (fun c => negb (c =? NL)) lead in
      let words := split_ws (concat mid) in
      let width := (if tw =? 0 then 80 else tw) - len ind in
      let reshaped := ind ++ reshape_loop words ind width 0 ++ [NL] in
      set_document b (concat before ++ reshaped ++ concat after)
                   (len (concat before ++ reshaped))
  end.
