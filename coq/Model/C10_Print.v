(* C10: the safe print path and the one in-package caller that feeds it
   displayed content (definitions only; proofs in Proofs/C10_PrintFacts.v).

     renderer.py  print_formatted_text(output, fragments, style, ..)
     key_binding/bindings/completion.py  _display_completions_like_readline.display
        (CompleteStyle.READLINE_LIKE: the completions are PRINTED above the
         prompt with app.print_text, they never become screen cells)

   Tokens as in Model/C10_Screen.v; here `FromCell` tags text that comes from
   the printed fragments and goes through Vt100_Output.write. *)
From Coq Require Import ZArith List Bool.
From PTK Require Import Lib.Sx Lib.Py Gen.C10_DisplayMappings Model.C10_Screen Model.C10_Producers Model.C10_Wire.
Import ListNotations.
Open Scope Z_scope.

(* text.replace("\r", "") ; text.replace("\n", "\r\n") *)
Definition strip_cr (t : list Z) : list Z := filter (fun c => negb (c =? 13)) t.
Definition nl_to_crlf (t : list Z) : list Z := flat_map (fun c => if c =? 10 then [13; 10] else [c]) t.

Record pstate := mkps { plast : option Z; pout : list token (* most recent first *) }.

Section Print.
  Variable sty : list Z -> styinfo.

  (* body of `for style_str, text, *_ in fragments`.  `if attrs:` is always
     true (Attrs is a non-empty named tuple): set_attributes, never reset. *)
  Definition print_frag (st : pstate) (f : frag) : pstate :=
    let a := si_attrs (sty (fst f)) in
    let same := match plast st with Some l => l =? a | None => false end in
    let out1 := if same then pout st else mktok FromRenderer KRaw (si_sgr (sty (fst f))) :: pout st in
    let tok := if contains ZWE_MARK (fst f)
               then mktok FromZWE KRaw (snd f)
               else mktok FromCell KWrite (nl_to_crlf (strip_cr (snd f))) in
    mkps (Some a) (tok :: out1).

  Definition T_RESET : token := mktok FromRenderer KRaw (CSI ++ [48; 109]).
  Definition T_AUTOWRAP : token := mktok FromRenderer KRaw (CSI ++ [63; 55; 104]).

  (* reset_attributes; enable_autowrap; the loop; reset_attributes *)
  Definition print_formatted_text (fs : list frag) : list token :=
    rev (T_RESET :: pout (fold_left print_frag fs (mkps None [T_AUTOWRAP; T_RESET]))).
End Print.

(* "class:readline-like-completions" / "class:readline-like-completions.completion" *)
Definition S_RL : list Z :=
  [99;108;97;115;115;58;114;101;97;100;108;105;110;101;45;108;105;107;101;45;99;111;109;112;108;101;116;105;111;110;115].
Definition S_RL_C : list Z := S_RL ++ [46;99;111;109;112;108;101;116;105;111;110].

(* one completion of the listing: (completion.style, completion.display, padding) *)
Definition rl_item := (list Z * list frag * Z)%type.

(* PINNED (before /repo commit 1d18ea6): result.extend(to_formatted_text(completion.display, style=style));
   result.append((completion.style, " " * padding)) - kept only for the _pinned_refuted theorem *)
Definition readline_item_pinned (it : rl_item) : list frag :=
  let cstyle := fst (fst it) in
  with_style (S_RL_C ++ 32 :: cstyle) (snd (fst it)) ++ [(cstyle, str_mul [32] (snd it))].
Definition readline_fragments_pinned (rows : list (list rl_item)) : list frag :=
  with_style S_RL (flat_map (fun row => flat_map readline_item_pinned row ++ [([], [10])]) rows).

(* /repo HEAD (commit 1d18ea6 = fixes/C10-readline-like-completions-control-chars.patch):
   the display fragments go through _show_control_characters first *)
Definition show_char (c : Z) : list Z := match dm_lookup c with Some v => v | None => [c] end.
Definition show_control_characters (fs : list frag) : list frag :=
  map (fun f : frag => if contains ZWE_MARK (fst f) then f else (fst f, flat_map show_char (snd f))) fs.
Definition readline_item (it : rl_item) : list frag :=
  let cstyle := fst (fst it) in
  show_control_characters (with_style (S_RL_C ++ 32 :: cstyle) (snd (fst it))) ++ [(cstyle, str_mul [32] (snd it))].
Definition readline_fragments (rows : list (list rl_item)) : list frag :=
  with_style S_RL (flat_map (fun row => flat_map readline_item row ++ [([], [10])]) rows).

(* kind 11: (11 stytab fragments) -> tokens of print_formatted_text *)
Definition run_C10pr (c : sx) : sx :=
  match c with
  | L [A 11; stt; fs] =>
      match dec_stytab stt, dec_frags fs with
      | Some stt', Some fs' => L (map enc_tok (print_formatted_text (sty_of stt') fs'))
      | _, _ => bad_case
      end
  | _ => run_C10w c
  end.
