(* Model of the part of CPython's `re` that `Document.find` / `find_backwards`
   rely on when they call `re.finditer(re.escape(sub), text, flags)`:

     re.escape                       str.translate(_special_chars_map)
     re._parser.Tokenizer / _parse / _escape
                                     restricted to the patterns that consist of
                                     plain characters and two-character escapes
                                     (everything else is answered None = "not a
                                     literal sequence / outside this model":
                                     unescaped special characters, `|`, `)`,
                                     category escapes, escapes whose second
                                     character is an ASCII letter or a digit,
                                     a backslash at the end)
     re._compiler._compile, LITERAL branch
                                     no IGNORECASE: LITERAL c;
                                     IGNORECASE: uncased -> LITERAL c, else
                                     LITERAL_UNI_IGNORE lower(c), or
                                     IN_UNI_IGNORE [lower(c)] + _EXTRA_CASES
     _sre  LITERAL / LITERAL_UNI_IGNORE / IN_UNI_IGNORE on one character

   All data come from Gen/C16_Sre.v (regenerated from the running CPython by
   gen/gen_t_c16.py, which also compares the resulting one-character relation
   with `re` itself).  What stays assumed: the search loop of `finditer`
   (leftmost, non-overlapping, an empty match at every position) and that the
   C matcher runs a sequence of one-character ops left to right. *)
From Coq Require Import ZArith List Bool FMapPositive.
From PTK Require Import Lib.Sx Lib.Py Gen.C16_Sre.
Import ListNotations.
Open Scope Z_scope.

Fixpoint memz (x : Z) (l : list Z) : bool :=
  match l with
  | [] => false
  | y :: r => (y =? x) || memz x r
  end.

Fixpoint assocz {T} (x : Z) (l : list (Z * T)) : option T :=
  match l with
  | [] => None
  | (k, v) :: r => if k =? x then Some v else assocz x r
  end.

(* re.escape(s) *)
Definition re_escape (s : str) : str :=
  flat_map (fun c => if memz c c16_re_special then [92; c] else [c]) s.

(* _parser._escape for a two-character token `\e` outside a character set:
   Some v = (LITERAL, v); None = a category, a numeric/hex/unicode/group
   escape, or "bad escape" *)
Definition escape_code (e : Z) : option Z :=
  if memz e c16_sre_categories then None
  else match assocz e c16_sre_escapes with
       | Some v => Some v
       | None =>
           if memz e c16_sre_digits then None
           else if memz e c16_sre_asciiletters then None
           else Some e
       end.

(* `{` starts a repeat only when it is followed by  digits* [, digits*] `}`
   and not directly by `}`; otherwise _parse appends it as a LITERAL *)
Fixpoint skip_digits (s : str) : str :=
  match s with
  | [] => []
  | c :: r => if memz c c16_sre_digits then skip_digits r else s
  end.
Definition brace_is_repeat (r : str) : bool :=
  match r with
  | [] => false
  | c :: _ =>
      if c =? 125 then false
      else let r1 := skip_digits r in
           let r2 := match r1 with
                     | [] => r1
                     | c1 :: r1' => if c1 =? 44 then skip_digits r1' else r1
                     end in
           match r2 with [] => false | c2 :: _ => c2 =? 125 end
  end.

(* Tokenizer + _parse (flags without VERBOSE): Some l = the parser yields the
   literal sequence l.  None = it does not, OR the pattern uses a construct
   outside this model: an unescaped `[` (a one-element set is a LITERAL for
   the parser) or `(` (flag groups and comments vanish), an escape followed by
   a digit or by x, u, U, N. *)
Fixpoint parse_literals (s : str) : option (list Z) :=
  match s with
  | [] => Some []
  | c :: r =>
      if c =? 92 then
        match r with
        | [] => None                        (* bad escape (end of pattern) *)
        | e :: r' =>
            match escape_code e, parse_literals r' with
            | Some v, Some l => Some (v :: l)
            | _, _ => None
            end
        end
      else if memz c [124; 41] then None    (* `|` `)` end the (sub)pattern *)
      else if (c =? 123) && negb (brace_is_repeat r) then
        match parse_literals r with
        | Some l => Some (c :: l)
        | None => None
        end
      else if memz c c16_sre_special then None
      else match parse_literals r with
           | Some l => Some (c :: l)
           | None => None
           end
  end.

(* _sre.unicode_tolower / unicode_iscased *)
Definition sre_lower (c : Z) : Z :=
  match assocz c c16_sre_lower with Some v => v | None => c end.
Definition sre_iscased (c : Z) : bool := memz c c16_sre_cased.

Inductive op :=
| OLit (c : Z)                (* LITERAL *)
| OLitIgn (lo : Z)            (* LITERAL_UNI_IGNORE *)
| OInIgn (set : list Z).      (* IN_UNI_IGNORE over LITERAL items *)

(* _compiler._compile for (LITERAL, c) under `flags & IGNORECASE = ic` (str
   pattern: no LOCALE, no ASCII flag) *)
Definition compile_lit (ic : bool) (c : Z) : op :=
  if negb ic then OLit c
  else if negb (sre_iscased c) then OLit c
  else let lo := sre_lower c in
       match assocz lo c16_sre_extra with
       | None => OLitIgn lo
       | Some fx => OInIgn (lo :: fx)
       end.

(* one op against one text character *)
Definition op_match (o : op) (t : Z) : bool :=
  match o with
  | OLit c => t =? c
  | OLitIgn lo => sre_lower t =? lo
  | OInIgn set => memz (sre_lower t) set
  end.

Definition compile_pattern (ic : bool) (pat : str) : option (list op) :=
  match parse_literals pat with
  | Some l => Some (map (compile_lit ic) l)
  | None => None
  end.

(* the op sequence matches at the beginning of [s] *)
Fixpoint match_ops (ops : list op) (s : str) : bool :=
  match ops, s with
  | [], _ => true
  | o :: r, t :: s' => op_match o t && match_ops r s'
  | _ :: _, [] => false
  end.

(* the per-character relation of re.IGNORECASE (pattern character first) *)
Definition ceq_sre (p t : Z) : bool := op_match (compile_lit true p) t.

(* ---------------------------------------------------------------------- *)
(* The same relation with the two big tables in binary tries: this is what
   the executable model runs with (Proofs/C16_RegexFacts.v: equal to
   [ceq_sre] for all p, t). *)
Definition zkey (c : Z) : positive := Z.to_pos (c + 1).

Definition lower_map : PositiveMap.t Z :=
  fold_right (fun p m => PositiveMap.add (zkey (fst p)) (snd p) m) (PositiveMap.empty Z) c16_sre_lower.
Definition cased_map : PositiveMap.t unit :=
  fold_right (fun c m => PositiveMap.add (zkey c) tt m) (PositiveMap.empty unit) c16_sre_cased.

Definition lower_fast (c : Z) : Z :=
  if c <? 0 then c
  else match PositiveMap.find (zkey c) lower_map with Some v => v | None => c end.
Definition iscased_fast (c : Z) : bool :=
  if c <? 0 then false
  else match PositiveMap.find (zkey c) cased_map with Some _ => true | None => false end.

Definition ceq_fast (p t : Z) : bool :=
  if negb (iscased_fast p) then t =? p
  else let lo := lower_fast p in
       match assocz lo c16_sre_extra with
       | None => lower_fast t =? lo
       | Some fx => memz (lower_fast t) (lo :: fx)
       end.

(* ASCII lower-casing, for the statement of the ASCII law *)
Definition ascii_lower (c : Z) : Z :=
  if (65 <=? c) && (c <=? 90) then c + 32 else c.
