(* C04 - the key-binding registries of key_binding/key_bindings.py:
   KeyBindings (binding list, version counter, the two lookup caches, add,
   remove with its iterate-while-removing loop as coded) and the four wrappers
   built on _Proxy (_last_version / _bindings2 and _update_cache):
   ConditionalKeyBindings, _MergedKeyBindings, DynamicKeyBindings,
   GlobalOnlyKeyBindings.  Objects live in a store (list; identity = index);
   a wrapper's children were created before it (smaller index).
   Definitions only (proofs: Proofs/C04_RegistryFacts.v).

   Simplifications, each named in design.d/C04.md:
   - `child._version` followed by `child.bindings` (two _update_cache calls on
     the child, the second one finding nothing to do) is one call of [upd];
   - SimpleCache eviction is modelled ([cache_put]: the oldest entry goes when the
     size exceeds maxsize); the two maxsize values (10000 / 1000 in the source) are
     a parameter [mx] of [lookup], read from the real objects by the harness;
   - id(key_bindings) in DynamicKeyBindings' version is the store index;
   - filters are expressions; ConditionalKeyBindings' `self.filter & b.filter`
     is the expression [FAnd], compared through truth tables (the object
     algebra is Model/C04_Filters.v). *)
From Coq Require Import ZArith List Bool.
From PTK Require Import Lib.Sx Model.C04_KeyProc.
Import ListNotations.
Open Scope Z_scope.

Inductive ver : Type :=
| VInt (z : Z)
| VTup (l : list ver)           (* tuple(r._version for r in registries); () is VTup [] *)
| VDyn (i : nat) (v : ver).     (* (id(key_bindings), key_bindings._version) *)

Fixpoint ver_eqb (a b : ver) {struct a} : bool :=
  match a, b with
  | VInt x, VInt y => x =? y
  | VTup xs, VTup ys =>
      (fix go (xs ys : list ver) {struct xs} : bool :=
         match xs, ys with
         | [], [] => true
         | x :: xs', y :: ys' => ver_eqb x y && go xs' ys'
         | _, _ => false
         end) xs ys
  | VDyn i x, VDyn j y => Nat.eqb i j && ver_eqb x y
  | _, _ => false
  end.

Definition lcache : Type := list (list Z * list binding).

Fixpoint keys_eqb (a b : list Z) : bool :=
  match a, b with
  | [], [] => true
  | x :: a', y :: b' => (x =? y) && keys_eqb a' b'
  | _, _ => false
  end.

Fixpoint cache_get (ks : list Z) (c : lcache) : option (list binding) :=
  match c with
  | [] => None
  | (k, r) :: t => if keys_eqb ks k then Some r else cache_get ks t
  end.

(* SimpleCache.get on a miss:
     self._data[key] = value; self._keys.append(key)
     if len(self._data) > self.maxsize: key_to_remove = self._keys.popleft(); del self._data[key_to_remove]
   The list holds the entries newest first, so the oldest one is the last.  A key is only
   appended on a miss, so _keys has no duplicates and `key_to_remove in self._data` holds. *)
Definition cache_put (mx : nat) (ks : list Z) (r : list binding) (c : lcache) : lcache :=
  let c' := (ks, r) :: c in
  if Nat.ltb mx (length c') then removelast c' else c'.

(* maxsize of _get_bindings_for_keys_cache, of _get_bindings_starting_with_keys_cache *)
Definition maxsizes : Type := (nat * nat)%type.

Record proxy : Type := mkproxy {
  lastv : ver;               (* _last_version *)
  b2 : list binding;         (* _bindings2.bindings *)
  pc1 : lcache;              (* _bindings2._get_bindings_for_keys_cache *)
  pc2 : lcache               (* _bindings2._get_bindings_starting_with_keys_cache *)
}.

Definition proxy0 : proxy := mkproxy (VTup []) [] [] [].

Inductive obj : Type :=
| OKB (bs : list binding) (v : Z) (c1 c2 : lcache)
| OCondW (child : nat) (f : fexpr) (p : proxy)
| OMerged (children : list nat) (p : proxy)
| ODyn (cands : list nat) (sel : option nat)     (* get_key_bindings() returns cands[sel] or None *)
| OGlobal (child : nat) (p : proxy).

Definition store : Type := list obj.

Fixpoint set_nth {T} (l : list T) (i : nat) (x : T) : list T :=
  match l, i with
  | [], _ => []
  | _ :: r, O => x :: r
  | y :: r, S i' => y :: set_nth r i' x
  end.

(* uncached getters of KeyBindings over a plain binding list *)
Definition for_keys (bs : list binding) (ks : list Z) : list binding :=
  map snd (get_for_keys (index_from 0 bs) ks).
Definition starting_with (bs : list binding) (ks : list Z) : list binding :=
  map snd (get_starting_with (index_from 0 bs) ks).

(* Binding(keys=b.keys, handler=b.handler, filter=self.filter & b.filter, eager=b.eager, ...) *)
Definition cond_binding (f : fexpr) (b : binding) : binding :=
  mkbinding (bkeys b) (FAnd f (bfilter b)) (beager b) (bglobal b) (bhandler b) (bacts b) (bmacro b) (bsave b).

Definition dyn_child (cands : list nat) (sel : option nat) : option nat :=
  match sel with Some k => nth_error cands k | None => None end.

(* tuple(r._version for r in self.registries) / bindings2.bindings.extend(reg.bindings), [u] = _update_cache of a child *)
Fixpoint upd_list (u : store -> nat -> store * ver * list binding) (s : store) (cs : list nat)
  : store * list ver * list binding :=
  match cs with
  | [] => (s, [], [])
  | c :: r => let '(s1, v, b) := u s c in
              let '(s2, vs, bs) := upd_list u s1 r in
              (s2, v :: vs, b ++ bs)
  end.

(* obj._update_cache(); returns the store, obj._version and obj.bindings *)
Fixpoint upd (fuel : nat) (s : store) (i : nat) : store * ver * list binding :=
  match fuel with
  | O => (s, VTup [], [])
  | S f =>
    match nth_error s i with
    | None => (s, VTup [], [])
    | Some (OKB bs v _ _) => (s, VInt v, bs)
    | Some (OCondW c flt p) =>
        let '(s1, v, bs) := upd f s c in
        if ver_eqb (lastv p) v then (s1, v, b2 p)
        else let nb := map (cond_binding flt) bs in
             (set_nth s1 i (OCondW c flt (mkproxy v nb [] [])), v, nb)
    | Some (OMerged cs p) =>
        let '(s1, vs, bs) := upd_list (upd f) s cs in
        if ver_eqb (lastv p) (VTup vs) then (s1, VTup vs, b2 p)
        else (set_nth s1 i (OMerged cs (mkproxy (VTup vs) bs [] [])), VTup vs, bs)
    | Some (ODyn cands sel) =>
        match dyn_child cands sel with
        | Some c => let '(s1, v, bs) := upd f s c in (s1, VDyn c v, bs)
        | None => (s, VDyn i (VInt 0), [])          (* self._dummy: an empty KeyBindings *)
        end
    | Some (OGlobal c p) =>
        let '(s1, v, bs) := upd f s c in
        if ver_eqb (lastv p) v then (s1, v, b2 p)
        else let nb := filter bglobal bs in
             (set_nth s1 i (OGlobal c (mkproxy v nb [] [])), v, nb)
    end
  end.

Definition proxy_of (o : obj) : option proxy :=
  match o with
  | OCondW _ _ p | OMerged _ p | OGlobal _ p => Some p
  | _ => None
  end.

Definition with_proxy (o : obj) (p : proxy) : obj :=
  match o with
  | OCondW c f _ => OCondW c f p
  | OMerged cs _ => OMerged cs p
  | OGlobal c _ => OGlobal c p
  | _ => o
  end.

(* which = true: get_bindings_for_keys, false: get_bindings_starting_with_keys *)
Definition getter (which : bool) := if which then for_keys else starting_with.

Fixpoint lookup (mx : maxsizes) (fuel : nat) (which : bool) (s : store) (i : nat) (ks : list Z) : store * list binding :=
  match fuel with
  | O => (s, [])
  | S f =>
    match nth_error s i with
    | None => (s, [])
    | Some (OKB bs v c1 c2) =>
        match cache_get ks (if which then c1 else c2) with
        | Some r => (s, r)
        | None => let r := getter which bs ks in
                  (set_nth s i (if which then OKB bs v (cache_put (fst mx) ks r c1) c2
                                else OKB bs v c1 (cache_put (snd mx) ks r c2)), r)
        end
    | Some (ODyn cands sel) =>
        let '(s1, _, _) := upd (S f) s i in
        match dyn_child cands sel with
        | Some c => lookup mx f which s1 c ks
        | None => (s1, [])
        end
    | Some _ =>
        let '(s1, _, _) := upd (S f) s i in
        match nth_error s1 i with
        | Some o =>
            match proxy_of o with
            | Some p =>
                match cache_get ks (if which then pc1 p else pc2 p) with
                | Some r => (s1, r)
                | None => let r := getter which (b2 p) ks in
                          let p' := if which then mkproxy (lastv p) (b2 p) (cache_put (fst mx) ks r (pc1 p)) (pc2 p)
                                    else mkproxy (lastv p) (b2 p) (pc1 p) (cache_put (snd mx) ks r (pc2 p)) in
                          (set_nth s1 i (with_proxy o p'), r)
                end
            | None => (s1, [])
            end
        | None => (s1, [])
        end
    end
  end.

(* ---- mutators of KeyBindings ---- *)
Inductive fcls := CAlways | CNever | COther.
(* class of the object the real algebra returns for an expression (Always/Never absorb) *)
Fixpoint cls (f : fexpr) : fcls :=
  match f with
  | FAlways => CAlways
  | FNever => CNever
  | FCond _ => COther
  | FNot g => match cls g with CAlways => CNever | CNever => CAlways | COther => COther end
  | FAnd g h => match cls g with
                | CAlways => cls h
                | CNever => CNever
                | COther => match cls h with CAlways => COther | CNever => CNever | COther => COther end
                end
  | FOr g h => match cls g with
               | CAlways => CAlways
               | CNever => cls h
               | COther => match cls h with CAlways => CAlways | CNever => COther | COther => COther end
               end
  end.

(* self.bindings.append(...); self._clear_cache() *)
Definition kb_append (s : store) (k : nat) (b : binding) : store :=
  match nth_error s k with
  | Some (OKB bs v c1 c2) => set_nth s k (OKB (bs ++ [b]) (v + 1) [] [])
  | _ => s
  end.

(* add( *keys, filter=.., eager=.., is_global=.., save_before=.., record_in_macro=..)(function):
   `if isinstance(filter, Never): (nothing)` else append + _clear_cache *)
Definition kb_add (s : store) (k : nat) (b : binding) : store :=
  match cls (bfilter b) with
  | CNever => s
  | _ => kb_append s k b
  end.

(* add( *keys, filter=f2, eager=e2, is_global=g2)(func) where func is a Binding object made by
   key_binding(filter=f1, eager=e1, is_global=g1, save_before=.., record_in_macro=..)(handler):
     Binding(keys, func.handler, filter=func.filter & to_filter(filter), eager=to_filter(eager) | func.eager,
             is_global=to_filter(is_global) | func.is_global,
             save_before=(func.save_before if save_before is _default_save_before else save_before),
             record_in_macro=func.record_in_macro)
   [pre] carries what the Binding object holds (its keys are unused), [arg] what add() is given. *)
Definition compose_binding (pre arg : binding) : binding :=
  mkbinding (bkeys arg) (FAnd (bfilter pre) (bfilter arg)) (FOr (beager arg) (beager pre))
            (bglobal arg || bglobal pre) (bhandler pre) (bacts pre) (bmacro pre)
            (if bsave arg =? 0 then bsave pre else bsave arg).

Definition kb_addb (s : store) (k : nat) (pre arg : binding) : store :=
  match cls (bfilter arg) with       (* the Never test looks at add()'s own filter argument *)
  | CNever => s
  | _ => kb_append s k (compose_binding pre arg)
  end.

(*  for b in self.bindings: if <match>: self.bindings.remove(b); found = True
    removing the element under the list iterator makes the iterator skip the
    next element.  Returns the surviving list and `found`. *)
Fixpoint rm_loop (m : binding -> bool) (l : list binding) : list binding * bool :=
  match l with
  | [] => ([], false)
  | b :: r =>
      if m b then
        match r with
        | [] => ([], true)
        | c :: r' => let '(l', _) := rm_loop m r' in (c :: l', true)
        end
      else let '(l', fd) := rm_loop m r in (b :: l', fd)
  end.

(* status: 0 ok, 1 ValueError, 2 UnboundLocalError (the `function` in the message is unbound on the keys path) *)
Definition kb_remove (s : store) (k : nat) (by_handler : bool) (h : Z) (ks : list Z) : store * Z :=
  match nth_error s k with
  | Some (OKB bs v c1 c2) =>
      let m := if by_handler then (fun b => bhandler b =? h) else (fun b => keys_eqb (bkeys b) ks) in
      let '(bs', found) := rm_loop m bs in
      if found then (set_nth s k (OKB bs' (v + 1) [] []), 0)
      else (s, if by_handler then 1 else 2)
  | _ => (s, 99)
  end.

Definition set_dyn (s : store) (d : nat) (sel : option nat) : store :=
  match nth_error s d with
  | Some (ODyn cands _) => set_nth s d (ODyn cands sel)
  | _ => s
  end.

(* ---- specification: what every object denotes, recomputed from the current
   binding lists of the KeyBindings objects (no caches involved).  Objects only
   refer to older objects, so one left-to-right pass computes, for every object,
   its current version and its current binding list. *)
Definition sdflt : ver * list binding := (VTup [], []).

Definition osum (acc : list (ver * list binding)) (i : nat) (o : obj) : ver * list binding :=
  match o with
  | OKB bs v _ _ => (VInt v, bs)
  | OCondW c f _ => (fst (nth c acc sdflt), map (cond_binding f) (snd (nth c acc sdflt)))
  | OMerged cs _ => (VTup (map (fun c => fst (nth c acc sdflt)) cs),
                     flat_map (fun c => snd (nth c acc sdflt)) cs)
  | ODyn cands sel =>
      match dyn_child cands sel with
      | Some c => (VDyn c (fst (nth c acc sdflt)), snd (nth c acc sdflt))
      | None => (VDyn i (VInt 0), [])
      end
  | OGlobal c _ => (fst (nth c acc sdflt), filter bglobal (snd (nth c acc sdflt)))
  end.

Definition summ_from (acc : list (ver * list binding)) (s : store) : list (ver * list binding) :=
  fold_left (fun acc o => acc ++ [osum acc (length acc) o]) s acc.
Definition summ (s : store) : list (ver * list binding) := summ_from [] s.

(* the current binding list of object i *)
Definition denot (s : store) (i : nat) : list binding := snd (nth i (summ s) sdflt).

(* ------------------------------------------------------------- wire format *)
Inductive rop : Type :=
| RAdd (k : nat) (b : binding)
| RAddB (k : nat) (pre arg : binding)      (* add a pre-built Binding object *)
| RRemoveKeys (k : nat) (ks : list Z)
| RRemoveHandler (k : nat) (h : Z)
| RSetDyn (d : nat) (sel : option nat)
| RLookup (which : bool) (i : nat) (ks : list Z)
| RBindings (i : nat).

Definition as_nat (s : sx) : option nat :=
  match s with A z => if 0 <=? z then Some (Z.to_nat z) else None | _ => None end.

Definition dec_nats (s : sx) : option (list nat) :=
  match s with L l => map_opt as_nat l | _ => None end.

Definition dec_obj (s : sx) : option obj :=
  match s with
  | L [A 0] => Some (OKB [] 0 [] [])
  | L [A 1; c; f] => match as_nat c, dec_f f with Some c', Some f' => Some (OCondW c' f' proxy0) | _, _ => None end
  | L [A 2; cs] => match dec_nats cs with Some cs' => Some (OMerged cs' proxy0) | None => None end
  | L [A 3; cs] => match dec_nats cs with Some cs' => Some (ODyn cs' None) | None => None end
  | L [A 4; c] => match as_nat c with Some c' => Some (OGlobal c' proxy0) | None => None end
  | _ => None
  end.

Definition dec_rop (s : sx) : option rop :=
  match s with
  | L [A 0; k; b] => match as_nat k, dec_binding b with Some k', Some b' => Some (RAdd k' b') | _, _ => None end
  | L [A 1; k; ks] => match as_nat k, as_str ks with Some k', Some ks' => Some (RRemoveKeys k' ks') | _, _ => None end
  | L [A 2; k; A h] => match as_nat k with Some k' => Some (RRemoveHandler k' h) | None => None end
  | L [A 3; d; A sel] =>
      match as_nat d with
      | Some d' => Some (RSetDyn d' (if sel <? 0 then None else Some (Z.to_nat sel)))
      | None => None
      end
  | L [A 4; i; ks] => match as_nat i, as_str ks with Some i', Some ks' => Some (RLookup true i' ks') | _, _ => None end
  | L [A 5; i; ks] => match as_nat i, as_str ks with Some i', Some ks' => Some (RLookup false i' ks') | _, _ => None end
  | L [A 6; i] => match as_nat i with Some i' => Some (RBindings i') | None => None end
  | L [A 7; k; pre; arg] =>
      match as_nat k, dec_binding pre, dec_binding arg with
      | Some k', Some pre', Some arg' => Some (RAddB k' pre' arg')
      | _, _, _ => None
      end
  | _ => None
  end.

(* children must already exist *)
Fixpoint wf_objs (n : nat) (l : list obj) : bool :=
  match l with
  | [] => true
  | o :: r =>
      (match o with
       | OKB _ _ _ _ => true
       | OCondW c _ _ | OGlobal c _ => Nat.ltb c n
       | OMerged cs _ | ODyn cs _ => forallb (fun c => Nat.ltb c n) cs
       end) && wf_objs (S n) r
  end.



Definition enc_binding (nc : nat) (b : binding) : sx :=
  L [sx_str (bkeys b); A (bhandler b);
     L (map (fun e => sx_bool (feval e (bfilter b))) (all_envs nc));
     L (map (fun e => sx_bool (feval e (beager b))) (all_envs nc));
     sx_bool (bglobal b); sx_bool (bmacro b); A (bsave b)].

Definition is_kb (s : store) (k : nat) : bool :=
  match nth_error s k with Some (OKB _ _ _ _) => true | _ => false end.
Definition is_dyn (s : store) (k : nat) : bool :=
  match nth_error s k with Some (ODyn _ _) => true | _ => false end.

(* the state the correspondence compares at the end of a history, object by object:
   KeyBindings: version counter and the keys held by the two SimpleCaches (newest first);
   caching wrappers: _last_version and the keys held by the caches of _bindings2 *)
Fixpoint enc_ver (v : ver) : sx :=
  match v with
  | VInt z => L [A 0; A z]
  | VTup l => L (A 1 :: (fix go (l : list ver) : list sx :=
                           match l with [] => [] | x :: r => enc_ver x :: go r end) l)
  | VDyn i x => L [A 2; A (Z.of_nat i); enc_ver x]
  end.

Definition enc_ckeys (c : lcache) : sx := L (map (fun e => sx_str (fst e)) c).

Definition enc_objstate (o : obj) : sx :=
  match o with
  | OKB _ v c1 c2 => L [enc_ver (VInt v); enc_ckeys c1; enc_ckeys c2]
  | OCondW _ _ p | OMerged _ p | OGlobal _ p => L [enc_ver (lastv p); enc_ckeys (pc1 p); enc_ckeys (pc2 p)]
  | ODyn _ _ => L []
  end.

Fixpoint run_rops (mx : maxsizes) (nc : nat) (s : store) (ops : list rop) : list sx :=
  let fuel := S (length s) in
  match ops with
  | [] => [L [A 50; L (map enc_objstate s)]]
  | o :: r =>
      match o with
      | RAdd k b => if is_kb s k then L [A 0] :: run_rops mx nc (kb_add s k b) r else [L [A (-1)]]
      | RAddB k pre arg => if is_kb s k then L [A 0] :: run_rops mx nc (kb_addb s k pre arg) r else [L [A (-1)]]
      | RRemoveKeys k ks =>
          if is_kb s k then let '(s', st) := kb_remove s k false 0 ks in L [A st] :: run_rops mx nc s' r
          else [L [A (-1)]]
      | RRemoveHandler k h =>
          if is_kb s k then let '(s', st) := kb_remove s k true h [] in L [A st] :: run_rops mx nc s' r
          else [L [A (-1)]]
      | RSetDyn d sel => if is_dyn s d then L [A 0] :: run_rops mx nc (set_dyn s d sel) r else [L [A (-1)]]
      | RLookup which i ks =>
          if Nat.ltb i (length s) then
            let '(s', bs) := lookup mx fuel which s i ks in
            L [A 0; L (map (enc_binding nc) bs)] :: run_rops mx nc s' r
          else [L [A (-1)]]
      | RBindings i =>
          if Nat.ltb i (length s) then
            let '(s', _, bs) := upd fuel s i in
            L [A 0; L (map (enc_binding nc) bs)] :: run_rops mx nc s' r
          else [L [A (-1)]]
      end
  end.

(* case = (nconds objects ops (maxsize1 maxsize2)) *)
Definition run_registry (c : list sx) : sx :=
  match c with
  | [A nc; L objs; L ops; L [A m1; A m2]] =>
      match map_opt dec_obj objs, map_opt dec_rop ops with
      | Some objs', Some ops' =>
          if (0 <=? nc) && (nc <=? 6) && wf_objs 0 objs' && (1 <=? m1) && (1 <=? m2)   (* assert maxsize > 0 *)
          then L (run_rops (Z.to_nat m1, Z.to_nat m2) (Z.to_nat nc) objs' ops')
          else bad_case
      | _, _ => bad_case
      end
  | _ => bad_case
  end.
