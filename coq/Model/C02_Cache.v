(* C02 - the module-level line cache of prompt_toolkit.document
   (_text_to_document_cache : text -> _DocumentCache{lines, line_indexes}) as a
   memo table.  Document.lines / Document._line_start_indexes read through it;
   entries appear when a Document with that text is created and may vanish
   when the last such Document dies (WeakValueDictionary): CDrop. *)
From Coq Require Import ZArith List Bool.
From PTK Require Import Lib.Sx Lib.Py Model.Document.
Import ListNotations.
Open Scope Z_scope.

Record centry := mkce { ce_lines : option (list str); ce_indexes : option (list Z) }.
Definition cache := list (str * centry).
Definition empty_entry : centry := mkce None None.

Fixpoint clookup (c : cache) (t : str) : option centry :=
  match c with
  | [] => None
  | (k, e) :: r => if str_eqb k t then Some e else clookup r t
  end.

Fixpoint cstore (c : cache) (t : str) (e : centry) : cache :=
  match c with
  | [] => [(t, e)]
  | (k, e0) :: r => if str_eqb k t then (k, e) :: r else (k, e0) :: cstore r t e
  end.

Fixpoint cdrop (c : cache) (t : str) : cache :=
  match c with
  | [] => []
  | (k, e) :: r => if str_eqb k t then cdrop r t else (k, e) :: cdrop r t
  end.

Definition centry_of (c : cache) (t : str) : centry :=
  match clookup c t with Some e => e | None => empty_entry end.

(* Document.__init__: self._cache = _text_to_document_cache[text], or a new _DocumentCache *)
Definition cnew (c : cache) (t : str) : cache :=
  match clookup c t with Some _ => c | None => cstore c t empty_entry end.

(* Document.lines *)
Definition cached_lines (c : cache) (t : str) : list str * cache :=
  let e := centry_of c t in
  match ce_lines e with
  | Some l => (l, c)
  | None => let l := split_on NL t in (l, cstore c t (mkce (Some l) (ce_indexes e)))
  end.

(* Document._line_start_indexes (reads self.lines, i.e. through the cache) *)
Definition cached_indexes (c : cache) (t : str) : list Z * cache :=
  let e := centry_of c t in
  match ce_indexes e with
  | Some ix => (ix, c)
  | None =>
      let '(ls, c1) := cached_lines c t in
      let ix0 := 0 :: cumul ls 0 in
      let ix := if 1 <? len ix0 then removelast ix0 else ix0 in
      (ix, cstore c1 t (mkce (ce_lines (centry_of c1 t)) (Some ix)))
  end.

Inductive cop : Type :=
| CNew (t : str) | CLines (t : str) | CIndexes (t : str) | CDrop (t : str).

Definition cop_text (o : cop) : str :=
  match o with CNew t | CLines t | CIndexes t | CDrop t => t end.

(* value observed by the operation: lines / indexes / nothing *)
Inductive cval : Type := VNone | VLines (l : list str) | VIndexes (l : list Z).

Definition cstep (c : cache) (o : cop) : cval * cache :=
  match o with
  | CNew t => (VNone, cnew c t)
  | CLines t => let '(l, c') := cached_lines (cnew c t) t in (VLines l, c')
  | CIndexes t => let '(ix, c') := cached_indexes (cnew c t) t in (VIndexes ix, c')
  | CDrop t => (VNone, cdrop c t)
  end.

(* what the same operation yields without any cache *)
Definition cspec (o : cop) : cval :=
  match o with
  | CNew _ | CDrop _ => VNone
  | CLines t => VLines (lines (mkdoc t 0))
  | CIndexes t => VIndexes (line_start_indexes (mkdoc t 0))
  end.

Fixpoint crun (c : cache) (ops : list cop) : list cval * cache :=
  match ops with
  | [] => ([], c)
  | o :: r => let '(v, c1) := cstep c o in let '(vs, c2) := crun c1 r in (v :: vs, c2)
  end.

(* ---------------------------------------------------------------------- *)
(* wire: (-1 (op ...)) with op = (code text); per op: (value (present has_lines has_indexes)) *)

Definition flags (c : cache) (t : str) : sx :=
  match clookup c t with
  | None => L [A 0; A 0; A 0]
  | Some e => L [A 1; sx_bool (match ce_lines e with Some _ => true | None => false end);
                 sx_bool (match ce_indexes e with Some _ => true | None => false end)]
  end.

Definition sx_cval (v : cval) : sx :=
  match v with
  | VNone => L []
  | VLines l => sx_list sx_str l
  | VIndexes l => sx_list A l
  end.

Definition decode_cop (s : sx) : option cop :=
  match s with
  | L [A code; t] =>
      match as_str t with
      | Some t =>
          if code =? 1 then Some (CNew t) else if code =? 2 then Some (CLines t)
          else if code =? 3 then Some (CIndexes t) else if code =? 4 then Some (CDrop t) else None
      | None => None
      end
  | _ => None
  end.

Fixpoint run_cache_ops (c : cache) (ops : list cop) : list sx :=
  match ops with
  | [] => []
  | o :: r => let '(v, c1) := cstep c o in
              L [sx_cval v; flags c1 (cop_text o)] :: run_cache_ops c1 r
  end.

Definition run_cache_case (ops : list sx) : sx :=
  match map_opt decode_cop ops with
  | Some ops => L (run_cache_ops [] ops)
  | None => bad_case
  end.
