(* C02 - the module-level line cache of prompt_toolkit.document
   (_text_to_document_cache : text -> _DocumentCache{lines, line_indexes}) as a
   memo table.  Document.lines / Document._line_start_indexes read through it;
   entries appear when a Document with that text is created and may vanish
   when the last such Document dies (WeakValueDictionary): CDrop. *)
From Coq Require Import ZArith List Bool.
From PTK Require Import Lib.Sx Lib.Py Model.Document.
Import ListNotations.
Open Scope Z_scope.

Record centry := mkce { ce_lines : option (list str); ce_indexes : option (list Z) }.
Definition cache := list (str * centry).
Definition empty_entry : centry := mkce None None.

Fixpoint clookup (c : cache) (t : str) : option centry :=
  match c with
  | [] => None
  | (k, e) :: r => if str_eqb k t then Some e else clookup r t
  end.

Fixpoint cstore (c : cache) (t : str) (e : centry) : cache :=
  match c with
  | [] => [(t, e)]
  | (k, e0) :: r => if str_eqb k t then (k, e) :: r else (k, e0) :: cstore r t e
  end.

Fixpoint cdrop (c : cache) (t : str) : cache :=
  match c with
  | [] => []
  | (k, e) :: r => if str_eqb k t then cdrop r t else (k, e) :: cdrop r t
  end.

Definition centry_of (c : cache) (t : str) : centry :=
  match clookup c t with Some e => e | None => empty_entry end.

(* Document.__init__: self._cache = _text_to_document_cache[text], or a new _DocumentCache *)
Definition cnew (c : cache) (t : str) : cache :=
  match clookup c t with Some _ => c | None => cstore c t empty_entry end.

(* Document.lines *)
Definition cached_lines (c : cache) (t : str) : list str * cache :=
  let e := centry_of c t in
  match ce_lines e with
  | Some l => (l, c)
  | None => let l := split_on NL t in (l, cstore c t (mkce (Some l) (ce_indexes e)))
  end.

(* Document._line_start_indexes (reads self.lines, i.e. through the cache) *)
Definition cached_indexes (c : cache) (t : str) : list Z * cache :=
  let e := centry_of c t in
  match ce_indexes e with
  | Some ix => (ix, c)
  | None =>
      let '(ls, c1) := cached_lines c t in
      let ix0 := 0 :: cumul ls 0 in
      let ix := if 1 <? len ix0 then removelast ix0 else ix0 in
      (ix, cstore c1 t (mkce (ce_lines (centry_of c1 t)) (Some ix)))
  end.

Inductive cop : Type :=
| CNew (t : str) | CLines (t : str) | CIndexes (t : str) | CDrop (t : str).

Definition cop_text (o : cop) : str :=
  match o with CNew t | CLines t | CIndexes t | CDrop t => t end.

(* value observed by the operation: lines / indexes / nothing *)
Inductive cval : Type := VNone | VLines (l : list str) | VIndexes (l : list Z).

Definition cstep (c : cache) (o : cop) : cval * cache :=
  match o with
  | CNew t => (VNone, cnew c t)
  | CLines t => let '(l, c') := cached_lines (cnew c t) t in (VLines l, c')
  | CIndexes t => let '(ix, c') := cached_indexes (cnew c t) t in (VIndexes ix, c')
  | CDrop t => (VNone, cdrop c t)
  end.

(* what the same operation yields without any cache *)
Definition cspec (o : cop) : cval :=
  match o with
  | CNew _ | CDrop _ => VNone
  | CLines t => VLines (lines (mkdoc t 0))
  | CIndexes t => VIndexes (line_start_indexes (mkdoc t 0))
  end.

Fixpoint crun (c : cache) (ops : list cop) : list cval * cache :=
  match ops with
  | [] => ([], c)
  | o :: r => let '(v, c1) := cstep c o in let '(vs, c2) := crun c1 r in (v :: vs, c2)
  end.

(* ---------------------------------------------------------------------- *)
(* wire: (-1 (op ...)) with op = (code text); per op: (value (present has_lines has_indexes)) *)

Definition flags (c : cache) (t : str) : sx :=
  match clookup c t with
  | None => L [A 0; A 0; A 0]
  | Some e => L [A 1; sx_bool (match ce_lines e with Some _ => true | None => false end);
                 sx_bool (match ce_indexes e with Some _ => true | None => false end)]
  end.

Definition sx_cval (v : cval) : sx :=
  match v with
  | VNone => L []
  | VLines l => sx_list sx_str l
  | VIndexes l => sx_list A l
  end.

Definition decode_cop (s : sx) : option cop :=
  match s with
  | L [A code; t] =>
      match as_str t with
      | Some t =>
          if code =? 1 then Some (CNew t) else if code =? 2 then Some (CLines t)
          else if code =? 3 then Some (CIndexes t) else if code =? 4 then Some (CDrop t) else None
      | None => None
      end
  | _ => None
  end.

Fixpoint run_cache_ops (c : cache) (ops : list cop) : list sx :=
  match ops with
  | [] => []
  | o :: r => let '(v, c1) := cstep c o in
              L [sx_cval v; flags c1 (cop_text o)] :: run_cache_ops c1 r
  end.

Definition run_cache_case (ops : list sx) : sx :=
  match map_opt decode_cop ops with
  | Some ops => L (run_cache_ops [] ops)
  | None => bad_case
  end.

(* ====================================================================== *)
(* Round 6: the cache carried between DOCUMENTS.  A state is a set of live
   Document objects in numbered slots plus the cache table; operations create
   documents, query them (lines / _line_start_indexes / any other query, which
   pre-seeds the cache according to its footprint), drop them, and PRODUCE new
   documents from live ones (paste_clipboard_data, insert_after, insert_before,
   Document(d.text, d.cursor_position)).  A cache entry exists exactly while a
   live document has that text (WeakValueDictionary + reference counting). *)

Definition rep_str (s : str) (n : Z) : str := concat (repeat s (Z.to_nat n)).
Definition ljust (s : str) (w : Z) : str := s ++ repeat SP (Z.to_nat (w - len s)).
Fixpoint set_nth {T} (n : nat) (x : T) (l : list T) : list T :=
  match l, n with
  | [], _ => []
  | _ :: r, O => x :: r
  | y :: r, S k => y :: set_nth k x r
  end.

(* the BLOCK branch of paste_clipboard_data: for i, line in enumerate(data.split("\n")) *)
Fixpoint block_paste (ls dls : list str) (idx : nat) (sc count : Z) : list str :=
  match dls with
  | [] => ls
  | line :: r =>
      let ls1 := if (length ls <=? idx)%nat then ls ++ [[]] else ls in
      let padded := ljust (nth idx ls1 []) sc in
      let newl := firstn (Z.to_nat sc) padded ++ rep_str line count ++ skipn (Z.to_nat sc) padded in
      block_paste (set_nth idx newl ls1) r (S idx) sc count
  end.

(* Document.paste_clipboard_data(data, paste_mode, count): ty 0 CHARACTERS, 1 LINES,
   2 BLOCK; mode 0 EMACS, 1 VI_BEFORE, 2 VI_AFTER.  Returns the (text, cursor)
   handed to Document(...). *)
Definition paste_doc (d : doc) (data : str) (ty mode count : Z) : doc :=
  let before := mode =? 1 in
  let after := mode =? 2 in
  let t := dtext d in
  let cur := dcur d in
  if count <? 1 then mkdoc t cur
  else if ty =? 0 then
    let ins := rep_str data count in
    let nt := if after then slice_to t (cur + 1) ++ ins ++ slice_from t (cur + 1)
              else text_before_cursor d ++ ins ++ text_after_cursor d in
    mkdoc nt (cur + len data * count - (if before then 1 else 0))
  else if ty =? 1 then
    let l := cursor_position_row d in
    let ls := lines d in
    if before then
      mkdoc (join [NL] (slice_to ls l ++ repeat data (Z.to_nat count) ++ slice_from ls l))
            (len (concat (slice_to ls l)) + l)
    else
      mkdoc (join [NL] (slice_to ls (l + 1) ++ repeat data (Z.to_nat count) ++ slice_from ls (l + 1)))
            (len (concat (slice_to ls (l + 1))) + l + 1)
  else
    let sc := cursor_position_col d + (if before then 0 else 1) in
    mkdoc (join [NL] (block_paste (lines d) (split_on NL data) (Z.to_nat (cursor_position_row d)) sc count))
          (cur + (if before then 0 else 1)).

(* which cached fields of the SOURCE document the paste reads: 0 none, 2 both *)
Definition paste_footprint (ty count : Z) : Z :=
  if count <? 1 then 0 else if ty =? 0 then 0 else 2.

(* Document.cut_selection() with selection = SelectionState(orig, type) outside a
   running application (vi_mode() is False: upper bounds are exclusive): the
   (text, cursor) of the new Document.  ty 0 CHARACTERS, 1 LINES, 2 BLOCK. *)
Definition c_rfind_to (c : Z) (s : str) (e : Z) : Z :=
  let pre := slice_to s e in
  let p := find_char c (rev pre) in
  if p <? 0 then -1 else len pre - 1 - p.
Definition c_find_at (c : Z) (s : str) (st : Z) : Z :=
  let p := find_char c (slice_from s st) in
  if p <? 0 then -1 else adj_index (len s) st + p.
Fixpoint c_range (from : Z) (n : nat) : list Z :=
  match n with O => [] | S k => from :: c_range (from + 1) k end.

Definition cut_ranges (d : doc) (o ty : Z) : list (Z * Z) :=
  let from_ := Z.min (dcur d) o in
  let to := Z.max (dcur d) o in
  if ty =? 2 then
    let '(fl, fc0) := translate_index_to_position d from_ in
    let '(tl, tc0) := translate_index_to_position d to in
    let fc := Z.min fc0 tc0 in
    let tc := Z.max fc0 tc0 in
    flat_map (fun l =>
                let ll := len (nth (Z.to_nat l) (lines d) []) in
                if fc <=? ll
                then [(translate_row_col_to_index d l fc, translate_row_col_to_index d l (Z.min ll tc))]
                else [])
             (c_range fl (Z.to_nat (tl + 1 - fl)))
  else if ty =? 1 then
    [(Z.max 0 (c_rfind_to NL (dtext d) from_ + 1),
      let p := c_find_at NL (dtext d) to in if 0 <=? p then p else len (dtext d) - 1)]
  else [(from_, to)].

Definition c_cut_step (text : str) (acc : Z * Z * str) (r : Z * Z) : Z * Z * str :=
  let '(last_to, newcur, rem) := acc in
  let '(f, t) := r in
  (t, (if last_to =? 0 then f else newcur), rem ++ slice2 text last_to f).

Definition cut_doc (d : doc) (o ty : Z) : doc :=
  let '(last_to, newcur, rem) := fold_left (c_cut_step (dtext d)) (cut_ranges d o ty) (0, dcur d, []) in
  mkdoc (rem ++ slice_from (dtext d) last_to) newcur.

Definition cut_footprint (ty : Z) : Z := if ty =? 2 then 2 else 0.

Definition slots := list (Z * doc).
Fixpoint sget (s : slots) (i : Z) : option doc :=
  match s with
  | [] => None
  | (k, d) :: r => if k =? i then Some d else sget r i
  end.
Fixpoint sdel (s : slots) (i : Z) : slots :=
  match s with
  | [] => []
  | (k, d) :: r => if k =? i then sdel r i else (k, d) :: sdel r i
  end.
Definition sput (s : slots) (i : Z) (d : doc) : slots := (i, d) :: sdel s i.
Definition text_live (s : slots) (t : str) : bool :=
  existsb (fun p => str_eqb (dtext (snd p)) t) s.

(* the entry of a text dies with its last document *)
Definition release (s : slots) (c : cache) (t : str) : cache :=
  if text_live s t then c else cdrop c t.

(* dst = <new Document d'>: the constructor runs first (entry looked up or
   created), then the old occupant of the slot is released *)
Definition place (s : slots) (c : cache) (dst : Z) (d' : doc) : slots * cache :=
  let c1 := cnew c (dtext d') in
  let s' := sput s dst d' in
  match sget s dst with
  | Some old => (s', release s' c1 (dtext old))
  | None => (s', c1)
  end.

(* a query with footprint fp on a document of text t *)
Definition touch (c : cache) (t : str) (fp : Z) : cache :=
  if fp =? 2 then snd (cached_indexes c t)
  else if fp =? 1 then snd (cached_lines c t)
  else c.

Inductive sop : Type :=
| SNew (i : Z) (t : str) (cur : Z)
| SLines (i : Z)
| SIndexes (i : Z)
| SDrop (i : Z)
| SQuery (i : Z) (fp : Z)
| SPaste (src dst : Z) (data : str) (ty mode count : Z)
| SInsAfter (src dst : Z) (t : str)
| SInsBefore (src dst : Z) (t : str)
| SCopy (src dst : Z)
| SCut (src dst : Z) (o ty : Z).

Inductive sval : Type :=
| SVNone | SVErr | SVLines (l : list str) | SVIndexes (l : list Z) | SVDoc (d : doc).

(* Document(text, cursor): AssertionError when cursor > len(text), before the cache is touched *)
Definition ctor_ok (d : doc) : bool := dcur d <=? len (dtext d).

Definition produce (s : slots) (c : cache) (dst : Z) (d' : doc) : sval * (slots * cache) :=
  if ctor_ok d' then (SVDoc d', place s c dst d') else (SVErr, (s, c)).

Definition sstep (st : slots * cache) (o : sop) : sval * (slots * cache) :=
  let '(s, c) := st in
  match o with
  | SNew i t cur => produce s c i (mkdoc t cur)
  | SLines i =>
      match sget s i with
      | Some d => let '(l, c') := cached_lines c (dtext d) in (SVLines l, (s, c'))
      | None => (SVNone, st)
      end
  | SIndexes i =>
      match sget s i with
      | Some d => let '(ix, c') := cached_indexes c (dtext d) in (SVIndexes ix, (s, c'))
      | None => (SVNone, st)
      end
  | SDrop i =>
      match sget s i with
      | Some d => let s' := sdel s i in (SVNone, (s', release s' c (dtext d)))
      | None => (SVNone, st)
      end
  | SQuery i fp =>
      match sget s i with
      | Some d => (SVNone, (s, touch c (dtext d) fp))
      | None => (SVNone, st)
      end
  | SPaste src dst data ty mode count =>
      match sget s src with
      | Some d => produce s (touch c (dtext d) (paste_footprint ty count)) dst (paste_doc d data ty mode count)
      | None => (SVNone, st)
      end
  | SInsAfter src dst t =>
      match sget s src with
      | Some d => produce s c dst (mkdoc (dtext d ++ t) (dcur d))
      | None => (SVNone, st)
      end
  | SInsBefore src dst t =>
      match sget s src with
      | Some d => produce s c dst (mkdoc (t ++ dtext d) (dcur d + len t))
      | None => (SVNone, st)
      end
  | SCopy src dst =>
      match sget s src with
      | Some d => produce s c dst (mkdoc (dtext d) (dcur d))
      | None => (SVNone, st)
      end
  | SCut src dst o ty =>
      match sget s src with
      | Some d => produce s (touch c (dtext d) (cut_footprint ty)) dst (cut_doc d o ty)
      | None => (SVNone, st)
      end
  end.

(* the same operation on documents WITHOUT any cache *)
Definition sfree (s : slots) (o : sop) : sval * slots :=
  let prod dst d' := if ctor_ok d' then (SVDoc d', sput s dst d') else (SVErr, s) in
  match o with
  | SNew i t cur => prod i (mkdoc t cur)
  | SLines i => match sget s i with Some d => (SVLines (lines d), s) | None => (SVNone, s) end
  | SIndexes i => match sget s i with Some d => (SVIndexes (line_start_indexes d), s) | None => (SVNone, s) end
  | SDrop i => match sget s i with Some _ => (SVNone, sdel s i) | None => (SVNone, s) end
  | SQuery i _ => (SVNone, s)
  | SPaste src dst data ty mode count =>
      match sget s src with Some d => prod dst (paste_doc d data ty mode count) | None => (SVNone, s) end
  | SInsAfter src dst t =>
      match sget s src with Some d => prod dst (mkdoc (dtext d ++ t) (dcur d)) | None => (SVNone, s) end
  | SInsBefore src dst t =>
      match sget s src with Some d => prod dst (mkdoc (t ++ dtext d) (dcur d + len t)) | None => (SVNone, s) end
  | SCopy src dst =>
      match sget s src with Some d => prod dst (mkdoc (dtext d) (dcur d)) | None => (SVNone, s) end
  | SCut src dst o ty =>
      match sget s src with Some d => prod dst (cut_doc d o ty) | None => (SVNone, s) end
  end.

Fixpoint srun (st : slots * cache) (ops : list sop) : list sval * (slots * cache) :=
  match ops with
  | [] => ([], st)
  | o :: r => let '(v, st1) := sstep st o in let '(vs, st2) := srun st1 r in (v :: vs, st2)
  end.

Fixpoint sfree_run (s : slots) (ops : list sop) : list sval * slots :=
  match ops with
  | [] => ([], s)
  | o :: r => let '(v, s1) := sfree s o in let '(vs, s2) := sfree_run s1 r in (v :: vs, s2)
  end.

(* ---------------------------------------------------------------------- *)
(* which cached fields a query of Document touches (read off document.py):
   0 none, 1 lines, 2 line_indexes (and, through it, lines).  Codes are the op
   codes of run_op (Model/C02_Run.v). *)
Definition footprint (op : sx) : option Z :=
  match op with
  | L (A code :: args) =>
      if mem_Z code [1; 2; 3; 6; 7; 10; 11; 27; 28] then Some 2
      else if code =? 31 then Some 1
      else if code =? 4 then match args with [A n] => Some (if n <? 0 then 0 else 2) | _ => None end
      else if code =? 5 then match args with [A n] => Some (if n <? 0 then 2 else 0) | _ => None end
      else if code =? 8 then
        match args with
        | [b] => match as_bool b with Some b => Some (if b then 2 else 0) | None => None end
        | _ => None
        end
      else if (9 <=? code) && (code <=? 33) then Some 0
      else None
  | _ => None
  end.

(* wire: (-2 (op ...)); per op: (value state), state = what the table holds
   for the text of the op's target document after the op:
   (present lines? indexes? shared extra-fields) *)
Definition sstate (c : cache) (t : str) : sx :=
  match clookup c t with
  | None => L [A 0; L []; L []; A 0; A 0]
  | Some e => L [A 1; sx_opt (sx_list sx_str) (ce_lines e); sx_opt (sx_list A) (ce_indexes e); A 1; A 0]
  end.

Definition sx_sval (v : sval) : sx :=
  match v with
  | SVNone => L []
  | SVErr => L [A 1]
  | SVLines l => sx_list sx_str l
  | SVIndexes l => sx_list A l
  | SVDoc d => L [sx_str (dtext d); A (dcur d)]
  end.

Definition decode_sop (s : sx) : option sop :=
  match s with
  | L [A 1; A i; t; A cur] =>
      match as_str t with Some t => if cur <? 0 then None else Some (SNew i t cur) | None => None end
  | L [A 2; A i] => Some (SLines i)
  | L [A 3; A i] => Some (SIndexes i)
  | L [A 4; A i] => Some (SDrop i)
  | L [A 5; A i; op] => match footprint op with Some fp => Some (SQuery i fp) | None => None end
  | L [A 6; A src; A dst; data; A ty; A mode; A count] =>
      match as_str data with
      | Some data =>
          if (0 <=? ty) && (ty <=? 2) && (0 <=? mode) && (mode <=? 2) then Some (SPaste src dst data ty mode count)
          else None
      | None => None
      end
  | L [A 7; A src; A dst; t] => match as_str t with Some t => Some (SInsAfter src dst t) | None => None end
  | L [A 8; A src; A dst; t] => match as_str t with Some t => Some (SInsBefore src dst t) | None => None end
  | L [A 9; A src; A dst] => Some (SCopy src dst)
  | L [A 10; A src; A dst; A o; A ty] =>
      if (0 <=? ty) && (ty <=? 2) && (0 <=? o) then Some (SCut src dst o ty) else None
  | _ => None
  end.

(* the text whose table entry is reported after the op *)
Definition sop_text (before after : slots) (o : sop) : str :=
  let of s i := match sget s i with Some d => dtext d | None => [] end in
  match o with
  | SNew i _ _ => of after i
  | SLines i | SIndexes i | SQuery i _ => of after i
  | SDrop i => of before i
  | SPaste _ dst _ _ _ _ | SInsAfter _ dst _ | SInsBefore _ dst _ | SCopy _ dst | SCut _ dst _ _ => of after dst
  end.

(* a produced document with a negative cursor is outside the property *)
Definition sval_neg (v : sval) : bool :=
  match v with SVDoc d => dcur d <? 0 | _ => false end.

Fixpoint run_slot_ops (st : slots * cache) (ops : list sop) : list sx :=
  match ops with
  | [] => []
  | o :: r =>
      let '(v, st1) := sstep st o in
      if sval_neg v then [bad_case]
      else L [sx_sval v; sstate (snd st1) (sop_text (fst st) (fst st1) o)] :: run_slot_ops st1 r
  end.

Definition run_slot_case (ops : list sx) : sx :=
  match map_opt decode_sop ops with
  | Some ops => L (run_slot_ops ([], []) ops)
  | None => bad_case
  end.
