(* C15 - the list Buffer.start_history_lines_completion computes (round 6).

     current_line = self.document.current_line_before_cursor.lstrip()
     for i, string in enumerate(self._working_lines):
         for j, l in enumerate(string.split("\n")):
             l = l.strip()
             if l and l.startswith(current_line):
                 if l not in found_completions:
                     found_completions.add(l)
                     completions.append(Completion(text=l, start_position=-len(current_line), ...))
     self._set_completions(completions=completions[::-1]); self.go_to_completion(0)

   Written loop by loop: the scan state is (found_completions, completions);
   `found_completions` is a Python set, here a list with a membership test.
   str.strip()/lstrip() without argument strip the characters with
   str.isspace(): [is_space] over the regenerated table Gen/Whitespace.v.
   The working lines are an argument (the caller, [hist_step] in
   C15_Async.v, passes  before ++ [text] ++ after : `Buffer.text` IS
   `_working_lines[working_index]`); the working index only goes into
   display_meta, which is kept as the pair (i, j) of every entry. *)
From Coq Require Import ZArith List Bool.
From PTK Require Import Lib.Sx Lib.Py Gen.Whitespace.
Import ListNotations.
Open Scope Z_scope.

Definition hl_space (c : Z) : bool := mem_Z c py_isspace_table.

(* document.current_line_before_cursor.lstrip() *)
Definition hl_current_line (t : str) (p : Z) : str :=
  lstrip_by hl_space (after_last NL (slice_to t p)).

Definition str_mem (x : str) (l : list str) : bool := existsb (str_eqb x) l.

Definition is_nil {T} (l : list T) : bool := match l with [] => true | _ => false end.

(* one found line: text, index of the working line, index of the line in it *)
Record hl_entry := mkhl { hl_text : str; hl_i : Z; hl_j : Z }.
Definition hl_state := (list str * list hl_entry)%type.   (* found_completions, completions *)

(* the body of the inner loop *)
Definition hl_visit (cl : str) (i j : Z) (l0 : str) (st : hl_state) : hl_state :=
  let l := strip_by hl_space l0 in
  if negb (is_nil l) && startswith l cl then
    if str_mem l (fst st) then st else (l :: fst st, snd st ++ [mkhl l i j])
  else st.

(* for j, l in enumerate(string.split("\n")) *)
Fixpoint hl_lines (cl : str) (i j : Z) (ls : list str) (st : hl_state) : hl_state :=
  match ls with
  | [] => st
  | l0 :: r => hl_lines cl i (j + 1) r (hl_visit cl i j l0 st)
  end.

(* for i, string in enumerate(self._working_lines) *)
Fixpoint hl_strings (cl : str) (i : Z) (wl : list str) (st : hl_state) : hl_state :=
  match wl with
  | [] => st
  | s :: r => hl_strings cl (i + 1) r (hl_lines cl i 0 (split_on NL s) st)
  end.

(* completions[::-1] *)
Definition hist_entries (wl : list str) (t : str) (p : Z) : list hl_entry :=
  rev (snd (hl_strings (hl_current_line t p) 0 wl ([], []))).

(* (text, start_position) of the completions handed to _set_completions *)
Definition hist_lines (wl : list str) (t : str) (p : Z) : list (str * Z) :=
  map (fun e => (hl_text e, - len (hl_current_line t p))) (hist_entries wl t p).

(* display_meta: "Current, line %s" % (j + 1) when i == working_index, else
   f"History {i + 1}, line {j + 1}" - as (is_current, i + 1, j + 1) *)
Definition hist_meta (wi : Z) (e : hl_entry) : bool * Z * Z :=
  (hl_i e =? wi, hl_i e + 1, hl_j e + 1).
