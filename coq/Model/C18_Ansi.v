(* C18 - formatted_text/ansi.py: the ANSI._parse_corot coroutine as an explicit
   character-at-a-time state machine (one constructor of [mode] per `yield`),
   _select_graphic_rendition, _create_style_string, ansi_escape and the
   template interpolation `template[escape v]`.  Definitions only.

   [cfg] parametrises the six places where /repo was repaired (the 'fix:'
   commits 86103a9, baf43a1, afcdc3a, 8fdddd4, 74c3a15, 7fe5e6f, ae5d17b, 44b4e9c).  [cfg_now]
   is the code that is in /repo now and the only setting [run_C18] and the
   headline theorems use; [cfg_pinned] is the pinned snapshot, kept only for
   the `_pinned_refuted` theorems that document what was wrong. *)
From Coq Require Import ZArith List Bool.
From PTK Require Import Lib.Sx Lib.Py Gen.C18_Tables Model.C18_Fragments.
Import ListNotations.
Open Scope Z_scope.

Record cfg := mkcfg {
  cfg_esc_c1 : bool;        (* ansi_escape also neutralises \x9b \x01 \x02   (baf43a1) *)
  cfg_ascii_digits : bool;  (* CSI parameters: ASCII digit test, bounded int (86103a9) *)
  cfg_html_apos : bool;     (* html_escape also escapes '                    (74c3a15) *)
  cfg_html_xmlsafe : bool;  (* html_escape replaces characters XML cannot carry by '?' (7fe5e6f) *)
  cfg_zw_loop : bool;       (* after \002 the coroutine returns to the top of its loop (afcdc3a) *)
  cfg_attr_isspace : bool;  (* HTML fg/bg guard rejects every str.isspace character (8fdddd4) *)
  cfg_attr_bracket : bool;  (* HTML fg/bg guard rejects '[' (ae5d17b) *)
  cfg_html_cr : bool        (* html_escape writes \r as the character reference &#13; (44b4e9c) *)
}.
Definition cfg_pinned : cfg := mkcfg false false false false false false false false.
Definition cfg_now : cfg := mkcfg true true true true true true true true.

Inductive res (T : Type) : Type :=
| Ok (x : T)
| Err (e : Z).          (* 1 = ValueError, 2 = ExpatError, 3 = outside the modelled XML subset *)
Arguments Ok {T} x.
Arguments Err {T} e.

Definition ESC : Z := 27.
Definition CSI8 : Z := 155.   (* \x9b *)
Definition SOH : Z := 1.      (* \001 *)
Definition STX : Z := 2.      (* \002 *)
Definition BS : Z := 8.
Definition QM : Z := 63.      (* '?' *)

(* ---------------------------------------------------------------------- *)
(* str.isdigit / int() *)

Fixpoint dec_value_in (zs : list Z) (c : Z) : option Z :=
  match zs with
  | [] => None
  | z :: r => if (z <=? c) && (c <=? z + 9) then Some (c - z) else dec_value_in r c
  end.
(* Some d: a decimal digit (Nd) of value d, accepted by int() *)
Definition dec_value (c : Z) : option Z := dec_value_in c18_decimal_zeros c.
Definition py_isdigit (c : Z) : bool :=
  match dec_value c with Some _ => true | None => mem_Z c c18_nondecimal_digits end.

Fixpoint digits_value (s : str) (acc : Z) : option Z :=
  match s with
  | [] => Some acc
  | c :: r => match dec_value c with
              | Some d => digits_value r (acc * 10 + d)
              | None => None
              end
  end.
(* int(s) for a non-empty s of isdigit characters; None = ValueError *)
Definition py_int (s : str) : option Z :=
  if (0 <? c18_int_max_str_digits) && (c18_int_max_str_digits <? len s) then None
  else digits_value s 0.

Definition is_ascii_digit (c : Z) : bool := (48 <=? c) && (c <=? 57).
Fixpoint ascii_value (s : str) (acc : Z) : Z :=
  match s with [] => acc | c :: r => ascii_value r (acc * 10 + (c - 48)) end.

(* `char.isdigit()`  /  repaired: `char in "0123456789"` *)
Definition csi_isdigit (k : cfg) (c : Z) : bool :=
  if cfg_ascii_digits k then is_ascii_digit c else py_isdigit c.
(* `int(current or 0)`  /  repaired: `int(current.lstrip("0")[:5] or 0)` *)
Definition csi_int (k : cfg) (current : str) : option Z :=
  if cfg_ascii_digits k then
    Some (ascii_value (slice_to (lstrip_by (fun c => c =? 48) current) 5) 0)
  else match current with [] => Some 0 | _ => py_int current end.

(* ---------------------------------------------------------------------- *)
(* SGR state *)

Record sgr := mksgr {
  s_color : option str; s_bgcolor : option str;
  s_bold : bool; s_underline : bool; s_strike : bool; s_italic : bool;
  s_blink : bool; s_reverse : bool; s_hidden : bool }.
Definition sgr0 : sgr := mksgr None None false false false false false false false.

Fixpoint assoc (k : Z) (t : list (Z * str)) : option str :=
  match t with
  | [] => None
  | (a, v) :: r => if a =? k then Some v else assoc k r
  end.

Definition hexd (d : Z) : Z := if d <? 10 then 48 + d else 87 + d.
(* f"{v:02x}" for 0 <= v < 65536 (parameters are capped at 9999) *)
Definition hex02 (v : Z) : str :=
  if v <? 256 then [hexd (v / 16); hexd (v mod 16)]
  else if v <? 4096 then [hexd (v / 256); hexd ((v / 16) mod 16); hexd (v mod 16)]
  else [hexd (v / 4096); hexd ((v / 256) mod 16); hexd ((v / 16) mod 16); hexd (v mod 16)].

Definition set_color (g : sgr) (c : option str) : sgr :=
  mksgr c (s_bgcolor g) (s_bold g) (s_underline g) (s_strike g) (s_italic g) (s_blink g) (s_reverse g) (s_hidden g).
Definition set_bgcolor (g : sgr) (c : option str) : sgr :=
  mksgr (s_color g) c (s_bold g) (s_underline g) (s_strike g) (s_italic g) (s_blink g) (s_reverse g) (s_hidden g).

(* one attribute without operands *)
Definition sgr_simple (attr : Z) (g : sgr) : sgr :=
  match assoc attr c18_fg_colors with
  | Some nm => set_color g (Some nm)
  | None =>
  match assoc attr c18_bg_colors with
  | Some nm => set_bgcolor g (Some nm)
  | None =>
    let '(mksgr co bg bo un st it bl re hi) := g in
    if attr =? 1 then mksgr co bg true un st it bl re hi
    else if attr =? 3 then mksgr co bg bo un st true bl re hi
    else if attr =? 4 then mksgr co bg bo true st it bl re hi
    else if attr =? 5 then mksgr co bg bo un st it true re hi
    else if attr =? 6 then mksgr co bg bo un st it true re hi
    else if attr =? 7 then mksgr co bg bo un st it bl true hi
    else if attr =? 8 then mksgr co bg bo un st it bl re true
    else if attr =? 9 then mksgr co bg bo un true it bl re hi
    else if attr =? 22 then mksgr co bg false un st it bl re hi
    else if attr =? 23 then mksgr co bg bo un st false bl re hi
    else if attr =? 24 then mksgr co bg bo false st it bl re hi
    else if attr =? 25 then mksgr co bg bo un st it false re hi
    else if attr =? 27 then mksgr co bg bo un st it bl false hi
    else if attr =? 28 then mksgr co bg bo un st it bl re false
    else if attr =? 29 then mksgr co bg bo un false it bl re hi
    else if attr =? 0 then sgr0
    else g
  end end.

Definition not_earlier (attr : Z) : bool :=
  match assoc attr c18_fg_colors, assoc attr c18_bg_colors with
  | None, None => negb (mem_Z attr [1; 3; 4; 5; 6; 7; 8; 9; 22; 23; 24; 25; 27; 28; 29; 0])
  | _, _ => false
  end.

(* the `while attrs: attr = attrs.pop()` loop over the reversed list = front to back *)
Fixpoint sgr_loop (attrs : list Z) (g : sgr) : sgr :=
  match attrs with
  | [] => g
  | attr :: rest =>
      if not_earlier attr && ((attr =? 38) || (attr =? 48)) && (1 <? len rest) then
        match rest with
        | n :: rest2 =>
            if (n =? 5) && (1 <=? len rest2) then
              match rest2 with
              | m :: rest3 =>
                  sgr_loop rest3 (if attr =? 38 then set_color g (assoc m c18_256_colors)
                                  else set_bgcolor g (assoc m c18_256_colors))
              | [] => g
              end
            else if (n =? 2) && (3 <=? len rest2) then
              match rest2 with
              | r :: gg :: b :: rest3 =>
                  let cs := 35 :: hex02 r ++ hex02 gg ++ hex02 b in
                  sgr_loop rest3 (if attr =? 38 then set_color g (Some cs) else set_bgcolor g (Some cs))
              | _ => g
              end
            else sgr_loop rest2 g
        | [] => g
        end
      else sgr_loop rest (sgr_simple attr g)
  end.

(* _select_graphic_rendition(attrs): `if not attrs: attrs = [0]` *)
Definition select_graphic_rendition (attrs : list Z) (g : sgr) : sgr :=
  match attrs with [] => sgr_loop [0] g | _ => sgr_loop attrs g end.

Definition truthy (o : option str) : option str :=
  match o with Some ((_ :: _) as s) => Some s | _ => None end.

Definition w_bold : str := [98; 111; 108; 100].
Definition w_underline : str := [117; 110; 100; 101; 114; 108; 105; 110; 101].
Definition w_strike : str := [115; 116; 114; 105; 107; 101].
Definition w_italic : str := [105; 116; 97; 108; 105; 99].
Definition w_blink : str := [98; 108; 105; 110; 107].
Definition w_reverse : str := [114; 101; 118; 101; 114; 115; 101].
Definition w_hidden : str := [104; 105; 100; 100; 101; 110].
Definition w_bgcolon : str := [98; 103; 58].

Definition style_parts (g : sgr) : list str :=
  (match truthy (s_color g) with Some c => [c] | None => [] end) ++
  (match truthy (s_bgcolor g) with Some c => [w_bgcolon ++ c] | None => [] end) ++
  (if s_bold g then [w_bold] else []) ++
  (if s_underline g then [w_underline] else []) ++
  (if s_strike g then [w_strike] else []) ++
  (if s_italic g then [w_italic] else []) ++
  (if s_blink g then [w_blink] else []) ++
  (if s_reverse g then [w_reverse] else []) ++
  (if s_hidden g then [w_hidden] else []).
Definition create_style_string (g : sgr) : str := join [SP] (style_parts g).

(* ---------------------------------------------------------------------- *)
(* The coroutine.  One mode per `yield`:
     Ground         `c = yield` at the top of `while True`
     Zw esc         `c = yield` inside `while c != "\002"`  (escaped_text = esc)
     ZwEnd          `c = yield` right after the [ZeroWidthEscape] fragment was appended
     Esc            `square_bracket = yield`
     Csi cur params `char = yield` inside the CSI loop                         *)
Inductive mode :=
| Ground
| Zw (escaped : str)
| ZwEnd
| Esc
| Csi (current : str) (params : list Z).

Record pst := mkpst { p_mode : mode; p_style : str; p_sgr : sgr }.
Definition pst0 : pst := mkpst Ground [] sgr0.
Definition with_mode (st : pst) (m : mode) : pst := mkpst m (p_style st) (p_sgr st).

(* from `# Check for CSI` on, with the character in hand *)
Definition dispatch (st : pst) (c : Z) : pst * list frag :=
  if c =? ESC then (with_mode st Esc, [])
  else if c =? CSI8 then (with_mode st (Csi [] []), [])
  else (with_mode st Ground, [mkfrag (p_style st) [c] []]).

Fixpoint spaces (style : str) (n : nat) : list frag :=
  match n with O => [] | S k => mkfrag style [SP] [] :: spaces style k end.

Definition step (k : cfg) (st : pst) (c : Z) : res (pst * list frag) :=
  match p_mode st with
  | Ground =>
      if c =? SOH then Ok (with_mode st (Zw []), [])
      else Ok (dispatch st c)
  | Zw esc =>
      if c =? STX then Ok (with_mode st (if cfg_zw_loop k then Ground else ZwEnd), [mkfrag ZWE esc []])
      else Ok (with_mode st (Zw (esc ++ [c])), [])
  | ZwEnd => Ok (dispatch st c)
  | Esc =>
      if c =? 91 then Ok (with_mode st (Csi [] []), [])
      else Ok (with_mode st Ground, [])            (* `continue`: the character is dropped *)
  | Csi cur params =>
      if csi_isdigit k c then Ok (with_mode st (Csi (cur ++ [c]) params), [])
      else
        match csi_int k cur with
        | None => Err 1                            (* ValueError out of int() *)
        | Some n =>
            let params' := params ++ [Z.min n 9999] in
            if c =? 59 then Ok (with_mode st (Csi [] params'), [])
            else if c =? 109 then
              let g := select_graphic_rendition params' (p_sgr st) in
              Ok (mkpst Ground (create_style_string g) g, [])
            else if c =? 67 then
              Ok (with_mode st Ground,
                  spaces (p_style st) (Z.to_nat (match params' with p :: _ => p | [] => 0 end)))
            else Ok (with_mode st Ground, [])
        end
  end.

Fixpoint run (k : cfg) (st : pst) (s : str) : res (pst * list frag) :=
  match s with
  | [] => Ok (st, [])
  | c :: r =>
      match step k st c with
      | Err e => Err e
      | Ok (st', o) =>
          match run k st' r with
          | Err e => Err e
          | Ok (st'', o') => Ok (st'', o ++ o')
          end
      end
  end.

(* ANSI(value).__pt_formatted_text__() *)
Definition ansi_parse (k : cfg) (s : str) : res (list frag) :=
  match run k pst0 s with Ok (_, o) => Ok o | Err e => Err e end.

(* ---------------------------------------------------------------------- *)
(* ansi_escape and interpolation *)

Definition replace_char (c r : Z) (s : str) : str := map (fun x => if x =? c then r else x) s.

(* str(text).replace("\x1b", "?").replace("\b", "?")   [+ \x9b \001 \002 when repaired] *)
Definition ansi_escape (k : cfg) (v : str) : str :=
  let s := replace_char BS QM (replace_char ESC QM v) in
  if cfg_esc_c1 k then replace_char STX QM (replace_char SOH QM (replace_char CSI8 QM s)) else s.

(* the template with its fields replaced: what `template % values` and
   `FORMATTER.vformat(template, values, {})` produce, both engines being
   outside the model *)
Fixpoint fill (parts : list str) (vals : list str) : str :=
  match parts with
  | [] => []
  | [p] => p
  | p :: ps => p ++ (match vals with v :: _ => v | [] => [] end) ++ fill ps (tl vals)
  end.

Definition ansi_template (k : cfg) (parts vals : list str) : res (list frag) :=
  ansi_parse k (fill parts (map (ansi_escape k) vals)).

Definition enc_res (r : res (list frag)) : sx :=
  match r with
  | Ok o => L [A 0; enc_frags o]
  | Err e => L [A e]
  end.
