(* C06 - the terminal: a VT100 subset interpreter.  This file is the
   DEFINITION of "VT100-conforming terminal" used by the C06 theorems; the
   harness carries a line-by-line Python transcription (harness/c06_term.py)
   and both are run on the same token streams on every check.

   Rows are unbounded below AND above; row 0 is the first row owned by the
   renderer (the origin) - an inline prompt sits somewhere in the scrollback,
   so moving up from row 0 reaches rows the renderer does not own.  A cell holds a glyph, the pen it was drawn with, and a kind
   (0 narrow, 1 left half of a wide glyph, 2 right half).  Pens are opaque
   numbers (the SGR escape string, numbered by the harness; 0 is ESC[0m).
   Erasing fills with blanks in the CURRENT pen (background-colour-erase), so
   the renderer's "reset attributes before erasing" is observable. *)
From Coq Require Import ZArith List Bool.
From PTK Require Import Lib.Sx Lib.Py.
Import ListNotations.
Open Scope Z_scope.

Record tcell := mkcell { tg : list Z; tp : Z; tk : Z }.
Definition blank (p : Z) : tcell := mkcell [32] p 0.
Definition junk : tcell := mkcell [63] 7 0.

Definition grid := Z -> Z -> tcell.

Record term := mkterm {
  tgrid : grid; cx : Z; cy : Z; pen : Z;
  aw : bool;        (* autowrap mode *)
  cvis : bool;      (* cursor visible *)
  pend : bool;      (* pending wrap (cursor parked on the last column) *)
  undef : bool      (* left the defined subset *)
}.

Inductive tok :=
| TText (g : list Z) (w : Z)     (* the text of one screen cell and its display width *)
| TCR | TLF
| TCUU (n : Z) | TCUD (n : Z) | TCUF (n : Z) | TCUB (n : Z) | TBS
| TEL | TED
| TSGR (p : Z)
| TAW (b : bool)
| TCV (b : bool)
| THome
| TRaw (id : Z).

Definition upd (g : grid) (y x : Z) (v : tcell) : grid :=
  fun y' x' => if (y' =? y) && (x' =? x) then v else g y' x'.

(* Overwriting one half of a wide glyph blanks the other half (the blanked
   half keeps its own pen). *)
Definition boh (g : grid) (y x : Z) : grid :=
  if tk (g y x) =? 1 then upd g y (x + 1) (mkcell [32] (tp (g y (x + 1))) 0)
  else if tk (g y x) =? 2 then upd g y (x - 1) (mkcell [32] (tp (g y (x - 1))) 0)
  else g.

Definition set_undef (t : term) : term :=
  mkterm (tgrid t) (cx t) (cy t) (pen t) (aw t) (cvis t) (pend t) true.

Definition put (W : Z) (t : term) (g : list Z) (w : Z) : term :=
  if (w <? 1) || (2 <? w) then set_undef t else
  let wrap := pend t && aw t in
  let x := if wrap then 0 else cx t in
  let y := if wrap then cy t + 1 else cy t in
  let pd := if wrap then false else pend t in
  if (w =? 2) && (W - 1 <=? x) then
    set_undef (mkterm (tgrid t) x y (pen t) (aw t) (cvis t) pd (undef t))
  else
  let g1 := boh (tgrid t) y x in
  let g2 := if w =? 2 then boh g1 y (x + 1) else g1 in
  let g3 := upd g2 y x (mkcell g (pen t) (if w =? 1 then 0 else 1)) in
  let g4 := if w =? 2 then upd g3 y (x + 1) (mkcell [] (pen t) 2) else g3 in
  let nx := x + w in
  if nx <=? W - 1 then mkterm g4 nx y (pen t) (aw t) (cvis t) pd (undef t)
  else mkterm g4 (W - 1) y (pen t) (aw t) (cvis t) (if aw t then true else pd) (undef t).

Definition erase_line (t : term) : grid :=
  let g0 := if tk (tgrid t (cy t) (cx t)) =? 2 then boh (tgrid t) (cy t) (cx t) else tgrid t in
  fun y x => if (y =? cy t) && (cx t <=? x) then blank (pen t) else g0 y x.

Definition erase_down (t : term) : grid :=
  let g0 := erase_line t in
  fun y x => if cy t <? y then blank (pen t) else g0 y x.

(* ECMA-48: a cursor-motion parameter 0 means the default, 1 *)
Definition pn (n : Z) : Z := if n =? 0 then 1 else n.

Definition tstep (W : Z) (t : term) (k : tok) : term :=
  match k with
  | TText g w => match g with [] => t | _ => put W t g w end
  | TCR => mkterm (tgrid t) 0 (cy t) (pen t) (aw t) (cvis t) false (undef t)
  | TLF => mkterm (tgrid t) (cx t) (cy t + 1) (pen t) (aw t) (cvis t) false (undef t)
  | TCUU n => mkterm (tgrid t) (cx t) (cy t - pn n) (pen t) (aw t) (cvis t) false (undef t)
  | TCUD n => mkterm (tgrid t) (cx t) (cy t + pn n) (pen t) (aw t) (cvis t) false (undef t)
  | TCUF n => mkterm (tgrid t) (Z.min (W - 1) (cx t + pn n)) (cy t) (pen t) (aw t) (cvis t) false (undef t)
  | TCUB n => mkterm (tgrid t) (Z.max 0 (cx t - pn n)) (cy t) (pen t) (aw t) (cvis t) false (undef t)
  | TBS => mkterm (tgrid t) (Z.max 0 (cx t - 1)) (cy t) (pen t) (aw t) (cvis t) false (undef t)
  | TEL => mkterm (erase_line t) (cx t) (cy t) (pen t) (aw t) (cvis t) (pend t) (undef t)
  | TED => mkterm (erase_down t) (cx t) (cy t) (pen t) (aw t) (cvis t) (pend t) (undef t)
  | TSGR p => mkterm (tgrid t) (cx t) (cy t) p (aw t) (cvis t) (pend t) (undef t)
  | TAW b => mkterm (tgrid t) (cx t) (cy t) (pen t) b (cvis t) (if b then pend t else false) (undef t)
  | TCV b => mkterm (tgrid t) (cx t) (cy t) (pen t) (aw t) b (pend t) (undef t)
  | THome => mkterm (tgrid t) 0 0 (pen t) (aw t) (cvis t) false (undef t)
  | TRaw _ => t
  end.

Definition trun (W : Z) (t : term) (ks : list tok) : term := fold_left (tstep W) ks t.

(* The bounded terminal: B rows are available from the origin (rows 0..B-1).
   A line feed on the last row scrolls: every row up to the last moves up by
   one (rows above the origin exist: scrollback) and the last row becomes blank
   in the current pen; the number of scrolls is counted.  CUD stops at the last
   row.  Everything else is [tstep]. *)
Definition scroll_up (B : Z) (t : term) : term :=
  mkterm (fun y x => if y =? B - 1 then blank (pen t)
                     else if y <? B - 1 then tgrid t (y + 1) x else tgrid t y x)
         (cx t) (cy t) (pen t) (aw t) (cvis t) false (undef t).

Definition tstepB (B W : Z) (s : term * Z) (k : tok) : term * Z :=
  let '(t, n) := s in
  match k with
  | TLF => if cy t =? B - 1 then (scroll_up B t, n + 1) else (tstep W t TLF, n)
  | TCUD m => if cy t <=? B - 1
              then (mkterm (tgrid t) (cx t) (Z.min (B - 1) (cy t + pn m)) (pen t) (aw t) (cvis t) false (undef t), n)
              else (tstep W t k, n)
  | _ => (tstep W t k, n)
  end.

Definition trunB (B W : Z) (s : term * Z) (ks : list tok) : term * Z := fold_left (tstepB B W) ks s.

(* Row dy becomes the origin (after a done render the next output starts on
   the line the cursor was left on). *)
Definition tshift (t : term) (dy : Z) : term :=
  mkterm (fun y x => tgrid t (y + dy) x) (cx t) (cy t - dy) (pen t) (aw t) (cvis t) (pend t) (undef t).

(* What the harness's terminal starts as: never-written cells hold a marker. *)
Definition term0 : term := mkterm (fun _ _ => junk) 0 0 99 true true false false.

(* ---- wire encoding ---- *)
Definition sx_tcell (c : tcell) : sx := L [sx_str (tg c); A (tp c); A (tk c)].

Fixpoint zrange (a : Z) (n : nat) : list Z :=
  match n with O => [] | S k => a :: zrange (a + 1) k end.

Definition dump (t : term) (scrolled W nrows : Z) : sx :=
  L [A (cx t); A (cy t); A (pen t); sx_bool (aw t); sx_bool (cvis t); sx_bool (pend t); sx_bool (undef t);
     A scrolled;
     L (map (fun y => L (map (fun x => sx_tcell (tgrid t y x)) (zrange 0 (Z.to_nat W))))
            (zrange 0 (Z.to_nat nrows)))].

(* tokens -> wire, adjacent text merged into runs (what a tokeniser of the
   byte stream can see) *)
Definition sx_tok1 (k : tok) : list Z :=
  match k with
  | TText g _ => 1 :: g
  | TCR => [2] | TLF => [3]
  | TCUU n => [4; n] | TCUD n => [5; n] | TCUF n => [6; n] | TCUB n => [7; n]
  | TBS => [8] | TEL => [9] | TED => [10]
  | TSGR p => [11; p]
  | TAW b => [12; if b then 1 else 0]
  | TCV b => [13; if b then 1 else 0]
  | THome => [14]
  | TRaw i => [15; i]
  end.

Fixpoint merge_toks (cur : option (list Z)) (ks : list tok) : list (list Z) :=
  match ks with
  | [] => match cur with Some r => [1 :: r] | None => [] end
  | TText g _ :: r =>
      match g with
      | [] => merge_toks cur r
      | _ => merge_toks (Some (match cur with Some c => c ++ g | None => g end)) r
      end
  | k :: r =>
      match cur with
      | Some c => (1 :: c) :: sx_tok1 k :: merge_toks None r
      | None => sx_tok1 k :: merge_toks None r
      end
  end.

Definition sx_toks (ks : list tok) : sx := L (map (fun l => L (map A l)) (merge_toks None ks)).
