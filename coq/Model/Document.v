(* Model of prompt_toolkit.document.Document: the basic views and the
   coordinate translation, written the way the Python is written (cumulative
   line-start table + bisect_right), so that proofs in Proofs/ are about the
   algorithm that exists and not about an idealisation of it. *)
From Coq Require Import ZArith List Bool.
From PTK Require Import Lib.Sx Lib.Py Gen.Whitespace.
Import ListNotations.
Open Scope Z_scope.

Record doc := mkdoc { dtext : str; dcur : Z }.

Definition is_space (c : Z) : bool := mem_Z c py_isspace_table.

Definition text_before_cursor (d : doc) : str := slice_to (dtext d) (dcur d).
Definition text_after_cursor (d : doc) : str := slice_from (dtext d) (dcur d).

Definition current_line_before_cursor (d : doc) : str :=
  after_last NL (text_before_cursor d).
Definition current_line_after_cursor (d : doc) : str :=
  before_first NL (text_after_cursor d).
Definition current_line (d : doc) : str :=
  current_line_before_cursor d ++ current_line_after_cursor d.

Definition lines (d : doc) : list str := split_on NL (dtext d).
Definition line_count (d : doc) : Z := len (lines d).

(* _line_start_indexes: cumulative sums, last one popped when more than one *)
Fixpoint cumul (ls : list str) (pos : Z) : list Z :=
  match ls with
  | [] => []
  | l :: r => let p := pos + len l + 1 in p :: cumul r p
  end.
Definition line_start_indexes (d : doc) : list Z :=
  let ix := 0 :: cumul (lines d) 0 in
  if 1 <? len ix then removelast ix else ix.

(* bisect.bisect_right on a sorted list *)
Fixpoint bisect_right (l : list Z) (x : Z) : Z :=
  match l with
  | [] => 0
  | y :: r => if x <? y then 0 else 1 + bisect_right r x
  end.

(* _find_line_start_index: (row, start).  indexes[pos] with pos = -1 reads the
   last element, as Python does. *)
Definition find_line_start_index (d : doc) (i : Z) : Z * Z :=
  let ix := line_start_indexes d in
  let pos := bisect_right ix i - 1 in
  (pos, match index ix pos with Some v => v | None => 0 end).

Definition cursor_position_row (d : doc) : Z := fst (find_line_start_index d (dcur d)).
Definition cursor_position_col (d : doc) : Z := dcur d - snd (find_line_start_index d (dcur d)).

Definition translate_index_to_position (d : doc) (i : Z) : Z * Z :=
  let '(row, start) := find_line_start_index d i in (row, i - start).

Definition translate_row_col_to_index (d : doc) (row col : Z) : Z :=
  let ix := line_start_indexes d in
  let ls := lines d in
  let '(r0, line) :=
    match index ix row, index ls row with
    | Some r, Some l => (r, l)
    | _, _ =>
        if row <? 0 then (hd 0 ix, hd [] ls)
        else (last ix 0, last ls [])
    end in
  let r1 := r0 + Z.max 0 (Z.min col (len line)) in
  Z.max 0 (Z.min r1 (len (dtext d))).

Definition on_first_line (d : doc) : bool := cursor_position_row d =? 0.
Definition on_last_line (d : doc) : bool := cursor_position_row d =? line_count d - 1.

Definition leading_whitespace_in_current_line (d : doc) : str :=
  let cl := current_line d in
  slice_to cl (len cl - len (lstrip_by is_space cl)).

Definition get_start_of_line_position (d : doc) (after_whitespace : bool) : Z :=
  if after_whitespace then
    let cl := current_line d in
    len cl - len (lstrip_by is_space cl) - cursor_position_col d
  else - len (current_line_before_cursor d).

Definition get_end_of_line_position (d : doc) : Z := len (current_line_after_cursor d).

Definition get_cursor_left_position (d : doc) (count : Z) : Z :=
  if count <? 0 then Z.min (- count) (len (current_line_after_cursor d))
  else - Z.min (cursor_position_col d) count.
Definition get_cursor_right_position (d : doc) (count : Z) : Z :=
  if count <? 0 then - Z.min (cursor_position_col d) (- count)
  else Z.min count (len (current_line_after_cursor d)).
