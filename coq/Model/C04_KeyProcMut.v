(* C04 round 7 - handlers that mutate the registry DURING a pass.
   The processor of Model/C04_KeyProc.v with the binding list threaded through the
   handler calls: `self._bindings.get_bindings_for_keys(...)` is evaluated anew at every
   lookup, so a handler that calls kb.add / kb.remove changes what the rest of the SAME
   pass (the re-examination of the keys left in the buffer) and every later pass sees.
   A handler's registry mutations are data too: a table maps the handler identity to the
   list of mutations its body performs first (add a binding as KeyBindings.add does - an
   instance of Never is not registered; remove(handler) with the iterate-while-removing
   loop as coded, ValueError when nothing was removed), then come its [bacts].
   Cursor position reports are outside this model (the decoder rejects key 6).
   Definitions only (proofs: Proofs/C04_KeyProcMutFacts.v). *)
From Coq Require Import ZArith List Bool.
From PTK Require Import Lib.Sx Model.C04_KeyProc Model.C04_Registry.
Import ListNotations.
Open Scope Z_scope.

Inductive mut : Type := MAdd (b : binding) | MRemove (h : Z).
Definition mtable : Type := list (Z * list mut).

Fixpoint muts_of (t : mtable) (h : Z) : list mut :=
  match t with
  | [] => []
  | (k, l) :: r => if k =? h then l else muts_of r h
  end.

(* the registry after the mutations, and whether all of them succeeded (a failing
   remove raises ValueError: the earlier mutations stay) *)
Fixpoint apply_muts (ms : list mut) (bs : list binding) : list binding * bool :=
  match ms with
  | [] => (bs, true)
  | MAdd b :: r => apply_muts r (match cls (bfilter b) with CNever => bs | _ => bs ++ [b] end)
  | MRemove h :: r =>
      let '(bs', found) := rm_loop (fun b => bhandler b =? h) bs in
      if found then apply_muts r bs' else (bs, false)
  end.

(* the handler of binding m is called: registry afterwards, and the outcome of the body *)
Definition call (t : mtable) (bs : list binding) (m : ib) (e : env) (q : list item) (d : bool)
  : list binding * hres :=
  let '(bs', ok) := apply_muts (muts_of t (bhandler (snd m))) bs in
  if ok then (bs', run_actions (bacts (snd m)) e q d) else (bs', mkhres e q d [] true).

Inductive mres : Type :=
| MDone (bs : list binding) (b : list Z) (e : env) (q : list item) (d : bool) (evs : list event)
| MRaised (bs : list binding) (e : env) (d : bool) (evs : list event)
| MFuel.

Definition mapp (pre : list event) (r : mres) : mres :=
  match r with
  | MDone bs b e q d evs => MDone bs b e q d (pre ++ evs)
  | MRaised bs e d evs => MRaised bs e d (pre ++ evs)
  | MFuel => MFuel
  end.

(* [loop] of Model/C04_KeyProc.v, every lookup over the registry as it is at that moment *)
Fixpoint loop_m (fuel : nat) (t : mtable) (bs : list binding) (b : list Z) (flush : bool)
                (e : env) (q : list item) (d : bool) : mres :=
  match fuel with
  | O => MFuel
  | S fuel' =>
    match b with
    | [] => MDone bs [] e q d []
    | _ =>
      let ibs := index_from 0 bs in
      let ms := get_matches ibs e b in
      let pref := if flush then false else is_prefix ibs e b in
      let es := filter (eager e) ms in
      let ms' := match es with [] => ms | _ => es end in
      let pref' := match es with [] => pref | _ => false end in
      if pref' then MDone bs b e q d []
      else
        match last_opt ms' with
        | Some m =>
            let '(bs', r) := call t bs m e q d in
            if hraised r then MRaised bs' (he r) (hdone r) (EInvoke (fst m) b :: hevs r ++ [ERaised [] (hq r)])
            else MDone bs' [] (he r) (hq r) (hdone r) (EInvoke (fst m) b :: hevs r)
        | None =>
            match scan ibs e b (length b) with
            | Some (i, m) =>
                let '(bs', r) := call t bs m e q d in
                if hraised r then MRaised bs' (he r) (hdone r)
                                    (EInvoke (fst m) (firstn i b) :: hevs r ++ [ERaised (skipn i b) (hq r)])
                else mapp (EInvoke (fst m) (firstn i b) :: hevs r)
                          (if hdone r then MDone bs' [] (he r) (map IKey (skipn i b) ++ hq r) true [EBack (skipn i b)]
                           else loop_m fuel' t bs' (skipn i b) false (he r) (hq r) false)
            | None =>
                mapp [EDrop (hd 0 b)]
                     (if d then MDone bs [] e (map IKey (tl b) ++ q) true [EBack (tl b)]
                      else loop_m fuel' t bs (tl b) false e q false)
            end
        end
    end
  end.

Definition send_m (t : mtable) (bs : list binding) (b : list Z) (e : env) (q : list item) (d : bool) (it : item) : mres :=
  loop_m (S (length (push b it))) t bs (push b it) (is_flush it) e q d.

(* process_keys without cursor position reports; returns registry, state, events, popped items, status *)
Fixpoint process_keys_m (fuel : nat) (t : mtable) (bs : list binding) (s : st)
  : list binding * st * list event * list item * status :=
  if sdone s then (bs, s, [], [], SDone) else
  match queue s with
  | [] => (bs, s, [], [], SDone)
  | it :: q =>
    match fuel with
    | O => (bs, s, [], [], SFuel)
    | S fuel' =>
      match send_m t bs (buf s) (cenv s) q false it with
      | MDone bs' b e q' d evs =>
          let '(bs'', s', evs', pop, stt) := process_keys_m fuel' t bs' (mkst b q' e d (upd_prev (sprev s) evs)) in
          (bs'', s', EPop it :: evs ++ evs', it :: pop, stt)
      | MRaised bs' e d evs => (bs', mkst [] [] e d None, EPop it :: evs, [it], SRaised)
      | MFuel => (bs, s, [], [], SFuel)
      end
    end
  end.

(* ------------------------------------------------------------- wire format *)
Definition dec_mut (s : sx) : option mut :=
  match s with
  | L [A 0; b] => match dec_binding b with Some b' => Some (MAdd b') | None => None end
  | L [A 1; A h] => Some (MRemove h)
  | _ => None
  end.

Definition dec_row (s : sx) : option (Z * list mut) :=
  match s with
  | L [A h; L ms] => match map_opt dec_mut ms with Some ms' => Some (h, ms') | None => None end
  | _ => None
  end.

Definition no_cpr_binding (b : binding) : bool :=
  negb (existsb (fun k => k =? CPR) (bkeys b)) && negb (existsb act_cpr (bacts b)).
Definition no_cpr_mut (m : mut) : bool := match m with MAdd b => no_cpr_binding b | MRemove _ => true end.

Fixpoint run_ops_m (fuel : nat) (t : mtable) (bs : list binding) (s : st) (ops : list op) : list sx :=
  match ops with
  | [] => [L [A 60; L (map (fun b => A (bhandler b)) bs)]]
  | OpFlip c :: r =>
      let s' := mkst (buf s) (queue s) (flip c (cenv s)) (sdone s) (sprev s) in
      enc_state SDone [] [] s' :: run_ops_m fuel t bs s' r
  | OpExit :: r =>
      let s' := mkst (buf s) (queue s) (cenv s) true (sprev s) in
      enc_state SDone [] [] s' :: run_ops_m fuel t bs s' r
  | OpFeed its :: r =>
      let '(bs', s', evs, pop, stt) :=
        process_keys_m fuel t bs (mkst (buf s) (queue s ++ its) (cenv s) (sdone s) (sprev s)) in
      enc_state stt evs pop s' :: match stt with SFuel => [] | _ => run_ops_m fuel t bs' s' r end
  | OpSigint :: r =>
      let '(bs', s', evs, pop, stt) :=
        process_keys_m fuel t bs (mkst (buf s) (IKey SIGINT :: queue s) (cenv s) (sdone s) (sprev s)) in
      enc_state stt evs pop s' :: match stt with SFuel => [] | _ => run_ops_m fuel t bs' s' r end
  end.

(* case = (env bindings table ops fuel); the initial registry is what kb.add gives for the bindings in order
   (one whose filter is an instance of Never is not registered) *)
Definition run_keyproc_mut (c : list sx) : sx :=
  match c with
  | [L e; L bs; L tbl; L ops; A fuel] =>
      match map_opt as_bool e, map_opt dec_binding bs, map_opt dec_row tbl, map_opt dec_op ops with
      | Some e', Some bs', Some t', Some ops' =>
          if (0 <=? fuel) && (fuel <=? 100000) && forallb no_cpr_binding bs'
             && forallb (fun row => forallb no_cpr_mut (snd row)) t' && negb (existsb op_cpr ops')
          then L (run_ops_m (Z.to_nat fuel) t' (fst (apply_muts (map MAdd bs') [])) (mkst [] [] e' false None) ops')
          else bad_case
      | _, _, _, _ => bad_case
      end
  | _ => bad_case
  end.
