(* C10: the last step before the terminal - output/flush_stdout.py flush_stdout on a
   stdout that has `encoding` and `buffer`:
       stdout.buffer.write(data.encode(stdout.encoding or "utf-8", "replace"))
   modelled for the encodings utf-8 (reusing Model/C13_Utf8.v's encoder), latin-1
   and ascii.  With errors="replace" every code point the codec cannot encode
   (for utf-8: the surrogates U+D800-U+DFFF, e.g. the lone surrogates
   U+DC80-U+DCFF Python uses for undecodable bytes) becomes "?". *)
From Coq Require Import ZArith List Bool.
From PTK Require Import Lib.Sx Lib.Py Model.C13_Utf8 Model.C10_Screen Model.C10_Producers.
Import ListNotations.
Open Scope Z_scope.

Definition QM : Z := 63.

(* what "replace" leaves of one code point for utf-8 *)
Definition repl_utf8 (c : Z) : Z := if is_scalar c then c else QM.
Definition encode_utf8_replace (data : list Z) : list Z := utf8_enc_raw (map repl_utf8 data).

(* latin-1 (limit 256) and ascii (limit 128): one byte per code point *)
Definition repl_8bit (limit c : Z) : Z := if (0 <=? c) && (c <? limit) then c else QM.
Definition encode_8bit_replace (limit : Z) (data : list Z) : list Z := map (repl_8bit limit) data.

(* encoding id: 0 utf-8, 1 latin-1, 2 ascii *)
Definition flush_encode (enc : Z) (data : list Z) : list Z :=
  if enc =? 1 then encode_8bit_replace 256 data
  else if enc =? 2 then encode_8bit_replace 128 data
  else encode_utf8_replace data.

(* what a terminal in UTF-8 mode makes of the bytes *)
Definition wire_decode_utf8 (bytes : list Z) : list Z := utf8_dec bytes.

(* kind 8: (8 enc data) -> bytes written to stdout.buffer *)
Definition run_C10w (c : sx) : sx :=
  match c with
  | L [A 8; A enc; d] =>
      match as_str d with Some d' => sx_str (flush_encode enc d') | None => bad_case end
  | _ => run_C10p c
  end.
