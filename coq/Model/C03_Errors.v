(* C03 - PosixStdinReader(stdin_fd, errors=...): the incremental UTF-8 decoder
   with the other error handlers the constructor accepts ("ignore", "replace",
   "strict"; "surrogateescape" is the default and the only one Vt100Input uses),
   and read() with the handler as a parameter.  Definitions only.

   CPython reports the "maximal subpart" as the error range (unicodeobject.c:
   invalid start byte -> 1 byte; invalid continuation byte after k valid bytes
   -> k bytes) - [err_len].  "replace" puts one U+FFFD per range, "ignore"
   nothing, "strict" raises UnicodeDecodeError out of read(): the decoder's
   buffer is then left as it was (codecs.BufferedIncrementalDecoder.decode
   assigns it after _buffer_decode returned), so the bytes of that read are lost.
   Also the harness entry points of round 6. *)
From Coq Require Import ZArith List Bool.
From PTK Require Import Lib.Sx Lib.Py Model.C03_Vt100Parser Model.C03_Vt100Input Model.C03_Cache Model.C03_Utf8Spec.
Import ListNotations.
Open Scope Z_scope.

Inductive emode := ESurrogate | EIgnore | EReplace | EStrict.

(* length of the error range at the head of [bs], when [step bs] escapes *)
Definition err_len (bs : list Z) : nat :=
  match bs with
  | [] => 1%nat
  | b :: r =>
      if b <? 224 then 1%nat
      else if b <? 240 then
        let lo := if b =? 224 then 160 else 128 in
        let hi := if b =? 237 then 159 else 191 in
        match r with
        | b2 :: _ :: _ => if in_rng lo hi b2 then 2%nat else 1%nat
        | _ => 1%nat
        end
      else if 244 <? b then 1%nat
      else
        let lo := if b =? 240 then 144 else 128 in
        let hi := if b =? 244 then 143 else 191 in
        match r with
        | b2 :: r2 =>
            if in_rng lo hi b2 then
              match r2 with
              | b3 :: _ => if cont b3 then 3%nat else 2%nat
              | [] => 1%nat
              end
            else 1%nat
        | [] => 1%nat
        end
  end.

Record eres := mke { eout : list Z; epend : list Z; eraised : bool; eoof : bool }.
Definition econs (cp : Z) (r : eres) : eres := mke (cp :: eout r) (epend r) (eraised r) (eoof r).

Definition is_err (bs : list Z) (n : nat) : bool :=
  match bs with b :: _ => (128 <=? b) && Nat.eqb n 1 | [] => false end.

Fixpoint dec_e_fuel (fuel : nat) (m : emode) (bs : list Z) : eres :=
  match fuel with
  | O => mke [] bs false true
  | S f =>
      match step bs with
      | Stop => mke [] [] false false
      | Pend => mke [] bs false false
      | Emit cp n =>
          if is_err bs n then
            match m with
            | ESurrogate => econs cp (dec_e_fuel f m (skipn 1 bs))
            | EIgnore => dec_e_fuel f m (skipn (err_len bs) bs)
            | EReplace => econs 65533 (dec_e_fuel f m (skipn (err_len bs) bs))
            | EStrict => mke [] bs true false
            end
          else econs cp (dec_e_fuel f m (skipn n bs))
      end
  end.

(* decoder.decode(data) on buffer ++ data; when it raises nothing is returned
   and the buffer keeps its old value (the caller passes it as [old]) *)
Definition dec_e (m : emode) (old bs : list Z) : eres :=
  let r := dec_e_fuel (S (length (old ++ bs))) m (old ++ bs) in
  if eraised r then mke [] old true (eoof r) else r.

(* read() with the handler [m]: state, text, bytes taken, raised *)
Definition reader_read_e (m : emode) (s : sel_outcome) (r : read_outcome) (st : rstate)
  : rstate * str * list Z * bool :=
  if rclosed st then (st, [], [], false)
  else
    match s with
    | SelNotReady => (st, [], [], false)
    | _ =>
        let closed1 := match s with SelError => true | _ => false end in
        match r with
        | RdData [] => (mkr true (rpend st), [], [], false)
        | RdData b => let d := dec_e m (rpend st) b in (mkr closed1 (epend d), eout d, b, eraised d)
        | RdError => let d := dec_e m (rpend st) [] in (mkr closed1 (epend d), eout d, [], eraised d)
        end
    end.

(* ---------------------------------------------------------------------- *)
(* Harness entry points (in addition to those of run_C03_all2):
   (12 (cp ...))            -> (bytes ...)  [encode_se1 cp] of the specification
   (13 mode (call ...))     mode 0 surrogateescape 1 ignore 2 replace 3 strict; call as for (10 ..)
        -> per call (text closed undecoded_bytes bytes_taken raised) *)

Definition dec_mode (z : Z) : option emode :=
  if z =? 0 then Some ESurrogate else if z =? 1 then Some EIgnore
  else if z =? 2 then Some EReplace else if z =? 3 then Some EStrict else None.

Fixpoint run_esteps (m : emode) (calls : list rcall) (st : rstate) : list sx :=
  match calls with
  | [] => []
  | (s, r) :: rest =>
      let '(st1, t1, b1, raised) := reader_read_e m s r st in
      L [sx_str t1; sx_bool (rclosed st1); sx_str (rpend st1); sx_str b1; sx_bool raised] :: run_esteps m rest st1
  end.

Definition run_C03_all3 (c : sx) : sx :=
  match c with
  | L [A 12; s] => match as_str s with
                   | Some cps => L (map (fun cp => sx_str (encode_se1 cp)) cps)
                   | None => bad_case
                   end
  | L [A 13; A mz; L l] =>
      match dec_mode mz, map_opt dec_call l with
      | Some m, Some calls => L (run_esteps m calls rinit)
      | _, _ => bad_case
      end
  | _ => run_C03_all2 c
  end.
