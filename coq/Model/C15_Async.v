(* C15 - model of the asynchronous side of prompt_toolkit.buffer.Buffer as a
   labelled transition system.

   State  = the buffer attributes the property speaks about (text, cursor,
            complete_state, validation_state, suggestion), the three
            `_only_one_at_a_time` closure flags `running`, the event loop's
            queue of created-but-not-started tasks, and the coroutines that
            are suspended at their (single) await point together with their
            captured locals.
   Labels = user actions (methods of Buffer called from key handlers) and
            scheduler steps (a task starts; the completer's async generator
            yields / ends; validate_async returns; get_suggestion_async
            returns).  Code between two awaits runs atomically (asyncio).

   Everything is written statement by statement after buffer.py:
   CompletionState.go_to_index / new_text_and_position, Buffer.set_document,
   _text_changed, _cursor_position_changed, insert_text, delete_before_cursor,
   delete, swap_characters_before_cursor, the text setter, validate (the
   synchronous one), cursor_position setter, complete_next / complete_previous /
   cancel_completion / go_to_completion / _set_completions / start_completion,
   _create_completer_coroutine (async_completer incl. proceed(), the _Retry
   branch, select_first / select_last / insert_common_part),
   _validate_async, _create_auto_suggest_coroutine, _only_one_at_a_time;
   completion/base.py get_common_complete_suffix, _commonprefix,
   Completion.new_completion_from_position.

   Ghost fields (not in the Python objects; observed by the harness through
   tags it puts on the objects it hands to the buffer): [csrc] the document
   the generator that yielded a completion was called with, [cs_shift] the
   common part that was inserted when a menu was re-based by
   insert_common_part, [vsrc] / the doc in [sug]: the document the call that
   produced the published verdict / suggestion was made with.

   [fx] : true = the code as it is now (since /repo commit 8bc6590, "a
   completion that changes nothing was deleted from the menu after the user
   had selected it": the single no-op completion is only dropped while nothing
   is selected); false = the behaviour at the pinned snapshot, kept only for
   the `_pinned` theorems.  Configurations are built with [current] (what
   run_C15 and every headline theorem use) or [pinned]. *)
From Coq Require Import ZArith List Bool.
From PTK Require Import Lib.Sx Lib.Py Model.C15_HistLines Model.C15_Thread.
Import ListNotations.
Open Scope Z_scope.

Record doc := mkdoc { dtext : str; dcur : Z }.
Definition doc_eqb (a b : doc) : bool := str_eqb (dtext a) (dtext b) && (dcur a =? dcur b).
Definition tbc (d : doc) : str := slice_to (dtext d) (dcur d).
Definition tac (d : doc) : str := slice_from (dtext d) (dcur d).

Record completion := mkc { ctext : str; cstart : Z; csrc : doc }.

Record cstate := mkcs {
  cs_id : Z;                       (* object identity *)
  cs_orig : doc;
  cs_comps : list completion;
  cs_idx : option Z;
  cs_shift : str }.

Inductive task := TComp (flag : Z) | TVal | TSug.
(* flag: 0 none, 1 select_first, 2 select_last, 3 insert_common_part *)

Record ccoro := mkcc { cc_doc : doc; cc_id : Z; cc_flag : Z }.

Record config := mkcfg {
  cwt : bool;        (* completer and complete_while_typing() *)
  hval : bool;       (* a validator is set *)
  vwt : bool;        (* validate_while_typing() *)
  hsug : bool;       (* auto_suggest is set *)
  maxn : Z;          (* max_number_of_completions *)
  fx : bool }.

Record state := mkst {
  cfg : config;
  text : str;
  cur : Z;
  cst : option cstate;             (* Buffer.complete_state *)
  vst : Z;                         (* 0 UNKNOWN, 1 VALID, 2 INVALID *)
  vsrc : option doc;
  sug : option (str * doc);        (* Buffer.suggestion *)
  next_id : Z;
  pending : list task;             (* tasks created, first step not yet run; FIFO *)
  crun : bool; vrun : bool; srun : bool;   (* `running` of the three wrappers *)
  ccos : list ccoro;               (* completers suspended in the generator *)
  vcos : list doc;                 (* validators suspended in validate_async *)
  scos : list doc }.               (* suggesters suspended in get_suggestion_async *)

(* the code as it is / as it was at the pinned snapshot; the [fx] field of
   the argument is ignored *)
Definition current (c : config) : config := mkcfg (cwt c) (hval c) (vwt c) (hsug c) (maxn c) true.
Definition pinned (c : config) : config := mkcfg (cwt c) (hval c) (vwt c) (hsug c) (maxn c) false.

Definition init (c : config) (t : str) (p : Z) : state :=
  mkst c t p None 0 None None 0 [] false false false [] [] [].

(* --- field updates --------------------------------------------------- *)
Definition set_doc_fields (s : state) (t : str) (p : Z) : state :=
  mkst (cfg s) t p (cst s) (vst s) (vsrc s) (sug s) (next_id s) (pending s)
       (crun s) (vrun s) (srun s) (ccos s) (vcos s) (scos s).
Definition set_cst (s : state) (v : option cstate) : state :=
  mkst (cfg s) (text s) (cur s) v (vst s) (vsrc s) (sug s) (next_id s) (pending s)
       (crun s) (vrun s) (srun s) (ccos s) (vcos s) (scos s).
Definition set_val (s : state) (v : Z) (d : option doc) : state :=
  mkst (cfg s) (text s) (cur s) (cst s) v d (sug s) (next_id s) (pending s)
       (crun s) (vrun s) (srun s) (ccos s) (vcos s) (scos s).
Definition set_sug (s : state) (v : option (str * doc)) : state :=
  mkst (cfg s) (text s) (cur s) (cst s) (vst s) (vsrc s) v (next_id s) (pending s)
       (crun s) (vrun s) (srun s) (ccos s) (vcos s) (scos s).
Definition set_next_id (s : state) (v : Z) : state :=
  mkst (cfg s) (text s) (cur s) (cst s) (vst s) (vsrc s) (sug s) v (pending s)
       (crun s) (vrun s) (srun s) (ccos s) (vcos s) (scos s).
Definition set_pending (s : state) (v : list task) : state :=
  mkst (cfg s) (text s) (cur s) (cst s) (vst s) (vsrc s) (sug s) (next_id s) v
       (crun s) (vrun s) (srun s) (ccos s) (vcos s) (scos s).
Definition set_crun (s : state) (v : bool) : state :=
  mkst (cfg s) (text s) (cur s) (cst s) (vst s) (vsrc s) (sug s) (next_id s) (pending s)
       v (vrun s) (srun s) (ccos s) (vcos s) (scos s).
Definition set_vrun (s : state) (v : bool) : state :=
  mkst (cfg s) (text s) (cur s) (cst s) (vst s) (vsrc s) (sug s) (next_id s) (pending s)
       (crun s) v (srun s) (ccos s) (vcos s) (scos s).
Definition set_srun (s : state) (v : bool) : state :=
  mkst (cfg s) (text s) (cur s) (cst s) (vst s) (vsrc s) (sug s) (next_id s) (pending s)
       (crun s) (vrun s) v (ccos s) (vcos s) (scos s).
Definition set_ccos (s : state) (v : list ccoro) : state :=
  mkst (cfg s) (text s) (cur s) (cst s) (vst s) (vsrc s) (sug s) (next_id s) (pending s)
       (crun s) (vrun s) (srun s) v (vcos s) (scos s).
Definition set_vcos (s : state) (v : list doc) : state :=
  mkst (cfg s) (text s) (cur s) (cst s) (vst s) (vsrc s) (sug s) (next_id s) (pending s)
       (crun s) (vrun s) (srun s) (ccos s) v (scos s).
Definition set_scos (s : state) (v : list doc) : state :=
  mkst (cfg s) (text s) (cur s) (cst s) (vst s) (vsrc s) (sug s) (next_id s) (pending s)
       (crun s) (vrun s) (srun s) (ccos s) (vcos s) v.

Definition add_pending (s : state) (t : task) : state := set_pending s (pending s ++ [t]).
Definition cur_doc (s : state) : doc := mkdoc (text s) (cur s).

(* list helpers, indices are Python ints *)
Definition get_nth {T} (l : list T) (k : Z) : option T :=
  if k <? 0 then None else nth_error l (Z.to_nat k).
Fixpoint remove_nat {T} (l : list T) (n : nat) : list T :=
  match l, n with
  | [], _ => []
  | _ :: r, O => r
  | x :: r, S m => x :: remove_nat r m
  end.
Definition remove_nth {T} (l : list T) (k : Z) : list T :=
  if k <? 0 then l else remove_nat l (Z.to_nat k).
Fixpoint replace_nat {T} (l : list T) (n : nat) (v : T) : list T :=
  match l, n with
  | [], _ => []
  | _ :: r, O => v :: r
  | x :: r, S m => x :: replace_nat r m v
  end.
Definition replace_nth {T} (l : list T) (k : Z) (v : T) : list T :=
  if k <? 0 then l else replace_nat l (Z.to_nat k) v.

(* --- Buffer: change notifications ------------------------------------ *)
(* _text_changed: validation_error/state, complete_state, suggestion reset;
   validator task created when validate_while_typing *)
Definition text_changed (s : state) : state :=
  let s1 := set_sug (set_cst (set_val s 0 None) None) None in
  if hval (cfg s) && vwt (cfg s) then add_pending s1 TVal else s1.

(* _cursor_position_changed *)
(* complete_state goes; a cached VALID verdict is for the old cursor position
   and is forgotten (since /repo commit 826cb7e); a cached error stays *)
Definition cursor_changed (s : state) : state :=
  let s1 := set_cst s None in
  if vst s =? 1 then set_val s1 0 None else s1.

(* set_document (the `document` setter) *)
Definition set_document (s : state) (d : doc) : state :=
  let tchg := negb (str_eqb (dtext d) (text s)) in
  let nc := Z.max 0 (dcur d) in
  let cchg := negb (nc =? cur s) in
  let s1 := set_doc_fields s (dtext d) nc in
  let s2 := if tchg then text_changed s1 else s1 in
  if cchg then cursor_changed s2 else s2.

(* status of an action: 0 ok, 1 AssertionError, 2 IndexError *)

(* insert_text(data) (overwrite=False, move_cursor=True, fire_event=True);
   Document(text, cpos) asserts cpos <= len(text) *)
Definition insert_text (s : state) (data : str) : state * Z :=
  let otext := text s in
  let ocpos := cur s in
  let t := slice_to otext ocpos ++ data ++ slice_from otext ocpos in
  let cpos := ocpos + len data in
  if len t <? cpos then (s, 1) else
  let s1 := set_document s (mkdoc t cpos) in
  let s2 := if cwt (cfg s) then add_pending s1 (TComp 0) else s1 in
  let s3 := if hsug (cfg s) then add_pending s2 TSug else s2 in
  (s3, 0).

Definition delete_before (s : state) (n : Z) : state * Z :=
  if n <? 0 then (s, 1) else
  if 0 <? cur s then
    let start := Z.max 0 (cur s - n) in
    let deleted := slice2 (text s) start (cur s) in
    let nt := slice_to (text s) start ++ slice_from (text s) (cur s) in
    let nc := cur s - len deleted in
    if len nt <? nc then (s, 1) else (set_document s (mkdoc nt nc), 0)
  else (s, 0).

(* cursor_position setter *)
Definition move_cursor (s : state) (p : Z) : state :=
  let v := if len (text s) <? p then len (text s) else p in
  let v := if v <? 0 then 0 else v in
  let nc := Z.max 0 v in
  if nc =? cur s then s else cursor_changed (set_doc_fields s (text s) nc).

(* the `text` setter: the cursor is clamped first (through its own setter),
   then the text is replaced; a changed text fires _text_changed - the cursor
   does not move, so nothing but _text_changed can clear the menu here *)
Definition set_text (s : state) (v : str) : state :=
  let s1 := if len v <? cur s then move_cursor s (len v) else s in
  if str_eqb v (text s1) then s1 else text_changed (set_doc_fields s1 v (cur s1)).

(* Buffer.delete(count): forward delete, cursor stays *)
Definition delete_fwd (s : state) (n : Z) : state :=
  if cur s <? len (text s) then
    let deleted := slice_to (slice_from (text s) (cur s)) (Z.max 0 n) in
    set_text s (slice_to (text s) (cur s) ++ slice_from (text s) (cur s + len deleted))
  else s.

(* swap_characters_before_cursor: same length, cursor stays *)
Definition swap_chars (s : state) : state * Z :=
  let pos := cur s in
  if 2 <=? pos then
    match index (text s) (pos - 2), index (text s) (pos - 1) with
    | Some a, Some b => (set_text s (slice_to (text s) (pos - 2) ++ [b; a] ++ slice_from (text s) pos), 0)
    | _, _ => (s, 2)
    end
  else (s, 0).

(* Buffer.validate(set_cursor): the synchronous validation of the Enter key.
   [ok]/[epos]: what validator.validate(document) does (returns / raises
   ValidationError(cursor_position=epos)); without a validator always VALID *)
Definition validate_sync (s : state) (ok : bool) (epos : Z) (setcur : bool) : state :=
  if vst s =? 0 then
    if hval (cfg s) && negb ok then
      let d := cur_doc s in
      let s1 := if setcur then move_cursor s (Z.min (Z.max 0 epos) (len (text s))) else s in
      set_val s1 2 (Some d)
    else set_val s 1 (Some (cur_doc s))
  else s.

(* Buffer.reset(document=Document(t, p)): the next prompt.  Attributes are
   assigned directly (no setter, no _text_changed, no task); the `running`
   flags and the suspended coroutines of the previous prompt are not touched.
   Document(t, p) asserts p <= len t; a negative p is a caller error that the
   model does not follow (status 1, nothing happens). *)
Definition reset_buf (s : state) (t : str) (p : Z) : state * Z :=
  if (len t <? p) || (p <? 0) then (s, 1)
  else (set_sug (set_cst (set_val (set_doc_fields s t p) 0 None) None) None, 0).

(* validate_and_handle: validate(set_cursor=True); when valid: accept_handler
   (returns keep_text), append_to_history (not observable here), and
   reset() unless keep_text *)
Definition validate_and_handle (s : state) (ok : bool) (epos : Z) (keep : bool) : state :=
  let s1 := validate_sync s ok epos true in
  if (vst s1 =? 1) && negb keep then fst (reset_buf s1 [] 0) else s1.

(* --- CompletionState -------------------------------------------------- *)
Definition cs_with_idx (cs : cstate) (i : option Z) : cstate :=
  mkcs (cs_id cs) (cs_orig cs) (cs_comps cs) i (cs_shift cs).
Definition cs_with_comps (cs : cstate) (l : list completion) : cstate :=
  mkcs (cs_id cs) (cs_orig cs) l (cs_idx cs) (cs_shift cs).

(* go_to_index: None = AssertionError *)
Definition go_to_index (cs : cstate) (i : option Z) : option cstate :=
  match cs_comps cs with
  | [] => Some cs
  | _ :: _ =>
      match i with
      | None => Some (cs_with_idx cs None)
      | Some j => if (0 <=? j) && (j <? len (cs_comps cs)) then Some (cs_with_idx cs (Some j)) else None
      end
  end.

(* new_text_and_position: None = IndexError *)
Definition ntp (cs : cstate) : option (str * Z) :=
  match cs_idx cs with
  | None => Some (dtext (cs_orig cs), dcur (cs_orig cs))
  | Some i =>
      match index (cs_comps cs) i with
      | None => None
      | Some c =>
          let before := if cstart c =? 0 then tbc (cs_orig cs)
                        else slice_to (tbc (cs_orig cs)) (cstart c) in
          Some (before ++ ctext c ++ tac (cs_orig cs), len before + len (ctext c))
      end
  end.

(* go_to_completion *)
Definition go_to_completion (s : state) (i : option Z) : state * Z :=
  match cst s with
  | None => (s, 1)
  | Some cs =>
      match go_to_index cs i with
      | None => (s, 1)
      | Some cs1 =>
          let s1 := set_cst s (Some cs1) in
          match ntp cs1 with
          | None => (s1, 2)
          | Some (t, p) =>
              if len t <? p then (s1, 1)
              else (set_cst (set_document s1 (mkdoc t p)) (Some cs1), 0)
          end
      end
  end.

Definition complete_next (s : state) (count : Z) (nowrap : bool) : state * Z :=
  match cst s with
  | None => (s, 0)
  | Some cs =>
      let n := len (cs_comps cs) in
      match cs_idx cs with
      | None => go_to_completion s (Some 0)
      | Some i =>
          if i =? n - 1 then (if nowrap then (s, 0) else go_to_completion s None)
          else go_to_completion s (Some (Z.max 0 (Z.min (n - 1) (i + count))))
      end
  end.

(* complete_next as it was before /repo commit c676c2a (no lower clamp): kept
   only for C15_negative_count_pinned_refuted *)
Definition complete_next_pinned (s : state) (count : Z) (nowrap : bool) : state * Z :=
  match cst s with
  | None => (s, 0)
  | Some cs =>
      let n := len (cs_comps cs) in
      match cs_idx cs with
      | None => go_to_completion s (Some 0)
      | Some i =>
          if i =? n - 1 then (if nowrap then (s, 0) else go_to_completion s None)
          else go_to_completion s (Some (Z.min (n - 1) (i + count)))
      end
  end.

Definition complete_prev (s : state) (count : Z) (nowrap : bool) : state * Z :=
  match cst s with
  | None => (s, 0)
  | Some cs =>
      match cs_idx cs with
      | Some i =>
          if i =? 0 then (if nowrap then (s, 0) else go_to_completion s None)
          else go_to_completion s (Some (Z.min (len (cs_comps cs) - 1) (Z.max 0 (i - count))))
      | None => go_to_completion s (Some (len (cs_comps cs) - 1))
      end
  end.

Definition cancel_completion (s : state) : state * Z :=
  match cst s with
  | None => (s, 0)
  | Some _ =>
      let '(s1, e) := go_to_completion s None in
      if e =? 0 then (set_cst s1 None, 0) else (s1, e)
  end.

(* _set_completions (a new CompletionState object) *)
Definition set_completions (s : state) (l : list completion) (shift : str) : state :=
  set_next_id (set_cst s (Some (mkcs (next_id s) (cur_doc s) l None shift))) (next_id s + 1).

(* A menu installed synchronously: _set_completions(l); go_to_completion(0).
   This is what start_history_lines_completion does; the list it computes
   from the working lines is left arbitrary here.  Each completion is tagged
   as computed from the current document. *)
Definition install_menu (s : state) (l : list (str * Z)) : state * Z :=
  let d := cur_doc s in
  go_to_completion (set_completions s (map (fun x => mkc (fst x) (snd x) d) l) []) (Some 0).

(* start_history_lines_completion (round 6: the list is computed, see
   Model/C15_HistLines.v).  [before] / [after]: the entries of
   `_working_lines` below / above `working_index`; the entry AT the working
   index is the buffer's text.  The history itself is not a state component
   of this model (C14 models it): every call may see other lines. *)
Definition working_lines (s : state) (before after : list str) : list str :=
  before ++ [text s] ++ after.
Definition hist_step (s : state) (before after : list str) : state * Z :=
  install_menu s (hist_lines (working_lines s before after) (text s) (cur s)).

(* --- completion/base.py ---------------------------------------------- *)
Definition endswith (s e : str) : bool := startswith (rev s) (rev e).

Fixpoint str_ltb (a b : str) : bool :=
  match a, b with
  | [], [] => false
  | [], _ :: _ => true
  | _ :: _, [] => false
  | x :: a', y :: b' => if x <? y then true else if y <? x then false else str_ltb a' b'
  end.
Fixpoint str_min (l : list str) (acc : str) : str :=
  match l with [] => acc | x :: r => str_min r (if str_ltb x acc then x else acc) end.
Fixpoint str_max (l : list str) (acc : str) : str :=
  match l with [] => acc | x :: r => str_max r (if str_ltb acc x then x else acc) end.
Fixpoint cprefix (a b : str) : str :=
  match a, b with
  | x :: a', y :: b' => if x =? y then x :: cprefix a' b' else []
  | _, _ => []
  end.
Definition commonprefix (l : list str) : str :=
  match l with
  | [] => []
  | x :: r => cprefix (str_min r x) (str_max r x)
  end.

Definition doesnt_change_before_cursor (d : doc) (c : completion) : bool :=
  endswith (tbc d) (slice_to (ctext c) (- cstart c)).
Definition get_suffix (c : completion) : str := slice_from (ctext c) (- cstart c).
Definition common_suffix (d : doc) (l : list completion) : str :=
  if forallb (doesnt_change_before_cursor d) l then commonprefix (map get_suffix l) else [].

Definition new_from_pos (p : Z) (c : completion) : completion :=
  mkc (slice_from (ctext c) (p - cstart c)) 0 (csrc c).

(* completion_does_nothing *)
Definition does_nothing (d : doc) (c : completion) : bool :=
  let tb := tbc d in
  str_eqb (slice_from tb (len tb + cstart c)) (ctext c).

(* --- coroutines -------------------------------------------------------- *)
(* async_completer from its first statement up to the first await (inside the
   harness' generator); `running` is already True. *)
Definition completer_body (s : state) (flag : Z) : state :=
  match cst s with
  | Some _ => set_crun s false
  | None =>
      let id := next_id s in
      let d := cur_doc s in
      let s1 := set_next_id (set_cst s (Some (mkcs id d [] None []))) (id + 1) in
      set_ccos s1 (ccos s1 ++ [mkcc d id flag])
  end.

Definition validator_body (s : state) : state :=
  if vst s =? 0 then set_vcos s (vcos s ++ [cur_doc s]) else set_vrun s false.

Definition suggester_body (s : state) : state :=
  match sug s with
  | Some _ => set_srun s false
  | None => set_scos s (scos s ++ [cur_doc s])
  end.

(* first step of a created task: the _only_one_at_a_time wrapper *)
Definition start_task (s : state) (t : task) : state :=
  match t with
  | TComp f => if crun s then s else completer_body (set_crun s true) f
  | TVal => if vrun s then s else validator_body (set_vrun s true)
  | TSug => if srun s then s else suggester_body (set_srun s true)
  end.

Definition start_nth (s : state) (i : Z) : state :=
  match get_nth (pending s) i with
  | None => s
  | Some t => start_task (set_pending s (remove_nth (pending s) i)) t
  end.

(* one event loop iteration: the tasks queued at its beginning, in order *)
Fixpoint tick_n (n : nat) (s : state) : state :=
  match n with O => s | S m => tick_n m (start_nth s 0) end.
Definition tick (s : state) : state := tick_n (length (pending s)) s.

(* proceed() *)
Definition attached (s : state) (co : ccoro) : bool :=
  match cst s with Some cs => cs_id cs =? cc_id co | None => false end.

Definition task_status (e : Z) : Z := if e =? 0 then 0 else 3.   (* 3: the task died with an exception *)

(* async_completer after the `async for` loop; the coroutine [co] (k-th) is
   being resumed and ends or restarts within this step *)
Definition cpost (s : state) (k : Z) (co : ccoro) : state * Z :=
  let s0 := set_ccos s (remove_nth (ccos s) k) in
  if attached s0 co then
    match cst s0 with
    | None => (set_crun s0 false, 0)
    | Some cs =>
        let drop :=
          match cs_comps cs with
          | [c] => does_nothing (cc_doc co) c &&
                   (negb (fx (cfg s0)) || match cs_idx cs with None => true | Some _ => false end)
          | _ => false
          end in
        let cs1 := if drop then cs_with_comps cs [] else cs in
        let s1 := set_cst s0 (Some cs1) in
        match cs_idx cs1 with
        | Some _ => (set_crun s1 false, 0)
        | None =>
            match cs_comps cs1 with
            | [] => (set_crun (set_cst s1 None) false, 0)
            | comps =>
                if cc_flag co =? 1 then
                  let '(s2, e) := go_to_completion s1 (Some 0) in (set_crun s2 false, task_status e)
                else if cc_flag co =? 2 then
                  let '(s2, e) := go_to_completion s1 (Some (len comps - 1)) in (set_crun s2 false, task_status e)
                else if cc_flag co =? 3 then
                  let common := common_suffix (cc_doc co) comps in
                  match common with
                  | _ :: _ =>
                      let '(s2, e) := insert_text s1 common in
                      if e =? 0 then
                        if 1 <? len comps then
                          (set_crun (set_completions s2 (map (new_from_pos (len common)) comps) common) false, 0)
                        else (set_crun (set_cst s2 None) false, 0)
                      else (set_crun s2 false, task_status e)
                  | [] =>
                      if len comps =? 1 then
                        let '(s2, e) := go_to_completion s1 (Some 0) in (set_crun s2 false, task_status e)
                      else (set_crun s1 false, 0)
                  end
                else (set_crun s1 false, 0)
            end
        end
    end
  else
    if str_eqb (tbc (cur_doc s0)) (tbc (cc_doc co)) then (set_crun s0 false, 0)
    else if startswith (tbc (cur_doc s0)) (tbc (cc_doc co)) then (completer_body s0 (cc_flag co), 0)
    else (set_crun s0 false, 0).

(* the generator of the k-th completer yields Completion(t, st) *)
Definition cyield (s : state) (k : Z) (t : str) (st : Z) : state * Z :=
  if 0 <? st then (s, 0) else
  match get_nth (ccos s) k with
  | None => (s, 0)
  | Some co =>
      let c := mkc t st (cc_doc co) in
      if attached s co then
        match cst s with
        | None => (s, 0)
        | Some cs =>
            let cs1 := cs_with_comps cs (cs_comps cs ++ [c]) in
            let s1 := set_cst s (Some cs1) in
            if maxn (cfg s) <=? len (cs_comps cs1) then cpost s1 k co else (s1, 0)
        end
      else cpost s k co
  end.

Definition cend (s : state) (k : Z) : state * Z :=
  match get_nth (ccos s) k with
  | None => (s, 0)
  | Some co => cpost s k co
  end.

(* validate_async of the k-th validator returns (ok) or raises ValidationError *)
Definition vreturn (s : state) (k : Z) (ok : bool) : state * Z :=
  match get_nth (vcos s) k with
  | None => (s, 0)
  | Some d =>
      if doc_eqb (cur_doc s) d then
        (set_vrun (set_vcos (set_val s (if ok then 1 else 2) (Some d)) (remove_nth (vcos s) k)) false, 0)
      else if vst s =? 0 then (set_vcos s (replace_nth (vcos s) k (cur_doc s)), 0)
      else (set_vrun (set_vcos s (remove_nth (vcos s) k)) false, 0)
  end.

(* get_suggestion_async of the k-th suggester returns *)
Definition sreturn (s : state) (k : Z) (v : option str) : state * Z :=
  match get_nth (scos s) k with
  | None => (s, 0)
  | Some d =>
      let s0 := set_scos s (remove_nth (scos s) k) in
      if doc_eqb (cur_doc s0) d then
        (set_srun (set_sug s0 (match v with Some t => Some (t, d) | None => None end)) false, 0)
      else (suggester_body s0, 0)
  end.

(* --- the transition system ------------------------------------------- *)
Inductive label :=
| Insert (data : str)
| DeleteBefore (n : Z)
| MoveCursor (p : Z)
| CompleteNext (count : Z) (nowrap : bool)
| CompletePrev (count : Z) (nowrap : bool)
| Cancel
| StartCompletion (flag : Z)
| StartTask (i : Z)
| Tick
| CYield (k : Z) (t : str) (st : Z)
| CEnd (k : Z)
| VReturn (k : Z) (ok : bool)
| SReturn (k : Z) (v : option str)
| InstallMenu (l : list (str * Z))
| DeleteFwd (n : Z)
| SetText (v : str)
| Swap
| Validate (ok : bool) (epos : Z) (setcur : bool)
| Reset (t : str) (p : Z)
| ValidateAndHandle (ok : bool) (epos : Z) (keep : bool)
| HistoryLines (before after : list str).

Definition step (s : state) (l : label) : state * Z :=
  match l with
  | Insert d => insert_text s d
  | DeleteBefore n => delete_before s n
  | MoveCursor p => (move_cursor s p, 0)
  | CompleteNext c w => complete_next s c w
  | CompletePrev c w => complete_prev s c w
  | Cancel => cancel_completion s
  | StartCompletion f => (add_pending s (TComp f), 0)
  | StartTask i => (start_nth s i, 0)
  | Tick => (tick s, 0)
  | CYield k t st => cyield s k t st
  | CEnd k => cend s k
  | VReturn k ok => vreturn s k ok
  | SReturn k v => sreturn s k v
  | InstallMenu l => install_menu s l
  | DeleteFwd n => (delete_fwd s n, 0)
  | SetText v => (set_text s v, 0)
  | Swap => swap_chars s
  | Validate ok epos sc => (validate_sync s ok epos sc, 0)
  | Reset t p => reset_buf s t p
  | ValidateAndHandle ok epos keep => (validate_and_handle s ok epos keep, 0)
  | HistoryLines b a => hist_step s b a
  end.

Definition apply (s : state) (l : label) : state := fst (step s l).
Definition run (s : state) (ls : list label) : state := fold_left apply ls s.

(* --- wire format -------------------------------------------------------- *)
Definition dec_comp (x : sx) : option (str * Z) :=
  match x with
  | L [t; A st] => match as_str t with Some t => if st <=? 0 then Some (t, st) else None | None => None end
  | _ => None
  end.

Definition dec_label (x : sx) : option label :=
  match x with
  | L [A 1; d] => match as_str d with Some d => Some (Insert d) | None => None end
  | L [A 2; A n] => Some (DeleteBefore n)
  | L [A 3; A p] => Some (MoveCursor p)
  | L [A 4; A c; w] => match as_bool w with Some w => Some (CompleteNext c w) | None => None end
  | L [A 5; A c; w] => match as_bool w with Some w => Some (CompletePrev c w) | None => None end
  | L [A 6] => Some Cancel
  | L [A 7; A f] => if (0 <=? f) && (f <=? 3) then Some (StartCompletion f) else None
  | L [A 8; A i] => Some (StartTask i)
  | L [A 9] => Some Tick
  | L [A 10; A k; t; A st] =>
      match as_str t with Some t => if st <=? 0 then Some (CYield k t st) else None | None => None end
  | L [A 11; A k] => Some (CEnd k)
  | L [A 12; A k; ok] => match as_bool ok with Some ok => Some (VReturn k ok) | None => None end
  | L [A 13; A k; v] => match as_opt as_str v with Some v => Some (SReturn k v) | None => None end
  | L [A 14; L items] => match map_opt dec_comp items with Some l => Some (InstallMenu l) | None => None end
  | L [A 15; A n] => Some (DeleteFwd n)
  | L [A 16; v] => match as_str v with Some v => Some (SetText v) | None => None end
  | L [A 17] => Some Swap
  | L [A 18; ok; A epos; sc] =>
      match as_bool ok, as_bool sc with Some ok, Some sc => Some (Validate ok epos sc) | _, _ => None end
  | L [A 19; L b; L a] =>
      match map_opt as_str b, map_opt as_str a with
      | Some b, Some a => Some (HistoryLines b a)
      | _, _ => None
      end
  | L [A 20; t; A p] => match as_str t with Some t => Some (Reset t p) | None => None end
  | L [A 21; ok; A epos; kp] =>
      match as_bool ok, as_bool kp with Some ok, Some kp => Some (ValidateAndHandle ok epos kp) | _, _ => None end
  | _ => None
  end.

Definition dec_cfg (x : sx) : option config :=
  match x with
  | L [a; v; b; c; A m] =>
      match as_bool a, as_bool v, as_bool b, as_bool c with
      | Some a, Some v, Some b, Some c => Some (mkcfg a v b c m true)
      | _, _, _, _ => None
      end
  | _ => None
  end.

Definition sx_doc (d : doc) : sx := L [sx_str (dtext d); A (dcur d)].
Definition sx_comp (c : completion) : sx := L [sx_str (ctext c); A (cstart c); sx_doc (csrc c)].

(* observation after a group of labels; [prev] = identity of the
   complete_state object seen at the previous observation *)
Definition obs (prev : option Z) (s : state) (e : Z) : sx :=
  L [A e; sx_str (text s); A (cur s);
     match cst s with
     | None => L []
     | Some cs =>
         L [L [sx_bool (match prev with Some p => p =? cs_id cs | None => false end);
               sx_doc (cs_orig cs);
               sx_list sx_comp (cs_comps cs);
               sx_opt sx_Z (cs_idx cs)]]
     end;
     A (vst s); sx_opt sx_doc (vsrc s);
     match sug s with None => L [] | Some (t, d) => L [L [sx_str t; sx_doc d]] end;
     L [sx_bool (crun s); sx_bool (vrun s); sx_bool (srun s)];
     sx_list (fun co => sx_doc (cc_doc co)) (ccos s);
     sx_list sx_doc (vcos s);
     sx_list sx_doc (scos s)].

Fixpoint run_group (s : state) (e : Z) (ls : list label) : state * Z :=
  match ls with
  | [] => (s, e)
  | l :: r => let '(s1, e1) := step s l in run_group s1 (if e =? 0 then e1 else e) r
  end.

Fixpoint run_groups (s : state) (prev : option Z) (gs : list (list label)) : list sx :=
  match gs with
  | [] => []
  | g :: r =>
      let '(s1, e) := run_group s 0 g in
      obs prev s1 e :: run_groups s1 (match cst s1 with Some cs => Some (cs_id cs) | None => None end) r
  end.

Definition dec_group (x : sx) : option (list label) :=
  match x with L l => map_opt dec_label l | _ => None end.

(* function-level case (19 working_lines text cursor working_index): the
   completions start_history_lines_completion builds, with display_meta *)
Definition sx_hist (wl : list str) (t : str) (p wi : Z) : sx :=
  L (map (fun e => L [sx_str (hl_text e); A (- len (hl_current_line t p));
                      match hist_meta wi e with (c, i, j) => L [sx_bool c; A i; A j] end])
         (hist_entries wl t p)).

(* case = (cfg text cursor (group ...)) ; result = (obs ...) *)
Definition run_C15 (x : sx) : sx :=
  match x with
  | L [A 30; jn; L ls] =>
      (* the producer-thread life cycle (Model/C15_Thread.v) *)
      match as_bool jn with Some jn => run_thread jn ls | None => bad_case end
  | L [A 19; L wl; t; A p; A wi] =>
      match map_opt as_str wl, as_str t with
      | Some wl, Some t =>
          (* Buffer.text IS _working_lines[working_index] *)
          if (0 <=? p) && (p <=? len t) && (0 <=? wi) &&
             match get_nth wl wi with Some x => str_eqb x t | None => false end
          then sx_hist wl t p wi else bad_case
      | _, _ => bad_case
      end
  | L [c; t; A p; L gs] =>
      match dec_cfg c, as_str t, map_opt dec_group gs with
      | Some c, Some t, Some gs =>
          if (0 <=? p) && (p <=? len t) then L (run_groups (init c t p) None gs) else bad_case
      | _, _, _ => bad_case
      end
  | _ => bad_case
  end.
