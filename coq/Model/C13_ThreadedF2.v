(* C13 - ThreadedHistory with the PROPOSED repair of findings C13-F2/F2b
   (fixes/C13-append-between-reset-and-read.patch; not in /repo):

     _in_load_thread:  with lock: strings = iter(history.load_history_strings());
                                  first item fetched; _reading_started = True
     append_string:    with lock: if _load_thread is None or _reading_started:
                                      insert in front; _num_prepended += 1
                                  store_string(string)

   so append_string is ONE atomic step ([Append2]), which between the first
   load() and the loader's reading of the storage (P2) only stores, and the
   loader's reading is atomic against it.  Everything else is the transition
   system of Model/C13_Threaded.v.  Ghost: a consumer that started before the
   loader read the storage gets [c_start] := the storage as read. *)
From Coq Require Import ZArith List Bool.
From PTK Require Import Lib.Sx Lib.Py Model.C13_Threaded.
Import ListNotations.
Open Scope Z_scope.

Inductive label2 := LStep2 | CStart2 | CRead2 (i : nat) | Append2 (s : str).

Definition snap_cons (st : tstate) (c : consumer) : consumer :=
  if c_fin c then c else mkc (c_iy c) (c_p0 c) (c_out c) false (c_ev c) (t_store st).

Definition tstep2 (st : tstate) (l : label2) : tstate :=
  match l with
  | LStep2 =>
      match t_ph st with
      | P2 => mkt (t_store st) (t_ls st) (t_loaded st) (t_np st) (P3 (rev (t_store st)))
                  (map (snap_cons st) (t_cons st)) (t_fly st) (t_store st)
      | _ => tstep st LStep
      end
  | CStart2 => tstep st CStart
  | CRead2 i => tstep st (CRead i)
  | Append2 s =>
      match t_ph st with
      | P2 => mkt (t_store st ++ [s]) (t_ls st) (t_loaded st) (t_np st) P2 (t_cons st)
                  (t_fly st) (t_base st)
      | _ => tstep st (Append s)
      end
  end.

Definition trun2 (st : tstate) (sched : list label2) : tstate := fold_left tstep2 sched st.
