(* C05: entering Vi insert-multiple mode - vi.py insert_in_block_selection
   (`I` / `A` on a block selection).  Document.selection_ranges is the model
   C08 built and tied (Model/C08_ViOps.v selection_ranges, Vi mode). *)
From Coq Require Import ZArith List Bool.
From PTK Require Import Lib.Sx Lib.Py Model.Document Model.BufferEdit Model.C08_ViOps Model.C05_Editor.
Import ListNotations.
Open Scope Z_scope.

(* buff.document.selection_ranges(): nothing without a selection *)
Definition sel_ranges (s : est) : list (Z * Z) :=
  match esel s with
  | None => []
  | Some (o, ty) => selection_ranges (et s) (ec s) o ty
  end.

(* positions = [get_pos(from_to) for every range]; the cursor goes to the first
   one (the ranges are those of the document as it was before the loop);
   buff.multiple_cursor_positions = positions; INSERT_MULTIPLE; exit_selection *)
Definition insert_in_block_selection (after : bool) (s : est) : eres :=
  let positions := map (fun r : Z * Z => if after then snd r else fst r) (sel_ranges s) in
  let s1 := match positions with p :: _ => set_cursor s p | [] => s end in
  let s2 := with_mc s1 positions in
  exit_selection (set_input_mode s2 M_INSERT_MULTIPLE).

(* KeyProcessor._call_handler around it (the same tail as C05_Editor.call_handler) *)
Definition call_block_insert (after : bool) (s : est) : eres :=
  let was_temp := vtemp s in
  let leave (s1 : est) : est :=
    if was_temp && evi s1 && negb (vop s1)
    then with_vi s1 (vmode s1) (vop s1) (voparg s1) (vdig s1) false else s1 in
  match insert_in_block_selection after s with
  | EOk s1 => EOk (leave (fix_vi_cursor_position s1))
  | EErr c s1 => if c =? E_READONLY then EOk (leave (fix_vi_cursor_position s1)) else EErr c s1
  end.
