(* C18 - formatted_text/utils.py fragment_list_width (wcwidth is a parameter:
   [w c] = get_cwidth of the one-character string c, i.e. max(0, wcwidth(c)))
   and formatted_text/pygments.py PygmentsTokens.  Definitions only. *)
From Coq Require Import ZArith List Bool.
From PTK Require Import Lib.Sx Lib.Py Model.C18_Fragments Model.C18_Ansi.
Import ListNotations.
Open Scope Z_scope.

Section Width.
  Variable w : Z -> Z.

  Fixpoint str_width (s : str) : Z :=
    match s with [] => 0 | c :: r => w c + str_width r end.

  (* sum(get_cwidth(c) for item in fragments for c in item[1] if ZeroWidthEscape not in item[0]) *)
  Fixpoint fragment_list_width (frs : list frag) : Z :=
    match frs with
    | [] => 0
    | f :: r => (if is_zwe (fstyle f) then 0 else str_width (ftext f)) + fragment_list_width r
    end.
End Width.

(* width table sent with a case: (character, width) pairs; characters not listed count 1 *)
Fixpoint table_width (t : list (Z * Z)) (c : Z) : Z :=
  match t with
  | [] => 1
  | (a, x) :: r => if a =? c then x else table_width r c
  end.

(* ---- PygmentsTokens ---- *)

Definition ascii_lower (c : Z) : Z := if (65 <=? c) && (c <=? 90) then c + 32 else c.

Definition w_class_colon : str := [99; 108; 97; 115; 115; 58].                 (* class: *)
Definition w_pygments : str := [112; 121; 103; 109; 101; 110; 116; 115].      (* pygments *)

(* pygments_token_to_classname(token) = ".".join(("pygments",) + token).lower()   (ASCII token names) *)
Definition token_classname (tok : list str) : str := map ascii_lower (join [46] (w_pygments :: tok)).

(* PygmentsTokens(token_list).__pt_formatted_text__() *)
Definition pygments_frags (toks : list (list str * str)) : list frag :=
  map (fun tt => mkfrag (w_class_colon ++ token_classname (fst tt)) (snd tt) []) toks.
