(* C13 - FileHistory (src/prompt_toolkit/history.py) at byte level.

   store_string(string):
       with open(filename, "ab") as f:
           write("\n# %s\n" % datetime.now())            -- timestamp: any LF-free bytes [ts]
           for line in string.split("\n"): write("+%s\n" % line)
   (each write() encodes its whole argument first, so a line that cannot be
   encoded - lone surrogate - raises before any of its bytes are written; the
   bytes written so far stay in the file)

   load_history_strings():
       for line_bytes in f:                                -- binary mode: split after b"\n" only
           line = line_bytes.decode("utf-8", errors="replace")
           if line.startswith("+"): lines.append(line[1:])
           else: add(); lines = []
       add()                                               -- add: if lines: strings.append("".join(lines)[:-1])
       return reversed(strings)

   History.load / get_strings / append_string keep the per-instance cache
   [_loaded_strings] (newest first) and [_loaded]; load() and get_strings()
   both read the file first when that has not happened yet (_ensure_loaded). *)
From Coq Require Import ZArith List Bool.
From PTK Require Import Lib.Sx Lib.Py Model.C13_Utf8.
Import ListNotations.
Open Scope Z_scope.

Definition bytes := list Z.
Definition PLUS : Z := 43.
Definition HASH : Z := 35.

(* ---- store ------------------------------------------------------------ *)
Definition plus_line (l : str) : bytes := PLUS :: utf8_enc_raw l ++ [NL].
Definition store_body (s : str) : bytes := flat_map plus_line (split_on NL s).
Definition store_head (ts : bytes) : bytes := [NL; HASH; SP] ++ ts ++ [NL].
(* the record of one entry, when every line can be encoded *)
Definition store_bytes (ts : bytes) (s : str) : bytes := store_head ts ++ store_body s.

(* as executed: stop at the first line that cannot be encoded *)
Fixpoint store_lines_exec (ls : list str) : bytes * bool :=
  match ls with
  | [] => ([], true)
  | l :: r =>
      if forallb is_scalar l then
        let '(b, ok) := store_lines_exec r in (plus_line l ++ b, ok)
      else ([], false)
  end.
Definition store_exec (ts : bytes) (s : str) : bytes * bool :=
  let '(b, ok) := store_lines_exec (split_on NL s) in (store_head ts ++ b, ok).

(* ---- load ------------------------------------------------------------- *)
(* `for line_bytes in f` on a binary file: lines keep their b"\n"; the last
   one may lack it; an empty file has no lines *)
Fixpoint lines_of (bs : bytes) : list bytes :=
  match bs with
  | [] => []
  | b :: r =>
      if b =? NL then [NL] :: lines_of r
      else match lines_of r with
           | [] => [[b]]
           | l :: ls => (b :: l) :: ls
           end
  end.

(* add() *)
Definition add (strings : list str) (lines : list str) : list str :=
  match lines with
  | [] => strings
  | _ => strings ++ [slice_to (concat lines) (-1)]
  end.

Fixpoint load_loop (ls : list bytes) (strings : list str) (lines : list str) : list str :=
  match ls with
  | [] => add strings lines
  | lb :: r =>
      let line := utf8_dec lb in
      if startswith line [PLUS] then load_loop r strings (lines ++ [slice_from line 1])
      else load_loop r (add strings lines) []
  end.

Definition load_bytes (f : bytes) : list str := rev (load_loop (lines_of f) [] []).

(* ---- instances sharing one file ---------------------------------------- *)
(* the state of one `load()` async generator of the instance: not created,
   created but not started, the list iterator's index, exhausted *)
Inductive iter_st := ItNone | ItFresh | ItAt (n : nat) | ItDone.
Record inst := mkinst { i_loaded : bool; i_strings : list str; i_it : iter_st }.
Record fstate := mkfs { f_file : bytes; f_insts : list inst }.

Inductive fop :=
| OAppend (i : nat) (ts : bytes) (s : str)   (* insts[i].append_string(s) *)
| OFresh                                      (* list(FileHistory(path).load_history_strings()) *)
| OTrunc (n : Z)                              (* crash: the file is cut to its first n bytes *)
| OLoad (i : nat)                             (* [x async for x in insts[i].load()] *)
| OGet (i : nat)                              (* insts[i].get_strings() *)
| ORaw (b : bytes)                            (* foreign bytes appended to the file *)
| OIter (i : nat)                             (* g_i = insts[i].load()   (nothing runs yet) *)
| ONext (i : nat).                            (* await g_i.__anext__()   (one item, or the end) *)

Fixpoint upd {T} (l : list T) (i : nat) (x : T) : list T :=
  match l, i with
  | [], _ => []
  | _ :: r, O => x :: r
  | y :: r, S k => y :: upd r k x
  end.

Definition fresh_inst := mkinst false [] ItNone.

Definition sx_strs (l : list str) : sx := L (map sx_str l).

Definition fstep (st : fstate) (o : fop) : fstate * sx :=
  match o with
  | OAppend i ts s =>
      let it := nth i (f_insts st) fresh_inst in
      let it' := mkinst (i_loaded it) (s :: i_strings it) (i_it it) in
      let '(b, ok) := store_exec ts s in
      let f' := f_file st ++ b in
      (mkfs f' (upd (f_insts st) i it'), L [A (if ok then 0 else 1); sx_str f'])
  | OFresh => (st, sx_strs (load_bytes (f_file st)))
  | OTrunc n =>
      let f' := slice_to (f_file st) (Z.max 0 n) in
      (mkfs f' (f_insts st), A (len f'))
  | OLoad i =>
      let it := nth i (f_insts st) fresh_inst in
      let it' := if i_loaded it then it else mkinst true (load_bytes (f_file st)) (i_it it) in
      (mkfs (f_file st) (upd (f_insts st) i it'), sx_strs (i_strings it'))
  | OGet i =>
      (* get_strings() calls _ensure_loaded() first (commit f4f2a3a) *)
      let it := nth i (f_insts st) fresh_inst in
      let it' := if i_loaded it then it else mkinst true (load_bytes (f_file st)) (i_it it) in
      (mkfs (f_file st) (upd (f_insts st) i it'), sx_strs (rev (i_strings it')))
  | ORaw b =>
      let f' := f_file st ++ b in
      (mkfs f' (f_insts st), A (len f'))
  | OIter i =>
      let it := nth i (f_insts st) fresh_inst in
      (mkfs (f_file st) (upd (f_insts st) i (mkinst (i_loaded it) (i_strings it) ItFresh)), A 0)
  | ONext i =>
      let it := nth i (f_insts st) fresh_inst in
      (* the first __anext__ runs _ensure_loaded() and creates the list iterator *)
      let it1 := match i_it it with
                 | ItFresh => if i_loaded it then mkinst true (i_strings it) (ItAt 0)
                              else mkinst true (load_bytes (f_file st)) (ItAt 0)
                 | _ => it
                 end in
      match i_it it1 with
      | ItAt n =>
          match nth_error (i_strings it1) n with
          | Some x => (mkfs (f_file st) (upd (f_insts st) i (mkinst (i_loaded it1) (i_strings it1) (ItAt (S n)))),
                       L [sx_str x])
          | None => (mkfs (f_file st) (upd (f_insts st) i (mkinst (i_loaded it1) (i_strings it1) ItDone)), L [])
          end
      | _ => (mkfs (f_file st) (upd (f_insts st) i it1), L [])
      end
  end.

Fixpoint frun (st : fstate) (ops : list fop) : list sx :=
  match ops with
  | [] => []
  | o :: r => let '(st', out) := fstep st o in out :: frun st' r
  end.

Fixpoint fexec (st : fstate) (ops : list fop) : fstate :=
  match ops with
  | [] => st
  | o :: r => fexec (fst (fstep st o)) r
  end.

Definition finit : fstate := mkfs [] [fresh_inst; fresh_inst; fresh_inst].

(* wire format *)
Definition dec_fop (s : sx) : option fop :=
  match s with
  | L [A 1; A i; ts; e] =>
      match as_str ts, as_str e with
      | Some ts', Some e' => if (0 <=? i) && (i <? 3) then Some (OAppend (Z.to_nat i) ts' e') else None
      | _, _ => None
      end
  | L [A 2] => Some OFresh
  | L [A 3; A n] => Some (OTrunc n)
  | L [A 4; A i] => if (0 <=? i) && (i <? 3) then Some (OLoad (Z.to_nat i)) else None
  | L [A 5; A i] => if (0 <=? i) && (i <? 3) then Some (OGet (Z.to_nat i)) else None
  | L [A 6; b] => match as_str b with Some b' => Some (ORaw b') | None => None end
  | L [A 7; A i] => if (0 <=? i) && (i <? 3) then Some (OIter (Z.to_nat i)) else None
  | L [A 8; A i] => if (0 <=? i) && (i <? 3) then Some (ONext (Z.to_nat i)) else None
  | _ => None
  end.

Definition run_file (ops : list sx) : sx :=
  match map_opt dec_fop ops with
  | Some ops' => L (frun finit ops')
  | None => bad_case
  end.
