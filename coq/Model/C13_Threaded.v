(* C13 - ThreadedHistory as a labelled transition system (code as of /repo HEAD,
   i.e. with commit 0c2cbbe "append_string during loading").

   Shared state: the inner history's storage [t_store] (oldest first; for
   FileHistory: the file), `_loaded_strings` [t_ls] (newest first), `_loaded`,
   `_num_prepended` [t_np], the loader thread's program counter [t_ph], one
   record per `load()` call (consumer) and the strings whose `append_string`
   has done its `_loaded_strings.insert(0, s)` but not yet its
   `store_string(s)` [t_fly].

   Atomic steps = the lock regions and the single unlocked statements, EXCEPT
   that [LStep] takes the loader's locked statement together with the whole
   unlocked `for event in ...: event.set()` loop that follows it.  The safety
   theorems never look at the event flags, so this is sound for them (and
   C13_ev_exactly_once re-proves them for the split system); the loops
   themselves - where consumers finish and register in between - are modelled
   in Model/C13_ThreadedEv.v.

     CStart  a `load()` call up to its first await.  When it is the first one
             (P0): `with lock: _loaded_strings = []`, thread started -> P2.
             Registers an event (initially set), items_yielded = 0,
             prepended_at_start = _num_prepended.
     LStep   the loader thread's next statement:
               P2 -> `self.history.load_history_strings()` (snapshot of the
                     storage, newest first)                                -> P3 items
               P3 (x :: r) -> `with lock: _loaded_strings.append(x)`;
                     every registered event set                            -> P3 r
               P3 [] -> `with lock: _loaded = True`; every event set       -> P4
     CRead i consumer i's `in_executor`: under the lock
             skip = _num_prepended - prepended_at_start,
             new = _loaded_strings[skip + items_yielded:], done = _loaded,
             event cleared; then items_yielded += len(new), the new items are
             yielded, and the consumer finishes (event unregistered) if done.
             (The model allows a read at any time, also when the event is not
             set: a superset of the real schedules.)
     AIns s  append_string, first half:
             `with lock: _loaded_strings.insert(0, s); _num_prepended += 1`
     ASto s  append_string, second half: `self.store_string(s)`
     Append s = AIns s; ASto s with nothing in between.

   Ghost fields (not in the code): [t_base] the storage as the loader read it;
   [c_start] storage ++ in-flight strings at the moment the consumer started. *)
From Coq Require Import ZArith List Bool.
From PTK Require Import Lib.Sx Lib.Py.
Import ListNotations.
Open Scope Z_scope.

Inductive phase := P0 | P2 | P3 (pending : list str) | P4.

Record consumer := mkc {
  c_iy : nat; c_p0 : nat; c_out : list str; c_fin : bool; c_ev : bool; c_start : list str }.

Record tstate := mkt {
  t_store : list str; t_ls : list str; t_loaded : bool; t_np : nat; t_ph : phase;
  t_cons : list consumer; t_fly : list str; t_base : list str }.

Inductive label :=
| LStep | CStart | CRead (i : nat) | AIns (s : str) | ASto (s : str) | Append (s : str).

Definition set_ev (c : consumer) : consumer :=
  if c_fin c then c else mkc (c_iy c) (c_p0 c) (c_out c) false true (c_start c).

Definition read (st : tstate) (c : consumer) : consumer :=
  if c_fin c then c else
  let skip := (t_np st - c_p0 c)%nat in
  let new := skipn (skip + c_iy c) (t_ls st) in
  mkc (c_iy c + length new) (c_p0 c) (c_out c ++ new) (t_loaded st) false (c_start c).

Fixpoint upd_nth {T} (l : list T) (i : nat) (f : T -> T) : list T :=
  match l, i with
  | [], _ => []
  | x :: r, O => f x :: r
  | x :: r, S k => x :: upd_nth r k f
  end.

Fixpoint remove_first (s : str) (l : list str) : list str :=
  match l with
  | [] => []
  | x :: r => if str_eqb x s then r else x :: remove_first s r
  end.

Definition ains (st : tstate) (s : str) : tstate :=
  mkt (t_store st) (s :: t_ls st) (t_loaded st) (S (t_np st)) (t_ph st) (t_cons st)
      (t_fly st ++ [s]) (t_base st).
Definition asto (st : tstate) (s : str) : tstate :=
  mkt (t_store st ++ [s]) (t_ls st) (t_loaded st) (t_np st) (t_ph st) (t_cons st)
      (remove_first s (t_fly st)) (t_base st).

Definition new_cons (st : tstate) : consumer :=
  mkc 0 (t_np st) [] false true (t_store st ++ t_fly st).

Definition tstep (st : tstate) (l : label) : tstate :=
  match l with
  | LStep =>
      match t_ph st with
      | P0 => st
      | P2 => mkt (t_store st) (t_ls st) (t_loaded st) (t_np st) (P3 (rev (t_store st)))
                  (t_cons st) (t_fly st) (t_store st)
      | P3 (x :: r) =>
          mkt (t_store st) (t_ls st ++ [x]) (t_loaded st) (t_np st) (P3 r)
              (map set_ev (t_cons st)) (t_fly st) (t_base st)
      | P3 [] => mkt (t_store st) (t_ls st) true (t_np st) P4 (map set_ev (t_cons st))
                     (t_fly st) (t_base st)
      | P4 => st
      end
  | CStart =>
      match t_ph st with
      | P0 => mkt (t_store st) [] (t_loaded st) (t_np st) P2 (t_cons st ++ [new_cons st])
                  (t_fly st) (t_base st)
      | p => mkt (t_store st) (t_ls st) (t_loaded st) (t_np st) p (t_cons st ++ [new_cons st])
                 (t_fly st) (t_base st)
      end
  | CRead i =>
      mkt (t_store st) (t_ls st) (t_loaded st) (t_np st) (t_ph st)
          (upd_nth (t_cons st) i (read st)) (t_fly st) (t_base st)
  | AIns s => ains st s
  | ASto s => asto st s
  | Append s => asto (ains st s) s
  end.

Definition trun (st : tstate) (sched : list label) : tstate := fold_left tstep sched st.

Definition tinit (S0 : list str) : tstate := mkt S0 [] false 0 P0 [] [] [].

(* The schedules the repair covers: one append_string at a time (it runs on
   the event-loop thread), none of its halves between the first load()'s cache
   reset and the loader thread's reading of the storage (P2), and the first
   load() does not start in the middle of an append_string. *)
Definition is_P0 (p : phase) : bool := match p with P0 => true | _ => false end.
Definition is_P2 (p : phase) : bool := match p with P2 => true | _ => false end.
Definition fly_nil (st : tstate) : bool := match t_fly st with [] => true | _ => false end.
Definition ok_label (st : tstate) (l : label) : bool :=
  match l with
  | AIns _ | Append _ => fly_nil st && negb (is_P2 (t_ph st))
  | ASto s => match t_fly st with [x] => str_eqb x s | _ => false end && negb (is_P2 (t_ph st))
  | CStart => negb (is_P0 (t_ph st)) || fly_nil st
  | _ => true
  end.
Fixpoint ok_sched (st : tstate) (sched : list label) : bool :=
  match sched with
  | [] => true
  | l :: r => ok_label st l && ok_sched (tstep st l) r
  end.

(* ---- observation (what the harness can see on the real object) -------- *)
Definition sx_strl (l : list str) : sx := L (map sx_str l).
Definition obs_cons (c : consumer) : sx := L [sx_strl (c_out c); sx_bool (c_fin c)].
Definition obs (st : tstate) : sx :=
  L [sx_strl (t_store st); sx_strl (t_ls st); sx_bool (t_loaded st);
     L (map obs_cons (t_cons st));
     L (map (fun c => sx_bool (c_ev c)) (filter (fun c => negb (c_fin c)) (t_cons st)));
     A (Z.of_nat (t_np st))].

Fixpoint trun_obs (st : tstate) (sched : list label) : list sx :=
  match sched with
  | [] => []
  | l :: r => let st' := tstep st l in obs st' :: trun_obs st' r
  end.

(* ---- schedules the harness can force on the real class ----------------- *)
(* (gates sit in the inner history's generator and in its store_string; the
   consumer is advanced one loop iteration at a time and must not be asked to
   read when that would block; load() and append_string both run on the
   event-loop thread, so no load() starts inside an append_string) *)
Definition replayable (maxc : nat) (st : tstate) (l : label) : bool :=
  match l with
  | LStep => match t_ph st with P0 | P4 => false | _ => true end
  | CStart => fly_nil st && (length (t_cons st) <? maxc)%nat
  | CRead i =>
      match nth_error (t_cons st) i with
      | Some c => negb (c_fin c) && c_ev c &&
                  (((t_np st - c_p0 c) + c_iy c <? length (t_ls st))%nat || t_loaded st)
      | None => false
      end
  | AIns _ => fly_nil st
  | ASto s => match t_fly st with [x] => str_eqb x s | _ => false end
  | Append _ => false
  end.

Definition candidates (st : tstate) (pool : list str) : list label :=
  [LStep; CStart; CRead 0; CRead 1; CRead 2]
  ++ match pool with [] => [] | s :: _ => [AIns s] end
  ++ match t_fly st with [] => [] | s :: _ => [ASto s] end.

Definition pool_after (pool : list str) (l : label) : list str :=
  match l with AIns _ => tl pool | _ => pool end.

Fixpoint enum (fuel : nat) (maxc : nat) (st : tstate) (pool : list str) : list (list label) :=
  match fuel with
  | O => [[]]
  | S f =>
      match filter (replayable maxc st) (candidates st pool) with
      | [] => [[]]
      | en => flat_map (fun l => map (cons l) (enum f maxc (tstep st l) (pool_after pool l))) en
      end
  end.

Fixpoint walk (choices : list Z) (maxc : nat) (st : tstate) (pool : list str) : list label :=
  match choices with
  | [] => []
  | c :: r =>
      match filter (replayable maxc st) (candidates st pool) with
      | [] => []
      | en =>
          match nth_error en (Z.to_nat (c mod (len en))) with
          | Some l => l :: walk r maxc (tstep st l) (pool_after pool l)
          | None => []
          end
      end
  end.

(* ---- wire format -------------------------------------------------------- *)
Definition dec_label (s : sx) : option label :=
  match s with
  | L [A 1] => Some LStep
  | L [A 2] => Some CStart
  | L [A 3; A i] => if 0 <=? i then Some (CRead (Z.to_nat i)) else None
  | L [A 4; e] => match as_str e with Some e' => Some (AIns e') | None => None end
  | L [A 5; e] => match as_str e with Some e' => Some (ASto e') | None => None end
  | L [A 6; e] => match as_str e with Some e' => Some (Append e') | None => None end
  | _ => None
  end.
Definition enc_label (l : label) : sx :=
  match l with
  | LStep => L [A 1]
  | CStart => L [A 2]
  | CRead i => L [A 3; A (Z.of_nat i)]
  | AIns s => L [A 4; sx_str s]
  | ASto s => L [A 5; sx_str s]
  | Append s => L [A 6; sx_str s]
  end.
Definition dec_strs (s : sx) : option (list str) :=
  match s with L l => map_opt as_str l | _ => None end.

Definition run_threaded (s0 : sx) (labels : list sx) : sx :=
  match dec_strs s0, map_opt dec_label labels with
  | Some S0, Some ls => L (trun_obs (tinit S0) ls)
  | _, _ => bad_case
  end.
Definition run_enum (s0 pool : sx) (maxc fuel : Z) : sx :=
  match dec_strs s0, dec_strs pool with
  | Some S0, Some p =>
      if (0 <=? maxc) && (maxc <=? 3) && (0 <=? fuel) && (fuel <=? 40)
      then L (map (fun sch => L (map enc_label sch))
                  (enum (Z.to_nat fuel) (Z.to_nat maxc) (tinit S0) p))
      else bad_case
  | _, _ => bad_case
  end.
Definition run_walk (s0 pool : sx) (maxc : Z) (choices : sx) : sx :=
  match dec_strs s0, dec_strs pool, as_str choices with
  | Some S0, Some p, Some ch =>
      if (0 <=? maxc) && (maxc <=? 3)
      then L (map enc_label (walk ch (Z.to_nat maxc) (tinit S0) p))
      else bad_case
  | _, _, _ => bad_case
  end.
