(* A layer over the state of Model/C14_HistoryNav.v: Buffer.yank_nth_arg_state
   (emacs yank-nth-arg / yank-last-arg, M-C-y / M-. / M-_).  Definitions only.

   buffer.py: YankNthArgState, _QUOTED_WORDS_RE, yank_nth_arg, yank_last_arg;
   named_commands.py: yank-nth-arg, yank-last-arg
       n = event.arg if event.arg_present else None
       event.current_buffer.yank_nth_arg(n)        (resp. yank_last_arg(n))

   The base state [hs] is untouched (no new field: every theorem about [hs]
   stays as it is); the layered state adds the yank state.  In buffer.py the
   yank state is dropped by _text_changed, _cursor_position_changed and reset();
   the base model does not record whether those notifications fired, the layer
   reconstructs it ([notified]): they fire exactly when an operation (other than
   the population steps, which assign the index directly) changes the working
   index, the text or the cursor, and reset() runs in reset / accept without
   keep_text / a new session.  That reconstruction is checked by the
   correspondence (the yank state is part of every compared snapshot). *)
From Coq Require Import ZArith List Bool.
From PTK Require Import Lib.Sx Lib.Py Gen.Whitespace Model.Document Model.BufferEdit
  Lib.C14_Handlers Gen.C14_Handlers Model.C14_HistoryNav.
Import ListNotations.
Open Scope Z_scope.

(* ---- _QUOTED_WORDS_RE = re.compile(r"""(\s+|".*?"|'.*?')""") and re.split ---- *)
Definition re_space (c : Z) : bool := mem_Z c re_space_table.
Definition DQ : Z := 34.
Definition SQ : Z := 39.

(* ".*?" after the opening quote: the first closing quote, no newline before it
   ('.' does not match "\n"): (inner text, rest after the closing quote) *)
Fixpoint close_quote (q : Z) (r : str) : option (str * str) :=
  match r with
  | [] => None
  | c :: r' =>
      if c =? q then Some ([], r')
      else if c =? NL then None
      else match close_quote q r' with
           | Some (i, rest) => Some (c :: i, rest)
           | None => None
           end
  end.

(* \s+ : the maximal run of whitespace *)
Fixpoint take_space (r : str) : str * str :=
  match r with
  | [] => ([], [])
  | c :: r' => if re_space c then let '(a, b) := take_space r' in (c :: a, b) else ([], r)
  end.

(* re.split with the capturing group: text, separator, text, separator, ... *)
Fixpoint re_split (fuel : nat) (r acc : str) : list str :=
  match fuel with
  | O => [rev acc ++ r]
  | S f =>
      match r with
      | [] => [rev acc]
      | c :: r' =>
          if re_space c then
            let '(ws, rest) := take_space r in rev acc :: ws :: re_split f rest []
          else if (c =? DQ) || (c =? SQ) then
            match close_quote c r' with
            | Some (inner, rest) => rev acc :: (c :: inner ++ [c]) :: re_split f rest []
            | None => re_split f r' (c :: acc)
            end
          else re_split f r' (c :: acc)
      end
  end.

Definition nonempty (w : str) : bool := match w with [] => false | _ => true end.

(* words = [w.strip() for w in _QUOTED_WORDS_RE.split(line)]; words = [w for w in words if w] *)
Definition words (line : str) : list str :=
  filter nonempty (map (strip_by is_space) (re_split (S (length line)) line [])).

(* ---- the layered state ---- *)
(* YankNthArgState: history_position, n, previous_inserted_word *)
Definition ystate := (Z * Z * str)%type.
Record xs := mkxs { xb : hs; xy : option ystate }.

(* Buffer.yank_nth_arg(n, _yank_last_arg=last) *)
Definition yank_nth_arg (c : cfg) (x : xs) (n : option Z) (last : bool) : xs :=
  let s := xb x in
  let h := hist_for_get s in                       (* history.get_strings() (loads first) *)
  let s0 := set_store s h in
  let strings := rev (ls h) in
  if len strings =? 0 then mkxs s0 (xy x)
  else
    let '(pos, n0, prev) :=
      match xy x with
      | None => (0, if last then -1 else 1, [])
      | Some st => st
      end in
    let n1 := match n with Some v => v | None => n0 end in
    let np0 := pos - 1 in
    let np := if len strings <? - np0 then -1 else np0 in
    let line := match index strings np with Some l => l | None => [] end in
    let word := match index (words line) n1 with Some w => w | None => [] end in   (* IndexError -> "" *)
    let s1 := match prev with
              | [] => s0
              | _ => snd (fst (of_res c s0 (delete_before_cursor (sbuf s0) (len prev))))
              end in
    let s2 := snd (fst (of_res c s1 (insert_text (sbuf s1) word false true))) in
    mkxs s2 (Some (np, n1, word)).

(* operations of the layer *)
Inductive xop :=
| XBase (o : op)
| XYank (n : option Z) (last : bool).   (* the named commands yank-nth-arg / yank-last-arg *)

Definition is_popb (o : op) : bool :=
  match o with OPop | OPopAll | OThread | OLoadStart => true | _ => false end.

(* did _text_changed / _cursor_position_changed fire, or reset() run? *)
Definition moved (s s' : hs) : bool :=
  negb ((wi s =? wi s') && (cur s =? cur s') && str_eqb (text s) (text s')).
Definition resets (c : cfg) (o : op) (r : option str) : bool :=
  match o with
  | OReset _ _ _ | OReopen => true
  | OAccept => match r with Some _ => negb (keep c) | None => false end
  | _ => false
  end.
Definition notified (c : cfg) (s : hs) (o : op) (s1 : hs) (r : option str) : bool :=
  if is_popb o then false else moved s s1 || resets c o r.

(* one operation proper (no consumer, no flush) *)
Definition xstep_core (c : cfg) (x : xs) (o : xop) : Z * xs * option str :=
  match o with
  | XBase b =>
      let '(st, s1, r) := step_core c (xb x) b in
      (st, mkxs s1 (if notified c (xb x) b s1 r then None else xy x), r)
  | XYank n last => (ST_OK, yank_nth_arg c x n last, None)
  end.

Definition xpost (c : cfg) (x : xs) : xs := mkxs (flush c (consume (xb x))) (xy x).

Definition xstep (c : cfg) (x : xs) (o : xop) : Z * xs * option str :=
  let '(st, x', r) := xstep_core c x o in (st, xpost c x', r).

Definition xstep_state (c : cfg) (x : xs) (o : xop) : xs := snd (fst (xstep c x o)).
Definition xsteps (c : cfg) (x : xs) (ops : list xop) : xs := fold_left (xstep_state c) ops x.

(* ---- wire ---- *)
Definition dec_xop (x : sx) : option xop :=
  match x with
  | L [A 28; A last; a] =>
      match dec_karg a with
      | Some a' => Some (XYank (match a' with ANone => None | _ => Some (event_arg a') end) (last =? 1))
      | None => None
      end
  | _ => match dec_op x with Some o => Some (XBase o) | None => None end
  end.

(* flag: bit 0 = the state after the op is observed; bit 1 = deferred (no
   flush after it); bit 2 (only with bit 1) = the event loop does run after the
   op, so a scheduled validate-while-typing run STARTS, but its validator does not
   return yet (slow validator): it is in flight for the document of that moment *)
Definition dec_xoop (x : sx) : option (bool * bool * bool * xop) :=
  match x with
  | L [A f; o] =>
      match dec_xop o with
      | Some o' =>
          if ((0 <=? f) && (f <=? 3)) || ((6 <=? f) && (f <=? 7))
          then Some (Z.odd f, 2 <=? (f mod 4), 4 <=? f, o') else None
      | None => None
      end
  | _ => None
  end.

Definition enc_ystate (y : ystate) : sx :=
  let '(p, n, w) := y in L [A p; A n; sx_str w].

Definition enc_xoutcome (o : Z * xs * option str) : sx :=
  let '(st, x, r) := o in
  L (A st :: sx_opt sx_str r :: enc_state (xb x) ++ [sx_opt enc_ystate (xy x)]).

(* _validate_async when the validator finally returns: the run that was in flight
   for document [d] finds the same document -> it stores ITS verdict whatever the
   validation state has become meanwhile (a synchronous validate() may have set
   it); a changed document -> "try again" = the ordinary flush *)
Definition verdict_of (c : cfg) (t : str) (p : Z) : Z :=
  match val c with
  | Some V => match V t p with Some _ => V_INVALID | None => V_VALID end
  | None => V_VALID
  end.

Definition flush_inflight (c : cfg) (s : hs) (fl : option (str * Z)) : hs :=
  match fl with
  | Some (t, p) =>
      if pend s && str_eqb t (text s) && (p =? cur s)
      then set_pend (set_vst s (verdict_of c t p)) false
      else flush c s
  | None => flush c s
  end.

(* [fl]: the document of the validate-while-typing run that is waiting inside a
   slow validator, if any *)
Fixpoint run_xops (c : cfg) (x : xs) (fl : option (str * Z)) (ops : list (bool * bool * bool * xop)) : list sx :=
  match ops with
  | [] => []
  | (f, defer, wait, o) :: r =>
      let '(st, x1, ret) := xstep_core c x o in
      if defer then
        let s1 := xb x1 in
        let fl' := match fl with
                   | Some _ => fl
                   | None => if wait && pend s1 && (vst s1 =? V_UNKNOWN) then Some (text s1, cur s1) else None
                   end in
        let rest := run_xops c x1 fl' r in
        if f then enc_xoutcome (st, x1, ret) :: rest else rest
      else
        let x2 := mkxs (flush_inflight c (consume (xb x1)) fl) (xy x1) in
        let rest := run_xops c x2 None r in
        if f then enc_xoutcome (st, x2, ret) :: rest else rest
  end.

Definition run_C14L_k (k : bool) (storage : list sx) (e w kp : Z) (v : sx) (ops : list sx) : sx :=
  match map_opt as_str storage, as_opt (fun y => match y with L rs => map_opt dec_rule rs | _ => None end) v,
        map_opt dec_xoop ops with
  | Some storage', Some v', Some ops' =>
      let c := mkcfg (w =? 1) (kp =? 1)
                     (match v' with Some rules => Some (run_validator rules) | None => None end) in
      L (run_xops c (mkxs (init_k storage' (e =? 1) k) None) None ops')
  | _, _, _ => bad_case
  end.

(* same case format as run_C14; every observed state carries the yank state as
   its last component *)
Definition run_C14L (x : sx) : sx :=
  match x with
  | L [L storage; A e; A w; A k; v; L ops] => run_C14L_k false storage e w k v ops
  | L [L storage; A e; A w; A k; v; L ops; A 1] => run_C14L_k true storage e w k v ops
  | _ => bad_case
  end.
