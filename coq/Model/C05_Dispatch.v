(* C05 (L3): the key-matching step of KeyProcessor._process over the
   regenerated binding table.  Follows key_binding/key_bindings.py
   (get_bindings_for_keys: exact length, Keys.Any wildcard, stable sort placing
   bindings with more wildcards first; get_bindings_starting_with_keys) and
   key_binding/key_processor.py (_get_matches, _is_prefix_of_longer_match and
   the body of the `while True` loop of _process for one evaluation). *)
From Coq Require Import ZArith List Bool.
From PTK Require Import Lib.Sx Lib.Py Lib.C05_Filter Gen.C05_Bindings.
Import ListNotations.
Open Scope Z_scope.

(* zip(b.keys, keys): i != j and i != Any -> no match *)
Fixpoint keys_match (bk ks : list Z) : bool :=
  match bk, ks with
  | i :: bk', j :: ks' => ((i =? j) || (i =? K_Any)) && keys_match bk' ks'
  | _, _ => true           (* zip stops at the shorter one *)
  end.

Fixpoint any_count (bk ks : list Z) : Z :=
  match bk, ks with
  | i :: bk', _ :: ks' => (if i =? K_Any then 1 else 0) + any_count bk' ks'
  | _, _ => 0
  end.

(* result = [(any_count, index)] for bindings of the same length that match *)
Fixpoint exact_from (tbl : list binding) (n : Z) (ks : list Z) : list (Z * (Z * binding)) :=
  match tbl with
  | [] => []
  | b :: r =>
      let rest := exact_from r (n + 1) ks in
      if (len ks =? len (bkeys b)) && keys_match (bkeys b) ks
      then (any_count (bkeys b) ks, (n, b)) :: rest else rest
  end.

(* sorted(result, key=lambda item: -item[0]): stable insertion sort, descending
   by wildcard count *)
Fixpoint ins_desc (x : Z * (Z * binding)) (l : list (Z * (Z * binding))) : list (Z * (Z * binding)) :=
  match l with
  | [] => [x]
  | y :: r => if fst y <=? fst x then x :: l else y :: ins_desc x r
  end.
Definition sort_desc (l : list (Z * (Z * binding))) : list (Z * (Z * binding)) :=
  fold_right ins_desc [] l.

Definition bindings_for_keys (tbl : list binding) (ks : list Z) : list (Z * binding) :=
  map snd (sort_desc (exact_from tbl 0 ks)).

Definition starting_with (tbl : list binding) (ks : list Z) : list binding :=
  filter (fun b => (len ks <? len (bkeys b)) && keys_match (bkeys b) ks) tbl.

(* _get_matches *)
Definition get_matches (tbl : list binding) (v : Z -> bool) (ks : list Z) : list (Z * binding) :=
  filter (fun ib => feval v (bfilter (snd ib))) (bindings_for_keys tbl ks).

Definition is_prefix_of_longer (tbl : list binding) (v : Z -> bool) (ks : list Z) : bool :=
  existsb (fun b => feval v (bfilter b)) (starting_with tbl ks).

Inductive outcome :=
| Call (idx : Z) (nkeys : Z)     (* _call_handler(table[idx], key_sequence = buffer[:nkeys]) *)
| Wait                            (* nothing happens, the keys stay in the buffer *)
| DropOne.                        (* no binding: the first key is discarded *)

Definition last_idx (l : list (Z * binding)) : option Z :=
  match rev l with [] => None | (i, _) :: _ => Some i end.

(* for i in range(len(buffer), 0, -1): matches = get_matches(buffer[:i]) *)
Fixpoint longest_prefix (tbl : list binding) (v : Z -> bool) (ks : list Z) (i : nat) : outcome :=
  match i with
  | O => DropOne
  | S i' =>
      match last_idx (get_matches tbl v (firstn i ks)) with
      | Some k => Call k (Z.of_nat i)
      | None => longest_prefix tbl v ks i'
      end
  end.

(* one evaluation of the loop body for a non-empty key buffer *)
Definition match_step (tbl : list binding) (v : Z -> bool) (ks : list Z) (flush : bool) : outcome :=
  let matches := get_matches tbl v ks in
  let pre := if flush then false else is_prefix_of_longer tbl v ks in
  let eager := filter (fun ib => feval v (beager (snd ib))) matches in
  let '(matches, pre) := match eager with [] => (matches, pre) | _ => (eager, false) end in
  if negb pre then
    match last_idx matches with
    | Some k => Call k (len ks)
    | None => longest_prefix tbl v ks (length ks)
    end
  else Wait.

(* Valuations given as a bit list (atom i = i-th element; absent = false) *)
Definition val_of (bits : list Z) : Z -> bool :=
  fun a => match index bits a with Some 1 => true | _ => false end.

Definition enc_outcome (o : outcome) : sx :=
  match o with
  | Call i n => L [A 0; A i; A n]
  | Wait => L [A 1]
  | DropOne => L [A 2]
  end.

(* case (1 bits keys flush) over the regenerated table *)
Definition run_dispatch (bits ks : list Z) (flush : Z) : sx :=
  match ks with
  | [] => bad_case
  | _ => enc_outcome (match_step bindings (val_of bits) ks (flush =? 1))
  end.

(* ---------------------------------------------------------------------- *)
(* The `while True` loop of KeyProcessor._process from the moment one key (or
   the flush marker) has been taken from the queue until the generator waits
   for the next one: the first evaluation, then the `retry` evaluations (with
   flush = False, as the loop resets it).  Handlers run between two
   evaluations and change the application state, so the valuation of the
   filter atoms is an input of every evaluation ([vs n] for the n-th one), and
   so is `get_app().is_done` ([dn n]): a retry on a finished application
   returns the rest of the buffer to the input queue (fix ff58b7b).
   Result: the calls made (row index, key sequence) and how the loop stopped. *)
Inductive lstop :=
| LEmpty                       (* key buffer empty: waits for the next key *)
| LWait (buf : list Z)         (* keys stay in the buffer *)
| LAhead (buf : list Z)        (* application done: keys become type-ahead *)
| LFuel.

Fixpoint process_loop (fuel : nat) (tbl : list binding) (vs : nat -> Z -> bool) (dn : nat -> bool)
         (n : nat) (retry : bool) (ks : list Z) (flush : bool) : list (Z * list Z) * lstop :=
  match fuel with
  | O => ([], LFuel)
  | S f =>
      match ks with
      | [] => ([], LEmpty)        (* (a retry on a finished application puts nothing back) *)
      | _ =>
          if retry && dn n then ([], LAhead ks)
          else
            match match_step tbl (vs n) ks flush with
            | Wait => ([], LWait ks)
            | Call idx m =>
                let '(calls, st) :=
                  process_loop f tbl vs dn (S n) true (skipn (Z.to_nat m) ks) false in
                ((idx, firstn (Z.to_nat m) ks) :: calls, st)
            | DropOne => process_loop f tbl vs dn (S n) true (tl ks) false
            end
      end
  end.
