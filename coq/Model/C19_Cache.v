(* C19 - the caches of output/vt100.py as memo tables:
     _256ColorCache        dict  (r, g, b) -> index            (__missing__)
     _16ColorCache         dict  ((r, g, b), tuple(exclude)) -> (code, name)   (get_code)
     _EscapeCodeCache      dict  Attrs -> str                   (__missing__)
   and the encoder re-stated over them, statement by statement (the colour
   searches go through the process-wide caches).  Definitions only. *)
From Coq Require Import ZArith List Bool String.
From PTK Require Import Lib.Py Lib.C19_Str Gen.C19_Palette Model.C19_Palette Model.C19_Style Model.C19_Sgr.
Import ListNotations.
Open Scope Z_scope.

(* dict lookup / insert-on-miss *)
Fixpoint lookup {K V} (eqb : K -> K -> bool) (k : K) (c : list (K * V)) : option V :=
  match c with
  | [] => None
  | (k', v) :: r => if eqb k k' then Some v else lookup eqb k r
  end.

Definition memo_get {K V} (eqb : K -> K -> bool) (f : K -> V) (c : list (K * V)) (k : K)
  : V * list (K * V) :=
  match lookup eqb k c with
  | Some v => (v, c)
  | None => let v := f k in (v, (k, v) :: c)
  end.

(* key equalities (Python tuple equality) *)
Definition rgb_keyb (a b : rgb) : bool :=
  let '(r, g, b1) := a in let '(r2, g2, b2) := b in (r =? r2) && (g =? g2) && (b1 =? b2).
Fixpoint strs_eqb (a b : list str) : bool :=
  match a, b with
  | [], [] => true
  | x :: a', y :: b' => str_eqb x y && strs_eqb a' b'
  | _, _ => false
  end.
Definition key16b (a b : rgb * list str) : bool := rgb_keyb (fst a) (fst b) && strs_eqb (snd a) (snd b).

Definition opt_eqb {T} (e : T -> T -> bool) (a b : option T) : bool :=
  match a, b with
  | None, None => true
  | Some x, Some y => e x y
  | _, _ => false
  end.
Definition attrs_keyb (a b : attrs) : bool :=
  opt_eqb str_eqb (a_color a) (a_color b) && opt_eqb str_eqb (a_bgcolor a) (a_bgcolor b) &&
  opt_eqb Bool.eqb (a_bold a) (a_bold b) && opt_eqb Bool.eqb (a_underline a) (a_underline b) &&
  opt_eqb Bool.eqb (a_strike a) (a_strike b) && opt_eqb Bool.eqb (a_italic a) (a_italic b) &&
  opt_eqb Bool.eqb (a_blink a) (a_blink b) && opt_eqb Bool.eqb (a_reverse a) (a_reverse b) &&
  opt_eqb Bool.eqb (a_hidden a) (a_hidden b).

(* the three process-wide colour caches *)
Record color_caches : Type := mkCC {
  cc_fg16 : list ((rgb * list str) * (Z * str));
  cc_bg16 : list ((rgb * list str) * (Z * str));
  cc_256 : list (rgb * Z)
}.
Definition EMPTY_CC : color_caches := mkCC [] [] [].

Definition get16_m (bg : bool) (r g b : Z) (exclude : list str) (cc : color_caches)
  : (Z * str) * color_caches :=
  let f := fun k : rgb * list str => let '(r', g', b') := fst k in get16 bg r' g' b' (snd k) in
  if bg then
    let '(v, c') := memo_get key16b f (cc_bg16 cc) ((r, g, b), exclude) in
    (v, mkCC (cc_fg16 cc) c' (cc_256 cc))
  else
    let '(v, c') := memo_get key16b f (cc_fg16 cc) ((r, g, b), exclude) in
    (v, mkCC c' (cc_bg16 cc) (cc_256 cc)).

Definition color256_m (r g b : Z) (cc : color_caches) : Z * color_caches :=
  let '(v, c') := memo_get rgb_keyb (fun k : rgb => let '(r', g', b') := k in color256 r' g' b')
                           (cc_256 cc) (r, g, b) in
  (v, mkCC (cc_fg16 cc) (cc_bg16 cc) c').

(* get(color, bg) of _colors_to_code over the caches *)
Definition get_codes_m (depth : Z) (fg_color bg_color : str) (color : str) (bg : bool) (fg_ansi : str)
           (cc : color_caches) : (list Z * str) * color_caches :=
  let table := if bg then bg_ansi_colors else fg_ansi_colors in
  if is_nil color || (depth =? 1) then (([], fg_ansi), cc)
  else match assoc color table with
  | Some c => (([c], fg_ansi), cc)
  | None =>
    match color_name_to_rgb color with
    | None => (([], fg_ansi), cc)
    | Some (r, g, b) =>
        if depth =? 4 then
          if bg then
            let exclude := if negb (str_eqb fg_color bg_color) then [fg_ansi] else [] in
            let '(cn, cc') := get16_m true r g b exclude cc in
            (([fst cn], fg_ansi), cc')
          else
            let '(cn, cc') := get16_m false r g b [] cc in
            (([fst cn], snd cn), cc')
        else if depth =? 24 then (([(if bg then 48 else 38); 2; r; g; b], fg_ansi), cc)
        else
          let '(i, cc') := color256_m r g b cc in
          (([(if bg then 48 else 38); 5; i], fg_ansi), cc')
    end
  end.

Definition colors_to_code_m (depth : Z) (fg_color bg_color : str) (cc : color_caches)
  : list Z * color_caches :=
  let '((c1, fa), cc1) := get_codes_m depth fg_color bg_color fg_color false [] cc in
  let '((c2, _), cc2) := get_codes_m depth fg_color bg_color bg_color true fa cc1 in
  (c1 ++ c2, cc2).

Definition escape_code_m (depth : Z) (a : attrs) (cc : color_caches) : str * color_caches :=
  let '(cols, cc') := colors_to_code_m depth (or_empty (a_color a)) (or_empty (a_bgcolor a)) cc in
  (render_codes
     (cols
      ++ (if truthy (a_bold a) then [1] else [])
      ++ (if truthy (a_italic a) then [3] else [])
      ++ (if truthy (a_blink a) then [5] else [])
      ++ (if truthy (a_underline a) then [4] else [])
      ++ (if truthy (a_reverse a) then [7] else [])
      ++ (if truthy (a_hidden a) then [8] else [])
      ++ (if truthy (a_strike a) then [9] else [])), cc').

(* the world: one _EscapeCodeCache per colour depth + the colour caches *)
Record world : Type := mkW {
  w_esc : list (Z * list (attrs * str));
  w_cc : color_caches
}.
Definition EMPTY_W : world := mkW [] EMPTY_CC.

Definition esc_cache_of (depth : Z) (w : world) : list (attrs * str) :=
  match assocZ depth (w_esc w) with Some c => c | None => [] end.
Fixpoint set_esc (depth : Z) (c : list (attrs * str)) (l : list (Z * list (attrs * str)))
  : list (Z * list (attrs * str)) :=
  match l with
  | [] => [(depth, c)]
  | (d, c0) :: r => if depth =? d then (d, c) :: r else (d, c0) :: set_esc depth c r
  end.

Inductive query : Type :=
| QEsc (depth : Z) (a : attrs)                       (* _EscapeCodeCache(depth)[attrs] *)
| Q16 (bg : bool) (r g b : Z) (exclude : list str)   (* _16_{fg,bg}_colors.get_code *)
| Q256 (r g b : Z).                                  (* _256_colors[(r, g, b)] *)

Inductive answer : Type :=
| AStr (s : str)
| A16 (code : Z) (name : str)
| A256 (i : Z).

Definition step_query (w : world) (q : query) : answer * world :=
  match q with
  | QEsc depth a =>
      let c := esc_cache_of depth w in
      match lookup attrs_keyb a c with
      | Some s => (AStr s, w)
      | None =>
          let '(s, cc') := escape_code_m depth a (w_cc w) in
          (AStr s, mkW (set_esc depth ((a, s) :: c) (w_esc w)) cc')
      end
  | Q16 bg r g b ex =>
      let '(cn, cc') := get16_m bg r g b ex (w_cc w) in
      (A16 (fst cn) (snd cn), mkW (w_esc w) cc')
  | Q256 r g b =>
      let '(i, cc') := color256_m r g b (w_cc w) in
      (A256 i, mkW (w_esc w) cc')
  end.

Fixpoint run_queries (w : world) (qs : list query) : list answer :=
  match qs with
  | [] => []
  | q :: r => let '(a, w') := step_query w q in a :: run_queries w' r
  end.

(* the uncached answers *)
Definition pure_answer (q : query) : answer :=
  match q with
  | QEsc depth a => AStr (escape_code depth a)
  | Q16 bg r g b ex => let cn := get16 bg r g b ex in A16 (fst cn) (snd cn)
  | Q256 r g b => A256 (color256 r g b)
  end.
