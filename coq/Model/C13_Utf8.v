(* C13 - UTF-8 as used by FileHistory: `t.encode("utf-8")` on the way out,
   `line_bytes.decode("utf-8", errors="replace")` on the way in.

   The encoder is the textbook one (CPython refuses surrogates with
   UnicodeEncodeError: [utf8_enc] answers None for them and for values outside
   the code space).  The decoder follows CPython's stringlib utf8_decode +
   the "replace" error handler: an invalid start byte is replaced alone; for a
   truncated or broken multi-byte sequence the already accepted bytes of the
   sequence ("maximal subpart") become ONE U+FFFD and decoding resumes at the
   offending byte; a valid prefix cut by the end of the data becomes one
   U+FFFD.  CPython's decoder is C code outside /repo: this model of it is
   tied by correspondence only (every truncation point + a malformed stream). *)
From Coq Require Import ZArith List Bool.
Import ListNotations.
Open Scope Z_scope.

Definition REPL : Z := 65533.

Definition is_scalar (c : Z) : bool :=
  (0 <=? c) && (c <? 1114112) && negb ((55296 <=? c) && (c <? 57344)).

(* bytes of one code point (no validity check here) *)
Definition utf8_enc_cp (c : Z) : list Z :=
  if c <? 128 then [c]
  else if c <? 2048 then [192 + c / 64; 128 + c mod 64]
  else if c <? 65536 then [224 + c / 4096; 128 + (c / 64) mod 64; 128 + c mod 64]
  else [240 + c / 262144; 128 + (c / 4096) mod 64; 128 + (c / 64) mod 64; 128 + c mod 64].

Definition utf8_enc_raw (s : list Z) : list Z := flat_map utf8_enc_cp s.

(* str.encode("utf-8"): None = UnicodeEncodeError *)
Definition utf8_enc (s : list Z) : option (list Z) :=
  if forallb is_scalar s then Some (utf8_enc_raw s) else None.

Definition is_cont (b : Z) : bool := (128 <=? b) && (b <? 192).

(* second byte admissible after lead byte b0 (3- and 4-byte forms) *)
Definition ok2_3 (b0 b1 : Z) : bool :=
  is_cont b1 && negb (if b1 <? 160 then b0 =? 224 else b0 =? 237).
Definition ok2_4 (b0 b1 : Z) : bool :=
  is_cont b1 && negb (if b1 <? 144 then b0 =? 240 else b0 =? 244).

Fixpoint utf8_dec (bs : list Z) : list Z :=
  match bs with
  | [] => []
  | b0 :: r =>
      if b0 <? 128 then b0 :: utf8_dec r
      else if b0 <? 194 then REPL :: utf8_dec r               (* invalid start byte *)
      else if b0 <? 224 then
        match r with
        | [] => [REPL]                                        (* unexpected end of data *)
        | b1 :: r1 =>
            if is_cont b1 then ((b0 - 192) * 64 + (b1 - 128)) :: utf8_dec r1
            else REPL :: utf8_dec r
        end
      else if b0 <? 240 then
        match r with
        | [] => [REPL]
        | b1 :: r1 =>
            if ok2_3 b0 b1 then
              match r1 with
              | [] => [REPL]
              | b2 :: r2 =>
                  if is_cont b2
                  then ((b0 - 224) * 4096 + (b1 - 128) * 64 + (b2 - 128)) :: utf8_dec r2
                  else REPL :: utf8_dec r1
              end
            else REPL :: utf8_dec r
        end
      else if b0 <? 245 then
        match r with
        | [] => [REPL]
        | b1 :: r1 =>
            if ok2_4 b0 b1 then
              match r1 with
              | [] => [REPL]
              | b2 :: r2 =>
                  if is_cont b2 then
                    match r2 with
                    | [] => [REPL]
                    | b3 :: r3 =>
                        if is_cont b3
                        then ((b0 - 240) * 262144 + (b1 - 128) * 4096 + (b2 - 128) * 64 + (b3 - 128))
                             :: utf8_dec r3
                        else REPL :: utf8_dec r2
                    end
                  else REPL :: utf8_dec r1
              end
            else REPL :: utf8_dec r
        end
      else REPL :: utf8_dec r                                 (* 0xF5..0xFF *)
  end.
