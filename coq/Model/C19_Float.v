(* C19 - the two floating point kernels of styles/style_transformation.py,
   bit for bit, over Coq's primitive binary64 floats (PrimFloat: the kernel's
   IEEE-754 double operations, round to nearest even - the arithmetic CPython's
   float uses):
     colorsys.rgb_to_hls, colorsys.hls_to_rgb, colorsys._v   (CPython 3.12 Lib/colorsys.py)
     float.__mod__ with 1.0 (Objects/floatobject.c float_rem), max/min of three floats,
     int(float) (truncation), int / 255.0, f"{n:02x}"
     get_opposite_color's RGB branch (opp_real) and
     AdjustBrightnessStyleTransformation's _color_to_rgb + _interpolate_brightness
     + hls round trip (adj_real).
   Only PrimFloat/Uint63 primitives are used (no FloatAxioms, no Flocq).
   Definitions only.

   Out-of-model values (never Python behaviour, always explicit):
     f_trunc: |x| >= 2^53 -> None (Python would return a big int)
   Exceptions modelled as None: int(nan/inf), ZeroDivisionError of the three
   float divisions of rgb_to_hls. *)
From Coq Require Import ZArith List Bool.
From Coq Require Import PrimFloat.
From Coq Require Uint63.
From PTK Require Import Lib.Py Lib.C19_Str Gen.C19_Palette Model.C19_Palette Model.C19_Style Model.C19_Transform.
Import ListNotations.
Open Scope Z_scope.

Local Notation "x +. y" := (PrimFloat.add x y) (at level 50, left associativity).
Local Notation "x -. y" := (PrimFloat.sub x y) (at level 50, left associativity).
Local Notation "x *. y" := (PrimFloat.mul x y) (at level 40, left associativity).
Local Notation "x /. y" := (PrimFloat.div x y) (at level 40, left associativity).
Local Notation "x <. y" := (PrimFloat.ltb x y) (at level 70, no associativity).
Local Notation "x <=. y" := (PrimFloat.leb x y) (at level 70, no associativity).
Local Notation "x ==. y" := (PrimFloat.eqb x y) (at level 70, no associativity).

(* the float literals of the Python sources (all exactly representable) *)
Definition F0 : float := 0%float.
Definition F05 : float := 0.5%float.
Definition F1 : float := 1%float.
Definition F2 : float := 2%float.
Definition F3 : float := 3%float.
Definition F4 : float := 4%float.
Definition F6 : float := 6%float.
Definition F255 : float := 255%float.
Definition F512 : float := 512%float.
Definition F1000 : float := 1000%float.
Definition F2p52 : float := 4503599627370496%float.
Definition F2p53 : float := 9007199254740992%float.
Definition FNAN : float := PrimFloat.nan.

(* float(n) for an int 0 <= n < 2^53 (exact) *)
Definition f_of_Z (z : Z) : float := PrimFloat.of_uint63 (Uint63.of_Z z).
(* ... and for -2^53 < n < 2^53 *)
Definition f_of_Zs (z : Z) : float := if z <? 0 then PrimFloat.opp (f_of_Z (- z)) else f_of_Z z.

(* trunc(a) for 0 <= a < 2^53: binary search over the bits, exact *)
Fixpoint bits_down (n : nat) (acc : list (float * Z)) (f : float) (z : Z) : list (float * Z) :=
  match n with
  | O => acc
  | S k => bits_down k ((f, z) :: acc) (f *. F2) (z * 2)
  end.
Definition BITS9 : list (float * Z) := bits_down 9 [] F1 1.        (* 256 .. 1 *)
Definition BITS53 : list (float * Z) := bits_down 53 [] F1 1.      (* 2^52 .. 1 *)
Definition trunc_bits (bits : list (float * Z)) (a : float) : Z :=
  snd (fold_left (fun (st : float * Z) (b : float * Z) =>
                    let s := fst st +. fst b in
                    if s <=. a then (s, snd st + snd b) else st) bits (F0, 0)).

(* int(x): None = ValueError (nan) / OverflowError (inf) / outside the model (|x| >= 2^53) *)
Definition f_trunc (x : float) : option Z :=
  if PrimFloat.is_nan x || PrimFloat.is_infinity x then None
  else
    let a := PrimFloat.abs x in
    if a <. F2p53 then
      let t := if a <. F512 then trunc_bits BITS9 a else trunc_bits BITS53 a in
      Some (if x <. F0 then - t else t)
    else None.

(* C fmod(x, 1.0): exact *)
Definition fmod1 (x : float) : float :=
  if PrimFloat.is_nan x || PrimFloat.is_infinity x then FNAN
  else
    let a := PrimFloat.abs x in
    if a <. F2p52 then
      let y := (a +. F2p52) -. F2p52 in          (* nearest integer *)
      let t := if a <. y then y -. F1 else y in  (* trunc *)
      let r := a -. t in
      if x <. F0 then PrimFloat.opp r else r
    else x *. F0.

(* x % 1.0 (float_rem): the result takes the sign of the divisor *)
Definition py_mod1 (x : float) : float :=
  let m := fmod1 x in
  if negb (m ==. F0) then (if m <. F0 then m +. F1 else m)
  else F0.

(* max(a, b, c) / min(a, b, c): first maximal / minimal item *)
Definition py_max3 (a b c : float) : float :=
  let m := if a <. b then b else a in if m <. c then c else m.
Definition py_min3 (a b c : float) : float :=
  let m := if b <. a then b else a in if c <. m then c else m.

Definition ONE_THIRD : float := F1 /. F3.
Definition ONE_SIXTH : float := F1 /. F6.
Definition TWO_THIRD : float := F2 /. F3.

(* colorsys.rgb_to_hls; None = ZeroDivisionError *)
Definition rgb_to_hls (r g b : float) : option (float * float * float) :=
  let maxc := py_max3 r g b in
  let minc := py_min3 r g b in
  let sumc := maxc +. minc in
  let rangec := maxc -. minc in
  let l := sumc /. F2 in
  if minc ==. maxc then Some (F0, l, F0)
  else
    let den := if l <=. F05 then sumc else (F2 -. maxc -. minc) in
    if (den ==. F0) || (rangec ==. F0) then None
    else
      let s := rangec /. den in
      let rc := (maxc -. r) /. rangec in
      let gc := (maxc -. g) /. rangec in
      let bc := (maxc -. b) /. rangec in
      let h := if r ==. maxc then bc -. gc
               else if g ==. maxc then F2 +. rc -. bc
               else F4 +. gc -. rc in
      Some (py_mod1 (h /. F6), l, s).

Definition v_ (m1 m2 hue : float) : float :=
  let hue := py_mod1 hue in
  if hue <. ONE_SIXTH then m1 +. (m2 -. m1) *. hue *. F6
  else if hue <. F05 then m2
  else if hue <. TWO_THIRD then m1 +. (m2 -. m1) *. (TWO_THIRD -. hue) *. F6
  else m1.

Definition hls_to_rgb (h l s : float) : float * float * float :=
  if s ==. F0 then (l, l, l)
  else
    let m2 := if l <=. F05 then l *. (F1 +. s) else l +. s -. (l *. s) in
    let m1 := F2 *. l -. m2 in
    (v_ m1 m2 (h +. ONE_THIRD), v_ m1 m2 h, v_ m1 m2 (h -. ONE_THIRD)).

(* int(r * 255), int(g * 255), int(b * 255) *)
Definition trunc_rgb (c : float * float * float) : option rgb :=
  let '(r, g, b) := c in
  match f_trunc (r *. F255), f_trunc (g *. F255), f_trunc (b *. F255) with
  | Some x, Some y, Some z => Some (x, y, z)
  | _, _, _ => None
  end.
(* f"{r:02x}{g:02x}{b:02x}" *)
Definition fmt3 (c : rgb) : str := let '(x, y, z) := c in hex02 x ++ hex02 y ++ hex02 z.
Definition fmt_rgb (c : float * float * float) : option str := option_map fmt3 (trunc_rgb c).

(* n / 255.0 for an int in 0..255 (the only ints that reach it) *)
Definition unit_of_byte (n : Z) : option float :=
  if (0 <=? n) && (n <? 256) then Some (f_of_Z n /. F255) else None.

Definition units_of_bytes (c : rgb) : option (float * float * float) :=
  let '(r, g, b) := c in
  match unit_of_byte r, unit_of_byte g, unit_of_byte b with
  | Some x, Some y, Some z => Some (x, y, z)
  | _, _, _ => None
  end.

(* int(c[0:2], 16), int(c[2:4], 16), int(c[4:6], 16) *)
Definition hex_bytes (c : str) : option rgb :=
  match py_int16 (slice2 c 0 2), py_int16 (slice2 c 2 4), py_int16 (slice2 c 4 6) with
  | Some r, Some g, Some b => Some (r, g, b)
  | _, _, _ => None
  end.

(* the RGB branch of get_opposite_color on three channel values; [_n]: the
   three ints before formatting *)
Definition opp_units_n (c : float * float * float) : option rgb :=
  let '(r, g, b) := c in
  match rgb_to_hls r g b with
  | None => None
  | Some (h, l, s) => trunc_rgb (hls_to_rgb h (F1 -. l) s)
  end.
Definition opp_bytes_n (r g b : Z) : option rgb :=
  match units_of_bytes (r, g, b) with Some u => opp_units_n u | None => None end.
Definition opp_bytes (r g b : Z) : option str := option_map fmt3 (opp_bytes_n r g b).
Definition opp_real : kernel := fun c =>
  match hex_bytes c with
  | Some (r, g, b) => opp_bytes r g b
  | None => None
  end.

(* AdjustBrightness: the bounds arrive as integers mn, mx and are the Python
   floats mn / 1000.0, mx / 1000.0 *)
Definition bound_of (m : Z) : float := f_of_Zs m /. F1000.

Definition adj_units_n (minb maxb : float) (c : float * float * float) : option rgb :=
  let '(r, g, b) := c in
  match rgb_to_hls r g b with
  | None => None
  | Some (hue, brightness, saturation) =>
      let brightness' := minb +. (maxb -. minb) *. brightness in
      trunc_rgb (hls_to_rgb hue brightness' saturation)
  end.
Definition adj_bytes_n (mn mx : Z) (r g b : Z) : option rgb :=
  match units_of_bytes (r, g, b) with
  | Some u => adj_units_n (bound_of mn) (bound_of mx) u
  | None => None
  end.
Definition adj_bytes (mn mx : Z) (r g b : Z) : option str := option_map fmt3 (adj_bytes_n mn mx r g b).
Definition adj_real (mn mx : Z) : kernel := fun color =>
  match assoc color ansi_colors_to_rgb with
  | Some (r, g, b) => adj_bytes mn mx r g b
  | None =>
      match hex_bytes color with
      | Some (r, g, b) => adj_bytes mn mx r g b
      | None => None
      end
  end.

(* assert 0 <= min_brightness <= 1; assert 0 <= max_brightness <= 1 *)
Definition valid_real (mn mx : Z) : bool :=
  (F0 <=. bound_of mn) && (bound_of mn <=. F1) && (F0 <=. bound_of mx) && (bound_of mx <=. F1).
(* min_brightness == 0.0 and max_brightness == 1.0 *)
Definition identity_real (mn mx : Z) : bool := (bound_of mn ==. F0) && (bound_of mx ==. F1).

(* the flags of every AdjustBrightness node recomputed from its bounds *)
Fixpoint real_flags (t : transf) : transf :=
  match t with
  | TAdjust _ _ mn mx => TAdjust (valid_real mn mx) (identity_real mn mx) mn mx
  | TCond f t' => TCond f (real_flags t')
  | TMerged l => TMerged (map real_flags l)
  | TDynamic (Some t') => TDynamic (Some (real_flags t'))
  | _ => t
  end.

(* transform_attrs of the real transformation objects *)
Definition transform_real (t : transf) (a : attrs) : res attrs :=
  transform opp_real adj_real (real_flags t) a.
