(* C09 - kill-word as it would be after fixes/C09-kill-word-repeat-after-noop.patch
   (NOT the code at /repo HEAD; Model/C09_Kill.v is): the handler remembers
   whether its previous call killed anything, and continues the kill on top of
   the ring only in that case.  [pk] is that memory (_kill_word_killed). *)
From Coq Require Import ZArith List Bool.
From PTK Require Import Lib.Sx Lib.Py Model.Document Model.BufferEdit Model.C09_Kill.
Import ListNotations.
Open Scope Z_scope.

(* returns the outcome and the new value of the memory *)
Definition kill_word_patched (s : st) (arg : Z) (rep pk : bool) : out * bool :=
  let b := sb s in
  let continues := rep && pk in
  match find_next_word_ending (bdoc b) arg with
  | Some pos =>
      if pos =? 0 then (ok s, false)
      else (kill_with s (delete b pos)
              (fun del => if continues then ctext (ring_get (sring s)) ++ del else del), true)
  | None => (ok s, false)
  end.
