(* C12 - the test of take_using_weights,
       already_taken[item_i] < i * weight / float(max_weight)
   evaluated with Coq's primitive binary64 floats (the kernel's IEEE 754
   double operations): both ints are converted to a float (round to nearest
   even), one division, one comparison.  Definitions only.  Only Uint63 and
   PrimFloat are imported: no axiomatised specification of the operations. *)
From Coq Require Import ZArith List Bool.
From Coq Require Import Uint63 PrimFloat.
Import ListNotations.
Open Scope Z_scope.

(* 0 <= taken < 2^53 (so its conversion is exact, like Python's exact
   int < float comparison), 0 <= iw < 2^62, 0 < maxw < 2^62 *)
Definition prim_test (taken iw maxw : Z) : bool :=
  PrimFloat.ltb (PrimFloat.of_uint63 (Uint63.of_Z taken))
                (PrimFloat.div (PrimFloat.of_uint63 (Uint63.of_Z iw)) (PrimFloat.of_uint63 (Uint63.of_Z maxw))).

(* what the model (Model/C12_Divide.v [eligible]) computes *)
Definition exact_test (taken iw maxw : Z) : bool := taken * maxw <? iw.

Definition zrange (n : nat) : list Z := map Z.of_nat (seq 0 n).

(* every (taken, iw, maxw) with taken <= T, iw <= N, 1 <= maxw <= M *)
Definition small_agree (T N M : nat) : bool :=
  forallb (fun mw => forallb (fun iw => forallb (fun t =>
     Bool.eqb (prim_test t iw (mw + 1)) (exact_test t iw (mw + 1))) (zrange (S T))) (zrange (S N))) (zrange M).

(* a probe (taken, iw, maxw, what CPython answered) *)
Definition probe_ok (p : Z * Z * Z * Z) : bool :=
  let '(t, iw, mw, r) := p in
  Bool.eqb (prim_test t iw mw) (r =? 1) &&
  (if (iw <? 2 ^ 53) && (mw <? 2 ^ 53) then Bool.eqb (exact_test t iw mw) (r =? 1) else true).
