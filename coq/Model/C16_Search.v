(* Model of the text search of prompt_toolkit:
     document.py   Document.find / Document.find_backwards
     buffer.py     Buffer._search (search_once, count loop), apply_search,
                   get_search_position, document_for_search
     search.py     start_search, stop_search, do_incremental_search, accept_search
     layout/controls.py  BufferControl.create_content (which document is shown)
     key_binding/bindings/{search,emacs,vi}.py   the search key bindings
     key_binding/key_processor.py  _fix_vi_cursor_position
   written the way the Python is written (reversed-text scan for the backward
   search, `i %= len(working_lines)` wrap-around, the count loop re-using
   include_current_position), so that off-by-ones are inherited.

   Outside the model and replaced by an assumption exercised by correspondence:
   `re.finditer(re.escape(sub), text, flags)` yields the leftmost
   non-overlapping literal occurrences of `sub` in `text`, characters compared
   with `=` or, under re.IGNORECASE, with a per-character relation [ceq]
   (pattern char, text char).  [ceq] is a Section variable: every definition
   and every theorem is parametric in it.  The executable [run_C16] uses
   [ceq_fast] of Model/C16_Regex.v: the relation that sre's own tables define
   for every code point (proved equal to [ceq_sre]; the pairs observed on `re`
   over the harness alphabet, Gen/C16_CaseFold.v, are proved to agree with it).
   Model/C16_Regex.v also models re.escape, the parser on escaped patterns and
   the IGNORECASE compilation of a literal, so that what is assumed shrinks to
   the search loop of `finditer` (leftmost, non-overlapping). *)
From Coq Require Import ZArith List Bool.
From PTK Require Import Lib.Sx Lib.Py Model.Document Gen.C16_CaseFold Model.C16_Regex Model.C16_ReFind.
Import ListNotations.
Open Scope Z_scope.

Section Search.
Variable ceq : Z -> Z -> bool.

Definition cmatch (ic : bool) (p t : Z) : bool := if ic then ceq p t else p =? t.

(* the literal [needle] matches at the beginning of [s] *)
Fixpoint match_at (ic : bool) (needle s : str) : bool :=
  match needle, s with
  | [], _ => true
  | p :: n', t :: s' => cmatch ic p t && match_at ic n' s'
  | _ :: _, [] => false
  end.

(* re.finditer(re.escape(needle), s): start of the (k+1)-th leftmost
   non-overlapping match, offset by [i].  [skip] = characters still covered by
   the previous match.  An empty needle matches at every position, the end
   included (CPython >= 3.7). *)
Fixpoint find_nth (ic : bool) (needle s : str) (i : Z) (skip k : nat) {struct s} : option Z :=
  match skip with
  | S sk => match s with [] => None | _ :: r => find_nth ic needle r (i + 1) sk k end
  | O =>
      if match_at ic needle s then
        match k with
        | O => Some i
        | S k' =>
            match s with
            | [] => None
            | _ :: r => find_nth ic needle r (i + 1) (Nat.pred (length needle)) k'
            end
        end
      else match s with [] => None | _ :: r => find_nth ic needle r (i + 1) O k end
  end.

(* Document.find(sub, include_current_position=icp, ignore_case=ic, count=count)
   (in_current_line=False): offset relative to the cursor. *)
Definition doc_find (d : doc) (sub : str) (icp ic : bool) (count : Z) : option Z :=
  let text := text_after_cursor d in
  if icp then
    if count <? 1 then None else find_nth ic sub text 0 O (Z.to_nat (count - 1))
  else if len text =? 0 then None
  else if count <? 1 then None
  else match find_nth ic sub (slice_from text 1) 0 O (Z.to_nat (count - 1)) with
       | Some r => Some (r + 1)
       | None => None
       end.

(* Document.find_backwards(sub, ignore_case=ic, count=count): the reversed
   needle is searched in the reversed text before the cursor. *)
Definition doc_find_backwards (d : doc) (sub : str) (ic : bool) (count : Z) : option Z :=
  let before := rev (text_before_cursor d) in
  if count <? 1 then None
  else match find_nth ic (rev sub) before 0 O (Z.to_nat (count - 1)) with
       | Some r => Some (- r - len sub)
       | None => None
       end.

(* ---------------------------------------------------------------------- *)
(* Buffer: working lines, working index, cursor *)
Record sbuf := mksbuf { wl : list str; wi : Z; cur : Z }.

(* SearchState: text, direction (0 = FORWARD, otherwise BACKWARD), ignore_case() *)
Record sstate := mkss { stext : str; sdir : Z; sic : bool }.

(* self._working_lines[i] for an index already reduced modulo the length *)
Definition entry (l : list str) (i : Z) : str :=
  match index l i with Some t => t | None => [] end.

Definition bdoc (b : sbuf) : doc := mkdoc (entry (wl b) (wi b)) (cur b).

Fixpoint zrange (a : Z) (k : nat) : list Z :=
  match k with O => [] | S k' => a :: zrange (a + 1) k' end.
Fixpoint zrange_down (a : Z) (k : nat) : list Z :=
  match k with O => [] | S k' => a :: zrange_down (a - 1) k' end.
(* range(a, b) and range(a, b, -1) *)
Definition py_range (a b : Z) : list Z := zrange a (Z.to_nat (b - a)).
Definition py_range_down (a b : Z) : list Z := zrange_down a (Z.to_nat (a - b)).

Fixpoint first_some {T U} (f : T -> option U) (l : list T) : option U :=
  match l with
  | [] => None
  | x :: r => match f x with Some y => Some y | None => first_some f r end
  end.

(* search_once(working_index, document) inside Buffer._search *)
Definition search_once (l : list str) (st : sstate) (icp : bool) (w : Z) (d : doc)
  : option (Z * doc) :=
  let n := len l in
  if sdir st =? 0 then
    match doc_find d (stext st) icp (sic st) 1 with
    | Some r => Some (w, mkdoc (dtext d) (dcur d + r))
    | None =>
        first_some
          (fun i0 =>
             let i := i0 mod n in
             let d' := mkdoc (entry l i) 0 in
             match doc_find d' (stext st) true (sic st) 1 with
             | Some r => Some (i, mkdoc (dtext d') r)
             | None => None
             end)
          (py_range (w + 1) (n + 1))
    end
  else
    match doc_find_backwards d (stext st) (sic st) 1 with
    | Some r => Some (w, mkdoc (dtext d) (dcur d + r))
    | None =>
        first_some
          (fun i0 =>
             let i := i0 mod n in
             let t := entry l i in
             let d' := mkdoc t (len t) in
             match doc_find_backwards d' (stext st) (sic st) 1 with
             | Some r => Some (i, mkdoc t (len t + r))
             | None => None
             end)
          (py_range_down (w - 1) (-2))
    end.

(* for _ in range(count): result = search_once(working_index, document) ... *)
Fixpoint search_iter (l : list str) (st : sstate) (icp : bool) (k : nat) (w : Z) (d : doc)
  : option (Z * doc) :=
  match k with
  | O => Some (w, d)
  | S k' =>
      match search_once l st icp w d with
      | None => None
      | Some (w', d') => search_iter l st icp k' w' d'
      end
  end.

Inductive sres :=
| SNone
| SFound (w c : Z).

(* `if count < 1: return None` (a zero or negative repeat count: no search) *)
Definition search (b : sbuf) (st : sstate) (icp : bool) (count : Z) : sres :=
  if count <? 1 then SNone
  else match search_iter (wl b) st icp (Z.to_nat count) (wi b) (bdoc b) with
       | None => SNone
       | Some (w, d) => SFound w (dcur d)
       end.

(* Buffer.working_index = v ; Buffer.cursor_position = v *)
Definition set_working_index (b : sbuf) (v : Z) : sbuf :=
  if wi b =? v then b else mksbuf (wl b) v 0.
Definition set_cursor_position (b : sbuf) (v : Z) : sbuf :=
  let t := entry (wl b) (wi b) in
  let v1 := if len t <? v then len t else v in
  let v2 := if v1 <? 0 then 0 else v1 in
  mksbuf (wl b) (wi b) (Z.max 0 v2).

Definition apply_search (b : sbuf) (st : sstate) (icp : bool) (count : Z) : sbuf :=
  match search b st icp count with
  | SNone => b
  | SFound w c => set_cursor_position (set_working_index b w) c
  end.

(* a match in another working line has no position in the current text: the
   current cursor is answered (fix commit 51c160f) *)
Definition get_search_position (b : sbuf) (st : sstate) (icp : bool) (count : Z) : Z :=
  match search b st icp count with
  | SNone => cur b
  | SFound w c => if w =? wi b then c else cur b
  end.

(* the (text, cursor) of the Document returned (the selection is outside) *)
Definition document_for_search (b : sbuf) (st : sstate) : doc :=
  match search b st true 1 with
  | SFound w c => mkdoc (entry (wl b) w) c
  | _ => bdoc b
  end.

Definition invert (st : sstate) : sstate :=
  mkss (stext st) (if sdir st =? 0 then 1 else 0) (sic st).

(* ---------------------------------------------------------------------- *)
(* The incremental-search session: main buffer, the search field (a buffer of
   its own: text and cursor), the SearchState attached to the search control,
   and whether a search link exists (= the search field has the focus).
   [vi]: editing mode; a Vi session is in navigation mode exactly when it is
   not searching. *)
Record sess := mksess {
  main : sbuf; field : str; fcur : Z; ss_text : str; ss_dir : Z; ign : bool;
  searching : bool; vi : bool }.

Definition the_state (s : sess) : sstate := mkss (ss_text s) (ss_dir s) (ign s).

Definition with_main (s : sess) (b : sbuf) : sess :=
  mksess b (field s) (fcur s) (ss_text s) (ss_dir s) (ign s) (searching s) (vi s).
(* the search field is a Buffer of its own: text and cursor *)
Definition with_field (s : sess) (f : str) (c : Z) : sess :=
  mksess (main s) f c (ss_text s) (ss_dir s) (ign s) (searching s) (vi s).
Definition with_state (s : sess) (t : str) (d : Z) : sess :=
  mksess (main s) (field s) (fcur s) t d (ign s) (searching s) (vi s).

(* search.start_search(direction=dir) *)
Definition start_search (s : sess) (dir : Z) : sess :=
  mksess (main s) (field s) (fcur s) (ss_text s) dir (ign s) true (vi s).

(* search.stop_search(): unlink, reset the search buffer *)
Definition stop_search (s : sess) : sess :=
  mksess (main s) [] 0 (ss_text s) (ss_dir s) (ign s) false (vi s).

(* search.do_incremental_search(direction, count) *)
Definition do_incremental_search (s : sess) (dir count : Z) : sess :=
  let changed := negb (ss_dir s =? dir) in
  let s1 := with_state s (field s) dir in
  if changed then s1
  else with_main s1 (apply_search (main s1) (the_state s1) false count).

(* search.accept_search() *)
Definition accept_search (s : sess) : sess :=
  let s1 := if len (field s) =? 0 then s else with_state s (field s) (ss_dir s) in
  stop_search (with_main s1 (apply_search (main s1) (the_state s1) true 1)).

(* What BufferControl.create_content displays for the main buffer. *)
Definition preview (s : sess) : doc :=
  if searching s && negb (len (field s) =? 0) then
    document_for_search (main s) (mkss (field s) (ss_dir s) (ign s))
  else bdoc (main s).

(* The preview as proposed in fixes/C16-preview-remembered-search-text.patch
   (NOT the code at HEAD): with an empty field the remembered search text is
   previewed, i.e. exactly the text accept_search applies. *)
Definition preview_repaired (s : sess) : doc :=
  let t := if len (field s) =? 0 then ss_text s else field s in
  if searching s && negb (len t =? 0) then
    document_for_search (main s) (mkss t (ss_dir s) (ign s))
  else bdoc (main s).

(* KeyProcessor._fix_vi_cursor_position on the main buffer *)
Definition is_cursor_at_the_end_of_line (d : doc) : bool :=
  match index (dtext d) (dcur d) with
  | Some c => c =? NL
  | None => true
  end.
Definition fix_vi (b : sbuf) : sbuf :=
  let d := bdoc b in
  if is_cursor_at_the_end_of_line d && (0 <? len (current_line d))
  then set_cursor_position b (cur b - 1) else b.
Definition post (s : sess) : sess :=
  if vi s && negb (searching s) then with_main s (fix_vi (main s)) else s.

(* plain typing / backspace in the focused buffer *)
Definition insert_main (b : sbuf) (c : Z) : sbuf :=
  let t := entry (wl b) (wi b) in
  let t' := slice_to t (cur b) ++ [c] ++ slice_from t (cur b) in
  mksbuf (map (fun p => if fst p =? wi b then t' else snd p)
              (combine (zrange 0 (length (wl b))) (wl b)))
         (wi b) (cur b + 1).
Definition backspace_main (b : sbuf) : sbuf :=
  if 0 <? cur b then
    let t := entry (wl b) (wi b) in
    let t' := slice_to t (cur b - 1) ++ slice_from t (cur b) in
    mksbuf (map (fun p => if fst p =? wi b then t' else snd p)
                (combine (zrange 0 (length (wl b))) (wl b)))
           (wi b) (cur b - 1)
  else b.

(* editing the search field (self-insert, backward-delete-char, delete-char,
   backward-char, forward-char, beginning-of-line, end-of-line on the search
   buffer; it holds no line ending) *)
Definition field_insert (s : sess) (c : Z) : sess :=
  with_field s (slice_to (field s) (fcur s) ++ [c] ++ slice_from (field s) (fcur s)) (fcur s + 1).
Definition field_backspace (s : sess) : sess :=
  if 0 <? fcur s then
    with_field s (slice_to (field s) (fcur s - 1) ++ slice_from (field s) (fcur s)) (fcur s - 1)
  else s.
Definition field_delete (s : sess) : sess :=
  if fcur s <? len (field s) then
    with_field s (slice_to (field s) (fcur s) ++ slice_from (field s) (fcur s + 1)) (fcur s)
  else s.
Definition field_left (s : sess) : sess := with_field s (field s) (Z.max 0 (fcur s - 1)).
Definition field_right (s : sess) : sess := with_field s (field s) (Z.min (len (field s)) (fcur s + 1)).
Definition field_home (s : sess) : sess := with_field s (field s) 0.
Definition field_end (s : sess) : sess := with_field s (field s) (len (field s)).

(* Vi '*' / '#': search_state.text = document.get_word_under_cursor(),
   direction FORWARD / BACKWARD, apply_search(include_current_position=False,
   count).  The word is an input of the key: Document.get_word_under_cursor is
   modelled under C02; every theorem here holds for whatever word it is. *)
Definition star_search (s : sess) (dir count : Z) (word : str) : sess :=
  let s1 := with_state s word dir in
  with_main s1 (apply_search (main s1) (the_state s1) false count).

Inductive key :=
| KCr | KCs                 (* C-r, C-s *)
| KChar (c : Z)
| KEnter | KCg | KBackspace | KEscape
| KUp | KDown
| Kn (count : Z) | KN (count : Z)   (* Vi: [count] n, [count] N *)
| KSlash | KQuestion
| KLeft | KRight | KHome | KEnd | KDelete
| KStar (count : Z) (word : str) | KHash (count : Z) (word : str).

(* None: the key is not one of the modelled search keys in this state (it
   would reach bindings outside this model). *)
Definition key_step (s : sess) (k : key) : option sess :=
  let r :=
    if searching s then
      match k with
      | KCr => Some (do_incremental_search s 1 1)
      | KCs => Some (do_incremental_search s 0 1)
      | KUp => if vi s then None else Some (do_incremental_search s 1 1)
      | KDown => if vi s then None else Some (do_incremental_search s 0 1)
      | KChar c => Some (field_insert s c)
      | KSlash => Some (field_insert s 47)
      | KQuestion => Some (field_insert s 63)
      | KBackspace =>
          if vi s && (len (field s) =? 0) then Some (stop_search s)
          else Some (field_backspace s)
      | KDelete => Some (field_delete s)
      | KLeft => Some (field_left s)
      | KRight => Some (field_right s)
      | KHome => Some (field_home s)
      | KEnd => Some (field_end s)
      | KEnter => Some (accept_search s)
      | KEscape => if vi s then None else Some (accept_search s)
      | KCg => Some (stop_search s)
      | Kn _ | KN _ | KStar _ _ | KHash _ _ => None
      end
    else if vi s then
      match k with
      (* PromptSession builds its Application with reverse_vi_search_direction=True:
         '/' starts a BACKWARD search (towards older history), '?' a FORWARD one *)
      | KSlash => Some (start_search s 1)
      | KQuestion => Some (start_search s 0)
      | Kn c => Some (with_main s (apply_search (main s) (the_state s) false c))
      | KN c => Some (with_main s (apply_search (main s) (invert (the_state s)) false c))
      | KStar c w => Some (star_search s 0 c w)
      | KHash c w => Some (star_search s 1 c w)
      | _ => None
      end
    else
      match k with
      | KCr => Some (start_search s 1)
      | KCs => Some (start_search s 0)
      | KChar c => Some (with_main s (insert_main (main s) c))
      | KSlash => Some (with_main s (insert_main (main s) 47))
      | KQuestion => Some (with_main s (insert_main (main s) 63))
      | KBackspace => Some (with_main s (backspace_main (main s)))
      | _ => None
      end in
  match r with Some s' => Some (post s') | None => None end.

(* emacs mode with a READ-ONLY main buffer (load_emacs_search_bindings: "/",
   "?", "n", "N" under `is_read_only`; `vi_search_direction_reversed` swaps "/"
   and "?" here too, and PromptSession sets it).  While searching the search
   field has the focus and it is not read-only: the ordinary bindings apply.
   [count] n / N = `event.arg` (Escape digit ... n).  Any other key would try
   to edit the read-only buffer: outside. *)
Definition key_step_ro (s : sess) (k : key) : option sess :=
  if vi s then None
  else if searching s then key_step s k
  else match k with
       | KCr => Some (start_search s 1)
       | KCs => Some (start_search s 0)
       | KSlash => Some (start_search s 1)
       | KQuestion => Some (start_search s 0)
       | Kn c => Some (with_main s (apply_search (main s) (the_state s) false c))
       | KN c => Some (with_main s (apply_search (main s) (invert (the_state s)) false c))
       | _ => None
       end.

(* Two BufferControls that share ONE search field (search_buffer_control given
   to both; hence one SearchState, `BufferControl.search_state` reads it off the
   search control).  [cs] is the session of the focused control (the one a
   search started now would target); [other] the other control's buffer.
   Moving the focus (only possible while not searching: the search field has
   the focus during a search) swaps the two; the search state is shared. *)
Record sess2 := mksess2 { cs : sess; other : sbuf; focus_a : bool }.

Inductive key2 := K2 (k : key) | KSwitch.

Definition key_step2 (s : sess2) (k : key2) : option sess2 :=
  match k with
  | K2 k' => match key_step (cs s) k' with
             | Some c' => Some (mksess2 c' (other s) (focus_a s))
             | None => None
             end
  | KSwitch =>
      if searching (cs s) then None
      else Some (mksess2 (with_main (cs s) (other s)) (main (cs s)) (negb (focus_a s)))
  end.

(* what the control that is NOT searched displays: its own document *)
Definition preview_other (s : sess2) : doc := bdoc (other s).

End Search.

(* ---------------------------------------------------------------------- *)
(* The relation observed directly on CPython's re.IGNORECASE over the harness
   alphabet (the executable model ran with it up to round 5; it is now proved
   to agree with [ceq_sre] on that alphabet, Proofs/C16_RegexFacts.v). *)
Fixpoint mem_pair (p t : Z) (l : list (Z * Z)) : bool :=
  match l with
  | [] => false
  | (a, b) :: r => ((a =? p) && (b =? t)) || mem_pair p t r
  end.
Definition ceq_tab (p t : Z) : bool := (p =? t) || mem_pair p t c16_fold_pairs.

(* ---------------------------------------------------------------------- *)
(* Wire format *)
Definition buf_ok (b : sbuf) : bool :=
  (0 <? len (wl b)) && (0 <=? wi b) && (wi b <? len (wl b))
  && (0 <=? cur b) && (cur b <=? len (entry (wl b) (wi b))).

Definition enc_sres (r : sres) : sx :=
  match r with
  | SNone => L []
  | SFound w c => L [A w; A c]
  end.
Definition enc_obuf (b : sbuf) : sx := L [A (wi b); A (cur b)].
Definition enc_oz (c : Z) : sx := L [A c].
Definition enc_doc (d : doc) : sx := L [sx_str (dtext d); A (dcur d)].

Definition queries : list (Z * bool * Z) :=
  flat_map (fun dir => flat_map (fun icp => map (fun c => (dir, icp, c)) [-1; 0; 1; 2; 3])
                                [false; true]) [0; 1].

Definition run_buffer (b : sbuf) (needle : str) (ic : bool) : sx :=
  L [ L (map (fun q => let '(dir, icp, c) := q in
                       let st := mkss needle dir ic in
                       L [enc_sres (search ceq_fast b st icp c);
                          enc_obuf (apply_search ceq_fast b st icp c);
                          enc_oz (get_search_position ceq_fast b st icp c)]) queries);
      L [enc_doc (document_for_search ceq_fast b (mkss needle 0 ic));
         enc_doc (document_for_search ceq_fast b (mkss needle 1 ic))] ].

Definition run_document (d : doc) (sub : str) (ic : bool) (count : Z) : sx :=
  L [sx_opt sx_Z (doc_find ceq_fast d sub false ic count);
     sx_opt sx_Z (doc_find ceq_fast d sub true ic count);
     sx_opt sx_Z (doc_find_backwards ceq_fast d sub ic count)].

Definition dec_key (s : sx) : option key :=
  match s with
  | L [A 1] => Some KCr
  | L [A 2] => Some KCs
  | L [A 3; A c] => Some (KChar c)
  | L [A 4] => Some KEnter
  | L [A 5] => Some KCg
  | L [A 6] => Some KBackspace
  | L [A 7] => Some KEscape
  | L [A 8; A c] => Some (Kn c)
  | L [A 9; A c] => Some (KN c)
  | L [A 10] => Some KSlash
  | L [A 11] => Some KQuestion
  | L [A 12] => Some KUp
  | L [A 13] => Some KDown
  | L [A 14] => Some KLeft
  | L [A 15] => Some KRight
  | L [A 16] => Some KHome
  | L [A 17] => Some KEnd
  | L [A 18] => Some KDelete
  | L [A 19; A c; w] => match as_str w with Some w' => Some (KStar c w') | None => None end
  | L [A 20; A c; w] => match as_str w with Some w' => Some (KHash c w') | None => None end
  | _ => None
  end.

Definition enc_sess (s : sess) : sx :=
  let p := preview ceq_fast s in
  L [A (wi (main s)); A (cur (main s)); sx_list sx_str (wl (main s)); sx_str (field s); A (fcur s);
     sx_bool (searching s); sx_str (ss_text s); A (ss_dir s); sx_str (dtext p); A (dcur p)].

(* a key outside the model ends the run with the marker -2 *)
Fixpoint run_keys (s : sess) (ks : list key) : list sx :=
  match ks with
  | [] => []
  | k :: r =>
      match key_step ceq_fast s k with
      | Some s' => enc_sess s' :: run_keys s' r
      | None => [A (-2)]
      end
  end.

Fixpoint run_keys_ro (s : sess) (ks : list key) : list sx :=
  match ks with
  | [] => []
  | k :: r =>
      match key_step_ro ceq_fast s k with
      | Some s' => enc_sess s' :: run_keys_ro s' r
      | None => [A (-2)]
      end
  end.

(* re.escape(s); the parser on s itself; the parser on re.escape(s) *)
Definition run_regex (s : str) : sx :=
  L [sx_str (re_escape s); sx_opt sx_str (parse_literals s); sx_opt sx_str (parse_literals (re_escape s))].

Definition dec_key2 (s : sx) : option key2 :=
  match s with
  | L [A 21] => Some KSwitch
  | _ => match dec_key s with Some k => Some (K2 k) | None => None end
  end.

Definition enc_sess2 (s : sess2) : sx :=
  let p := preview_other s in
  L [enc_sess (cs s); sx_bool (focus_a s); A (wi (other s)); A (cur (other s));
     sx_list sx_str (wl (other s)); sx_str (dtext p); A (dcur p)].

Fixpoint run_keys2 (s : sess2) (ks : list key2) : list sx :=
  match ks with
  | [] => []
  | k :: r =>
      match key_step2 ceq_fast s k with
      | Some s' => enc_sess2 s' :: run_keys2 s' r
      | None => [A (-2)]
      end
  end.

Definition run_C16 (c : sx) : sx :=
  match c with
  | L [A 4; L wa; A ia; A ca; L wb; A ib; A cb; A ic; L ks] =>
      match map_opt as_str wa, map_opt as_str wb, as_bool (A ic), map_opt dec_key2 ks with
      | Some wa', Some wb', Some ic', Some ks' =>
          let a := mksbuf wa' ia ca in
          let b := mksbuf wb' ib cb in
          if buf_ok a && buf_ok b
          then L (run_keys2 (mksess2 (mksess a [] 0 [] 0 ic' false false) b true) ks')
          else bad_case
      | _, _, _, _ => bad_case
      end
  | L [A 1; L ws; A w; A cu; nd; A ic] =>
      match map_opt as_str ws, as_str nd, as_bool (A ic) with
      | Some ws', Some nd', Some ic' =>
          let b := mksbuf ws' w cu in
          if buf_ok b then run_buffer b nd' ic' else bad_case
      | _, _, _ => bad_case
      end
  | L [A 2; t; A cu; sub; A ic; A count] =>
      match as_str t, as_str sub, as_bool (A ic) with
      | Some t', Some sub', Some ic' =>
          if (0 <=? cu) && (cu <=? len t') then run_document (mkdoc t' cu) sub' ic' count
          else bad_case
      | _, _, _ => bad_case
      end
  | L [A 5; pat] =>
      match as_str pat with
      | Some p => run_regex p
      | None => bad_case
      end
  | L [A 8; t; nd; A ic] =>
      (* re.finditer(re.escape(nd), t, flags): the start of every match; then
         Document(t, cu).find / find_backwards written over it, for cu = len t / 2 *)
      match as_str t, as_str nd, as_bool (A ic) with
      | Some t', Some nd', Some ic' =>
          let d := mkdoc t' (len t' / 2) in
          L [sx_opt (sx_list sx_Z) (re_finditer (re_escape nd') t' ic');
             sx_opt (sx_opt sx_Z) (doc_find_re d nd' false ic' 1);
             sx_opt (sx_opt sx_Z) (doc_find_re d nd' true ic' 2);
             sx_opt (sx_opt sx_Z) (doc_find_backwards_re d nd' ic' 1)]
      | _, _, _ => bad_case
      end
  | L [A 6; A p; A t] =>
      if (0 <=? p) && (0 <=? t) then L [sx_bool (ceq_fast p t); sx_bool (ceq_fast t p)] else bad_case
  | L [A 7; L ws; A w; A cu; A ic; L ks] =>
      match map_opt as_str ws, as_bool (A ic), map_opt dec_key ks with
      | Some ws', Some ic', Some ks' =>
          let b := mksbuf ws' w cu in
          if buf_ok b then L (run_keys_ro (mksess b [] 0 [] 0 ic' false false) ks') else bad_case
      | _, _, _ => bad_case
      end
  | L [A 3; A mode; L ws; A w; A cu; A ic; L ks] =>
      match map_opt as_str ws, as_bool (A ic), as_bool (A mode), map_opt dec_key ks with
      | Some ws', Some ic', Some vi', Some ks' =>
          let b := mksbuf ws' w cu in
          if buf_ok b then L (run_keys (mksess b [] 0 [] 0 ic' false vi') ks') else bad_case
      | _, _, _, _ => bad_case
      end
  | _ => bad_case
  end.
