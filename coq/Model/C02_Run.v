(* C02 - wire format / driver of the C02 model: run_C02.
   Kept apart from Model/C02_DocQueries.v because it depends on the regenerated
   case-folding table (Gen/C02_CaseFold.v), which the models of other
   properties that reuse the Document queries do not need. *)
From Coq Require Import ZArith List Bool FMapPositive.
From PTK Require Import Lib.Sx Lib.Py Gen.Whitespace Gen.C02_CaseFold Model.Document Model.C02_DocQueries
  Model.C02_More Model.C02_Cache.
Import ListNotations.
Open Scope Z_scope.

(* re.IGNORECASE between a text character x and a pattern character y: equal, or
   listed in the table regenerated from CPython's re over EVERY cased code point
   (pairs are (pattern char, text char)).  The table (about 3000 pairs) is
   indexed by the pattern character in a positive map built once;
   Proofs/C02_CaseFold.v: ceq_fold x y = (x =? y) || mem_pair y x c02_fold_pairs. *)
Fixpoint mem_pair (a b : Z) (l : list (Z * Z)) : bool :=
  match l with
  | [] => false
  | (p, q) :: r => ((p =? a) && (q =? b)) || mem_pair a b r
  end.
Definition fold_add (m : PositiveMap.t (list Z)) (pq : Z * Z) : PositiveMap.t (list Z) :=
  let k := Z.to_pos (fst pq) in
  PositiveMap.add k (snd pq :: match PositiveMap.find k m with Some l => l | None => [] end) m.
Definition fold_map_of (l : list (Z * Z)) : PositiveMap.t (list Z) :=
  fold_left fold_add l (PositiveMap.empty (list Z)).
Definition fold_map : PositiveMap.t (list Z) := fold_map_of c02_fold_pairs.
Definition fold_lookup (m : PositiveMap.t (list Z)) (a b : Z) : bool :=
  (0 <? a) && match PositiveMap.find (Z.to_pos a) m with Some l => mem_Z b l | None => false end.
Definition ceq_fold (x y : Z) : bool := (x =? y) || fold_lookup fold_map y x.
Definition ceq_of (ignore_case : bool) : Z -> Z -> bool :=
  if ignore_case then ceq_fold else ceq_exact.

(* ---------------------------------------------------------------------- *)
(* Wire: case = (text, cursor, [op ...]) -> [result ...];
   a result is (0 value) | (1) AssertionError | (2) IndexError. *)

Definition ok (v : sx) : sx := L [A 0; v].
Definition err_assert : sx := L [A 1].
Definition sx_oz (o : option Z) : sx := sx_opt A o.
Definition ok_oz (o : option Z) : sx := ok (sx_oz o).
(* outer None = AssertionError *)
Definition ok_or_assert (o : option Z) : sx :=
  match o with Some v => ok (A v) | None => err_assert end.

Definition views (d : doc) : sx :=
  L [ sx_str (text_before_cursor d); sx_str (text_after_cursor d);
      sx_str (current_line_before_cursor d); sx_str (current_line_after_cursor d);
      sx_str (current_line d); sx_list sx_str (lines d); A (line_count d);
      sx_list A (line_start_indexes d);
      A (cursor_position_row d); A (cursor_position_col d);
      sx_bool (on_first_line d); sx_bool (on_last_line d);
      sx_oz (current_char d); sx_oz (char_before_cursor d);
      sx_bool (is_cursor_at_the_end d);
      sx_bool (is_cursor_at_the_end_of_line d);
      sx_str (leading_whitespace_in_current_line d);
      sx_list sx_str (lines_from_current d) ].

Definition d_oz (s : sx) : option (option Z) := as_opt as_Z s.

(* pattern= : (kind s1 s2) *)
Definition d_pat (s : sx) : option pat :=
  match s with
  | L [A kind; s1; s2] =>
      match as_str s1, as_str s2 with
      | Some s1, Some s2 =>
          let p := if kind =? 0 then Some (PRuns s1 s2)
                   else if kind =? 1 then (match s2 with [] => Some (PNeg s1) | _ => None end)
                   else if kind =? 2 then (match s2 with [] => Some (PStar s1) | _ => None end)
                   else None in
          match p with
          | Some p => if pat_wf p then Some p else None
          | None => None
          end
      | _, _ => None
      end
  | _ => None
  end.

Definition run_op (d : doc) (op : sx) : sx :=
  match op with
  | L (A code :: args) =>
      if code =? 1 then match args with [] => ok (views d) | _ => bad_case end
      else if code =? 2 then
        match args with
        | [A i] => let '(r, c) := translate_index_to_position d i in ok (L [A r; A c])
        | _ => bad_case end
      else if code =? 3 then
        match args with
        | [A r; A c] => ok (A (translate_row_col_to_index d r c))
        | _ => bad_case end
      else if code =? 4 then
        match args with [A n] => ok (A (get_cursor_left_position d n)) | _ => bad_case end
      else if code =? 5 then
        match args with [A n] => ok (A (get_cursor_right_position d n)) | _ => bad_case end
      else if code =? 6 then
        match args with
        | [A n; pc] => match d_oz pc with
                       | Some pc => ok_or_assert (get_cursor_up_position d n pc)
                       | None => bad_case end
        | _ => bad_case end
      else if code =? 7 then
        match args with
        | [A n; pc] => match d_oz pc with
                       | Some pc => ok_or_assert (get_cursor_down_position d n pc)
                       | None => bad_case end
        | _ => bad_case end
      else if code =? 8 then
        match args with
        | [b] => match as_bool b with
                 | Some b => ok (A (get_start_of_line_position d b))
                 | None => bad_case end
        | _ => bad_case end
      else if code =? 9 then
        match args with [] => ok (A (get_end_of_line_position d)) | _ => bad_case end
      else if code =? 10 then
        match args with [] => ok (A (last_non_blank_of_current_line_position d)) | _ => bad_case end
      else if code =? 11 then
        match args with [A c] => ok (A (get_column_cursor_position d c)) | _ => bad_case end
      else if code =? 12 then
        match args with [] => ok (A (get_start_of_document_position d)) | _ => bad_case end
      else if code =? 13 then
        match args with [] => ok (A (get_end_of_document_position d)) | _ => bad_case end
      else if code =? 14 then
        match args with
        | [sub; il; ic; ig; A n] =>
            match as_str sub, as_bool il, as_bool ic, as_bool ig with
            | Some sub, Some il, Some ic, Some ig => ok_oz (dfind (ceq_of ig) d sub il ic n)
            | _, _, _, _ => bad_case end
        | _ => bad_case end
      else if code =? 15 then
        match args with
        | [sub; il; ig; A n] =>
            match as_str sub, as_bool il, as_bool ig with
            | Some sub, Some il, Some ig => ok_oz (dfind_backwards (ceq_of ig) d sub il n)
            | _, _, _ => bad_case end
        | _ => bad_case end
      else if code =? 16 then
        match args with
        | [sub; ig] =>
            match as_str sub, as_bool ig with
            | Some sub, Some ig => ok (sx_list A (dfind_all (ceq_of ig) d sub))
            | _, _ => bad_case end
        | _ => bad_case end
      else if code =? 17 then
        match args with
        | [sub] => match as_str sub with
                   | Some sub => ok (sx_bool (has_match_at_current_position d sub))
                   | None => bad_case end
        | _ => bad_case end
      else if code =? 18 then
        match args with
        | [A n; w] => match as_bool w with
                      | Some w => ok_oz (find_start_of_previous_word d n w)
                      | None => bad_case end
        | _ => bad_case end
      else if code =? 19 then
        match args with
        | [w; a; b] =>
            match as_bool w, as_bool a, as_bool b with
            | Some w, Some a, Some b =>
                let '(s, e) := find_boundaries_of_current_word d w a b in ok (L [A s; A e])
            | _, _, _ => bad_case end
        | _ => bad_case end
      else if code =? 20 then
        match args with
        | [A n; w] => match as_bool w with
                      | Some w => ok_oz (find_next_word_beginning d n w)
                      | None => bad_case end
        | _ => bad_case end
      else if code =? 21 then
        match args with
        | [ic; A n; w] => match as_bool ic, as_bool w with
                          | Some ic, Some w => ok_oz (find_next_word_ending d ic n w)
                          | _, _ => bad_case end
        | _ => bad_case end
      else if code =? 22 then
        match args with
        | [A n; w] => match as_bool w with
                      | Some w => ok_oz (find_previous_word_beginning d n w)
                      | None => bad_case end
        | _ => bad_case end
      else if code =? 23 then
        match args with
        | [A n; w] => match as_bool w with
                      | Some w => ok_oz (find_previous_word_ending d n w)
                      | None => bad_case end
        | _ => bad_case end
      else if code =? 24 then
        match args with
        | [A l; A r; ep] => match d_oz ep with
                            | Some ep => ok_oz (find_enclosing_bracket_right d l r ep)
                            | None => bad_case end
        | _ => bad_case end
      else if code =? 25 then
        match args with
        | [A l; A r; sp] => match d_oz sp with
                            | Some sp => ok_oz (find_enclosing_bracket_left d l r sp)
                            | None => bad_case end
        | _ => bad_case end
      else if code =? 26 then
        match args with
        | [sp; ep] => match d_oz sp, d_oz ep with
                      | Some sp, Some ep => ok (A (find_matching_bracket_position d sp ep))
                      | _, _ => bad_case end
        | _ => bad_case end
      else if code =? 27 then
        match args with
        | [A n; b] => match as_bool b with
                      | Some b => ok_or_assert (start_of_paragraph d n b)
                      | None => bad_case end
        | _ => bad_case end
      else if code =? 28 then
        match args with
        | [A n; b] => match as_bool b with
                      | Some b => ok_or_assert (end_of_paragraph d n b)
                      | None => bad_case end
        | _ => bad_case end
      else if code =? 29 then
        match args with
        | [w] => match as_bool w with
                 | Some w => ok (sx_str (get_word_before_cursor d w))
                 | None => bad_case end
        | _ => bad_case end
      else if code =? 30 then
        match args with
        | [w] => match as_bool w with
                 | Some w => ok (sx_str (get_word_under_cursor d w))
                 | None => bad_case end
        | _ => bad_case end
      else if code =? 31 then
        match args with [] => ok (A (empty_line_count_at_the_end d)) | _ => bad_case end
      else if code =? 32 then
        match args with
        | [A n; w; p] =>
            match as_bool w, d_pat p with
            | Some w, Some p =>
                match find_start_of_previous_word_wp d n w p with
                | Some r => ok_oz r
                | None => err_assert
                end
            | _, _ => bad_case end
        | _ => bad_case end
      else if code =? 33 then
        match args with
        | [w; p] =>
            match as_bool w, d_pat p with
            | Some w, Some p =>
                match get_word_before_cursor_wp d w p with
                | Some r => ok (sx_str r)
                | None => err_assert
                end
            | _, _ => bad_case end
        | _ => bad_case end
      else bad_case
  | _ => bad_case
  end.

(* Document(text, cursor) asserts cursor <= len(text); negative cursors are
   outside the property's quantifier and answered with bad_case. *)
Definition run_C02 (c : sx) : sx :=
  match c with
  | L [A (-1); L ops] => run_cache_case ops
  | L [A (-2); L ops] => run_slot_case ops
  | L [t; A cur; L ops] =>
      match as_str t with
      | Some t =>
          if len t <? cur then err_assert
          else if cur <? 0 then bad_case
          else L (map (run_op (mkdoc t cur)) ops)
      | None => bad_case
      end
  | _ => bad_case
  end.
