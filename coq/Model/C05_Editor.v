(* C05 (L1, L2, L4): the editor state the property talks about - buffer text,
   cursor, selection anchor, multiple cursors, working lines (history), the Vi
   state - and (L1) the Buffer mutators key handlers use, (L2) the post-command
   Vi cursor fix of KeyProcessor, (L4) a set of key handlers, each written
   after the Python statement by statement.

   buffer.py: text/cursor_position/working_index setters, set_document,
   insert_text, delete_before_cursor, delete, cursor_left/right/up/down,
   auto_up/auto_down, go_to_history, history_backward/forward (history search
   disabled, as in a default PromptSession), start_selection, exit_selection,
   paste_clipboard_data (CHARACTERS and LINES data).
   document.py: get_cursor_up_position / get_cursor_down_position,
   is_cursor_at_the_end_of_line, paste_clipboard_data.
   key_processor.py: _call_handler (EditReadOnlyBuffer swallowed,
   _fix_vi_cursor_position, _leave_vi_temp_navigation_mode).
   vi_state.py: the input_mode setter. *)
From Coq Require Import ZArith List Bool.
From PTK Require Import Lib.Sx Lib.Py Model.Document.
Import ListNotations.
Open Scope Z_scope.

(* Vi input modes *)
Definition M_INSERT : Z := 0.
Definition M_INSERT_MULTIPLE : Z := 1.
Definition M_NAVIGATION : Z := 2.
Definition M_REPLACE : Z := 3.
Definition M_REPLACE_SINGLE : Z := 4.

Record est := mkE {
  et : str;                 (* Buffer.text = working_lines[working_index] *)
  ec : Z;                   (* cursor_position *)
  esel : option (Z * Z);    (* selection_state: (original_cursor_position, type) *)
  emc : list Z;             (* multiple_cursor_positions *)
  ero : bool;               (* read_only() *)
  epref : option Z;         (* preferred_column *)
  ewl : list str;           (* _working_lines (entry ewi is held in et) *)
  ewi : Z;                  (* working_index *)
  evi : bool;               (* editing_mode == VI *)
  vmode : Z;                (* vi_state.input_mode *)
  vop : bool;               (* vi_state.operator_func is not None *)
  voparg : option Z;        (* vi_state.operator_arg *)
  vdig : bool;              (* vi_state.waiting_for_digraph *)
  vtemp : bool              (* vi_state.temporary_navigation_mode *)
}.

Definition edoc (s : est) : doc := mkdoc (et s) (ec s).

Definition E_ASSERT : Z := 1.
Definition E_INDEX : Z := 2.
Definition E_READONLY : Z := 3.

Inductive eres :=
| EOk (s : est)
| EErr (code : Z) (s : est).
Definition eres_st (r : eres) : est := match r with EOk s => s | EErr _ s => s end.
Definition ebind (r : eres) (k : est -> eres) : eres :=
  match r with EOk s => k s | e => e end.

(* record updates *)
Definition with_tc (s : est) (t : str) (c : Z) (sel : option (Z * Z)) (pref : option Z) : est :=
  mkE t c sel (emc s) (ero s) pref (ewl s) (ewi s) (evi s) (vmode s) (vop s) (voparg s) (vdig s) (vtemp s).
Definition with_mc (s : est) (mc : list Z) : est :=
  mkE (et s) (ec s) (esel s) mc (ero s) (epref s) (ewl s) (ewi s) (evi s) (vmode s) (vop s) (voparg s) (vdig s) (vtemp s).
Definition with_pref (s : est) (p : option Z) : est := with_tc s (et s) (ec s) (esel s) p.
Definition with_sel (s : est) (sel : option (Z * Z)) : est := with_tc s (et s) (ec s) sel (epref s).
Definition with_vi (s : est) (m : Z) (op : bool) (oa : option Z) (dg tmp : bool) : est :=
  mkE (et s) (ec s) (esel s) (emc s) (ero s) (epref s) (ewl s) (ewi s) (evi s) m op oa dg tmp.
Definition with_hist (s : est) (t : str) (wl : list str) (wi : Z) : est :=
  mkE t (ec s) (esel s) (emc s) (ero s) (epref s) wl wi (evi s) (vmode s) (vop s) (voparg s) (vdig s) (vtemp s).

(* ---------------------------------------------------------------------- *)
(* L1: Buffer primitives *)

(* cursor_position setter: clamp, then _cursor_position_changed (clears the
   preferred column) only when the value changed *)
Definition set_cursor (s : est) (v : Z) : est :=
  let v1 := if len (et s) <? v then len (et s) else v in
  let v2 := if v1 <? 0 then 0 else v1 in
  let v3 := Z.max 0 v2 in
  if v3 =? ec s then s else with_tc s (et s) v3 (esel s) None.

(* text setter: cursor clamped first; read-only raises; a changed text clears
   selection and preferred column (_text_changed) *)
Definition set_text (s : est) (v : str) : eres :=
  let s1 := if len v <? ec s then set_cursor s (len v) else s in
  if ero s1 then EErr E_READONLY s1
  else if str_eqb v (et s1) then EOk s1
  else EOk (with_tc s1 v (ec s1) None None).

(* Document(text, cpos) asserts cpos <= len(text); set_document raises for a
   read-only buffer unless bypass_readonly *)
Definition set_document (s : est) (t : str) (cpos : Z) (bypass : bool) : eres :=
  if len t <? cpos then EErr E_ASSERT s
  else if negb bypass && ero s then EErr E_READONLY s
  else
    let tchg := negb (str_eqb t (et s)) in
    let c' := Z.max 0 cpos in
    let cchg := negb (c' =? ec s) in
    EOk (with_tc s t c' (if tchg then None else esel s)
           (if tchg || cchg then None else epref s)).

Definition insert_text (s : est) (data : str) (overwrite move_cursor : bool) : eres :=
  let otext := et s in
  let ocpos := ec s in
  let text :=
    if overwrite then
      let ov := slice2 otext ocpos (ocpos + len data) in
      let ov' := if mem_Z NL ov then slice_to ov (find_char NL ov) else ov in
      slice_to otext ocpos ++ data ++ slice_from otext (ocpos + len ov')
    else slice_to otext ocpos ++ data ++ slice_from otext ocpos in
  let cpos := if move_cursor then ocpos + len data else ocpos in
  set_document s text cpos false.

Definition delete_before_cursor (s : est) (count : Z) : eres :=
  if count <? 0 then EErr E_ASSERT s
  else if 0 <? ec s then
    let start := Z.max 0 (ec s - count) in
    let deleted := slice2 (et s) start (ec s) in
    set_document s (slice_to (et s) start ++ slice_from (et s) (ec s)) (ec s - len deleted) false
  else EOk s.

Definition delete (s : est) (count : Z) : eres :=
  if ec s <? len (et s) then
    (* text_after_cursor[: max(0, count)] (fix 31f4250: a negative count deletes nothing) *)
    let deleted := slice_to (text_after_cursor (edoc s)) (Z.max 0 count) in
    set_text s (slice_to (et s) (ec s) ++ slice_from (et s) (ec s + len deleted))
  else EOk s.
Definition deleted_text (s : est) (count : Z) : str :=
  if ec s <? len (et s) then slice_to (text_after_cursor (edoc s)) (Z.max 0 count) else [].

Definition cursor_left (s : est) (count : Z) : eres :=
  EOk (set_cursor s (ec s + get_cursor_left_position (edoc s) count)).
Definition cursor_right (s : est) (count : Z) : eres :=
  EOk (set_cursor s (ec s + get_cursor_right_position (edoc s) count)).

(* Document.get_cursor_up_position / get_cursor_down_position: a negative
   count moves the other way (fix 46fed32); count = 0 stays on the row *)
Definition up_core (d : doc) (count : Z) (pref : option Z) : Z :=
  let column := match pref with None => cursor_position_col d | Some p => p end in
  translate_row_col_to_index d (Z.max 0 (cursor_position_row d - count)) column - dcur d.
Definition down_core (d : doc) (count : Z) (pref : option Z) : Z :=
  let column := match pref with None => cursor_position_col d | Some p => p end in
  translate_row_col_to_index d (cursor_position_row d + count) column - dcur d.
Definition get_cursor_up_position (d : doc) (count : Z) (pref : option Z) : Z :=
  if count <? 0 then down_core d (- count) pref else up_core d count pref.
Definition get_cursor_down_position (d : doc) (count : Z) (pref : option Z) : Z :=
  if count <? 0 then up_core d (- count) pref else down_core d count pref.

(* `self.preferred_column or col`: a preferred column of 0 is falsy *)
Definition original_column (s : est) : Z :=
  match epref s with
  | Some p => if p =? 0 then cursor_position_col (edoc s) else p
  | None => cursor_position_col (edoc s)
  end.

Definition cursor_up (s : est) (count : Z) : eres :=
  let oc := original_column s in
  EOk (with_pref (set_cursor s (ec s + get_cursor_up_position (edoc s) count (Some oc))) (Some oc)).
Definition cursor_down (s : est) (count : Z) : eres :=
  let oc := original_column s in
  EOk (with_pref (set_cursor s (ec s + get_cursor_down_position (edoc s) count (Some oc))) (Some oc)).

Definition start_selection (s : est) (ty : Z) : eres := EOk (with_sel s (Some (ec s, ty))).
Definition exit_selection (s : est) : eres := EOk (with_sel s None).

(* working_index setter: stores nothing (the lines live in the deque); moving
   to another entry resets the cursor to 0 and calls _text_changed; NO
   read-only check.  In the model the current line is held in [et], so the
   old line is written back and the new one fetched. *)
Fixpoint set_nth {T} (l : list T) (n : nat) (x : T) : list T :=
  match l, n with
  | [], _ => []
  | _ :: r, O => x :: r
  | y :: r, S k => y :: set_nth r k x
  end.
Definition set_working_index (s : est) (i : Z) : est :=
  if i =? ewi s then s
  else
    let wl := set_nth (ewl s) (Z.to_nat (ewi s)) (et s) in
    let t := match index wl i with Some l => l | None => [] end in
    (* cursor_position = 0 (clamped against the new text), then _text_changed *)
    with_tc (with_hist s t wl i) t 0 None None.

(* if 0 <= index < len(self._working_lines): (lower bound since fix c767972) *)
Definition go_to_history (s : est) (i : Z) : eres :=
  if (i <? len (ewl s)) && (0 <=? i)
  then let s1 := set_working_index s i in EOk (set_cursor s1 (len (et s1)))
  else EOk s.

(* The function as it stood before c767972: only `index < len(...)`.  A
   negative index is assigned to working_index; the working_index setter then
   evaluates `self.cursor_position = 0`, which reads self.text =
   _working_lines[index]: Python's negative indexing for -len <= index < 0
   (the buffer shows that line under an out-of-range index), IndexError below
   -len, raised AFTER the index was stored. *)
Definition go_to_history_pinned (s : est) (i : Z) : eres :=
  if i <? len (ewl s) then
    if i <? - len (ewl s)
    then EErr E_INDEX (with_hist s (et s) (set_nth (ewl s) (Z.to_nat (ewi s)) (et s)) i)
    else let s1 := set_working_index s i in EOk (set_cursor s1 (len (et s1)))
  else EOk s.

(* history_backward / history_forward with history_search_text = None: every
   entry matches.  count = 0 does nothing, a negative count moves the other
   way (fix cb187ee). *)
Definition history_backward_pos (s : est) (count : Z) : eres :=
  if 0 <? ewi s then
    let s1 := set_working_index s (Z.max 0 (ewi s - count)) in
    EOk (set_cursor s1 (len (et s1)))
  else EOk s.
Definition history_forward_pos (s : est) (count : Z) : eres :=
  let n := len (ewl s) in
  if ewi s + 1 <? n then
    let s1 := set_working_index s (Z.min (n - 1) (ewi s + count)) in
    let s2 := set_cursor s1 0 in
    EOk (set_cursor s2 (ec s2 + get_end_of_line_position (edoc s2)))
  else EOk s.
Definition history_backward (s : est) (count : Z) : eres :=
  if count =? 0 then EOk s
  else if count <? 0 then history_forward_pos s (- count)
  else history_backward_pos s count.
Definition history_forward (s : est) (count : Z) : eres :=
  if count =? 0 then EOk s
  else if count <? 0 then history_backward_pos s (- count)
  else history_forward_pos s count.

(* auto_up / auto_down without completion state *)
Definition auto_up (s : est) (count : Z) (go_to_start : bool) : eres :=
  if 0 <? cursor_position_row (edoc s) then cursor_up s count
  else match esel s with
       | Some _ => EOk s
       | None =>
           ebind (history_backward s count) (fun s1 =>
             if go_to_start
             then EOk (set_cursor s1 (ec s1 + get_start_of_line_position (edoc s1) false))
             else EOk s1)
       end.
Definition auto_down (s : est) (count : Z) (go_to_start : bool) : eres :=
  if cursor_position_row (edoc s) <? line_count (edoc s) - 1 then cursor_down s count
  else match esel s with
       | Some _ => EOk s
       | None =>
           ebind (history_forward s count) (fun s1 =>
             if go_to_start
             then EOk (set_cursor s1 (ec s1 + get_start_of_line_position (edoc s1) false))
             else EOk s1)
       end.

(* Document.paste_clipboard_data for CHARACTERS (ty 0) and LINES (ty 1) data;
   mode 0 EMACS, 1 VI_BEFORE, 2 VI_AFTER *)
Definition repeat_list {T} (x : T) (n : Z) : list T := repeat x (Z.to_nat n).
Definition paste (s : est) (data : str) (ty mode count : Z) : eres :=
  let d := edoc s in
  let before := mode =? 1 in
  let after := mode =? 2 in
  if count <? 1 then set_document s (et s) (ec s) false     (* nothing to paste (fix ca1a4b5) *)
  else if ty =? 0 then
    let ins := str_mul data count in
    let new_text :=
      if after then slice_to (et s) (ec s + 1) ++ ins ++ slice_from (et s) (ec s + 1)
      else text_before_cursor d ++ ins ++ text_after_cursor d in
    let ncp := ec s + len data * count - (if before then 1 else 0) in
    set_document s new_text ncp false
  else if ty =? 1 then
    let l := cursor_position_row d in
    let ls := lines d in
    if before then
      let nl := slice_to ls l ++ repeat_list data count ++ slice_from ls l in
      set_document s (join [NL] nl) (len (concat (slice_to ls l)) + l) false
    else
      let nl := slice_to ls (l + 1) ++ repeat_list data count ++ slice_from ls (l + 1) in
      set_document s (join [NL] nl) (len (concat (slice_to ls (l + 1))) + l + 1) false
  else EErr E_ASSERT s.

(* ---------------------------------------------------------------------- *)
(* L2: filters.app.vi_navigation_mode and KeyProcessor._fix_vi_cursor_position *)

Definition is_none {T} (o : option T) : bool := match o with None => true | Some _ => false end.

Definition vi_navigation_mode (s : est) : bool :=
  evi s && negb (vop s) && negb (vdig s) && is_none (esel s)
  && ((vmode s =? M_NAVIGATION) || vtemp s || ero s).

(* Document.current_char in ("\n", "") *)
Definition is_cursor_at_the_end_of_line (d : doc) : bool :=
  match index (dtext d) (dcur d) with
  | Some c => c =? NL
  | None => true
  end.

Definition fix_vi_cursor_position (s : est) : est :=
  if vi_navigation_mode s && is_cursor_at_the_end_of_line (edoc s) && (0 <? len (current_line (edoc s)))
  then with_pref (set_cursor s (ec s - 1)) (epref s)
  else s.

(* ViState.input_mode setter *)
Definition set_input_mode (s : est) (m : Z) : est :=
  if m =? M_NAVIGATION then with_vi s m false None false (vtemp s)
  else with_vi s m (vop s) (voparg s) (vdig s) (vtemp s).

(* ---------------------------------------------------------------------- *)
(* L4: key handlers (event.arg is passed as the integer the property computes;
   event.data as a string) *)

Inductive handler :=
| HBackToNavigation        (* vi._back_to_navigation *)
| HAcceptSearchVi          (* search.accept_search: effect on the Vi state only *)
| HBeginningOfLine | HEndOfLine | HForwardChar | HBackwardChar
| HSelfInsert | HDeleteChar | HBackwardDeleteChar
| HVi_i | HVi_a | HVi_A | HVi_I | HViInsertKeyNav | HViInsertKeyIns | HViGoLeft
| HViReplaceSingle | HViReplaceInsert | HViDigraph | HViQuickNormal
| HViInsertMulti | HViBackspaceMulti | HViDeleteMulti | HViLeftMulti | HViRightMulti
| HViOperatorInNav (arg_present : bool) | HIgnore
| HViUpSel | HViDownSel | HViUpNav | HViGoUpK | HViDownNav | HViGoDownJ
| HPreviousHistory | HNextHistory
| HEmacsAutoUp | HEmacsAutoDown.     (* basic bindings: up/down -> auto_up/auto_down(count=event.arg) *)

(* _insert_text_multiple_cursors: pieces original_text[p:p2] + data *)
Fixpoint mc_insert_text (t : str) (ps : list Z) (p : Z) (data : str) : str :=
  match ps with
  | [] => slice_from t p
  | p2 :: r => slice2 t p p2 ++ data ++ mc_insert_text t r p2 data
  end.
Fixpoint mc_shift (ps : list Z) (i : Z) : list Z :=
  match ps with [] => [] | p :: r => (p + i + 1) :: mc_shift r (i + 1) end.

(* _delete_before_multiple_cursors: list of text parts (without the tail) *)
Fixpoint mc_backspace_parts (t : str) (ps : list Z) (p : Z) : list str * bool :=
  match ps with
  | [] => ([], false)
  | p2 :: r =>
      let '(rest, del) := mc_backspace_parts t r p2 in
      if (0 <? p2) && negb (match index t (p2 - 1) with Some c => c =? NL | None => false end)
      then (slice2 t p (p2 - 1) :: rest, true)
      else (slice2 t p p2 :: rest, del)
  end.
Fixpoint accumulate (ls : list Z) (acc : Z) : list Z :=
  match ls with [] => [] | x :: r => (acc + x) :: accumulate r (acc + x) end.
Fixpoint last_or {T} (l : list T) (d : T) : T :=
  match l with [] => d | [x] => x | _ :: r => last_or r d end.

(* _delete_after_multiple_cursors: parts and the final p *)
Fixpoint mc_delete_parts (t : str) (ps : list Z) (p : Z) : list str * Z * bool :=
  match ps with
  | [] => ([], p, false)
  | p2 :: r =>
      let stay := (len t <=? p2) || (match index t p2 with Some c => c =? NL | None => false end) in
      let p' := if stay then p2 else p2 + 1 in
      let '(rest, pf, del) := mc_delete_parts t r p' in
      (slice2 t p p2 :: rest, pf, del || negb stay)
  end.

Definition ecol_of (s : est) (p : Z) : Z := snd (translate_index_to_position (edoc s) p).
Definition erow_of (s : est) (p : Z) : Z := fst (translate_index_to_position (edoc s) p).

Definition run_handler (h : handler) (s : est) (arg : Z) (data : str) : eres :=
  match h with
  | HBackToNavigation =>
      let s1 := if (vmode s =? M_INSERT) || (vmode s =? M_REPLACE)
                then set_cursor s (ec s + get_cursor_left_position (edoc s) 1) else s in
      let s2 := set_input_mode s1 M_NAVIGATION in
      match esel s2 with Some _ => exit_selection s2 | None => EOk s2 end
  | HAcceptSearchVi => EOk (set_input_mode s M_NAVIGATION)
  | HBeginningOfLine => EOk (set_cursor s (ec s + get_start_of_line_position (edoc s) false))
  | HEndOfLine => EOk (set_cursor s (ec s + get_end_of_line_position (edoc s)))
  | HForwardChar => cursor_right s arg
  | HBackwardChar => cursor_left s arg
  | HSelfInsert => insert_text s (str_mul data arg) false true
  | HDeleteChar => delete s arg
  | HBackwardDeleteChar => if arg <? 0 then delete s (- arg) else delete_before_cursor s arg
  | HVi_i => EOk (set_input_mode s M_INSERT)
  | HVi_a => EOk (set_input_mode (set_cursor s (ec s + get_cursor_right_position (edoc s) 1)) M_INSERT)
  | HVi_A => EOk (set_input_mode (set_cursor s (ec s + get_end_of_line_position (edoc s))) M_INSERT)
  | HVi_I =>
      let s1 := set_input_mode s M_INSERT in
      EOk (set_cursor s1 (ec s1 + get_start_of_line_position (edoc s1) true))
  | HViInsertKeyNav => EOk (set_input_mode s M_INSERT)
  | HViInsertKeyIns => EOk (set_input_mode s M_NAVIGATION)
  | HViGoLeft => cursor_left s arg
  | HViReplaceSingle =>
      ebind (insert_text s data true true) (fun s1 =>
        EOk (set_input_mode (set_cursor s1 (ec s1 - 1)) M_NAVIGATION))
  | HViReplaceInsert => insert_text s data true true
  | HViDigraph => EOk (with_vi s (vmode s) (vop s) (voparg s) true (vtemp s))
  | HViQuickNormal => EOk (with_vi s (vmode s) (vop s) (voparg s) (vdig s) true)
  | HViInsertMulti =>
      let t' := mc_insert_text (et s) (emc s) 0 data in
      let ps' := mc_shift (emc s) 0 in
      ebind (set_text s t') (fun s1 =>
        let s2 := with_mc s1 ps' in EOk (set_cursor s2 (ec s2 + 1)))
  | HViBackspaceMulti =>
      let '(parts, del) := mc_backspace_parts (et s) (emc s) 0 in
      (* original_text[p2 - 1] raises IndexError for a position beyond the text *)
      if existsb (fun p2 => len (et s) <? p2) (emc s) then EErr E_INDEX s
      else if del then
        let t' := concat parts ++ slice_from (et s) (last_or (emc s) 0) in
        ebind (set_text s t') (fun s1 =>
          let s2 := with_mc s1 (accumulate (map len parts) 0) in EOk (set_cursor s2 (ec s2 - 1)))
      else EOk s
  | HViDeleteMulti =>
      let '(parts, pf, del) := mc_delete_parts (et s) (emc s) 0 in
      if del then
        let t' := concat parts ++ slice_from (et s) pf in
        ebind (set_text s t') (fun s1 => EOk (with_mc s1 (accumulate (map len parts) 0)))
      else EOk s
  | HViLeftMulti =>
      let ps' := map (fun p => if 0 <? ecol_of s p then p - 1 else p) (emc s) in
      let s1 := with_mc s ps' in
      if 0 <? cursor_position_col (edoc s1) then EOk (set_cursor s1 (ec s1 - 1)) else EOk s1
  | HViRightMulti =>
      let ls := lines (edoc s) in
      let ps' := map (fun p =>
                   match index ls (erow_of s p) with
                   | Some l => if ecol_of s p <? len l then p + 1 else p
                   | None => p
                   end) (emc s) in
      let s1 := with_mc s ps' in
      if is_cursor_at_the_end_of_line (edoc s1) then EOk s1 else EOk (set_cursor s1 (ec s1 + 1))
  | HViOperatorInNav present =>
      (* operator_arg = event.arg if event.arg_present else None (fix f3ffc71) *)
      EOk (with_vi s (vmode s) true (if present then Some arg else None) (vdig s) (vtemp s))
  | HIgnore => EOk s
  | HViUpSel => cursor_up s arg
  | HViDownSel => cursor_down s arg
  | HViUpNav => auto_up s arg false
  | HViGoUpK => auto_up s arg true
  | HViDownNav => auto_down s arg false
  | HViGoDownJ => auto_down s arg true
  | HPreviousHistory => history_backward s arg
  | HNextHistory => history_forward s arg
  | HEmacsAutoUp => auto_up s arg false
  | HEmacsAutoDown => auto_down s arg false
  end.

(* KeyProcessor._call_handler around a handler that does not touch
   key_processor.arg: EditReadOnlyBuffer is swallowed and the cursor fix is
   applied on that path too (fix aacfec4), any other exception escapes;
   temporary navigation mode is left when no operator is pending (self.arg is
   None after these handlers) *)
Definition call_handler (h : handler) (s : est) (arg : Z) (data : str) : eres :=
  let was_temp := vtemp s in
  let leave (s1 : est) : est :=
    if was_temp && evi s1 && negb (vop s1)
    then with_vi s1 (vmode s1) (vop s1) (voparg s1) (vdig s1) false else s1 in
  match run_handler h s arg data with
  | EOk s1 => EOk (leave (fix_vi_cursor_position s1))
  | EErr c s1 => if c =? E_READONLY then EOk (leave (fix_vi_cursor_position s1)) else EErr c s1
  end.

(* ---------------------------------------------------------------------- *)
(* KeyPressEvent.arg - the repeat count a handler reads.  [_arg] is the string
   KeyProcessor.arg accumulates (KeyPressEvent.append_to_arg_count: "-", or an
   optional "-" followed by the digits typed; None when nothing was typed).
   `int(self._arg or 1)`: CPython's int() raises ValueError for a string of
   more than sys.get_int_max_str_digits() = 4300 digit characters (leading
   zeros count, the sign does not) - and a user can type that many (finding
   C05-F14).  None = ValueError. *)
Definition E_VALUE : Z := 4.
Definition MAX_STR_DIGITS : Z := 4300.
Definition C_MINUS : Z := 45.
Definition is_digit (c : Z) : bool := (48 <=? c) && (c <=? 57).
Fixpoint dec_value (ds : str) (acc : Z) : Z :=
  match ds with [] => acc | d :: r => dec_value r (acc * 10 + (d - 48)) end.
Definition py_int (s : str) : option Z :=
  let '(neg, ds) :=
    match s with
    | c :: r => if c =? C_MINUS then (true, r) else (false, s)
    | [] => (false, [])
    end in
  if (len ds =? 0) || negb (forallb is_digit ds) || (MAX_STR_DIGITS <? len ds) then None
  else Some (if neg then - dec_value ds 0 else dec_value ds 0).
Definition clamp_million (r : Z) : Z := if 1000000 <=? r then 1 else r.
Definition event_arg_pinned (a : option str) : option Z :=
  match a with
  | None => Some 1
  | Some s =>
      if str_eqb s [C_MINUS] then Some (-1)
      else match py_int (match s with [] => [49] | _ => s end) with
           | Some r => Some (clamp_million r)
           | None => None
           end
  end.

(* KeyPressEvent.arg as it is since fix 7b1fd9f (fixes/C05-arg-too-many-digits.patch):
   only the significant digits are looked at; more than seven of them are not
   converted at all.  [event_arg_pinned] above is the code before that fix. *)
Fixpoint lstrip_c (c : Z) (s : str) : str :=
  match s with x :: r => if x =? c then lstrip_c c r else s | [] => [] end.
Definition event_arg (a : option str) : option Z :=
  match a with
  | None => Some 1
  | Some s =>
      if str_eqb s [C_MINUS] then Some (-1)
      else
        let s1 := match s with [] => [49] | _ => s end in
        let negative := match s1 with c :: _ => c =? C_MINUS | [] => false end in
        let digits := match lstrip_c 48 (lstrip_c C_MINUS s1) with [] => [48] | d => d end in
        if 7 <? len digits then Some (if negative then -1 else 1)
        else match py_int digits with
             | Some r => Some (clamp_million (if negative then - r else r))
             | None => None
             end
  end.

(* what append_to_arg_count can build: "-" or [-]digits+ *)
Definition arg_string (s : str) : bool :=
  match s with
  | c :: r => if c =? C_MINUS then forallb is_digit r else forallb is_digit s
  | [] => false
  end.

(* handlers whose body evaluates event.arg (before anything else) *)
Definition reads_arg (h : handler) : bool :=
  match h with
  | HForwardChar | HBackwardChar | HSelfInsert | HDeleteChar | HBackwardDeleteChar | HViGoLeft
  | HViUpSel | HViDownSel | HViUpNav | HViGoUpK | HViDownNav | HViGoDownJ
  | HPreviousHistory | HNextHistory | HEmacsAutoUp | HEmacsAutoDown => true
  | HViOperatorInNav p => p
  | _ => false
  end.

(* _call_handler with the argument string as typed: the ValueError of
   event.arg leaves the handler (and _call_handler: it is not
   EditReadOnlyBuffer) before the handler has changed anything - except
   _operator_in_navigation, which has stored vi_state.operator_func before it
   evaluates event.arg: the operator stays pending *)
Definition call_handler_str (ea : option str -> option Z) (h : handler) (s : est)
           (a : option str) (data : str) : eres :=
  if reads_arg h then
    match ea a with
    | Some n => call_handler h s n data
    | None =>
        EErr E_VALUE (match h with
                      | HViOperatorInNav _ => with_vi s (vmode s) true (voparg s) (vdig s) (vtemp s)
                      | _ => s
                      end)
    end
  else call_handler h s 1 data.

(* accept-line -> Buffer.validate_and_handle -> PromptSession's accept handler:
   app.exit(result=buff.document.text) *)
Definition accept_result (s : est) : str := dtext (edoc s).

(* ---------------------------------------------------------------------- *)
(* L1 operations as data, for the correspondence with a real Buffer *)
Inductive bop :=
| BSetText (v : str) | BSetCursor (v : Z) | BSetDocument (t : str) (c : Z) (bypass : bool)
| BInsert (d : str) (ow mv : bool) | BDeleteBefore (n : Z) | BDelete (n : Z)
| BLeft (n : Z) | BRight (n : Z) | BUp (n : Z) | BDown (n : Z)
| BStartSel (ty : Z) | BExitSel | BGoToHistory (i : Z) | BHistBack (n : Z) | BHistFwd (n : Z)
| BAutoUp (n : Z) (g : bool) | BAutoDown (n : Z) (g : bool) | BPaste (d : str) (ty mode count : Z).

Definition bstep (s : est) (o : bop) : eres :=
  match o with
  | BSetText v => set_text s v
  | BSetCursor v => EOk (set_cursor s v)
  | BSetDocument t c b => set_document s t c b
  | BInsert d ow mv => insert_text s d ow mv
  | BDeleteBefore n => delete_before_cursor s n
  | BDelete n => delete s n
  | BLeft n => cursor_left s n
  | BRight n => cursor_right s n
  | BUp n => cursor_up s n
  | BDown n => cursor_down s n
  | BStartSel ty => start_selection s ty
  | BExitSel => exit_selection s
  | BGoToHistory i => go_to_history s i
  | BHistBack n => history_backward s n
  | BHistFwd n => history_forward s n
  | BAutoUp n g => auto_up s n g
  | BAutoDown n g => auto_down s n g
  | BPaste d ty m c => paste s d ty m c
  end.
