(* C04 - key-binding dispatch.  Model of
     prompt_toolkit/key_binding/key_bindings.py  KeyBindings.get_bindings_for_keys /
                                                 get_bindings_starting_with_keys (the uncached getters)
     prompt_toolkit/key_binding/key_processor.py KeyProcessor._get_matches, _is_prefix_of_longer_match,
                                                 _process (the generator), process_keys, reset/empty_queue
   Definitions only (proofs: Proofs/C04_KeyProcFacts.v).

   Keys are integers; [ANY] is the wildcard Keys.Any.  A filter is a boolean
   expression over switchable conditions (the memoised object algebra that
   builds such filters is modelled in Model/C04_Filters.v).  A handler's effect
   is data: a list of actions (flip a condition, feed keys, raise).
   [app.is_done] is the flag [d]: a handler effect "exit" (event.app.exit())
   sets it; a retry pass of the generator that finds it set hands the keys
   left in the buffer back to the FRONT of input_queue, in order, and
   process_keys stops popping.
   Outside the model: KeyPressEvent.arg / is_repeat / previous_key_sequence,
   macro recording, undo save points, vi cursor fix-up, before/after_key_press
   events, the asyncio flush timer (the timeout is the [IFlush] item),
   Cursor position reports: the key [CPR] never enters the key buffer;
   process_keys hands it to _handle_cpr_response (the last registered active
   binding whose keys are exactly (CPRResponse,)), and after is_done only CPR
   items are still taken out of the queue.
   The "previous key" bookkeeping (_previous_handler, _previous_key_sequence)
   is the state field [sprev]. *)
From Coq Require Import ZArith List Bool.
From PTK Require Import Lib.Sx.
Import ListNotations.
Open Scope Z_scope.

(* ------------------------------------------------------------------ filters *)
Inductive fexpr : Type :=
| FAlways | FNever
| FCond (c : nat)
| FNot (f : fexpr)
| FAnd (f g : fexpr)
| FOr (f g : fexpr).

Definition env := list bool.

Fixpoint feval (e : env) (f : fexpr) : bool :=
  match f with
  | FAlways => true
  | FNever => false
  | FCond c => nth c e false
  | FNot g => negb (feval e g)
  | FAnd g h => feval e g && feval e h
  | FOr g h => feval e g || feval e h
  end.

Fixpoint flip (c : nat) (e : env) : env :=
  match e, c with
  | [], _ => []
  | b :: r, O => negb b :: r
  | b :: r, S c' => b :: flip c' r
  end.

(* all environments over n conditions, in binary counting order (first condition most significant) *)
Fixpoint all_envs (n : nat) : list env :=
  match n with
  | O => [[]]
  | S n' => map (cons false) (all_envs n') ++ map (cons true) (all_envs n')
  end.

(* ----------------------------------------------------------------- bindings *)
Definition ANY : Z := 0.

Inductive item : Type := IKey (k : Z) | IFlush.

Inductive action : Type :=
| AFlip (c : nat)                         (* the handler switches a condition *)
| ARaise                                  (* the handler raises *)
| AFeed (first : bool) (its : list item)  (* key_processor.feed_multiple(its, first) *)
| AExit                                   (* event.app.exit(): is_done becomes true; raises when already set *)
| AProcess.                               (* the handler calls event.key_processor.process_keys() itself (re-entry) *)

Record binding : Type := mkbinding {
  bkeys : list Z;       (* Binding.keys; may contain ANY *)
  bfilter : fexpr;      (* Binding.filter *)
  beager : fexpr;       (* Binding.eager *)
  bglobal : bool;       (* Binding.is_global (a constant here) *)
  bhandler : Z;         (* identity of the handler function *)
  bacts : list action;  (* what the handler does *)
  bmacro : bool;        (* Binding.record_in_macro (a constant here) *)
  bsave : Z             (* identity of the Binding.save_before callable (0 = the default) *)
}.

(* a binding together with its position in KeyBindings.bindings *)
Definition ib : Type := (nat * binding)%type.

Fixpoint index_from (n : nat) (l : list binding) : list ib :=
  match l with
  | [] => []
  | b :: r => (n, b) :: index_from (S n) r
  end.

(*  for i, j in zip(b.keys, keys): if i != j and i != Keys.Any: match = False  *)
Definition key_match (bk k : Z) : bool := (bk =? k) || (bk =? ANY).

Fixpoint keys_match (bks ks : list Z) : bool :=
  match bks, ks with
  | b :: br, k :: kr => key_match b k && keys_match br kr
  | _, _ => true
  end.

(*  if i == Keys.Any: any_count += 1   (over the same zip)  *)
Fixpoint any_count (bks ks : list Z) : Z :=
  match bks, ks with
  | b :: br, _ :: kr => (if b =? ANY then 1 else 0) + any_count br kr
  | _, _ => 0
  end.

Definition exact (b : binding) (ks : list Z) : bool :=
  Nat.eqb (length ks) (length (bkeys b)) && keys_match (bkeys b) ks.

Definition longer (b : binding) (ks : list Z) : bool :=
  Nat.ltb (length ks) (length (bkeys b)) && keys_match (bkeys b) ks.

Fixpoint candidates (bs : list ib) (ks : list Z) : list (Z * ib) :=
  match bs with
  | [] => []
  | m :: r => if exact (snd m) ks then (any_count (bkeys (snd m)) ks, m) :: candidates r ks
              else candidates r ks
  end.

(*  result = sorted(result, key=lambda item: -item[0])   -- a stable sort,
    descending in the wildcard count: insertion from the right keeps equal
    keys in registration order.  *)
Fixpoint ins_desc (x : Z * ib) (s : list (Z * ib)) : list (Z * ib) :=
  match s with
  | [] => [x]
  | y :: r => if fst x <? fst y then y :: ins_desc x r else x :: s
  end.

Definition sort_desc (l : list (Z * ib)) : list (Z * ib) := fold_right ins_desc [] l.

(* KeyBindings.get_bindings_for_keys: inner get() *)
Definition get_for_keys (bs : list ib) (ks : list Z) : list ib :=
  map snd (sort_desc (candidates bs ks)).

(* KeyBindings.get_bindings_starting_with_keys: inner get() *)
Definition get_starting_with (bs : list ib) (ks : list Z) : list ib :=
  filter (fun m => longer (snd m) ks) bs.

(* ---------------------------------------------------------------- processor *)
Definition active (e : env) (m : ib) : bool := feval e (bfilter (snd m)).
Definition eager (e : env) (m : ib) : bool := feval e (beager (snd m)).

(* KeyProcessor._get_matches *)
Definition get_matches (bs : list ib) (e : env) (ks : list Z) : list ib :=
  filter (active e) (get_for_keys bs ks).

(* KeyProcessor._is_prefix_of_longer_match *)
Definition is_prefix (bs : list ib) (e : env) (ks : list Z) : bool :=
  existsb (active e) (get_starting_with bs ks).

(* matches[-1] *)
Fixpoint last_opt {T} (l : list T) : option T :=
  match l with
  | [] => None
  | [x] => Some x
  | _ :: r => last_opt r
  end.

Inductive event : Type :=
| EInvoke (i : nat) (ks : list Z)                    (* handler of binding #i called with key_sequence ks *)
| EDrop (k : Z)                                      (* del buffer[:1] *)
| ERaised (lostbuf : list Z) (lostq : list item)     (* exception: reset() + empty_queue() discard these *)
| EBack (ks : list Z)                                (* is_done: input_queue.extendleft(reversed(buffer)); del buffer[:] *)
| EPop (it : item)                                   (* process_keys: input_queue.popleft() *)
| EFed (first : bool) (its : list item)              (* a handler called feed_multiple *)
| ETake                                              (* is_done: the first CPR item is removed from the queue *)
| ECpr (i : nat).                                    (* _handle_cpr_response called the handler of binding #i *)

(* outcome of a handler body *)
Record hres : Type := mkhres {
  he : env; hq : list item; hdone : bool; hevs : list event; hraised : bool
}.

(* ---- cursor position reports (keys) *)
Definition CPR : Z := 6.
Definition is_cpr (it : item) : bool := match it with IKey k => k =? CPR | IFlush => false end.

(* not_empty() of process_keys: is there an item it would take?  (is_done: only cursor position reports) *)
Definition has_next (q : list item) (d : bool) : bool :=
  if d then existsb is_cpr q else match q with [] => false | _ => true end.

Fixpoint run_actions (acts : list action) (e : env) (q : list item) (d : bool) : hres :=
  match acts with
  | [] => mkhres e q d [] false
  | AFlip c :: r => run_actions r (flip c e) q d
  | ARaise :: _ => mkhres e q d [] true
  | AFeed first its :: r =>
      let x := run_actions r e (if first then its ++ q else q ++ its) d in
      mkhres (he x) (hq x) (hdone x) (EFed first its :: hevs x) (hraised x)
  | AExit :: r => if d then mkhres e q d [] true     (* "Return value already set" *)
                  else run_actions r e q true
  | AProcess :: r =>
      (* re-entrant process_keys(): with nothing to take it returns at once.  Otherwise it takes an item and
         `self._process_coroutine.send(key_press)` raises ValueError("generator already executing") - the
         generator is the one that is running this handler; the inner `except` does reset() + empty_queue()
         and the exception leaves the handler.  The taken item is discarded with the rest of the queue.
         (If the item taken were a cursor position report the inner call would deliver it without the
         generator: cases with both re-entry and reports are rejected by the decoder, see [run_keyproc].) *)
      if has_next q d then mkhres e q d [] true else run_actions r e q d
  end.

Inductive lres : Type :=
| LDone (b : list Z) (e : env) (q : list item) (d : bool) (evs : list event)  (* generator back at `yield` *)
| LRaised (e : env) (d : bool) (evs : list event)                             (* exception left the generator *)
| LFuel.

Definition lapp (pre : list event) (r : lres) : lres :=
  match r with
  | LDone b e q d evs => LDone b e q d (pre ++ evs)
  | LRaised e d evs => LRaised e d (pre ++ evs)
  | LFuel => LFuel
  end.
Definition lcons (ev : event) (r : lres) : lres := lapp [ev] r.

(*  for i in range(len(buffer), 0, -1): matches = self._get_matches(buffer[:i]); if matches: ...  *)
Fixpoint scan (bs : list ib) (e : env) (b : list Z) (i : nat) : option (nat * ib) :=
  match i with
  | O => None
  | S i' => match last_opt (get_matches bs e (firstn i b)) with
            | Some m => Some (i, m)
            | None => scan bs e b i'
            end
  end.

(*  if retry and get_app().is_done:
        retry = False; self.input_queue.extendleft(reversed(buffer)); del buffer[:]; continue   (-> yield)  *)
Definition hand_back (rest : list Z) (e : env) (q : list item) : lres :=
  LDone [] e (map IKey rest ++ q) true [EBack rest].

(* One pass of `while True:` in _process, after the key was appended (or the
   flush flag set), and the passes that follow while `retry` is set. *)
Fixpoint loop (fuel : nat) (bs : list ib) (b : list Z) (flush : bool) (e : env) (q : list item) (d : bool) : lres :=
  match fuel with
  | O => LFuel
  | S fuel' =>
    match b with
    | [] => LDone [] e q d []                      (* `if buffer:` is false; back to yield *)
    | _ =>
      let ms := get_matches bs e b in
      let pref := if flush then false else is_prefix bs e b in
      let es := filter (eager e) ms in
      let ms' := match es with [] => ms | _ => es end in
      let pref' := match es with [] => pref | _ => false end in
      if pref' then LDone b e q d []
      else
        match last_opt ms' with
        | Some m =>
            let r := run_actions (bacts (snd m)) e q d in
            if hraised r then LRaised (he r) (hdone r) (EInvoke (fst m) b :: hevs r ++ [ERaised [] (hq r)])
            else LDone [] (he r) (hq r) (hdone r) (EInvoke (fst m) b :: hevs r)
        | None =>
            match scan bs e b (length b) with
            | Some (i, m) =>
                let r := run_actions (bacts (snd m)) e q d in
                if hraised r then LRaised (he r) (hdone r)
                                    (EInvoke (fst m) (firstn i b) :: hevs r ++ [ERaised (skipn i b) (hq r)])
                else lapp (EInvoke (fst m) (firstn i b) :: hevs r)
                          (if hdone r then hand_back (skipn i b) (he r) (hq r)
                           else loop fuel' bs (skipn i b) false (he r) (hq r) false)
            | None =>
                lcons (EDrop (hd 0 b))
                      (if d then hand_back (tl b) e q else loop fuel' bs (tl b) false e q false)
            end
        end
    end
  end.

Record st : Type := mkst {
  buf : list Z; queue : list item; cenv : env; sdone : bool;
  sprev : option (nat * list Z)     (* _previous_handler (as binding index), _previous_key_sequence *)
}.

Definition is_flush (it : item) : bool := match it with IFlush => true | _ => false end.
Definition push (b : list Z) (it : item) : list Z :=
  match it with IKey k => b ++ [k] | IFlush => b end.

(* self._process_coroutine.send(key_press); [q] is the input queue after the pop *)
Definition send (bs : list ib) (b : list Z) (e : env) (q : list item) (d : bool) (it : item) : lres :=
  loop (S (length (push b it))) bs (push b it) (is_flush it) e q d.

(* _call_handler: `self._previous_key_sequence = key_sequence; self._previous_handler = handler`
   after the handler returned; reset() clears both *)
Fixpoint upd_prev (pv : option (nat * list Z)) (evs : list event) : option (nat * list Z) :=
  match evs with
  | [] => pv
  | EInvoke i ks :: r => upd_prev (Some (i, ks)) r
  | ERaised _ _ :: r => upd_prev None r
  | _ :: r => upd_prev pv r
  end.

(* ---- cursor position reports *)
Definition cpr_keys (ks : list Z) : bool := match ks with [k] => k =? CPR | _ => false end.

(*  for binding in reversed(self._bindings.get_bindings_for_keys((Keys.CPRResponse,))):
        if binding.keys == (Keys.CPRResponse,) and binding.filter(): binding.call(...); break  *)
Definition cpr_binding (bs : list ib) (e : env) : option ib :=
  find (fun m => cpr_keys (bkeys (snd m)) && active e m) (rev (get_for_keys bs [CPR])).

(* cpr = [k for k in self.input_queue if k.key == Keys.CPRResponse][0]; self.input_queue.remove(cpr) *)
Fixpoint remove_first_cpr (q : list item) : option (list item) :=
  match q with
  | [] => None
  | it :: r => if is_cpr it then Some r
               else match remove_first_cpr r with Some r' => Some (it :: r') | None => None end
  end.

(* _handle_cpr_response with the report already taken out of the queue (q): state, events, raised? *)
Definition cpr_step (bs : list ib) (s : st) (q : list item) : st * list event * bool :=
  match cpr_binding bs (cenv s) with
  | None => (mkst (buf s) q (cenv s) (sdone s) (sprev s), [], false)
  | Some m =>
      let r := run_actions (bacts (snd m)) (cenv s) q (sdone s) in
      if hraised r then (mkst [] [] (he r) (hdone r) None, ECpr (fst m) :: hevs r ++ [ERaised (buf s) (hq r)], true)
      else (mkst (buf s) (hq r) (he r) (hdone r) (sprev s), ECpr (fst m) :: hevs r, false)
  end.

Inductive status : Type := SDone | SRaised | SFuel.

(* not_empty() / get_next(): the next item, the queue without it, and the trace event *)
Definition next_item (s : st) : option (item * list item * event) :=
  if sdone s then
    match remove_first_cpr (queue s) with
    | Some q => Some (IKey CPR, q, ETake)
    | None => None
    end
  else
    match queue s with
    | [] => None
    | it :: q => Some (it, q, EPop it)
    end.

(* KeyProcessor.process_keys: `while not_empty(): key_press = get_next(); (cpr | send); except: reset, empty_queue, raise`.
   Returns the state, the events and the items taken from the queue, in order. *)
Fixpoint process_keys (fuel : nat) (bs : list ib) (s : st) : st * list event * list item * status :=
  match next_item s with
  | None => (s, [], [], SDone)
  | Some (it, q, pev) =>
    match fuel with
    | O => (s, [], [], SFuel)
    | S fuel' =>
      if is_cpr it then
        let '(s1, evs, raised) := cpr_step bs s q in
        if raised then (s1, pev :: evs, [it], SRaised)
        else let '(s', evs', pop, stt) := process_keys fuel' bs s1 in
             (s', pev :: evs ++ evs', it :: pop, stt)
      else
        match send bs (buf s) (cenv s) q (sdone s) it with
        | LDone b e q' d evs =>
            let '(s', evs', pop, stt) := process_keys fuel' bs (mkst b q' e d (upd_prev (sprev s) evs)) in
            (s', pev :: evs ++ evs', it :: pop, stt)
        | LRaised e d evs => (mkst [] [] e d None, pev :: evs, [it], SRaised)
        | LFuel => (s, [], [], SFuel)
        end
    end
  end.

(* feed_multiple(items) ; process_keys() *)
Definition feed_process (fuel : nat) (bs : list ib) (s : st) (its : list item) :=
  process_keys fuel bs (mkst (buf s) (queue s ++ its) (cenv s) (sdone s) (sprev s)).

(* ------------------------------------------------------------- wire format *)
Fixpoint dec_f (s : sx) : option fexpr :=
  match s with
  | L [A 0] => Some FAlways
  | L [A 1] => Some FNever
  | L [A 2; A c] => if 0 <=? c then Some (FCond (Z.to_nat c)) else None
  | L [A 3; f] => match dec_f f with Some f' => Some (FNot f') | None => None end
  | L [A 4; f; g] => match dec_f f, dec_f g with Some f', Some g' => Some (FAnd f' g') | _, _ => None end
  | L [A 5; f; g] => match dec_f f, dec_f g with Some f', Some g' => Some (FOr f' g') | _, _ => None end
  | _ => None
  end.

Definition dec_item (s : sx) : option item :=
  match s with
  | A k => if k =? -1 then Some IFlush else if 0 <=? k then Some (IKey k) else None
  | _ => None
  end.

Definition dec_items (s : sx) : option (list item) :=
  match s with L l => map_opt dec_item l | _ => None end.

Definition dec_action (s : sx) : option action :=
  match s with
  | L [A 0; A c] => if 0 <=? c then Some (AFlip (Z.to_nat c)) else None
  | L [A 1] => Some ARaise
  | L [A 2; fi; its] =>
      match as_bool fi, dec_items its with
      | Some fi', Some its' => Some (AFeed fi' its')
      | _, _ => None
      end
  | L [A 3] => Some AExit
  | L [A 4] => Some AProcess
  | _ => None
  end.

Definition nonneg_keys (l : list Z) : bool := forallb (fun k => 0 <=? k) l.

(* (keys filter eager is_global handler actions) or the same followed by (record_in_macro save_before) *)
Definition dec_binding (s : sx) : option binding :=
  let mk ks f eg gl hd acts mc sv :=
    match as_str ks, dec_f f, dec_f eg, as_bool gl, map_opt dec_action acts, as_bool mc with
    | Some ks', Some f', Some eg', Some gl', Some acts', Some mc' =>
        if nonneg_keys ks' && negb (Nat.eqb (length ks') 0) then Some (mkbinding ks' f' eg' gl' hd acts' mc' sv) else None
    | _, _, _, _, _, _ => None
    end in
  match s with
  | L [ks; f; eg; gl; A hd; L acts] => mk ks f eg gl hd acts (A 1) 0
  | L [ks; f; eg; gl; A hd; L acts; mc; A sv] => mk ks f eg gl hd acts mc sv
  | _ => None
  end.

Definition enc_item (it : item) : sx := match it with IKey k => A k | IFlush => A (-1) end.
Definition enc_event (ev : event) : sx :=
  match ev with
  | EInvoke i ks => L [A 0; A (Z.of_nat i); sx_str ks]
  | EDrop k => L [A 1; A k]
  | ERaised lb lq => L [A 2; sx_str lb; L (map enc_item lq)]
  | EBack ks => L [A 3; sx_str ks]
  | EPop it => L [A 4; enc_item it]
  | EFed f its => L [A 5; sx_bool f; L (map enc_item its)]
  | ETake => L [A 7]
  | ECpr i => L [A 6; A (Z.of_nat i)]
  end.
Definition enc_status (s : status) : sx :=
  match s with SDone => A 0 | SRaised => A 1 | SFuel => A 97 end.
Definition enc_env (e : env) : sx := L (map sx_bool e).

(* an op of the driver: feed items and run process_keys(); a condition changing
   outside any handler; the application being finished from outside a handler *)
Inductive op : Type := OpFeed (its : list item) | OpFlip (c : nat) | OpExit | OpSigint.

(* KeyProcessor.send_sigint: self.feed(KeyPress(key=Keys.SIGINT), first=True); self.process_keys() *)
Definition SIGINT : Z := 7.
Definition send_sigint (fuel : nat) (bs : list ib) (s : st) :=
  process_keys fuel bs (mkst (buf s) (IKey SIGINT :: queue s) (cenv s) (sdone s) (sprev s)).

Definition dec_op (s : sx) : option op :=
  match s with
  | L [A z] => if z =? -1000 then Some OpExit
               else if z =? -1001 then Some OpSigint
               else if z <=? -2 then Some (OpFlip (Z.to_nat (-2 - z)))
               else match dec_item (A z) with Some it => Some (OpFeed [it]) | None => None end
  | L l => match map_opt dec_item l with Some its => Some (OpFeed its) | None => None end
  | _ => None
  end.

Definition enc_state (stt : status) (evs : list event) (pop : list item) (s : st) : sx :=
  L [enc_status stt; L (map enc_event evs); L (map enc_item pop);
     sx_str (buf s); L (map enc_item (queue s)); enc_env (cenv s); sx_bool (sdone s);
     match sprev s with None => L [] | Some (i, ks) => L [A (Z.of_nat i); sx_str ks] end].

(* every op: the result lists status, events, popped items, key_buffer,
   input_queue, the condition values and is_done afterwards *)
Fixpoint run_ops (fuel : nat) (bs : list ib) (s : st) (ops : list op) : list sx :=
  match ops with
  | [] => []
  | OpFlip c :: r =>
      let s' := mkst (buf s) (queue s) (flip c (cenv s)) (sdone s) (sprev s) in
      enc_state SDone [] [] s' :: run_ops fuel bs s' r
  | OpExit :: r =>
      let s' := mkst (buf s) (queue s) (cenv s) true (sprev s) in
      enc_state SDone [] [] s' :: run_ops fuel bs s' r
  | OpFeed its :: r =>
      let '(s', evs, pop, stt) := feed_process fuel bs s its in
      enc_state stt evs pop s'
      :: match stt with SFuel => [] | _ => run_ops fuel bs s' r end
  | OpSigint :: r =>
      let '(s', evs, pop, stt) := send_sigint fuel bs s in
      enc_state stt evs pop s'
      :: match stt with SFuel => [] | _ => run_ops fuel bs s' r end
  end.

(* scope guard: re-entry (AProcess) together with cursor position reports is outside the model *)
Definition act_process (a : action) : bool := match a with AProcess => true | _ => false end.
Definition act_cpr (a : action) : bool := match a with AFeed _ its => existsb is_cpr its | _ => false end.
Definition op_cpr (o : op) : bool := match o with OpFeed its => existsb is_cpr its | _ => false end.
Definition in_scope (bs : list binding) (ops : list op) : bool :=
  negb (existsb (fun b => existsb act_process (bacts b)) bs) ||
  negb (existsb (fun b => existsb (fun k => k =? CPR) (bkeys b) || existsb act_cpr (bacts b)) bs || existsb op_cpr ops).

(* case = (env bindings ops fuel) *)
Definition run_keyproc (c : list sx) : sx :=
  match c with
  | [L e; L bs; L ops; A fuel] =>
      match map_opt as_bool e, map_opt dec_binding bs, map_opt dec_op ops with
      | Some e', Some bs', Some ops' =>
          if (0 <=? fuel) && (fuel <=? 100000) && in_scope bs' ops'
          then L (run_ops (Z.to_nat fuel) (index_from 0 bs') (mkst [] [] e' false None) ops')
          else bad_case
      | _, _, _ => bad_case
      end
  | _ => bad_case
  end.
