(* C12 - HSplit/VSplit divide the available space.

   Model of (as coded in /repo):
     layout/dimension.py   Dimension.__init__, sum_layout_dimensions,
                           max_layout_dimensions
     utils.py              take_using_weights          (a generator: modelled
                           as a state machine, one micro-step per evaluation
                           of the `if` inside the `for`)
     layout/containers.py  HSplit._divide_heights, VSplit._divide_widths
                           (two grow-by-one loops, explicit fuel),
                           _all_children (padding/alignment windows),
                           write_to_screen (regions = prefix sums)

   Python ints are Z; list indices / fuel are nat.  Definitions only. *)
From Coq Require Import ZArith List Bool.
From PTK Require Import Lib.Sx.
Import ListNotations.
Open Scope Z_scope.

(* ------------------------------------------------------------------ *)
(* Dimension *)

Record dim := mkdim { dmin : Z; dmax : Z; dpref : Z; dweight : Z }.

(* `max = 1000**10  # Something huge.` *)
Definition HUGE : Z := 1000 ^ 10.

Inductive ctor_res := COk (d : dim) | CValueError | CAssert.

Definition oneg (o : option Z) : bool :=
  match o with Some v => v <? 0 | None => false end.
Definition odef (d : Z) (o : option Z) : Z :=
  match o with Some v => v | None => d end.

(* Dimension(min, max, weight, preferred) *)
Definition dimension (mn mx w p : option Z) : ctor_res :=
  if oneg w || oneg mn || oneg mx || oneg p then CAssert else
  let mn' := odef 0 mn in
  let mx' := odef HUGE mx in
  let p' := odef mn' p in
  let w' := odef 1 w in
  if mx' <? mn' then CValueError else
  let p1 := if p' <? mn' then mn' else p' in
  let p2 := if p1 >? mx' then mx' else p1 in
  COk (mkdim mn' mx' p2 w').

Fixpoint zsum (l : list Z) : Z :=
  match l with [] => 0 | x :: r => x + zsum r end.

Definition sum_layout_dimensions (ds : list dim) : ctor_res :=
  dimension (Some (zsum (map dmin ds))) (Some (zsum (map dmax ds))) None
            (Some (zsum (map dpref ds))).

Definition is_zero (d : dim) : bool := (dpref d =? 0) || (dmax d =? 0).

(* max(...) / min(...) of a non-empty sequence *)
Definition py_max (l : list Z) : Z :=
  match l with [] => 0 | x :: r => fold_left Z.max r x end.
Definition py_min (l : list Z) : Z :=
  match l with [] => 0 | x :: r => fold_left Z.min r x end.

Definition max_layout_dimensions (ds : list dim) : ctor_res :=
  match ds with
  | [] => dimension (Some 0) (Some 0) None (Some 0)          (* Dimension.zero() *)
  | d0 :: _ =>
      if forallb is_zero ds then COk d0 else
      let nz := filter (fun d => negb (is_zero d)) ds in
      match nz with
      | [] => dimension None None None None
      | _ =>
          let min_ := py_max (map dmin nz) in
          let max0 := py_min (map dmax nz) in
          let max1 := Z.max max0 (py_max (map dpref nz)) in
          let max2 := if min_ >? max1 then min_ else max1 in
          dimension (Some min_) (Some max2) None (Some (py_max (map dpref nz)))
      end
  end.

(* ------------------------------------------------------------------ *)
(* take_using_weights *)

Record gen := mkgen {
  g_items : list nat;      (* items with weight > 0 *)
  g_weights : list Z;      (* their weights *)
  g_maxw : Z;
  g_i : Z;
  g_taken : list Z;        (* already_taken *)
  g_pos : nat;             (* position of the `for` inside the current pass *)
  g_adding : bool }.

Fixpoint filter_pos (items : list nat) (ws : list Z) : list nat * list Z :=
  match items, ws with
  | it :: ir, w :: wr =>
      let '(a, b) := filter_pos ir wr in
      if w >? 0 then (it :: a, w :: b) else (a, b)
  | _, _ => ([], [])
  end.

(* None = ValueError("Did't got any items with a positive weight.")
   Generator state just before the first evaluation of the inner `for`
   (i = 0, adding has just been set to False). *)
Definition gen_init (items : list nat) (ws : list Z) : option gen :=
  let '(it, w) := filter_pos items ws in
  match it with
  | [] => None
  | _ => Some (mkgen it w (py_max w) 0 (map (fun _ => 0) it) 0 false)
  end.

Fixpoint inc_nth (l : list Z) (k : nat) : list Z :=
  match l, k with
  | [], _ => []
  | x :: r, O => (x + 1) :: r
  | x :: r, S k' => x :: inc_nth r k'
  end.

(* `already_taken[item_i] < i * weight / float(max_weight)` compared exactly
   over Q:  taken * max_weight < i * weight  (max_weight > 0).
   ASSUMPTION (stated in design.d/C12.md): i * weight < 2**53, where the
   correctly rounded float quotient compares with an integer like the exact
   one. *)
Definition eligible (g : gen) (k : nat) : bool :=
  nth k (g_taken g) 0 * g_maxw g <? g_i g * nth k (g_weights g) 0.

(* next(generator): run micro-steps until a `yield`. *)
Fixpoint gen_next (fuel : nat) (g : gen) : option (nat * gen) :=
  match fuel with
  | O => None
  | S f =>
      if Nat.ltb (g_pos g) (length (g_items g)) then
        if eligible g (g_pos g) then
          Some (nth (g_pos g) (g_items g) O,
                mkgen (g_items g) (g_weights g) (g_maxw g) (g_i g)
                      (inc_nth (g_taken g) (g_pos g)) (S (g_pos g)) true)
        else
          gen_next f (mkgen (g_items g) (g_weights g) (g_maxw g) (g_i g)
                            (g_taken g) (S (g_pos g)) (g_adding g))
      else if g_adding g then
        (* `while adding:` again; adding = False *)
        gen_next f (mkgen (g_items g) (g_weights g) (g_maxw g) (g_i g)
                          (g_taken g) O false)
      else
        (* i += 1; adding = True; while adding: adding = False *)
        gen_next f (mkgen (g_items g) (g_weights g) (g_maxw g) (g_i g + 1)
                          (g_taken g) O false)
  end.

(* Enough micro-steps for one `next` from every reachable state (theorem
   gen_next_some): finish the pass, one more pass, i += 1, one pass. *)
Definition gen_fuel (g : gen) : nat := 3 * (length (g_items g) + 1) + 1.

Definition next (g : gen) : option (nat * gen) := gen_next (gen_fuel g) g.

(* first n items of the generator (for the correspondence with utils.py) *)
Fixpoint gen_take (n : nat) (g : gen) : list Z :=
  match n with
  | O => []
  | S n' => match next g with
            | None => [-1]
            | Some (it, g') => Z.of_nat it :: gen_take n' g'
            end
  end.

(* ------------------------------------------------------------------ *)
(* The grow-by-one loops, generic in the generator *)

Section Grow.
  Context {G : Type}.
  Variable nextG : G -> option (nat * G).

  (* while sum(sizes) < stop:
         if sizes[i] < caps[i]: sizes[i] += 1
         i = next(child_generator)
     None = out of fuel *)
  Fixpoint grow (fuel : nat) (stop : Z) (caps sizes : list Z) (i : nat) (g : G)
    : option (list Z * nat * G) :=
    if zsum sizes <? stop then
      match fuel with
      | O => None
      | S f =>
          let sizes' := if nth i sizes 0 <? nth i caps 0 then inc_nth sizes i else sizes in
          match nextG g with
          | None => None
          | Some (i', g') => grow f stop caps sizes' i' g'
          end
      end
    else Some (sizes, i, g).
End Grow.

Inductive dres :=
| Sizes (l : list Z)
| TooSmall            (* the function returned None *)
| NoWeights           (* ValueError from take_using_weights *)
| OutOfFuel           (* a loop did not finish within the fuel *)
| CtorErr.            (* sum_layout_dimensions raised *)

(* PINNED: the body shared by _divide_heights (after `if not self.children`)
   and _divide_widths as it was before commit 8a80803 ("fix: HSplit/VSplit
   hung or raised ValueError with zero-weight children"), on the dimensions
   of _all_children.  `done` is get_app().is_done (HSplit only; VSplit
   always runs the second loop).  Kept for the _pinned theorems. *)
Definition divide_pinned (fuel : nat) (done : bool) (dims : list dim) (avail : Z) : dres :=
  match dims with
  | [] => Sizes []
  | _ =>
    match sum_layout_dimensions dims with
    | COk sd =>
      if dmin sd >? avail then TooSmall else
      match gen_init (seq 0 (length dims)) (map dweight dims) with
      | None => NoWeights
      | Some g0 =>
        match next g0 with
        | None => OutOfFuel
        | Some (i, g1) =>
          match grow next fuel (Z.min avail (dpref sd)) (map dpref dims) (map dmin dims) i g1 with
          | None => OutOfFuel
          | Some (s1, i1, g2) =>
            if done then Sizes s1 else
            match grow next fuel (Z.min avail (dmax sd)) (map dmax dims) s1 i1 g2 with
            | None => OutOfFuel
            | Some (s2, _, _) => Sizes s2
            end
          end
        end
      end
    | _ => CtorErr
    end
  end.

(* ------------------------------------------------------------------ *)
(* The division as it is in /repo now (commit 8a80803): without any weighted
   child everybody stays at the minimum (`if not weighted: return sizes`);
   both stops are additionally capped by
   `sum(sizes) + sum(cap[k] - sizes[k] for k in weighted)`. *)

Fixpoint room (ws caps sizes : list Z) : Z :=
  match ws, caps, sizes with
  | w :: wr, c :: cr, s :: sr => (if w >? 0 then c - s else 0) + room wr cr sr
  | _, _, _ => 0
  end.

Definition divide (fuel : nat) (done : bool) (dims : list dim) (avail : Z) : dres :=
  match dims with
  | [] => Sizes []
  | _ =>
    match sum_layout_dimensions dims with
    | COk sd =>
      if dmin sd >? avail then TooSmall else
      let ws := map dweight dims in
      let sizes := map dmin dims in
      match gen_init (seq 0 (length dims)) ws with
      | None => Sizes sizes                       (* if not weighted: return sizes *)
      | Some g0 =>
        match next g0 with
        | None => OutOfFuel
        | Some (i, g1) =>
          let pstop := Z.min (Z.min avail (dpref sd)) (zsum sizes + room ws (map dpref dims) sizes) in
          match grow next fuel pstop (map dpref dims) sizes i g1 with
          | None => OutOfFuel
          | Some (s1, i1, g2) =>
            if done then Sizes s1 else
            let mstop := Z.min (Z.min avail (dmax sd)) (zsum s1 + room ws (map dmax dims) s1) in
            match grow next fuel mstop (map dmax dims) s1 i1 g2 with
            | None => OutOfFuel
            | Some (s2, _, _) => Sizes s2
            end
          end
        end
      end
    | _ => CtorErr
    end
  end.

(* ------------------------------------------------------------------ *)
(* _all_children, write_to_screen *)

(* align: 0 = TOP/LEFT, 1 = CENTER, 2 = BOTTOM/RIGHT, 3 = JUSTIFY *)
Definition flex : dim := mkdim 0 HUGE 0 1.   (* Window(width=Dimension(preferred=0)) *)

(* result = [top/left flex]; for child: result += [child, padding window];
   `if result: result.pop()` (which removes the flex window when there are no
   children); then the bottom/right flex window. *)
Definition all_children (align : Z) (pad : dim) (cs : list dim) : list dim :=
  removelast
    ((if (align =? 1) || (align =? 2) then [flex] else [])
     ++ flat_map (fun c => [c; pad]) cs)
  ++ (if (align =? 1) || (align =? 0) then [flex] else []).

(* orient: 0 = HSplit, 1 = VSplit *)
Definition split_divide_with (core : nat -> bool -> list dim -> Z -> dres)
           (fuel : nat) (orient : Z) (done : bool) (align : Z) (pad : dim)
           (cs : list dim) (avail : Z) : dres :=
  if orient =? 0 then
    match cs with
    | [] => Sizes []                      (* if not self.children: return [] *)
    | _ => core fuel done (all_children align pad cs) avail
    end
  else core fuel false (all_children align pad cs) avail.

Definition split_divide_pinned := split_divide_with divide_pinned.
Definition split_divide := split_divide_with divide.

(* ------------------------------------------------------------------ *)
(* _all_children is cached: SimpleCache(maxsize=1) keyed by
   tuple(self.children).  Children are identified by an id (object
   identity); an entry of the cached list is a child, a padding window or an
   alignment (flex) window.  `self.align` / `self.padding` are not part of
   the key: they are taken as fixed for the life of the split object. *)

Inductive entry := EChild (id : Z) | EPad | EFlex.

Definition entries (align : Z) (ids : list Z) : list entry :=
  removelast
    ((if (align =? 1) || (align =? 2) then [EFlex] else [])
     ++ flat_map (fun c => [EChild c; EPad]) ids)
  ++ (if (align =? 1) || (align =? 0) then [EFlex] else []).

Definition lookup (pool : list dim) (id : Z) : dim := nth (Z.to_nat id) pool flex.

Definition entry_dim (pool : list dim) (pad : dim) (e : entry) : dim :=
  match e with EChild id => lookup pool id | EPad => pad | EFlex => flex end.

Definition entry_code (e : entry) : Z :=
  match e with EChild id => id | EPad => -1 | EFlex => -2 end.

Fixpoint zlist_eqb (a b : list Z) : bool :=
  match a, b with
  | [], [] => true
  | x :: a', y :: b' => (x =? y) && zlist_eqb a' b'
  | _, _ => false
  end.

(* the one cache slot: key (the children tuple) and value *)
Definition cache := option (list Z * list entry).

(* SimpleCache.get(tuple(self.children), get): on a miss the new pair
   replaces the old one (maxsize = 1) *)
Definition cache_get (align : Z) (c : cache) (ids : list Z) : list entry * cache :=
  match c with
  | Some (k, v) =>
      if zlist_eqb k ids then (v, c)
      else let v' := entries align ids in (v', Some (ids, v'))
  | None => let v' := entries align ids in (v', Some (ids, v'))
  end.

(* the division on an explicit _all_children list *)
Definition split_on (fuel : nat) (orient : Z) (done : bool) (no_children : bool)
           (ds : list dim) (avail : Z) : dres :=
  if orient =? 0 then
    if no_children then Sizes [] else divide fuel done ds avail
  else divide fuel false ds avail.

(* ------------------------------------------------------------------ *)
(* The dimension a split reports to its parent (width = None, height = None).
   A child is a pair (width requirement, height requirement).
   axis 0 = preferred_width, 1 = preferred_height(width, ...) *)

Definition split_report (fuel : nat) (orient axis : Z) (align : Z) (pad : dim)
           (cs : list (dim * dim)) (width : Z) : ctor_res + Z :=
  if orient =? 0 then
    if axis =? 0 then
      match cs with
      | [] => inl (dimension None None None None)
      | _ => inl (max_layout_dimensions (map fst cs))
      end
    else inl (sum_layout_dimensions (all_children align pad (map snd cs)))
  else
    if axis =? 0 then inl (sum_layout_dimensions (all_children align pad (map fst cs)))
    else
      match divide fuel false (all_children align pad (map fst cs)) width with
      | Sizes _ => inl (max_layout_dimensions (all_children align flex (map snd cs)))
      | TooSmall => inl (dimension None None None None)
      | OutOfFuel => inr 3
      | _ => inr 4
      end.

(* `if self.width is not None: return to_dimension(self.width)` (likewise
   height): an explicit requirement on the split overrides what its children
   say.  [ov] is that Dimension (an int n is Dimension.exact(n)). *)
Definition split_report_ov (ov : option ctor_res) (fuel : nat) (orient axis : Z) (align : Z) (pad : dim)
           (cs : list (dim * dim)) (width : Z) : ctor_res + Z :=
  match ov with
  | Some r => inl r
  | None => split_report fuel orient axis align pad cs width
  end.

(* VSplit.write_to_screen gives every child the height
   max(wp.height, min(wp.height, max(heights))); HSplit passes the width on *)
Definition cross_extent (orient : Z) (cross : Z) (child_prefs : list Z) : Z :=
  if orient =? 0 then cross else Z.max cross (Z.min cross (py_max child_prefs)).

(* Window._merge_dimensions(dimension, get_preferred, dont_extend); the
   Window's own dimension is given by its raw constructor arguments (the
   *_specified flags), cp = what the UIControl reports (None / an int) *)
Definition merge_dimensions (mn mx w p : option Z) (cp : option Z) (de : bool) : ctor_res :=
  match dimension mn mx w p with
  | COk d =>
      let pref0 := match p with Some _ => Some (dpref d) | None => cp end in
      let clamp v :=
        let v1 := match mx with Some _ => Z.min v (dmax d) | None => v end in
        match mn with Some _ => Z.max v1 (dmin d) | None => v1 end in
      let pref1 := match pref0 with Some v => Some (clamp v) | None => None end in
      let max_ := match de, pref1 with
                  | true, Some v => Some (Z.min (dmax d) v)
                  | _, _ => match mx with Some _ => Some (dmax d) | None => None end
                  end in
      let min_ := match mn with Some _ => Some (dmin d) | None => None end in
      dimension min_ max_ (Some (dweight d)) pref1
  | e => e
  end.

(* regions drawn: (kind, offset, extent); kind 0 = k-th entry of
   _all_children (in order), 1 = the remaining-space window, 2 = the
   window_too_small container *)
Fixpoint regions_from (pos : Z) (sizes : list Z) : list (Z * Z * Z) * Z :=
  match sizes with
  | [] => ([], pos)
  | s :: r => let '(l, e) := regions_from (pos + s) r in ((0, pos, s) :: l, e)
  end.

Definition draw (orient : Z) (cs : list dim) (nall : nat) (res : dres) (start avail : Z)
  : list (Z * Z * Z) :=
  if (orient =? 1) && (match cs with [] => true | _ => false end) then []
  else
  match res with
  | TooSmall => [(2, start, avail)]
  | Sizes sizes =>
      let '(l, e) := regions_from start (firstn nall sizes) in
      let remaining := start + avail - e in
      l ++ (if remaining >? 0 then [(1, e, remaining)] else [])
  | _ => []
  end.

(* Window.preferred_width / preferred_height: the content's preferred size
   (None when ignore_content_width/height) plus, for the width, the total
   width of the margins, merged with the Window's own dimension *)
Definition window_preferred (axis : Z) (mn mx w p : option Z) (cp : option Z) (de : bool)
           (margin : Z) (ignore : bool) : ctor_res :=
  merge_dimensions mn mx w p
    (if ignore then None
     else match cp with
          | Some v => Some (if axis =? 0 then v + margin else v)
          | None => None
          end) de.

(* ------------------------------------------------------------------ *)
(* Wire format *)

(* Integers beyond the OCaml driver's native int range (the 1000**10
   sentinel and its sums) travel as little-endian base-10^15 digit lists. *)
Definition BASE : Z := 10 ^ 15.
Fixpoint digits (fuel : nat) (v : Z) : list sx :=
  match fuel with
  | O => []
  | S f => if v <? BASE then [A v] else A (v mod BASE) :: digits f (v / BASE)
  end.
Definition sx_big (v : Z) : sx :=
  if (v <? BASE) && (- BASE <? v) then A v
  else if v <? 0 then L (A (-1) :: digits 12 (- v)) else L (digits 12 v).

Definition sx_dim (d : dim) : sx :=
  L [sx_big (dmin d); sx_big (dmax d); sx_big (dpref d); sx_big (dweight d)].

Definition sx_ctor (r : ctor_res) : sx :=
  match r with
  | COk d => L [A 0; sx_dim d]
  | CValueError => L [A 4]
  | CAssert => L [A 5]
  end.

(* raw Dimension arguments: (min max weight preferred), each () or (v) *)
Definition as_rawdim (s : sx) : option ctor_res :=
  match s with
  | L [a; b; c; d] =>
      match as_opt as_Z a, as_opt as_Z b, as_opt as_Z c, as_opt as_Z d with
      | Some mn, Some mx, Some w, Some p => Some (dimension mn mx w p)
      | _, _, _, _ => None
      end
  | _ => None
  end.

(* Some (inl dims) | Some (inr err) *)
Fixpoint collect_dims (l : list ctor_res) : list dim + ctor_res :=
  match l with
  | [] => inl []
  | COk d :: r => match collect_dims r with inl ds => inl (d :: ds) | inr e => inr e end
  | e :: _ => inr e
  end.

Definition sx_region (r : Z * Z * Z) : sx :=
  let '(k, o, e) := r in L [A k; sx_big o; sx_big e].

Definition sx_dres (r : dres) (regs : list (Z * Z * Z)) : sx :=
  match r with
  | Sizes l => L [A 0; L (map sx_big l); L (map sx_region regs)]
  | TooSmall => L [A 1; L (map sx_region regs)]
  | NoWeights => L [A 2]
  | OutOfFuel => L [A 3]
  | CtorErr => L [A 4]
  end.

Definition nat_of_Z (z : Z) : nat := Z.to_nat z.

(* case:
     (0 orient done align pad children avail start fuel)   split: divide + draw
     (1 children)                                          sum_layout_dimensions
     (2 children)                                          max_layout_dimensions
     (3 weights n)                                         first n of take_using_weights(range, weights)
     (4 ...as 0...)                                        split as it was before the zero-weight fix (pinned)
     (5 orient done align pad pool avail start fuel steps) renders of one split whose children list (ids into pool) is edited in between
     (6 orient axis align pad widths heights width fuel ov) preferred_width / preferred_height reported by a split (ov: width=/height= override)
     (7 rawdim cp dont_extend)                             Window._merge_dimensions
     (9 axis rawdim cp dont_extend margin ignore)          Window.preferred_width / preferred_height (window_preferred)
   children = list of raw dimensions; a raw dimension whose constructor
   raises makes the whole case answer (4) / (5) (first in list order; the
   padding is constructed before the children). *)
Definition run_split (core : nat -> bool -> list dim -> Z -> dres)
           (orient : Z) (dn : sx) (align : Z) (pad : sx) (cs : list sx) (avail start fuel : Z) : sx :=
  match as_bool dn, as_rawdim pad, map_opt as_rawdim cs with
  | Some done, Some rp, Some rcs =>
      match collect_dims (rp :: rcs) with
      | inl (p :: ds) =>
          let res := split_divide_with core (nat_of_Z fuel) orient done align p ds avail in
          sx_dres res (draw orient ds (length (all_children align p ds)) res start avail)
      | inl [] => bad_case
      | inr e => sx_ctor e
      end
  | _, _, _ => bad_case
  end.

(* several renders of one split object; before each render the children
   list may have been edited (each step gives the current children as ids
   into the pool) and children may report a different requirement than
   before (changes (id, new requirement), applied to the pool and kept) *)
Fixpoint set_nth {T : Type} (l : list T) (k : nat) (v : T) : list T :=
  match l, k with
  | [], _ => []
  | _ :: r, O => v :: r
  | x :: r, S k' => x :: set_nth r k' v
  end.

Definition apply_changes (pool : list dim) (chg : list (Z * dim)) : list dim :=
  fold_left (fun p c => set_nth p (Z.to_nat (fst c)) (snd c)) chg pool.

Definition render_with (fuel : nat) (orient : Z) (done : bool) (pad : dim)
           (pool : list dim) (avail start : Z) (ids : list Z) (es : list entry) : sx :=
  let ds := map (entry_dim pool pad) es in
  let no_children := match ids with [] => true | _ => false end in
  let res := split_on fuel orient done no_children ds avail in
  let regs := draw orient (map (lookup pool) ids) (length es) res start avail in
  L [sx_dres res regs; L (map (fun e => A (entry_code e)) es)].

Fixpoint render_steps (fuel : nat) (orient : Z) (done : bool) (align : Z) (pad : dim)
         (pool : list dim) (avail start : Z) (c : cache)
         (steps : list (list (Z * dim) * list Z)) : list sx :=
  match steps with
  | [] => []
  | (chg, ids) :: rest =>
      let pool' := apply_changes pool chg in
      let '(es, c') := cache_get align c ids in
      render_with fuel orient done pad pool' avail start ids es
      :: render_steps fuel orient done align pad pool' avail start c' rest
  end.

Definition ok_dim (r : ctor_res) : dim := match r with COk d => d | _ => flex end.

(* step on the wire: ((ids) ((id rawdim) ...)) *)
Definition as_change (s : sx) : option (Z * ctor_res) :=
  match s with
  | L [A id; r] => match as_rawdim r with Some c => Some (id, c) | None => None end
  | _ => None
  end.
Definition as_step (s : sx) : option (list (Z * ctor_res) * list Z) :=
  match s with
  | L [ids; L chg] =>
      match as_str ids, map_opt as_change chg with
      | Some i, Some c => Some (c, i)
      | _, _ => None
      end
  | _ => None
  end.

Definition run_C12_base (c : sx) : sx :=
  match c with
  | L [A 0; A orient; dn; A align; pad; L cs; A avail; A start; A fuel] =>
      run_split divide orient dn align pad cs avail start fuel
  | L [A 4; A orient; dn; A align; pad; L cs; A avail; A start; A fuel] =>
      run_split divide_pinned orient dn align pad cs avail start fuel    (* the code before commit 8a80803 *)
  | L [A 1; L cs] =>
      match map_opt as_rawdim cs with
      | Some rcs => match collect_dims rcs with
                    | inl ds => sx_ctor (sum_layout_dimensions ds)
                    | inr e => sx_ctor e
                    end
      | None => bad_case
      end
  | L [A 2; L cs] =>
      match map_opt as_rawdim cs with
      | Some rcs => match collect_dims rcs with
                    | inl ds => sx_ctor (max_layout_dimensions ds)
                    | inr e => sx_ctor e
                    end
      | None => bad_case
      end
  | L [A 5; A orient; dn; A align; pad; L pool; A avail; A start; A fuel; L steps] =>
      match as_bool dn, as_rawdim pad, map_opt as_rawdim pool, map_opt as_step steps with
      | Some done, Some rp, Some rpool, Some sts =>
          match collect_dims (rp :: rpool ++ flat_map (fun st => map snd (fst st)) sts) with
          | inl (p :: _) =>
              let pl := map ok_dim rpool in
              let sts' := map (fun st => (map (fun c => (fst c, ok_dim (snd c))) (fst st), snd st)) sts in
              L (render_steps (nat_of_Z fuel) orient done align p pl avail start None sts')
          | inl [] => bad_case
          | inr e => sx_ctor e
          end
      | _, _, _, _ => bad_case
      end
  | L [A 6; A orient; A axis; A align; pad; L ws; L hs; A width; A fuel; ov] =>
      match as_rawdim pad, map_opt as_rawdim ws, map_opt as_rawdim hs, as_opt as_rawdim ov with
      | Some rp, Some rws, Some rhs, Some rov =>
          match collect_dims (rp :: rws), collect_dims rhs with
          | inl (p :: dw), inl dh =>
              if Nat.eqb (length dw) (length dh) then
                match split_report_ov rov (nat_of_Z fuel) orient axis align p (combine dw dh) width with
                | inl r => sx_ctor r
                | inr code => L [A code]
                end
              else bad_case
          | inr e, _ => sx_ctor e
          | _, inr e => sx_ctor e
          | _, _ => bad_case
          end
      | _, _, _, _ => bad_case
      end
  | L [A 7; L [a; b; c; d]; cp; de] =>
      match as_opt as_Z a, as_opt as_Z b, as_opt as_Z c, as_opt as_Z d, as_opt as_Z cp, as_bool de with
      | Some mn, Some mx, Some w, Some p, Some cpv, Some dev => sx_ctor (merge_dimensions mn mx w p cpv dev)
      | _, _, _, _, _, _ => bad_case
      end
  | L [A 9; A axis; L [a; b; c; d]; cp; de; A margin; ig] =>
      match as_opt as_Z a, as_opt as_Z b, as_opt as_Z c, as_opt as_Z d, as_opt as_Z cp, as_bool de, as_bool ig with
      | Some mn, Some mx, Some w, Some p, Some cpv, Some dev, Some igv =>
          sx_ctor (window_preferred axis mn mx w p cpv dev margin igv)
      | _, _, _, _, _, _, _ => bad_case
      end
  | L [A 3; ws; A n] =>
      match as_str ws with
      | Some w =>
          match w with
          | [] => bad_case                      (* assert len(items) > 0 *)
          | _ => match gen_init (seq 0 (length w)) w with
                 | None => L [A 2]
                 | Some g => L [A 0; L (map A (gen_take (nat_of_Z n) g))]
                 end
          end
      | None => bad_case
      end
  | _ => bad_case
  end.
