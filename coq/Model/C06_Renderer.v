(* C06 - renderer.py: _output_screen_diff as written (move_cursor with its
   width-1 quirk and "\r\n" for downward motion, output_char with last-style
   elision, get_max_column_index, trailing trimming with erase_end_of_line,
   full-repaint triggers, is_done epilogue) and the Renderer bookkeeping
   (render / erase / reset, Vt100_Output._cursor_visible), producing tokens.

   Style strings are numbered by the harness: 0 is "" (the only falsy style
   string), 1 is "[transparent]" (the Screen default).  The tables
   style -> attrs -> (pen, has_style) are data of the case: in the theorems
   they are arbitrary functions. *)
From Coq Require Import ZArith List Bool.
From PTK Require Import Lib.Sx Lib.Py Model.C06_Terminal.
Import ListNotations.
Open Scope Z_scope.

Record cell := mkc { ch : list Z; st : Z; wd : Z }.
Definition dcell : cell := mkc [32] 1 1.          (* _CHAR_CACHE[" ", Transparent] *)
Definition row := list (Z * cell).

Record screen := mks {
  sh : Z;                       (* Screen.height *)
  sshow : bool;                 (* Screen.show_cursor *)
  scx : Z; scy : Z;             (* get_cursor_position(current_window) *)
  srows : list (Z * row);       (* data_buffer, explicit entries only *)
  szwe : list (Z * Z * Z)       (* zero_width_escapes: (y, x, id) *)
}.
Definition empty_screen : screen := mks 0 true 0 0 [] [].

Record tabs := mkt {
  sattr : Z -> Z;               (* _StyleStringToAttrsCache: style -> attrs *)
  apen : Z -> Z;                (* _EscapeCodeCache: attrs -> escape string *)
  ahs : Z -> bool               (* _StyleStringHasStyleCache (a function of attrs) *)
}.

Fixpoint rget (r : row) (c : Z) : cell :=
  match r with
  | [] => dcell
  | (i, v) :: r' => if i =? c then v else rget r' c
  end.

Fixpoint sget (rows : list (Z * row)) (y : Z) : row :=
  match rows with
  | [] => []
  | (i, r) :: rest => if i =? y then r else sget rest y
  end.

Fixpoint zget (z : list (Z * Z * Z)) (y x : Z) : option Z :=
  match z with
  | [] => None
  | (i, j, v) :: r => if (i =? y) && (j =? x) then Some v else zget r y x
  end.

Definition counts (tb : tabs) (c : cell) : bool :=
  negb (str_eqb (ch c) [32]) || ahs tb (sattr tb (st c)).

(* get_max_column_index: max(numbers, default=0) over the indices >= 0 of the
   explicit cells that count (cells at negative column indices - a float with
   left < 0 - are not visible and do not count: fix aa7dc6e). *)
Definition gcounts (tb : tabs) (e : Z * cell) : bool := (0 <=? fst e) && counts tb (snd e).
Definition gmax_opt (tb : tabs) (r : row) : option Z :=
  fold_left (fun m e => if gcounts tb e
                        then Some (match m with Some v => Z.max v (fst e) | None => fst e end)
                        else m) r None.
Definition gmax (tb : tabs) (r : row) : Z :=
  match gmax_opt tb r with Some v => v | None => 0 end.

(* the function as it stood before aa7dc6e (negative indices counted): kept only
   for the _pinned_refuted theorem; nothing in the model uses it *)
Definition gmax_pinned (tb : tabs) (r : row) : Z :=
  match fold_left (fun m e => if counts tb (snd e)
                              then Some (match m with Some v => Z.max v (fst e) | None => fst e end)
                              else m) r None with Some v => v | None => 0 end.

Definition differs (a b : cell) : bool :=
  negb (str_eqb (ch a) (ch b)) || negb (st a =? st b).

(* ---- Vt100_Output encoders ---- *)
Definition cuu (n : Z) : list tok := if n =? 0 then [] else [TCUU n].
Definition cuf (n : Z) : list tok := if n =? 0 then [] else [TCUF n].
Definition cub (n : Z) : list tok := if n =? 0 then [] else if n =? 1 then [TBS] else [TCUB n].
Fixpoint crlf (n : nat) : list tok := match n with O => [] | S k => TCR :: TLF :: crlf k end.

Definition hide_cursor (cv : option bool) : option bool * list tok :=
  match cv with Some false => (cv, []) | _ => (Some false, [TCV false]) end.
Definition show_cursor (cv : option bool) : option bool * list tok :=
  match cv with Some true => (cv, []) | _ => (Some true, [TRaw 6; TCV true]) end.

(* ---- closures of _output_screen_diff ---- *)
(* positions are (x, y) *)
Definition move_cursor (W : Z) (pos : Z * Z) (ls : option Z) (new : Z * Z) : option Z * list tok :=
  let '(x, y) := pos in
  let '(nx, ny) := new in
  if y <? ny then (None, TSGR 0 :: crlf (Z.to_nat (ny - y)) ++ cuf nx)
  else (ls,
        (if ny <? y then cuu (y - ny) else []) ++
        (if W - 1 <=? x then TCR :: cuf nx
         else if nx <? x then cub (x - nx)
         else if x <? nx then cuf (nx - x) else [])).

Definition ls_falsy (ls : option Z) : bool :=
  match ls with None => true | Some s => s =? 0 end.

Definition output_char (tb : tabs) (ls : option Z) (c : cell) : option Z * list tok :=
  let same := match ls with Some s => s =? st c | None => false end in
  if same then (ls, [TText (ch c) (wd c)])
  else
    let na := sattr tb (st c) in
    let set := ls_falsy ls || match ls with Some s => negb (na =? sattr tb s) | None => true end in
    (Some (st c), (if set then [TSGR (apen tb na)] else []) ++ [TText (ch c) (wd c)]).

(* new_char.char == " " and new_char.style == Transparent: a cell nothing was
   written to; it is drawn as a blank in the default attributes (fix 076cd06) *)
Definition is_transp (c : cell) : bool := str_eqb (ch c) [32] && (st c =? 1).

(* the column loop of one row; fuel = number of columns that can be visited *)
Fixpoint cols (fuel : nat) (tb : tabs) (W y : Z) (nrow prow : row) (zw : list (Z * Z * Z))
         (nmax c : Z) (pos : Z * Z) (ls : option Z) : (Z * Z) * option Z * list tok :=
  match fuel with
  | O => (pos, ls, [])
  | S f =>
      if nmax <? c then (pos, ls, []) else
      let nc := rget nrow c in
      let oc := rget prow c in
      let cw := if wd nc =? 0 then 1 else wd nc in
      if differs nc oc then
        let '(ls1, t1) := move_cursor W pos ls (c, y) in
        let t2 := match zget zw y c with Some i => [TRaw i] | None => [] end in
        let '(ls2, t3) := if is_transp nc then (@None Z, [TSGR 0; TText [32] 1])
                          else output_char tb ls1 nc in
        let '(pos', ls', ts) := cols f tb W y nrow prow zw nmax (c + cw) (c + cw, y) ls2 in
        (pos', ls', t1 ++ t2 ++ t3 ++ ts)
      else cols f tb W y nrow prow zw nmax (c + cw) pos ls
  end.

Definition do_row (tb : tabs) (W y : Z) (scr prev : screen) (pos : Z * Z) (ls : option Z)
  : (Z * Z) * option Z * list tok :=
  let nrow := sget (srows scr) y in
  let prow := sget (srows prev) y in
  let nmax := Z.min (W - 1) (gmax tb nrow) in
  let pmax := Z.min (W - 1) (gmax tb prow) in
  let '(pos1, ls1, t1) := cols (Z.to_nat (nmax + 1)) tb W y nrow prow (szwe scr) nmax 0 pos ls in
  if nmax <? pmax then
    let '(_, t2) := move_cursor W pos1 ls1 (nmax + 1, y) in
    ((nmax + 1, y), None, t1 ++ t2 ++ [TSGR 0; TEL])
  else (pos1, ls1, t1).

Fixpoint rows_loop (n : nat) (tb : tabs) (W y : Z) (scr prev : screen) (pos : Z * Z) (ls : option Z)
  : (Z * Z) * option Z * list tok :=
  match n with
  | O => (pos, ls, [])
  | S k =>
      let '(pos1, ls1, t1) := do_row tb W y scr prev pos ls in
      let '(pos2, ls2, t2) := rows_loop k tb W (y + 1) scr prev pos1 ls1 in
      (pos2, ls2, t1 ++ t2)
  end.

(* everything after "previous_screen = Screen()": rows, reserve height,
   final cursor move, autowrap, reset, show cursor *)
Definition diff_body (tb : tabs) (W H : Z) (fs done : bool) (scr prev : screen)
           (pos : Z * Z) (ls : option Z) (cv : option bool)
  : (Z * Z) * option bool * list tok :=
  let cur_h := Z.min (sh scr) H in
  let row_count := Z.min (Z.max (sh scr) (sh prev)) H in
  let '(pos1, ls1, t1) := rows_loop (Z.to_nat row_count) tb W 0 scr prev pos ls in
  let '(pos2, ls2, t2) :=
    if sh prev <? cur_h then
      let '(l, t) := move_cursor W pos1 ls1 (0, cur_h - 1) in ((0, cur_h - 1), l, t)
    else (pos1, ls1, []) in
  let '(pos3, t3) :=
    if done then
      let '(_, t) := move_cursor W pos2 ls2 (0, cur_h) in ((0, cur_h), t ++ [TED])
    else
      let '(_, t) := move_cursor W pos2 ls2 (scx scr, scy scr) in ((scx scr, scy scr), t) in
  let t4 := if done || negb fs then [TAW true] else [] in
  let '(cv', t5) := if sshow scr then show_cursor cv else (cv, []) in
  (pos3, cv', t1 ++ t2 ++ t3 ++ t4 ++ [TSGR 0] ++ t5).

Definition is_none {T} (o : option T) : bool := match o with None => true | _ => false end.

Definition screen_diff (tb : tabs) (W H : Z) (fs done : bool) (scr : screen) (prev : option screen)
           (pos : Z * Z) (ls : option Z) (prevW : Z) (cv : option bool)
  : (Z * Z) * option bool * list tok :=
  let '(cv1, t0) := hide_cursor cv in
  let '(ls1, t1) := if is_none prev then (None, [TSGR 0]) else (ls, []) in
  let t2 := if is_none prev || negb fs then [TAW false] else [] in
  let full := done || is_none prev || negb (prevW =? W) in
  let '(pos2, ls2, prev2, t3) :=
    if full then
      let '(_, t) := move_cursor W pos ls1 (0, 0) in
      ((0, 0), @None Z, empty_screen, t ++ [TSGR 0; TED])
    else (pos, ls1, match prev with Some p => p | None => empty_screen end, []) in
  let '(pos3, cv3, t4) := diff_body tb W H fs done scr prev2 pos2 ls2 cv1 in
  (pos3, cv3, t0 ++ t1 ++ t2 ++ t3 ++ t4).

(* ---- Renderer ---- *)
Record rst := mkr {
  rpos : Z * Z;                       (* _cursor_pos *)
  rlast : option screen;              (* _last_screen *)
  rsize : option (Z * Z);             (* _last_size (columns, rows) *)
  rcfg : option Z;                    (* style hash / transformation hash / colour depth of the last render *)
  rcv : option bool;                  (* Vt100_Output._cursor_visible *)
  ralt : bool; rbp : bool; rckm : bool   (* alternate screen, bracketed paste, cursor-key-mode-reset flags *)
}.
(* _last_style is always None between renders (every diff ends with
   reset_attributes), so it is not stored. *)

Definition r_reset (r : rst) : rst * list tok :=
  let t1 := if ralt r then [TRaw 5] else [] in
  let t2 := if rbp r then [TRaw 2] else [] in
  let '(cv, t3) := show_cursor (rcv r) in
  (mkr (0, 0) None None (rcfg r) cv false false (rckm r), t1 ++ t2 ++ t3).

Definition r_new : rst * list tok :=
  r_reset (mkr (0, 0) None None None None false false false).

Definition size_eqb (a : option (Z * Z)) (W H : Z) : bool :=
  match a with Some (w, h) => (w =? W) && (h =? H) | None => false end.
Definition cfg_eqb (a : option Z) (c : Z) : bool :=
  match a with Some x => x =? c | None => false end.

Definition r_render (tbs : Z -> tabs) (fs : bool) (r : rst) (cfg : Z) (done : bool) (W H : Z) (scr : screen)
  : rst * list tok :=
  let ta := if fs && negb (ralt r) then [TRaw 4; THome] else [] in
  let tb1 := if rbp r then [] else [TRaw 1] in
  let tc := if rckm r then [] else [TRaw 3] in
  let last1 := if size_eqb (rsize r) W H then rlast r else None in
  let last2 := if cfg_eqb (rcfg r) cfg then last1 else None in
  let prevW := match rsize r with Some (w, _) => w | None => 0 end in
  let '(pos, cv, td) := screen_diff (tbs cfg) W H fs done scr last2 (rpos r) None prevW (rcv r) in
  let r1 := mkr pos (Some scr) (Some (W, H)) (Some cfg) cv (ralt r || fs) true true in
  if done then
    let '(r2, te) := r_reset r1 in (r2, ta ++ tb1 ++ tc ++ td ++ te)
  else (r1, ta ++ tb1 ++ tc ++ td).

Definition r_erase (r : rst) : rst * list tok :=
  let '(x, y) := rpos r in
  let '(r2, t) := r_reset r in
  (r2, cub x ++ cuu y ++ [TED; TSGR 0; TAW true] ++ t).

Inductive op :=
| ORender (cfg : Z) (done : bool) (W H : Z) (scr : screen)
| OErase
| OReset.

Definition r_step (tbs : Z -> tabs) (fs : bool) (r : rst) (o : op) : rst * list tok :=
  match o with
  | ORender cfg done W H scr => r_render tbs fs r cfg done W H scr
  | OErase => r_erase r
  | OReset => r_reset r
  end.

(* the terminal side of one operation: interpret the tokens; a done render
   and a bare reset make the cursor row the new origin *)
Definition op_width (curW : Z) (o : op) : Z :=
  match o with ORender _ _ W _ _ => W | _ => curW end.
Definition op_shifts (o : op) : bool :=
  match o with ORender _ d _ _ _ => d | OErase => false | OReset => true end.

Definition t_step (W : Z) (t : term) (o : op) (ks : list tok) : term :=
  let t1 := trun W t ks in
  if op_shifts o then tshift t1 (cy t1) else t1.
