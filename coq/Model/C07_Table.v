(* C07 - the key-level model instantiated with the binding table regenerated
   from /repo (Gen/C07_Bindings.v), decidable facts about that table, the rows
   as they stood at the pinned commit, and the entry point [run_C07]. *)
From Coq Require Import ZArith List Bool.
From PTK Require Import Lib.Sx Lib.Py Model.C07_Undo Model.C07_Keys Gen.C07_Bindings.
From PTK Require Import Model.C07_Multi Model.C07_Edit Model.C07_Edit2.
Import ListNotations.
Open Scope Z_scope.

Definition row_shape_ok (r : row) : bool :=
  ((r_cls r =? 0) || (r_cls r =? 1) || (r_cls r =? 2)) &&
  ((r_act r =? 0) || (r_act r =? 1) || (r_act r =? 2)) &&
  (negb (r_cls r =? 2) || (r_act r =? 0)).

(* every row: known class and action; an if_no_repeat binding is a plain
   handler *)
Definition tbl_shape_ok (tbl : list row) : bool := forallb row_shape_ok tbl.

(* the typed-character / backspace / delete bindings are if_no_repeat *)
Definition is_group_role (r : row) : bool :=
  (r_role r =? 1) || (r_role r =? 2) || (r_role r =? 3) || (r_role r =? 6).
Definition tbl_group_ok (tbl : list row) : bool :=
  forallb (fun r => negb (is_group_role r) || ((r_cls r =? 2) && (r_act r =? 0))) tbl.

(* every binding whose handler calls Buffer.undo never snapshots *)
Definition tbl_undo_ok (tbl : list row) : bool :=
  forallb (fun r => negb (r_act r =? 1) || (r_cls r =? 0)) tbl.

Definition has_role (tbl : list row) (k : Z) : bool := existsb (fun r => r_role r =? k) tbl.

Fixpoint indices_where (f : row -> bool) (tbl : list row) (i : Z) : list Z :=
  match tbl with
  | [] => []
  | r :: rest => if f r then i :: indices_where f rest (i + 1) else indices_where f rest (i + 1)
  end.

(* The rows that matter, as the table extraction saw them at the pinned commit
   05808245 (before /repo commit cbe0478 "fix: KeyBindings.add ignored
   save_before when given an existing Binding"), recorded by hand from the
   coq/Gen/C07_Bindings.v of that tree:
     0  <any>      named_commands.self_insert            (1, 0, 1)
     1  c-h        named_commands.backward_delete_char   (1, 0, 2)
     2  delete     named_commands.delete_char            (1, 0, 3)
     3  c-_        named_commands.undo                   (1, 1, 5)
     4  u          vi._undo                              (0, 1, 4)
     5  <any>      vi._insert_text_multiple_cursors      (2, 0, 6)
   basic.py asks for save_before=if_no_repeat on rows 0-2 and emacs.py for
   save_before=(lambda e: False) on row 3, but KeyBindings.add, when handed an
   existing Binding (get_by_name(..)), built the new Binding with
   save_before=func.save_before and dropped its own argument. *)
Definition pinned_rows : list row :=
  [(1, 0, 1); (1, 0, 2); (1, 0, 3); (1, 1, 5); (0, 1, 4); (2, 0, 6)].

(* What those rows are now that KeyBindings.add honours its save_before
   argument (cbe0478); the live table is Gen/C07_Bindings.v. *)
Definition fixed_rows : list row :=
  [(2, 0, 1); (2, 0, 2); (2, 0, 3); (0, 1, 5); (0, 1, 4); (2, 0, 6)].

(* case = (0 text cursor (op...))          buffer level
        | (1 text cursor (event...))       key level over the live table
        | (2)                              table query
        | (3 (doc...) focus (row...) (event...))  several buffers (Model/C07_Multi.v)
        | (4 text cursor (command...))     editing session, texts computed (Model/C07_Edit.v)
        | (6 text cursor (command...))     editing session incl. kills / yanks / Vi operators
                                           computed by C09's model (Model/C07_Edit2.v)
        | (5)                              the rows this model was built over (the harness
                                           compares them with the table of the tree under test)
   table query result = (n_rows shape_ok group_ok undo_ok (rows violating group)
                           (rows violating undo) (rows whose handler calls redo)) *)
Definition run_C07 (c : sx) : sx :=
  match c with
  | L [A 0; t; A cur; L ops] => run_C07_buffer t cur ops
  | L [A 1; t; A cur; L evs] => run_C07_keys c07_rows t cur evs
  | L [A 2] =>
      L [A (len c07_rows); sx_bool (tbl_shape_ok c07_rows);
         sx_bool (tbl_group_ok c07_rows); sx_bool (tbl_undo_ok c07_rows);
         L (map A (indices_where (fun r => is_group_role r && negb ((r_cls r =? 2) && (r_act r =? 0))) c07_rows 0));
         L (map A (indices_where (fun r => (r_act r =? 1) && negb (r_cls r =? 0)) c07_rows 0));
         L (map A (indices_where (fun r => r_act r =? 2) c07_rows 0))]
  | L [A 6; t; A cur; L cs] => run_C07_edit2 c07_rows t cur cs
  | L [A 5] => L (map (fun r => L [A (r_cls r); A (r_act r); A (r_role r)]) c07_rows)
  | L [A 3; L docs; A foc; L extra; L evs] => run_C07_multi c07_rows docs foc extra evs
  | L [A 4; t; A cur; L cs] => run_C07_edit c07_rows t cur cs
  | _ => bad_case
  end.
