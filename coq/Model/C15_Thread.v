(* C15 (round 7) - the producer-thread life cycle of ThreadedCompleter /
   eventloop.async_generator.generator_to_async_generator under Buffer's
   async completer (`_only_one_at_a_time`, `aclosing`, `_Retry`).

   One "run" = one call of generator_to_async_generator: a consumer (the
   async generator inside async_completer's `async for`) and a producer
   thread (`runner`) that iterates completer.get_completions(document) and
   hands the items over a queue; `quitting` is the closure flag the consumer
   sets in its `finally` before `await runner_f` (the join).

   The steps are the ones a test can control on the real objects - a user
   action, or letting the producer thread compute ONE more item - each run
   to quiescence (the consumer reads what is in the queue as soon as it is
   there; a join completes as soon as the thread has finished):
     TStart     start_completion() + the loop iteration that starts the task
     TCancel    cancel_completion(): the menu goes, the text stays
     TType      insert_text: the menu goes, the text before the cursor grew
     TProduce i more   the thread of run i gets its next item from the
                completer (more = true) or finds the iterable exhausted
   [jn] (configuration): true = the code as it is (`await runner_f` in the
   `finally` of the async generator: aclose() joins the thread); false =
   the join only after a normally exhausted stream (kept for the `_refuted`
   theorem: what the join is for).

   Not modelled: the queue bound (back-pressure, `Full`), max_number_of_
   completions, complete_while_typing (no task is created by typing). *)
From Coq Require Import ZArith List Bool.
From PTK Require Import Lib.Sx.
Import ListNotations.
Open Scope Z_scope.

Inductive cphase := CIter | CClosing | CGone.      (* consumer: in `async for` / in aclose awaiting runner_f / returned *)
Inductive tphase := TComputing | TFinished.         (* producer thread: inside runner() / returned *)

Record trun := mkrun {
  r_c : cphase;
  r_t : tphase;
  r_quit : bool;        (* `quitting` *)
  r_att : bool;         (* proceed(): the buffer's complete_state is still this call's *)
  r_grew : bool;        (* the text before the cursor grew since the call: `_Retry` when abandoned *)
  r_n : Z }.            (* items the consumer received *)

Record tstate := mkts {
  t_jn : bool;
  t_running : bool;     (* `running` of _only_one_at_a_time(async_completer) *)
  t_menu : bool;        (* Buffer.complete_state is not None *)
  t_runs : list trun }.

Definition tinit (jn : bool) : tstate := mkts jn false false [].

Definition new_run : trun := mkrun CIter TComputing false true false 0.

Fixpoint set_nth_run (l : list trun) (i : nat) (r : trun) : list trun :=
  match l, i with
  | [], _ => []
  | _ :: t, O => r :: t
  | x :: t, S j => x :: set_nth_run t j r
  end.

(* async_completer from its first statement: `if self.complete_state: return`,
   else a new (empty) menu and a new run; `running` is True *)
Definition tbody (s : tstate) (runs : list trun) : tstate :=
  if t_menu s then mkts (t_jn s) false true runs
  else mkts (t_jn s) true true (runs ++ [new_run]).

(* the consumer of run i (already written back as [r]) has left the async
   generator: the code of async_completer after the loop *)
Definition tfinish (s : tstate) (i : nat) (r : trun) : tstate :=
  let runs := set_nth_run (t_runs s) i (mkrun CGone (r_t r) true (r_att r) (r_grew r) (r_n r)) in
  if r_att r then mkts (t_jn s) false (0 <? r_n r) runs
  else if r_grew r then tbody (mkts (t_jn s) true (t_menu s) runs) runs
  else mkts (t_jn s) false (t_menu s) runs.

Definition tstart (s : tstate) : tstate :=
  if t_running s then s else tbody s (t_runs s).

Definition detach (grew : bool) (r : trun) : trun :=
  match r_c r with
  | CGone => r
  | _ => mkrun (r_c r) (r_t r) (r_quit r) false (r_grew r || grew) (r_n r)
  end.

Definition tcancel (s : tstate) : tstate :=
  mkts (t_jn s) (t_running s) false (map (detach false) (t_runs s)).
Definition ttype (s : tstate) : tstate :=
  mkts (t_jn s) (t_running s) false (map (detach true) (t_runs s)).

Definition tproduce (s : tstate) (i : nat) (more : bool) : tstate :=
  match nth_error (t_runs s) i with
  | None => s
  | Some r =>
      match r_t r with
      | TFinished => s
      | TComputing =>
          if more then
            if r_quit r then
              (* `if quitting: return`, then the finally puts _Done: the thread is over *)
              let r1 := mkrun (r_c r) TFinished true (r_att r) (r_grew r) (r_n r) in
              match r_c r with
              | CClosing => tfinish s i r1
              | _ => mkts (t_jn s) (t_running s) (t_menu s) (set_nth_run (t_runs s) i r1)
              end
            else
              match r_c r with
              | CIter =>
                  (* the item is queued, read, appended; `if not proceed(): break` -> aclose *)
                  let r1 := mkrun CIter TComputing false (r_att r) (r_grew r) (r_n r + 1) in
                  if r_att r then mkts (t_jn s) (t_running s) (t_menu s) (set_nth_run (t_runs s) i r1)
                  else
                    let r2 := mkrun CClosing TComputing true false (r_grew r) (r_n r + 1) in
                    if t_jn s then mkts (t_jn s) (t_running s) (t_menu s) (set_nth_run (t_runs s) i r2)
                    else tfinish s i r2
              | _ =>
                  (* nobody reads the queue any more *)
                  mkts (t_jn s) (t_running s) (t_menu s) (set_nth_run (t_runs s) i r)
              end
          else
            (* exhausted: _Done is queued, the thread returns *)
            let r1 := mkrun (r_c r) TFinished (r_quit r) (r_att r) (r_grew r) (r_n r) in
            match r_c r with
            | CGone => mkts (t_jn s) (t_running s) (t_menu s) (set_nth_run (t_runs s) i r1)
            | _ => tfinish s i r1
            end
      end
  end.

Inductive tlabel := TStart | TCancel | TType | TProduce (i : nat) (more : bool).

Definition tstep (s : tstate) (l : tlabel) : tstate :=
  match l with
  | TStart => tstart s
  | TCancel => tcancel s
  | TType => ttype s
  | TProduce i more => tproduce s i more
  end.

Definition trun_all (s : tstate) (ls : list tlabel) : tstate := fold_left tstep ls s.

(* producer threads inside completer.get_completions() right now *)
Definition computing (s : tstate) : list trun :=
  filter (fun r => match r_t r with TComputing => true | TFinished => false end) (t_runs s).

(* --- wire format ---------------------------------------------------------- *)
Definition dec_tlabel (x : sx) : option tlabel :=
  match x with
  | L [A 1] => Some TStart
  | L [A 2] => Some TCancel
  | L [A 3] => Some TType
  | L [A 4; A i; A m] =>
      if (0 <=? i) && ((m =? 0) || (m =? 1)) then Some (TProduce (Z.to_nat i) (m =? 1)) else None
  | _ => None
  end.

Definition tobs (s : tstate) : sx :=
  L [sx_bool (t_running s); A (Z.of_nat (length (computing s))); A (Z.of_nat (length (t_runs s)));
     sx_bool (t_menu s);
     A (match filter (fun r => r_att r && match r_c r with CGone => false | _ => true end) (t_runs s) with
        | r :: _ => r_n r
        | [] => match rev (t_runs s) with r :: _ => if r_att r && t_menu s then r_n r else 0 | [] => 0 end
        end)].

Fixpoint tobs_all (s : tstate) (ls : list tlabel) : list sx :=
  match ls with
  | [] => []
  | l :: r => let s1 := tstep s l in tobs s1 :: tobs_all s1 r
  end.

Definition run_thread (jn : bool) (ls : list sx) : sx :=
  match map_opt dec_tlabel ls with
  | Some ls => L (tobs_all (tinit jn) ls)
  | None => bad_case
  end.
