(* C17 - the instance of Model/C17_Typeahead.v used for the correspondence
   with a real PromptSession (emacs mode, single line, default buffer focused):
     - parser     = Model/C03_Vt100Parser (Vt100Input.read_keys / flush_keys)
     - dispatch   = KeyBindings.get_bindings_for_keys / _starting_with_keys,
                    KeyProcessor._get_matches / _is_prefix_of_longer_match and
                    the eager rule, over Gen/C17_Bindings.v (the active bindings
                    of a real session, regenerated from /repo; filters as
                    truth tables over the three conditions that change while
                    a script runs: buffer non-empty, text before the cursor,
                    app.quoted_insert)
     - handlers   = the named commands the scripts use (effect codes of
                    gen/gen_t_c17.py); any other handler sets [unmod].
   Definitions only. *)
From Coq Require Import ZArith List Bool.
From PTK Require Import Lib.Sx Lib.Py Gen.Whitespace Gen.C03_AnsiSequences Gen.C17_Bindings
  Model.C03_Vt100Parser Model.C17_Typeahead.
Import ListNotations.
Open Scope Z_scope.

(* ---------------------------------------------------------------------- *)
(* Edit state: default_buffer.text / cursor_position, app.quoted_insert *)

Record estate := mkE { etext : str; ecur : nat; equoted : bool; unmod : bool;
                         eextra : bool   (* the session was created with the user binding ('c-c', 'c-c') *) }.
Definition e_init (x : bool) : estate := mkE [] O false false x.
(* PromptSession.prompt(): default_buffer.reset(); app.quoted_insert is not reset *)
Definition e_restart (e : estate) : estate := mkE [] O (equoted e) (unmod e) (eextra e).

Inductive result := RText (t : str) | REof | RInt.

(* index of the truth tables of gen/gen_t_c17.py: the generator evaluates the
   filters with an empty buffer, with "x" and the cursor at 0, and at 1 *)
Definition state_idx_cur (e : estate) : Z :=
  (match etext e with [] => 0 | _ => 1 end)
  + (match etext e, ecur e with [], _ => 0 | _, O => 0 | _, _ => 2 end)
  + (if equoted e then 4 else 0).

(* ---------------------------------------------------------------------- *)
(* Dispatch over the regenerated table *)

Definition key_code (k : kp) : Z :=
  match fst k with KKey i => i | KChar c => c17_key_offset + c end.

Definition row := (list Z * (Z * (Z * Z)))%type.
Definition r_pats (r : row) := fst r.
Definition r_eff (r : row) := fst (snd r).
Definition r_amask (r : row) := fst (snd (snd r)).
Definition r_emask (r : row) := snd (snd (snd r)).

Definition pmatch (p : Z) (k : kp) : bool := (p =? -1) || (p =? key_code k).
Fixpoint pmatches (ps : list Z) (ks : list kp) : bool :=     (* same length, position-wise *)
  match ps, ks with
  | [], [] => true
  | p :: ps', k :: ks' => pmatch p k && pmatches ps' ks'
  | _, _ => false
  end.
Fixpoint pprefix (ps : list Z) (ks : list kp) : bool :=      (* ks matches a proper prefix of ps *)
  match ps, ks with
  | _ :: _, [] => true
  | p :: ps', k :: ks' => pmatch p k && pprefix ps' ks'
  | [], _ => false
  end.
Definition any_count (ps : list Z) : nat := length (filter (fun p => p =? -1) ps).

Definition active (e : estate) (r : row) : bool := Z.testbit (r_amask r) (state_idx_cur e).
Definition eager (e : estate) (r : row) : bool := Z.testbit (r_emask r) (state_idx_cur e).

(* bid = (index in the table, effect code) *)
Definition bid := (Z * Z)%type.

(* matches[-1] of a list sorted (stably) by descending any_count: the last
   registered among those with the fewest wildcards *)
Fixpoint best (cands : list (Z * row)) (cur : option (Z * row)) : option (Z * row) :=
  match cands with
  | [] => cur
  | c :: r =>
      match cur with
      | None => best r (Some c)
      | Some b => if Nat.leb (any_count (r_pats (snd c))) (any_count (r_pats (snd b)))
                  then best r (Some c) else best r cur
      end
  end.

Fixpoint number {T} (i : Z) (l : list T) : list (Z * T) :=
  match l with [] => [] | x :: r => (i, x) :: number (i + 1) r end.
Definition rows0 : list (Z * row) := number 0 c17_bindings.
Definition rows1 : list (Z * row) := number 0 (c17_bindings ++ c17_extra_rows).
Definition rows_of (e : estate) : list (Z * row) := if eextra e then rows1 else rows0.

(* dispatch over a numbered table T *)
Definition exact_matches_t (T : list (Z * row)) (e : estate) (ks : list kp) : list (Z * row) :=
  filter (fun ir => active e (snd ir) && pmatches (r_pats (snd ir)) ks) T.
Definition to_bid (o : option (Z * row)) : option bid :=
  match o with Some (i, r) => Some (i, r_eff r) | None => None end.

Definition lookup_scan_t T (e : estate) (ks : list kp) : option bid :=
  to_bid (best (exact_matches_t T e ks) None).
Definition lookup_t T (e : estate) (ks : list kp) : option bid :=
  let m := exact_matches_t T e ks in
  match filter (fun ir => eager e (snd ir)) m with
  | [] => to_bid (best m None)
  | em => to_bid (best em None)
  end.
(* _handle_cpr_response: for binding in reversed(get_bindings_for_keys((CPRResponse,))):
   the first with binding.keys == (CPRResponse,) and an active filter *)
Definition cpr_lookup_t (T : list (Z * row)) (e : estate) : option bid :=
  match rev (filter (fun ir => active e (snd ir) &&
                               match r_pats (snd ir) with [p] => p =? c17_key_CPRResponse | _ => false end) T) with
  | (i, r) :: _ => Some (i, r_eff r)
  | [] => None
  end.
Definition waits_t T (e : estate) (ks : list kp) : bool :=
  match filter (fun ir => eager e (snd ir)) (exact_matches_t T e ks) with
  | [] => existsb (fun ir => active e (snd ir) && pprefix (r_pats (snd ir)) ks) T
  | _ => false
  end.

(* the session's table: with or without the user binding *)
Definition e_lookup_scan (e : estate) := lookup_scan_t (rows_of e) e.
Definition e_lookup (e : estate) := lookup_t (rows_of e) e.
Definition e_cpr_lookup (e : estate) := cpr_lookup_t (rows_of e) e.
Definition e_waits (e : estate) := waits_t (rows_of e) e.
(* a default session (no user binding): what the theorems about the real table are stated for *)
Definition d_lookup_scan := lookup_scan_t rows0.
Definition d_lookup := lookup_t rows0.
Definition d_cpr_lookup := cpr_lookup_t rows0.
Definition d_waits := waits_t rows0.

(* ---------------------------------------------------------------------- *)
(* Handlers (single-line text; event.arg = 1) *)

Definition ins (d : str) (e : estate) : estate :=
  mkE (firstn (ecur e) (etext e) ++ d ++ skipn (ecur e) (etext e)) (ecur e + length d) (equoted e) (unmod e) (eextra e).
Definition set_cur (n : nat) (e : estate) : estate := mkE (etext e) n (equoted e) (unmod e) (eextra e).
Definition set_text_cur (t : str) (n : nat) (e : estate) : estate := mkE t n (equoted e) (unmod e) (eextra e).

Definition is_wordc (c : Z) : bool :=
  ((97 <=? c) && (c <=? 122)) || ((65 <=? c) && (c <=? 90)) || ((48 <=? c) && (c <=? 57)) || (c =? 95).
Definition is_spacec (c : Z) : bool := mem_Z c re_space_table.
(* 0 space, 1 word, 2 other *)
Definition cls (c : Z) : Z := if is_wordc c then 1 else if is_spacec c then 0 else 2.
Fixpoint count_while (p : Z -> bool) (s : str) : nat :=
  match s with c :: r => if p c then S (count_while p r) else O | [] => O end.
(* first match of _FIND_WORD_RE = ([a-zA-Z0-9_]+|[^a-zA-Z0-9_\s]+) in s: its end offset *)
Definition first_word_end (s : str) : option nat :=
  let n1 := count_while is_spacec s in
  match skipn n1 s with
  | [] => None
  | c :: _ => Some (n1 + count_while (fun x => Z.eqb (cls x) (cls c)) (skipn n1 s))%nat
  end.

Definition data_of (ks : list kp) : str := match rev ks with k :: _ => snd k | [] => [] end.

(* data.replace("\r\n", "\n").replace("\r", "\n") *)
Fixpoint crlf (s : str) : str :=
  match s with
  | 13 :: r => 10 :: match r with 10 :: r' => crlf r' | _ => crlf r end
  | c :: r => c :: crlf r
  | [] => []
  end.

(* str.splitlines(): line boundaries \n \r \v \f \x1c \x1d \x1e \x85 \u2028 \u2029, "\r\n" counts once,
   no empty last line *)
Definition is_linebreak (c : Z) : bool :=
  mem_Z c [10; 13; 11; 12; 28; 29; 30; 133; 8232; 8233].
Fixpoint splitlines_aux (s : str) (cur : str) : list str :=
  match s with
  | [] => match cur with [] => [] | _ => [rev cur] end
  | c :: r =>
      if is_linebreak c then
        rev cur :: match c, r with
                   | 13, 10 :: r' => splitlines_aux r' []
                   | _, _ => splitlines_aux r []
                   end
      else splitlines_aux r (c :: cur)
  end.
Definition splitlines (s : str) : list str := splitlines_aux s [].
(* insert-comment without argument: "\n".join("#" + line for line in text.splitlines()), cursor 0 *)
Definition comment_lines (t : str) : str := join [10] (map (fun l => 35 :: l) (splitlines t)).

Definition e_eff (b : bid) (ks : list kp) (e : estate) : estate * option result :=
  let t := etext e in
  let c := ecur e in
  match snd b with
  | 1 => (ins (data_of ks) e, None)
  | 2 => (set_cur (pred c) e, None)
  | 3 => (set_cur (Nat.min (S c) (length t)) e, None)
  | 4 => (set_cur O e, None)
  | 5 => (set_cur (length t) e, None)
  | 6 => (match c with O => e | S c' => set_text_cur (firstn c' t ++ skipn c t) c' e end, None)
  | 7 => (set_text_cur (firstn c t ++ skipn (S c) t) c e, None)
  | 8 => (set_text_cur (firstn c t) c e, None)
  | 9 => (set_text_cur (skipn c t) O e, None)
  | 10 => (match first_word_end (rev (firstn c t)) with
           | Some n => set_cur (c - n) e
           | None => e
           end, None)
  | 11 => (match first_word_end (tl (skipn c t)) with
           | Some n => set_cur (c + n + 1) e
           | None => e
           end, None)
  | 12 => (e, None)
  | 13 => (e, Some (RText t))
  | 14 => (e, Some RInt)
  | 15 => (e, Some REof)
  | 16 => (mkE t c true (unmod e) (eextra e), None)
  | 17 => (let e1 := ins (data_of ks) e in mkE (etext e1) (ecur e1) false (unmod e1) (eextra e1), None)
  | 18 => (ins (crlf (data_of ks)) e, None)
  | 19 => (e, None)
  | 20 => (e, None)          (* _newline2: only feeds a key, see e_feeds *)
  | 21 => (e, Some (RText t))                      (* operate-and-get-next: validate_and_handle() *)
  | 22 => (set_text_cur (comment_lines t) O e, Some (RText (comment_lines t)))   (* insert-comment *)
  | _ => (mkE t c (equoted e) true (eextra e), None)
  end.
Definition e_is_cprh (b : bid) : bool := snd b =? 19.
(* _newline2 (C-j): event.key_processor.feed(KeyPress(Keys.ControlM, "\r"), first=True) *)
Definition key_ControlM : Z := 15.
Definition e_feeds (b : bid) (ks : list kp) (e : estate) : list kp :=
  if snd b =? 20 then [(KKey key_ControlM, [13])] else [].

(* ---------------------------------------------------------------------- *)
(* Parser: Vt100Input.read_keys() / flush_keys() hand over what the parser
   callback collected since the last call *)

Definition new_keys (old new : pstate) : list kp := skipn (length (rout old)) (out new).
Definition e_pfeed (d : str) (p : pstate) : pstate * list kp := let p' := feed d p in (p', new_keys p p').
Definition e_pflush (p : pstate) : pstate * list kp := let p' := flush p in (p', new_keys p p').

Definition esys := sys estate bid result pstate.
Definition e_step : esys -> label -> esys :=
  @step estate bid result pstate e_lookup e_lookup_scan e_waits e_eff e_is_cprh e_cpr_lookup e_feeds e_restart e_pfeed e_pflush REof.
Definition e_run (ls : list label) (s : esys) : esys := fold_left e_step ls s.
Definition e_init_sys (r x : bool) : esys := @init estate bid result pstate (e_init x) Model.C03_Vt100Parser.init r.
