(* C20 - model of prompt_toolkit.patch_stdout.StdoutProxy and of the path its
   text takes into a running Application (application/run_in_terminal.py,
   Application._running_in_terminal_f), as a labelled transition system.

   One label = one atomic step of one actor:
     writer thread t   : the locked body of write(data) / flush()      (LW, LFlush)
     anybody           : close() putting the _Done sentinel             (LClose)
     the flush thread  : _flush_queue.get()                             (LFGet)
                         _flush_queue.get_nowait() in the drain loop    (LFNowait)
                         _get_app_loop()                                (LFChoose)
                         _write_and_flush(loop, text)                   (LFDeliver)
                           (closed loop: RuntimeError caught, text written directly)
     the application   : run_async entered (set_is_running/set_loop/set_app, first _redraw)   (LAppStart)
                         future set: done-render, _is_running = False   (LAppExit)
                         run_async left: app_session.app = None         (LAppStop)
                         the loop of the last application is closed     (LLoopClose)
                         the loop runs its first pending callback       (LLoopStep)
                         a normal render                                (LRender)
     somebody else's in_terminal() section (e.g. run_in_terminal(in_executor=True))
                         begins / ends                                  (LExtBegin, LExtEnd)
     asyncio           : a section waiting on its predecessor's future is woken (LWake i)

   A run is [fold_left step labels init]; "every interleaving" = every label
   list.  A label that is not enabled leaves the state unchanged.
   time.sleep(sleep_between_writes) only delays the flush thread and is a
   no-op here.  Definitions only; proofs are in Proofs/C20_*.v. *)
From Coq Require Import ZArith List Bool.
From PTK Require Import Lib.Sx.
Import ListNotations.
Open Scope Z_scope.

Definition text := list Z.

(* data.rsplit("\n", 1) when "\n" in data: (before, after) *)
Fixpoint split_last (d : text) : option (text * text) :=
  match d with
  | [] => None
  | c :: r =>
      match split_last r with
      | Some (b, a) => Some (c :: b, a)
      | None => if Z.eqb c 10 then Some ([], r) else None
      end
  end.

Inductive item := ITxt (s : text) | IDone.

(* where the flush thread stands *)
Inductive fstate :=
| FIdle                                              (* at _flush_queue.get() *)
| FCollect (acc : text) (dn : bool)                  (* in the drain loop, at get_nowait() *)
| FDrained (acc : text) (dn : bool)                  (* queue seen empty, at _get_app_loop() *)
| FChosen (acc : text) (dn : bool) (path : option nat) (* at _write_and_flush(loop, text) *)
| FExit                                              (* returned *)
| FCrash.                                            (* died with an exception: produced only by step_pinned (the pre-aa2fd63 deliver step) *)

(* what the terminal sees.  EWrite carries app._is_running and
   app._running_in_terminal at the moment of the write. *)
Inductive ev := EErase | ERender | EWrite (s : text) (run interm : bool)
| EFlush.   (* self._output.flush() of StdoutProxy._write_and_flush.write_and_flush: what was written
               to the Output object reaches the terminal only now (Vt100_Output.write appends to
               its _buffer, flush() writes the buffer to stdout) *)

Inductive pay := PWrite (s : text) | PExt.
Record sec := mksec { s_prev : option nat; s_own : nat; s_pay : pay }.

Record proxy := mkpx { buf : text; queue : list item; fth : fstate; handed : list text }.
Record env := mkenv { app : bool; running : bool; lid : nat; lclosed : bool;
                      loopq : list text;
                      ctx : bool; (* which session the rig created the proxy in; no step reads it *)
                      patched : bool; (* sys.stdout / sys.stderr are the proxy (inside `with patch_stdout():`) *)
                      isdone : bool (* Application.is_done: the application's future has a result (exit() was
                                       called); _is_running becomes False only when run_async resumes *) }.
Record chain := mkch { nextf : nat; lastf : option nat; donef : list nat;
                       waitq : list sec; active : option nat; started : list nat }.
(* cursor position requests (Renderer._waiting_for_cpr_futures, cpr_support):
   cprq = outstanding requests, cprsup = a report has been seen (SUPPORTED),
   cprwait = the head of waitq has passed its predecessor and sits in
   renderer.wait_for_cpr_responses() (rendering is NOT yet disabled),
   cpron = app.output.responds_to_cpr (configuration of the case) *)
Record cpr := mkcp { cprq : nat; cprsup : bool; cprwait : bool; cpron : bool }.
Record st := mkst { px : proxy; en : env; ch : chain; out : list ev; lost : list text; cp : cpr }.

Inductive label :=
| LW (t : Z) (d : text) | LFlush (t : Z) | LClose
| LFGet | LFNowait | LFChoose | LFDeliver
| LAppStart | LAppExit | LAppStop | LLoopClose | LLoopStep | LRender
| LExtBegin | LExtEnd | LWake (i : nat)
| LCprAnswer | LCprTimeout
(* patch_stdout(): print()/sys.stdout.write/flush from thread t (reaches the proxy only
   while sys.stdout is the proxy), and the first half of the context manager's exit
   (streams restored; the second half is LClose) *)
| LPW (t : Z) (d : text) | LPFlush (t : Z) | LRestore
(* Application.exit() has been called (the future has its result: is_done) but run_async has not
   resumed yet: _is_running is still True.  LAppExit is then the resumption (done-render,
   _is_running = False); LAppExit without a preceding LAppDone is both at once. *)
| LAppDone.

Definition init2 (c r : bool) : st :=
  mkst (mkpx [] [] FIdle []) (mkenv false false O false [] c true false)
       (mkch O None [] [] None []) [] [] (mkcp O false false r).
Definition init (c : bool) : st := init2 c false.

(* ---- writers: StdoutProxy._write / _flush under self._lock ---- *)
Definition do_write (p : proxy) (d : text) : proxy :=
  match split_last d with
  | Some (before, after) =>
      mkpx after (queue p ++ [ITxt (buf p ++ before ++ [10])]) (fth p) (handed p)
  | None => mkpx (buf p ++ d) (queue p) (fth p) (handed p)
  end.

Definition do_flush (p : proxy) : proxy :=
  mkpx [] (queue p ++ [ITxt (buf p)]) (fth p) (handed p).

Definition do_close (p : proxy) : proxy :=
  mkpx (buf p) (queue p ++ [IDone]) (fth p) (handed p).

(* ---- flush thread: StdoutProxy._write_thread ---- *)
Definition do_fget (p : proxy) : proxy :=
  match fth p, queue p with
  | FIdle, IDone :: q => mkpx (buf p) q FExit (handed p)
  | FIdle, ITxt [] :: q => mkpx (buf p) q FIdle (handed p)
  | FIdle, ITxt s :: q => mkpx (buf p) q (FCollect s false) (handed p)
  | _, _ => p
  end.

Definition do_fnowait (p : proxy) : proxy :=
  match fth p with
  | FCollect acc dn =>
      match queue p with
      | [] => mkpx (buf p) [] (FDrained acc dn) (handed p)
      | IDone :: q => mkpx (buf p) q (FCollect acc true) (handed p)
      | ITxt s :: q => mkpx (buf p) q (FCollect (acc ++ s) dn) (handed p)
      end
  | _ => p
  end.

Definition do_fchoose (p : proxy) (e : env) : proxy :=
  match fth p with
  | FDrained acc dn =>
      mkpx (buf p) (queue p) (FChosen acc dn (if app e then Some (lid e) else None)) (handed p)
  | _ => p
  end.

Definition after_batch (dn : bool) : fstate := if dn then FExit else FIdle.

(* ---- the run-in-terminal chain (in_terminal) ---- *)
Definition fdone (c : chain) (o : option nat) : bool :=
  match o with None => true | Some k => existsb (Nat.eqb k) (donef c) end.

Definition redraw (run : bool) : list ev := if run then [ERender] else [].

Definition start_sec (run : bool) (s : sec) (c : chain) (o : list ev) : chain * list ev :=
  match s_pay s with
  | PWrite t =>
      (mkch (nextf c) (lastf c) (s_own s :: donef c) (waitq c) (active c) (started c ++ [s_own s]),
       o ++ [EErase; EWrite t run true; EFlush] ++ redraw run)
  | PExt =>
      (mkch (nextf c) (lastf c) (donef c) (waitq c) (Some (s_own s)) (started c ++ [s_own s]),
       o ++ [EErase])
  end.

(* in_terminal up to the point where the section may enter: chained behind
   its predecessor; [hold] = outstanding CPR requests, the section then waits in
   wait_for_cpr_responses() and stays at the head of waitq *)
Definition cpr_pending (k : cpr) : bool := cpron k && negb (Nat.eqb (cprq k) 0).
(* Application._request_absolute_cursor_position -> Renderer.request_absolute_cursor_position
   (the NOT_SUPPORTED timer of 2 s is outside the model) *)
(* [run] is the condition of Application._request_absolute_cursor_position:
   `not self.key_processor.input_queue and not self.is_done` - callers pass negb (isdone e); the
   input queue is empty at the modelled call sites (no keys are typed; a CPR report's key has
   been popped before its handler runs) *)
Definition request (run : bool) (k : cpr) : cpr :=
  if cpron k && run && (cprsup k || Nat.eqb (cprq k) 0)
  then mkcp (S (cprq k)) (cprsup k) (cprwait k) (cpron k) else k.
Definition set_wait (k : cpr) (w : bool) : cpr := mkcp (cprq k) (cprsup k) w (cpron k).
(* the redraw bracket at the end of a write section asks for the cursor position again *)
Definition after_start (run : bool) (x : sec) (k : cpr) : cpr :=
  match s_pay x with PWrite _ => request run k | PExt => k end.

Definition submit (run hold : bool) (p : pay) (c : chain) (o : list ev) : chain * list ev :=
  let s := mksec (lastf c) (nextf c) p in
  let c1 := mkch (S (nextf c)) (Some (nextf c)) (donef c) (waitq c) (active c) (started c) in
  if fdone c (lastf c) && negb hold then start_sec run s c1 o
  else (mkch (nextf c1) (lastf c1) (donef c1) (waitq c1 ++ [s]) (active c1) (started c1), o).

Fixpoint remove_nth {T} (i : nat) (l : list T) : list T :=
  match i, l with
  | _, [] => []
  | O, _ :: r => r
  | S j, x :: r => x :: remove_nth j r
  end.

Definition submit_cpr (run : bool) (p : pay) (c : chain) (k : cpr) : cpr :=
  if fdone c (lastf c)
  then if cpr_pending k then set_wait k true
       else after_start run (mksec (lastf c) (nextf c) p) k
  else k.

(* the section at the head of waitq leaves wait_for_cpr_responses() *)
Definition resume (run rq : bool) (c : chain) (k : cpr) (o : list ev) : chain * cpr * list ev :=
  match waitq c with
  | x :: w =>
      let c0 := mkch (nextf c) (lastf c) (donef c) w (active c) (started c) in
      let (c', o') := start_sec run x c0 o in
      (c', after_start rq x (set_wait k false), o')
  | [] => (c, set_wait k false, o)
  end.

(* Application.invalidate() -> _redraw(): renders only while running and no section is open *)
Definition inval_render (run : bool) (c : chain) : list ev :=
  if run && match active c with None => true | Some _ => false end then [ERender] else [].

Definition set_fth (p : proxy) (f : fstate) (h : list text) : proxy := mkpx (buf p) (queue p) f h.
Definition set_loopq (e : env) (q : list text) : env :=
  mkenv (app e) (running e) (lid e) (lclosed e) q (ctx e) (patched e) (isdone e).

(* ---- AppSession / contextvars: which application a callback sees ----
   Session 0 is the default AppSession: what get_app_session() returns in a context that never
   entered create_app_session() - e.g. the flush thread's own, empty, context.  The rig's
   create_app_session() is session 1.  The proxy remembers its creator's session
   (self.app_session, self._context); the application under consideration runs in that session
   (_get_app_loop reads self.app_session.app, not a context variable). *)
Definition sess_of (c : bool) : nat := if c then O else S O.
Definition proxy_session (e : env) : nat := sess_of (ctx e).
(* application.current.get_app_or_none() evaluated in a context whose current session is
   [sess]: the .app of THAT session (is there one?) *)
Definition get_app_or_none (sess : nat) (e : env) : bool := app e && Nat.eqb sess (proxy_session e).
(* the session of the context in which a callback handed to loop.call_soon_threadsafe runs:
   with context=self._context.copy() (HEAD, fix acce0d8) the proxy creator's; without it asyncio
   copies the context of the calling thread - the flush thread - i.e. the default session *)
Definition cb_session (with_context : bool) (e : env) : nat :=
  if with_context then proxy_session e else O.

(* the loop runs its oldest pending callback: write_and_flush_in_loop -> run_in_terminal ->
   in_terminal: written directly (in_terminal's "yield; return" path, then write_and_flush's
   own flush) only when get_app_or_none() finds no application, or it is no longer running AND
   no earlier section is in progress or waiting; else chained *)
Definition loop_step (with_context : bool) (s : st) : st :=
  let p := px s in let e := en s in let c := ch s in let k := cp s in
  if lclosed e then s else
  match loopq e with
  | [] => s
  | t :: q =>
      if get_app_or_none (cb_session with_context e) e && (running e || negb (fdone c (lastf c)))
      then let (c', o') := submit (running e) (cpr_pending k) (PWrite t) c (out s) in
           mkst p (set_loopq e q) c' o' (lost s) (submit_cpr (negb (isdone e)) (PWrite t) c k)
      else mkst p (set_loopq e q) c
                (out s ++ [EWrite t (running e) (match active c with Some _ => true | None => false end); EFlush])
                (lost s) k
  end.

Definition step (s : st) (l : label) : st :=
  let p := px s in let e := en s in let c := ch s in let k := cp s in
  match l with
  | LW _ d => mkst (do_write p d) e c (out s) (lost s) k
  | LFlush _ => mkst (do_flush p) e c (out s) (lost s) k
  | LClose => mkst (do_close p) e c (out s) (lost s) k
  | LFGet => mkst (do_fget p) e c (out s) (lost s) k
  | LFNowait => mkst (do_fnowait p) e c (out s) (lost s) k
  | LFChoose => mkst (do_fchoose p e) e c (out s) (lost s) k
  | LFDeliver =>
      match fth p with
      | FChosen acc dn None =>
          (* no loop: write_and_flush() in the flush thread itself *)
          mkst (set_fth p (after_batch dn) (handed p ++ [acc])) e c
               (out s ++ [EWrite acc (running e) (match active c with Some _ => true | None => false end); EFlush])
               (lost s) k
      | FChosen acc dn (Some lk) =>
          if Nat.eqb lk (lid e) && negb (lclosed e)
          then mkst (set_fth p (after_batch dn) (handed p ++ [acc])) (set_loopq e (loopq e ++ [acc])) c
                    (out s) (lost s) k
          else (* loop.call_soon_threadsafe on a closed loop raises RuntimeError, which is
                  caught: "there is no prompt anymore, write directly" *)
               mkst (set_fth p (after_batch dn) (handed p ++ [acc])) e c
                    (out s ++ [EWrite acc (running e) (match active c with Some _ => true | None => false end); EFlush])
                    (lost s) k
      | _ => s
      end
  | LAppStart =>
      if negb (app e) && negb (running e)
      then mkst p (mkenv true true (if lclosed e then S (lid e) else lid e) false (loopq e) (ctx e) (patched e) false) c
                (out s ++ [ERender]) (lost s) (request true k)
      else s
  | LAppExit =>
      if app e && running e
      then mkst p (mkenv true false (lid e) (lclosed e) (loopq e) (ctx e) (patched e) true) c
                (out s ++ match active c with None => [ERender] | Some _ => [] end) (lost s) k
      else s
  | LAppStop =>
      if app e && negb (running e) && fdone c (lastf c) && Nat.eqb (cprq k) 0
      then mkst p (mkenv false false (lid e) (lclosed e) (loopq e) (ctx e) (patched e) false (* create_future's exit: self.future = None *)) c (out s) (lost s) k
      else s
  | LLoopClose =>
      if negb (app e) && negb (lclosed e)
      then mkst p (mkenv false (running e) (lid e) true [] (ctx e) (patched e) (isdone e)) c (out s) (lost s ++ loopq e) k
      else s
  | LLoopStep => loop_step true s
  | LRender =>
      if app e && running e && match active c with None => true | Some _ => false end
      then mkst p e c (out s ++ [ERender]) (lost s) k else s
  | LExtBegin =>
      if app e && running e
      then let (c', o') := submit (running e) (cpr_pending k) PExt c (out s) in
           mkst p e c' o' (lost s) (submit_cpr (negb (isdone e)) PExt c k)
      else s
  | LExtEnd =>
      match active c with
      | Some own =>
          mkst p e (mkch (nextf c) (lastf c) (own :: donef c) (waitq c) None (started c))
               (out s ++ redraw (running e)) (lost s) (request (negb (isdone e)) k)
      | None => s
      end
  | LWake i =>
      match nth_error (waitq c) i with
      | Some x =>
          if fdone c (s_prev x) && negb (cprwait k)
          then if cpr_pending k
               then (* predecessor done, now waiting for the cursor position reports *)
                    mkst p e c (out s) (lost s) (set_wait k true)
               else let c0 := mkch (nextf c) (lastf c) (donef c) (remove_nth i (waitq c)) (active c) (started c) in
                    let (c', o') := start_sec (running e) x c0 (out s) in
                    mkst p e c' o' (lost s) (after_start (negb (isdone e)) x k)
          else s
      | None => s
      end
  | LPW _ d => if patched e then mkst (do_write p d) e c (out s) (lost s) k else s
  | LPFlush _ => if patched e then mkst (do_flush p) e c (out s) (lost s) k else s
  | LRestore => mkst p (mkenv (app e) (running e) (lid e) (lclosed e) (loopq e) (ctx e) false (isdone e)) c (out s) (lost s) k
  | LAppDone =>
      if app e && running e && negb (isdone e)
      then mkst p (mkenv (app e) (running e) (lid e) (lclosed e) (loopq e) (ctx e) (patched e) true) c (out s) (lost s) k
      else s
  | LCprAnswer =>
      (* the terminal's report is read from the (attached) input: the oldest future is
         resolved; the key binding's call invalidates the application, so a render
         follows (after the resumed section, if any) unless a section is then open *)
      if app e && cpron k && negb (Nat.eqb (cprq k) 0) && match active c with None => true | Some _ => false end
      then let k1 := mkcp (Nat.pred (cprq k)) true (cprwait k) (cpron k) in
           if cprwait k && Nat.eqb (cprq k1) 0
           then let '(c', k', o') := resume (running e) (negb (isdone e)) c k1 (out s) in
                mkst p e c' (o' ++ inval_render (running e) c') (lost s) k'
           else mkst p e c (out s ++ inval_render (running e) c) (lost s) k1
      else s
  | LCprTimeout =>
      (* wait_for_cpr_responses' own 1 s timeout: all outstanding futures are dropped *)
      if negb (Nat.eqb (cprq k) 0) && (cprwait k || (app e && negb (running e)))
      then let k1 := mkcp O (cprsup k) (cprwait k) (cpron k) in
           if cprwait k
           then let '(c', k', o') := resume (running e) (negb (isdone e)) c k1 (out s) in mkst p e c' o' (lost s) k'
           else mkst p e c (out s) (lost s) k1
      else s
  end.

Definition run (s : st) (ls : list label) : st := fold_left step ls s.

(* The deliver step as it was before fix aa2fd63 (no try/except around
   loop.call_soon_threadsafe): on a closed loop RuntimeError propagates and kills
   the flush thread.  Kept only to say what C20_flush_thread_never_dies excludes:
   at HEAD the single modelled place where the thread could die is a caught
   exception.  Exceptions raised by the Output object or by user callbacks are
   not modelled in either variant. *)
Definition step_pinned (s : st) (l : label) : st :=
  match l with
  | LFDeliver =>
      match fth (px s) with
      | FChosen acc dn (Some lk) =>
          if Nat.eqb lk (lid (en s)) && negb (lclosed (en s)) then step s l
          else mkst (set_fth (px s) FCrash (handed (px s) ++ [acc])) (en s) (ch s) (out s)
                    (lost s ++ [acc]) (cp s)
      | _ => step s l
      end
  | _ => step s l
  end.
Definition run_pinned (s : st) (ls : list label) : st := fold_left step_pinned ls s.

(* The loop step as it was before fix acce0d8 (call_soon_threadsafe without context=): the
   callback runs in a copy of the flush thread's context and asks the DEFAULT session for
   its application. *)
Definition step_noctx (s : st) (l : label) : st :=
  match l with LLoopStep => loop_step false s | _ => step s l end.
Definition run_noctx (s : st) (ls : list label) : st := fold_left step_noctx ls s.

Definition enabled (s : st) (l : label) : bool :=
  let p := px s in let e := en s in let c := ch s in
  match l with
  | LW _ _ | LFlush _ | LClose | LPW _ _ | LPFlush _ | LRestore => true
  | LAppDone => app e && running e && negb (isdone e)
  | LFGet => match fth p, queue p with FIdle, _ :: _ => true | _, _ => false end
  | LFNowait => match fth p with FCollect _ _ => true | _ => false end
  | LFChoose => match fth p with FDrained _ _ => true | _ => false end
  | LFDeliver => match fth p with FChosen _ _ _ => true | _ => false end
  | LAppStart => negb (app e) && negb (running e)
  | LAppExit => app e && running e
  | LAppStop => app e && negb (running e) && fdone c (lastf c) && Nat.eqb (cprq (cp s)) 0
  | LLoopClose => negb (app e) && negb (lclosed e)
  | LLoopStep => negb (lclosed e) && match loopq e with [] => false | _ => true end
  | LRender => app e && running e && match active c with None => true | Some _ => false end
  | LExtBegin => app e && running e
  | LExtEnd => match active c with Some _ => true | None => false end
  | LWake i => match nth_error (waitq c) i with Some x => fdone c (s_prev x) && negb (cprwait (cp s)) | None => false end
  | LCprAnswer => app e && cpron (cp s) && negb (Nat.eqb (cprq (cp s)) 0) && match active c with None => true | Some _ => false end
  | LCprTimeout => negb (Nat.eqb (cprq (cp s)) 0) && (cprwait (cp s) || (app e && negb (running e)))
  end.

(* every label of the list is enabled when it is taken *)
Fixpoint all_enabled (s : st) (ls : list label) : bool :=
  match ls with
  | [] => true
  | l :: r => enabled s l && all_enabled (step s l) r
  end.

(* ---- specification vocabulary ---- *)
Definition wdata (l : label) : text := match l with LW _ d => d | _ => [] end.
(* the texts of all write calls in lock-acquisition order *)
Definition stream (ls : list label) : text := concat (map wdata ls).
(* (thread, text) of every write call, in lock-acquisition order *)
Fixpoint writes (ls : list label) : list (Z * text) :=
  match ls with
  | [] => []
  | LW t d :: r => (t, d) :: writes r
  | _ :: r => writes r
  end.

Definition ev_text (e : ev) : text := match e with EWrite s _ _ => s | _ => [] end.
Definition out_text (s : st) : text := concat (map ev_text (out s)).
(* What has reached the TERMINAL: Output.write only appends to the Output object's buffer; the
   buffer goes to the terminal at the next flush - write_and_flush's own (EFlush), or the one
   at the end of Renderer.erase / Renderer.render (EErase, ERender).
   tscan: (text on the terminal, text written to the Output but not flushed yet) *)
Definition tstep (a : text * text) (e : ev) : text * text :=
  match e with
  | EWrite s _ _ => (fst a, snd a ++ s)
  | _ => (fst a ++ snd a, [])
  end.
Definition tscan (o : list ev) : text * text := fold_left tstep o ([], []).
Definition term_text (s : st) : text := fst (tscan (out s)).
(* StdoutProxy(raw=...): write_and_flush calls self._output.write_raw(text) when raw, else
   self._output.write(text); Vt100_Output.write is `self._buffer.append(data.replace("\x1b", "?"))`,
   write_raw appends the data as it is.  No step of the proxy reads `raw` otherwise, so it is a
   parameter of what the terminal receives, not part of the state. *)
Definition vt_write (raw : bool) (t : text) : text :=
  if raw then t else map (fun c => if Z.eqb c 27 then 63 else c) t.
(* the bytes the terminal has received / the bytes each write event appended to the Output buffer *)
Definition term_bytes (raw : bool) (s : st) : text := vt_write raw (term_text s).
Fixpoint ev_bytes (raw : bool) (o : list ev) : list text :=
  match o with
  | [] => []
  | EWrite t _ _ :: r => vt_write raw t :: ev_bytes raw r
  | _ :: r => ev_bytes raw r
  end.
Definition pending_text (s : st) : text := snd (tscan (out s)).
Definition pay_text (p : pay) : text := match p with PWrite s => s | PExt => [] end.
Definition wait_text (c : chain) : text := concat (map (fun x => pay_text (s_pay x)) (waitq c)).
Definition item_text (i : item) : text := match i with ITxt s => s | IDone => [] end.
Definition queue_text (p : proxy) : text := concat (map item_text (queue p)).
Definition f_text (f : fstate) : text :=
  match f with FCollect a _ | FDrained a _ | FChosen a _ _ => a | _ => [] end.
(* what the writers handed in and the flush thread has not handed on *)
Definition proxy_text (p : proxy) : text := f_text (fth p) ++ queue_text p ++ buf p.
(* everything on its way, in pipeline order *)
Definition pipeline (s : st) : text :=
  out_text s ++ wait_text (ch s) ++ concat (loopq (en s)) ++ proxy_text (px s).
(* nothing is on its way any more *)
Definition drained (s : st) : Prop :=
  wait_text (ch s) = [] /\ concat (loopq (en s)) = [] /\ proxy_text (px s) = [].

(* bracket discipline of the terminal trace: every write happens after an
   erase with no render in between *)
Definition brk_step (m : option bool) (e : ev) : option bool :=
  match m with
  | None => None
  | Some erased =>
      match e with
      | EErase => Some true
      | ERender => Some false
      | EWrite _ run _ => if erased || negb run then Some erased else None
      | EFlush => Some erased
      end
  end.
Definition brk_run (l : list ev) : option bool := fold_left brk_step l (Some false).

Definition ev_ok (e : ev) : bool :=
  match e with EWrite _ run interm => negb run || interm | _ => true end.

(* labels that act on the proxy object directly; print()/sys.stdout.flush() through
   the patched stream (LPW/LPFlush) are, by [desugar], either such a label or nothing *)
Definition raw_label (l : label) : bool :=
  match l with LPW _ _ | LPFlush _ => false | _ => true end.
Fixpoint desugar (p : bool) (ls : list label) : list label :=
  match ls with
  | [] => []
  | LPW t d :: r => if p then LW t d :: desugar p r else desugar p r
  | LPFlush t :: r => if p then LFlush t :: desugar p r else desugar p r
  | LRestore :: r => LRestore :: desugar false r
  | l :: r => l :: desugar p r
  end.

Definition no_lifecycle (l : label) : bool :=
  match l with LAppStart | LAppExit | LAppDone | LAppStop | LLoopClose | LPW _ _ | LPFlush _ => false | _ => true end.
(* the application, once started, is not stopped or restarted (it may exit) *)
Definition app_alive (l : label) : bool :=
  match l with LAppStart | LAppStop | LLoopClose | LPW _ _ | LPFlush _ => false | _ => true end.

(* Loop validity, the hypothesis under which the property is claimed ACROSS application
   start / stop / loop close: every result of _get_app_loop() is still right when
   _write_and_flush uses it, and the application stops with no callback pending.  Said at the
   life-cycle label: an application does not start between a `_get_app_loop() -> None` and the
   `_write_and_flush(None, text)` that uses it; run_async does not return between a
   `_get_app_loop() -> loop` and its `_write_and_flush(loop, text)`, nor while a callback handed
   to the loop has not run yet.  (Exactly what the start/stop race witnesses w_start / w_stop
   violate.)  Lists are desugared (no LPW/LPFlush), as for no_lifecycle / app_alive. *)
Definition safe (s : st) (l : label) : bool :=
  match l with
  | LAppStart =>
      negb (enabled s LAppStart) || match fth (px s) with FChosen _ _ None => false | _ => true end
  | LAppStop =>
      negb (enabled s LAppStop) ||
      (match fth (px s) with FChosen _ _ (Some _) => false | _ => true end &&
       match loopq (en s) with [] => true | _ :: _ => false end)
  | LPW _ _ | LPFlush _ => false
  | _ => true
  end.
Fixpoint valid (s : st) (ls : list label) : bool :=
  match ls with
  | [] => true
  | l :: r => safe s l && valid (step s l) r
  end.

(* ---- wire format ---- *)
Definition sx_nat (n : nat) : sx := A (Z.of_nat n).
Definition sx_onat (o : option nat) : sx := sx_opt sx_nat o.
Definition sx_item (i : item) : sx := match i with ITxt s => sx_str s | IDone => L [A (-1)] end.
Definition sx_fst (f : fstate) : sx :=
  match f with
  | FIdle => L [A 0]
  | FCollect a d => L [A 1; sx_str a; sx_bool d]
  | FDrained a d => L [A 2; sx_str a; sx_bool d]
  | FChosen a d p => L [A 3; sx_str a; sx_bool d; sx_bool (match p with Some _ => true | None => false end)]
  | FExit => L [A 4]
  | FCrash => L [A 5]
  end.
Definition sx_ev (e : ev) : sx :=
  match e with
  | EErase => L [A 0]
  | ERender => L [A 1]
  | EWrite s r i => L [A 2; sx_str s; sx_bool r; sx_bool i]
  | EFlush => L [A 3]
  end.

Definition obs (s : st) : sx :=
  L [ sx_fst (fth (px s)); sx_str (buf (px s)); sx_list sx_item (queue (px s));
      sx_list sx_str (loopq (en s)); sx_bool (app (en s)); sx_bool (running (en s));
      sx_bool (negb (fdone (ch s) (lastf (ch s)))); sx_bool (match active (ch s) with Some _ => true | None => false end);
      sx_nat (length (out s)); sx_nat (cprq (cp s)); sx_bool (cprwait (cp s)); sx_bool (isdone (en s)) ].

(* The lock as a resource: the only labels that touch the shared _buffer are
   LW / LFlush = the body of write()/flush() executed while holding _lock, so
   the number of _buffer accesses made by a thread that does not hold the lock
   is 0 in every run of the model.  The rig counts them on the real object; a
   write/flush path that bypasses the lock is a step the model does not have
   and shows up as a correspondence difference. *)
Definition unlocked_accesses (s : st) : nat := O.

Definition final_obs (raw : bool) (s : st) : sx :=
  L [ sx_list sx_ev (out s); sx_list sx_str (lost s); sx_list sx_str (handed (px s));
      sx_nat (unlocked_accesses s); sx_list sx_str (ev_bytes raw (out s)); sx_str (term_bytes raw s) ].

Definition nat_of_sx (x : sx) : option nat :=
  match x with A z => if Z.ltb z 0 then None else Some (Z.to_nat z) | _ => None end.

Definition label_of_sx (x : sx) : option label :=
  match x with
  | L [A 1; A t; d] => match as_str d with Some d' => Some (LW t d') | None => None end
  | L [A 2; A t] => Some (LFlush t)
  | L [A 3] => Some LClose
  | L [A 4] => Some LFGet
  | L [A 5] => Some LFNowait
  | L [A 6] => Some LFChoose
  | L [A 7] => Some LFDeliver
  | L [A 8] => Some LAppStart
  | L [A 9] => Some LAppExit
  | L [A 10] => Some LAppStop
  | L [A 11] => Some LLoopClose
  | L [A 12] => Some LLoopStep
  | L [A 13] => Some LRender
  | L [A 14] => Some LExtBegin
  | L [A 15] => Some LExtEnd
  | L [A 16; i] => match nat_of_sx i with Some n => Some (LWake n) | None => None end
  | L [A 17] => Some LCprAnswer
  | L [A 19; A t; d] => match as_str d with Some d' => Some (LPW t d') | None => None end
  | L [A 20; A t] => Some (LPFlush t)
  | L [A 21] => Some LRestore
  | L [A 22] => Some LAppDone
  | L [A 18] => Some LCprTimeout
  | _ => None
  end.

Definition step_of_sx (x : sx) : option (label * bool) :=
  match x with
  | L [l; r] => match label_of_sx l, as_bool r with
                | Some l', Some r' => Some (l', r')
                | _, _ => None
                end
  | _ => None
  end.

(* run, reporting an observation after every step flagged 1; a label that is
   not enabled is reported as [-2] and stops nothing *)
Fixpoint run_obs (s : st) (steps : list (label * bool)) (acc : list sx) : st * list sx :=
  match steps with
  | [] => (s, rev acc)
  | (l, r) :: rest =>
      let s' := step s l in
      let acc' := if enabled s l then (if r then obs s' :: acc else acc) else L [A (-2)] :: acc in
      run_obs s' rest acc'
  end.

(* case: (0 ctx steps) -> ((obs ...) final) ;  (1 ctx labels candidates) -> enabled flags *)
(* configuration of a case: bit 0 = proxy created in the default session,
   bit 1 = the output responds to cursor position requests, bit 2 = rig only *)
Definition cfg_of_sx4 (x : sx) : option (bool * bool) :=
  match x with
  | A 0 => Some (false, false) | A 1 => Some (true, false)
  | A 2 => Some (false, true) | A 3 => Some (true, true)
  (* bit 2 (the rig runs the application asyncio.run-style and schedules close the
     loop right after AppStop) changes nothing in the model *)
  | A 4 => Some (false, false) | A 5 => Some (true, false)
  | A 6 => Some (false, true) | A 7 => Some (true, true)
  | _ => None
  end.
(* bit 3 = the proxy is StdoutProxy(raw=True) *)
Definition cfg_of_sx (x : sx) : option (bool * bool * bool) :=
  match x with
  | A z => if Z.leb 8 z
           then match cfg_of_sx4 (A (z - 8)) with Some (c, r) => Some (c, r, true) | None => None end
           else match cfg_of_sx4 (A z) with Some (c, r) => Some (c, r, false) | None => None end
  | _ => None
  end.

Definition run_C20 (x : sx) : sx :=
  match x with
  | L [A 0; c; L steps] =>
      match cfg_of_sx c, map_opt step_of_sx steps with
      | Some (c', r, w), Some steps' =>
          let (s, os) := run_obs (init2 c' r) steps' [] in L [L os; final_obs w s]
      | _, _ => bad_case
      end
  | L [A 1; c; L ls; L cands] =>
      match cfg_of_sx c, map_opt label_of_sx ls, map_opt label_of_sx cands with
      | Some (c', r, _), Some ls', Some cands' =>
          let s := run (init2 c' r) ls' in
          L [sx_bool (all_enabled (init2 c' r) ls'); sx_list (fun l => sx_bool (enabled s l)) cands']
      | _, _, _ => bad_case
      end
  | _ => bad_case
  end.
