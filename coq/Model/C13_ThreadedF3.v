(* C13 - ThreadedHistory with the second PROPOSED repair of C13-F2/F2b
   (fixes/C13-postpone-store-until-snapshot.patch; not in /repo).  The slow
   read of the wrapped history is NOT under the lock:

     _in_load_thread:  strings = iter(history.load_history_strings()); first item   (snapshot, unlocked)
                       _store_postponed():  with lock: _snapshot_taken = True;
                                                       store every postponed string
                       ... push the items as before
     append_string:    with lock: insert in front; _num_prepended += 1
                                  if thread started and not _snapshot_taken:
                                      _store_later.append(string)      (stored after the snapshot)
                                  else: store_string(string)

   Phases: Q0 not started, Q2 started (cache reset done by the first load()),
   Q2b snapshot taken but postponed strings not yet stored, Q3 pushing, Q4 done.
   [s_later] = `_store_later`.  Ghost: [s_base] = the storage when the first
   load() started (it does not change until the postponed strings are stored),
   [c_start] = storage ++ postponed strings when the consumer started. *)
From Coq Require Import ZArith List Bool.
From PTK Require Import Lib.Sx Lib.Py Model.C13_Threaded.
Import ListNotations.
Open Scope Z_scope.

Inductive phase3 := Q0 | Q2 | Q2b (pend : list str) | Q3 (pend : list str) | Q4.

Record tstate3 := mkt3 {
  s_store : list str; s_ls : list str; s_loaded : bool; s_np : nat; s_ph : phase3;
  s_cons : list consumer; s_later : list str; s_base : list str }.

Inductive label4 := LStep4 | CStart4 | CRead4 (i : nat) | Append4 (s : str).

Definition read3 (st : tstate3) (c : consumer) : consumer :=
  if c_fin c then c else
  let new := skipn ((s_np st - c_p0 c) + c_iy c) (s_ls st) in
  mkc (c_iy c + length new) (c_p0 c) (c_out c ++ new) (s_loaded st) false (c_start c).

Definition new_cons3 (st : tstate3) : consumer :=
  mkc 0 (s_np st) [] false true (s_store st ++ s_later st).

Definition in_window (p : phase3) : bool := match p with Q2 | Q2b _ => true | _ => false end.

Definition tstep4 (st : tstate3) (l : label4) : tstate3 :=
  match l with
  | LStep4 =>
      match s_ph st with
      | Q0 | Q4 => st
      | Q2 => mkt3 (s_store st) (s_ls st) (s_loaded st) (s_np st) (Q2b (rev (s_store st)))
                   (s_cons st) (s_later st) (s_base st)
      | Q2b p => mkt3 (s_store st ++ s_later st) (s_ls st) (s_loaded st) (s_np st) (Q3 p)
                      (s_cons st) [] (s_base st)
      | Q3 (x :: r) => mkt3 (s_store st) (s_ls st ++ [x]) (s_loaded st) (s_np st) (Q3 r)
                            (map set_ev (s_cons st)) (s_later st) (s_base st)
      | Q3 [] => mkt3 (s_store st) (s_ls st) true (s_np st) Q4 (map set_ev (s_cons st))
                      (s_later st) (s_base st)
      end
  | CStart4 =>
      match s_ph st with
      | Q0 => mkt3 (s_store st) [] (s_loaded st) (s_np st) Q2 (s_cons st ++ [new_cons3 st])
                   (s_later st) (s_store st)
      | p => mkt3 (s_store st) (s_ls st) (s_loaded st) (s_np st) p (s_cons st ++ [new_cons3 st])
                  (s_later st) (s_base st)
      end
  | CRead4 i =>
      mkt3 (s_store st) (s_ls st) (s_loaded st) (s_np st) (s_ph st)
           (upd_nth (s_cons st) i (read3 st)) (s_later st) (s_base st)
  | Append4 s =>
      if in_window (s_ph st)
      then mkt3 (s_store st) (s :: s_ls st) (s_loaded st) (S (s_np st)) (s_ph st) (s_cons st)
                (s_later st ++ [s]) (s_base st)
      else mkt3 (s_store st ++ [s]) (s :: s_ls st) (s_loaded st) (S (s_np st)) (s_ph st) (s_cons st)
                (s_later st) (s_base st)
  end.

Definition trun4 (st : tstate3) (sched : list label4) : tstate3 := fold_left tstep4 sched st.
Definition tinit3 (S0 : list str) : tstate3 := mkt3 S0 [] false 0 Q0 [] [] [].
