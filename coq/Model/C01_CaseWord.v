(* Model of the readline case commands uppercase-word / downcase-word /
   capitalize-word (key_binding/bindings/named_commands.py), on top of
   Model/BufferEdit.v and the word queries of Model/C02_DocQueries.v, and the
   C01 wire entry point that adds them to the operations of BufferEdit. *)
From Coq Require Import ZArith List Bool.
From PTK Require Import Lib.Sx Lib.Py Model.Document Model.BufferEdit Model.C02_DocQueries.
Import ListNotations.
Open Scope Z_scope.

(* words = text_after_cursor[:pos] with pos = find_next_word_ending() (None
   when there is no word ahead: the slice is then the whole rest) *)
Definition next_words (b : buf) : str :=
  let d := bdoc b in
  slice (text_after_cursor d) None (find_next_word_ending d false 1 false).

(* One iteration of the loop as it is in /repo now:
     buff.delete(count=len(words)); buff.insert_text(F(words)) *)
Definition case_word1 (F : str -> str) (b : buf) : res :=
  let words := next_words b in
  bind (delete b (len words)) (fun b1 _ => insert_text b1 (F words) false true).

(* ... and as it stood at the pinned commit:
     buff.insert_text(F(words), overwrite=True) *)
Definition case_word1_pinned (F : str -> str) (b : buf) : res :=
  insert_text b (F (next_words b)) true true.

(* for i in range(event.arg) *)
Fixpoint iter_res (f : buf -> res) (n : nat) (b : buf) : res :=
  match n with
  | O => Ok b []
  | S k => bind (f b) (fun b1 _ => iter_res f k b1)
  end.

Definition case_word (F : str -> str) (b : buf) (arg : Z) : res :=
  match iter_res (case_word1 F) (Z.to_nat arg) b with
  | Ok b' _ => Ok b' []
  | e => e
  end.

(* str.upper / lower / title restricted to the characters the harness uses
   for these commands: ASCII letters and U+00DF (sharp s), the one character
   of the alphabet whose upper/title image is longer than itself
   ('\xdf'.upper() = 'SS', '\xdf'.title() = 'Ss'); every other character of
   the alphabet is uncased. *)
Definition is_lower (c : Z) : bool := (97 <=? c) && (c <=? 122).
Definition is_upper (c : Z) : bool := (65 <=? c) && (c <=? 90).
Definition SHARP_S : Z := 223.
Definition up (c : Z) : Z := if is_lower c then c - 32 else c.
Definition low (c : Z) : Z := if is_upper c then c + 32 else c.
Definition up_s (c : Z) : str := if c =? SHARP_S then [83; 83] else [up c].
Definition title_s (c : Z) : str := if c =? SHARP_S then [83; 115] else [up c].
Fixpoint title_from (prev_cased : bool) (s : str) : str :=
  match s with
  | [] => []
  | c :: r =>
      let cased := is_lower c || is_upper c || (c =? SHARP_S) in
      (if prev_cased then [low c] else title_s c) ++ title_from cased r
  end.
Definition case_F (kind : Z) (s : str) : str :=
  match kind with
  | 0 => flat_map up_s s
  | 1 => map low s
  | _ => title_from false s
  end.

(* ---------------------------------------------------------------------- *)
Inductive xop :=
| XBase (o : op)
| XCase (kind arg : Z).

Definition xstep (b : buf) (x : xop) : res :=
  match x with
  | XBase o => step b o
  | XCase k a => case_word (case_F k) b a
  end.

Definition dec_xop (s : sx) : option xop :=
  match s with
  | L [A 22; A k; A a] => Some (XCase k a)
  | _ => match dec_op s with Some o => Some (XBase o) | None => None end
  end.

Fixpoint run_xops (b : buf) (ops : list xop) : list sx :=
  match ops with
  | [] => []
  | o :: r => let x := xstep b o in enc_res x :: run_xops (res_buf x) r
  end.

Definition run_C01x (c : sx) : sx :=
  match c with
  | L [t; A cur; L ops] =>
      match as_str t, map_opt dec_xop ops with
      | Some t', Some ops' =>
          if (0 <=? cur) && (cur <=? len t') then L (run_xops (mkbuf t' cur) ops')
          else bad_case
      | _, _ => bad_case
      end
  | _ => bad_case
  end.
