(* Model of the readline case commands uppercase-word / downcase-word /
   capitalize-word (key_binding/bindings/named_commands.py), on top of
   Model/BufferEdit.v and the word queries of Model/C02_DocQueries.v, and the
   C01 wire entry point that adds them to the operations of BufferEdit. *)
From Coq Require Import ZArith List Bool.
From PTK Require Import Lib.Sx Lib.Py Model.Document Model.BufferEdit Model.C02_DocQueries
  Model.C01_CaseMap Model.C01_Reshape.
Import ListNotations.
Open Scope Z_scope.

(* words = text_after_cursor[:pos] with pos = find_next_word_ending() (None
   when there is no word ahead: the slice is then the whole rest) *)
Definition next_words (b : buf) : str :=
  let d := bdoc b in
  slice (text_after_cursor d) None (find_next_word_ending d false 1 false).

(* One iteration of the loop as it is in /repo now:
     buff.delete(count=len(words)); buff.insert_text(F(words)) *)
Definition case_word1 (F : str -> str) (b : buf) : res :=
  let words := next_words b in
  bind (delete b (len words)) (fun b1 _ => insert_text b1 (F words) false true).

(* ... and as it stood at the pinned commit:
     buff.insert_text(F(words), overwrite=True) *)
Definition case_word1_pinned (F : str -> str) (b : buf) : res :=
  insert_text b (F (next_words b)) true true.

(* for i in range(event.arg) *)
Fixpoint iter_res (f : buf -> res) (n : nat) (b : buf) : res :=
  match n with
  | O => Ok b []
  | S k => bind (f b) (fun b1 _ => iter_res f k b1)
  end.

Definition case_word (F : str -> str) (b : buf) (arg : Z) : res :=
  match iter_res (case_word1 F) (Z.to_nat arg) b with
  | Ok b' _ => Ok b' []
  | e => e
  end.

(* str.upper / str.lower / str.title: CPython's algorithms over the tables
   regenerated from the CPython that runs /repo (Model/C01_CaseMap.v,
   Gen/C01_CaseMap.v): the whole code space, length-changing images
   ('\xdf'.upper() = 'SS') and the context-dependent final sigma included. *)
Definition case_F (kind : Z) (s : str) : str := case_F' kind s.

(* ---------------------------------------------------------------------- *)
Inductive xop :=
| XBase (o : op)
| XCase (kind arg : Z)
| XReshape (from_row to_row tw : Z).

Definition xstep (b : buf) (x : xop) : res :=
  match x with
  | XBase o => step b o
  | XCase k a => case_word (case_F k) b a
  | XReshape a e tw => reshape_text_w b a e tw
  end.

(* KeyPressEvent.arg (key_processor.py): the count typed before the command
   ("-" alone is -1, no count is 1); "don't exceed a million": a count of
   1000000 or more is replaced by 1.  The commands below are called through a
   real KeyPressEvent, so the count on the wire is the typed one. *)
Definition event_arg (raw : Z) : Z := if 1000000 <=? raw then 1 else raw.

Definition dec_xop (s : sx) : option xop :=
  match s with
  | L [A 22; A k; A a] => Some (XCase k (event_arg a))
  | L [A 24; A a; A e; A tw] => Some (XReshape a e tw)
  | L [A 17; A n] => Some (XBase (OBackwardDeleteChar (event_arg n)))
  | L [A 18; A n] => Some (XBase (ODeleteChar (event_arg n)))
  | L [A 19; d; A n] =>
      match as_str d with Some d' => Some (XBase (OSelfInsert d' (event_arg n))) | None => None end
  | _ => match dec_op s with Some o => Some (XBase o) | None => None end
  end.

Fixpoint run_xops (b : buf) (ops : list xop) : list sx :=
  match ops with
  | [] => []
  | o :: r => let x := xstep b o in enc_res x :: run_xops (res_buf x) r
  end.

Definition run_C01x (c : sx) : sx :=
  match c with
  | L [t; A cur; L ops] =>
      match as_str t, map_opt dec_xop ops with
      | Some t', Some ops' =>
          if (0 <=? cur) && (cur <=? len t') then L (run_xops (mkbuf t' cur) ops')
          else bad_case
      | _, _ => bad_case
      end
  | _ => bad_case
  end.
